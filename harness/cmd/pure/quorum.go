package main

import (
	"fmt"
	"math"
	"math/rand"
	"sort"
	"strings"

	"go.etcd.io/raft/v3/quorum"
)

type ackMap map[uint64]quorum.Index

func (m ackMap) AckedIndex(id uint64) (quorum.Index, bool) {
	i, ok := m[id]
	return i, ok
}

func idsStr(ids []uint64) string {
	s := make([]string, len(ids))
	for i, id := range ids {
		s[i] = fmt.Sprint(id)
	}
	return strings.Join(s, " ")
}

func sortedKeys[V any](m map[uint64]V) []uint64 {
	ks := make([]uint64, 0, len(m))
	for k := range m {
		ks = append(ks, k)
	}
	sort.Slice(ks, func(i, j int) bool { return ks[i] < ks[j] })
	return ks
}

func mkMajority(ids []uint64) quorum.MajorityConfig {
	c := quorum.MajorityConfig{}
	for _, id := range ids {
		c[id] = struct{}{}
	}
	return c
}

func acksStr(m ackMap) string {
	var sb strings.Builder
	for i, k := range sortedKeys(m) {
		if i > 0 {
			sb.WriteByte(' ')
		}
		fmt.Fprintf(&sb, "%d:%d", k, uint64(m[k]))
	}
	return sb.String()
}

func votesStr(m map[uint64]bool) string {
	var sb strings.Builder
	for i, k := range sortedKeys(m) {
		if i > 0 {
			sb.WriteByte(' ')
		}
		b := 0
		if m[k] {
			b = 1
		}
		fmt.Fprintf(&sb, "%d:%d", k, b)
	}
	return sb.String()
}

func vrStr(r quorum.VoteResult) string {
	switch r {
	case quorum.VotePending:
		return "P"
	case quorum.VoteLost:
		return "L"
	case quorum.VoteWon:
		return "W"
	}
	return "?"
}

func emitCommit(c0, c1 []uint64, acks ackMap) {
	j := quorum.JointConfig{mkMajority(c0), mkMajority(c1)}
	fmt.Fprintf(out, "JC|%s|%s|%s|%d\n", idsStr(c0), idsStr(c1), acksStr(acks), uint64(j.CommittedIndex(acks)))
	fmt.Fprintf(out, "MC|%s|%s|%d\n", idsStr(c0), acksStr(acks), uint64(mkMajority(c0).CommittedIndex(acks)))
}

func emitVote(c0, c1 []uint64, votes map[uint64]bool) {
	j := quorum.JointConfig{mkMajority(c0), mkMajority(c1)}
	fmt.Fprintf(out, "JV|%s|%s|%s|%s\n", idsStr(c0), idsStr(c1), votesStr(votes), vrStr(j.VoteResult(votes)))
	fmt.Fprintf(out, "MV|%s|%s|%s\n", idsStr(c0), votesStr(votes), vrStr(mkMajority(c0).VoteResult(votes)))
}

func subset(univ []uint64, mask int) []uint64 {
	var s []uint64
	for i, id := range univ {
		if mask&(1<<i) != 0 {
			s = append(s, id)
		}
	}
	return s
}

func contains(l []uint64, x uint64) bool {
	for _, y := range l {
		if x == y {
			return true
		}
	}
	return false
}

func union(a, b []uint64) []uint64 {
	m := map[uint64]struct{}{}
	for _, x := range a {
		m[x] = struct{}{}
	}
	for _, x := range b {
		m[x] = struct{}{}
	}
	return sortedKeys(m)
}

// quorumStream: exhaustive over all pairs of subsets of a small id universe with every
// assignment of {missing, 0..3} acknowledgements / {missing, yes, no} votes to the union
// (plus one id outside both sets, which must be ignored), then random larger sets that
// cross the 7-slot on-stack fast path, with indexes up to 2^64-1.
func quorumStream(rng *rand.Rand, thorough bool) {
	univ := []uint64{1, 2, 3, 4}
	if thorough {
		univ = []uint64{1, 2, 3, 4, 5}
	}
	n := len(univ)
	for m0 := 0; m0 < 1<<n; m0++ {
		for m1 := 0; m1 < 1<<n; m1++ {
			c0, c1 := subset(univ, m0), subset(univ, m1)
			u := union(c0, c1)
			// acknowledgement vectors over {missing,0,1,2,3}
			tot := 1
			for range u {
				tot *= 5
			}
			for v := 0; v < tot; v++ {
				acks := ackMap{}
				x := v
				for _, id := range u {
					d := x % 5
					x /= 5
					if d > 0 {
						acks[id] = quorum.Index(d - 1)
					}
				}
				if v%7 == 3 {
					acks[99] = 7 // a stranger's acknowledgement is ignored
				}
				emitCommit(c0, c1, acks)
			}
			tot = 1
			for range u {
				tot *= 3
			}
			for v := 0; v < tot; v++ {
				votes := map[uint64]bool{}
				x := v
				for _, id := range u {
					d := x % 3
					x /= 3
					if d > 0 {
						votes[id] = d == 1
					}
				}
				emitVote(c0, c1, votes)
				// a stranger's vote (an id in neither set, e.g. a learner's response) is ignored
				for _, sv := range []bool{true, false} {
					w := map[uint64]bool{99: sv}
					for k, b := range votes {
						w[k] = b
					}
					emitVote(c0, c1, w)
					if len(u) < n { // ... also one with a small id that is in neither set
						for _, id := range univ {
							if _, in := w[id]; !in && !contains(u, id) {
								w2 := map[uint64]bool{id: sv}
								for k, b := range votes {
									w2[k] = b
								}
								emitVote(c0, c1, w2)
								break
							}
						}
					}
				}
			}
		}
	}
	// random: sizes 0..12, ids sparse, indexes over the full uint64 range
	rounds := 4000
	if thorough {
		rounds = 100000
	}
	for r := 0; r < rounds; r++ {
		pick := func() []uint64 {
			k := rng.Intn(13)
			m := map[uint64]struct{}{}
			for len(m) < k {
				m[uint64(1+rng.Intn(16))] = struct{}{}
			}
			return sortedKeys(m)
		}
		c0, c1 := pick(), pick()
		if rng.Intn(4) == 0 {
			c1 = nil
		}
		acks := ackMap{}
		votes := map[uint64]bool{}
		for _, id := range union(c0, c1) {
			switch rng.Intn(6) {
			case 0:
			case 1:
				acks[id] = quorum.Index(math.MaxUint64 - uint64(rng.Intn(3)))
			case 2:
				acks[id] = quorum.Index(rng.Uint64())
			default:
				acks[id] = quorum.Index(rng.Intn(8))
			}
			switch rng.Intn(4) {
			case 0:
			case 1:
				votes[id] = false
			default:
				votes[id] = true
			}
		}
		if rng.Intn(3) == 0 {
			votes[uint64(17+rng.Intn(4))] = rng.Intn(2) == 0
			acks[uint64(17+rng.Intn(4))] = quorum.Index(rng.Intn(8))
		}
		emitCommit(c0, c1, acks)
		emitVote(c0, c1, votes)
	}
}

func parseIDs(s string) []uint64 {
	var r []uint64
	for _, w := range strings.Fields(s) {
		var x uint64
		fmt.Sscan(w, &x)
		r = append(r, x)
	}
	return r
}

func parsePairs(s string) [][2]uint64 {
	var r [][2]uint64
	for _, w := range strings.Fields(s) {
		var a, b uint64
		kv := strings.SplitN(w, ":", 2)
		fmt.Sscan(kv[0], &a)
		fmt.Sscan(kv[1], &b)
		r = append(r, [2]uint64{a, b})
	}
	return r
}

func replayQuorum(f []string) {
	switch f[0] {
	case "MC", "JC":
		var c0, c1 []uint64
		c0 = parseIDs(f[1])
		k := 2
		if f[0] == "JC" {
			c1 = parseIDs(f[2])
			k = 3
		}
		acks := ackMap{}
		for _, p := range parsePairs(f[k]) {
			acks[p[0]] = quorum.Index(p[1])
		}
		if f[0] == "JC" {
			j := quorum.JointConfig{mkMajority(c0), mkMajority(c1)}
			fmt.Fprintf(out, "JC|%s|%s|%s|%d\n", idsStr(c0), idsStr(c1), acksStr(acks), uint64(j.CommittedIndex(acks)))
		} else {
			fmt.Fprintf(out, "MC|%s|%s|%d\n", idsStr(c0), acksStr(acks), uint64(mkMajority(c0).CommittedIndex(acks)))
		}
	case "MV", "JV":
		var c0, c1 []uint64
		c0 = parseIDs(f[1])
		k := 2
		if f[0] == "JV" {
			c1 = parseIDs(f[2])
			k = 3
		}
		votes := map[uint64]bool{}
		for _, p := range parsePairs(f[k]) {
			votes[p[0]] = p[1] == 1
		}
		if f[0] == "JV" {
			j := quorum.JointConfig{mkMajority(c0), mkMajority(c1)}
			fmt.Fprintf(out, "JV|%s|%s|%s|%s\n", idsStr(c0), idsStr(c1), votesStr(votes), vrStr(j.VoteResult(votes)))
		} else {
			fmt.Fprintf(out, "MV|%s|%s|%s\n", idsStr(c0), votesStr(votes), vrStr(mkMajority(c0).VoteResult(votes)))
		}
	}
}
