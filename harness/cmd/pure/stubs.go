package main

import "math/rand"

func inflightsStream(rng *rand.Rand, thorough bool)  {}
func confchangeStream(rng *rand.Rand, thorough bool) {}
func storageStream(rng *rand.Rand, thorough bool)    {}
func logStream(rng *rand.Rand, thorough bool)        {}
func utilStream(rng *rand.Rand, thorough bool)       {}
