package main

import (
	"fmt"
	"math"
	"math/rand"
	"strings"

	"google.golang.org/protobuf/proto"

	raft "go.etcd.io/raft/v3"
	"go.etcd.io/raft/v3/confchange"
	pb "go.etcd.io/raft/v3/raftpb"
	"go.etcd.io/raft/v3/tracker"

	"verifharness/enc"
)

// ---------- confchange (C13, C10): sequences of Simple / EnterJoint / LeaveJoint / Restore ----------

func setStr(m map[uint64]struct{}) string { return enc.IDs(sortedKeys(m)) }

func cfgStr(c tracker.Config) string {
	return fmt.Sprintf("%s;%s;%s;%s;%d", setStr(c.Voters[0]), setStr(c.Learners), setStr(c.Voters[1]), setStr(c.LearnersNext), enc.B(c.AutoLeave))
}

func prsStr(p tracker.ProgressMap) string {
	var w []string
	for _, id := range sortedKeys(p) {
		pr := p[id]
		w = append(w, fmt.Sprintf("%d:%d:%d:%d:%d", id, enc.B(pr.IsLearner), pr.Match, pr.Next, enc.B(pr.RecentActive)))
	}
	if len(w) == 0 {
		return "_"
	}
	return strings.Join(w, ",")
}

type ccOp struct {
	kind    byte // S E L R
	li      uint64
	auto    bool
	changes [][2]uint64 // (type, id)
	cs      *pb.ConfState
}

func (o ccOp) String() string {
	ch := "_"
	if len(o.changes) > 0 {
		var w []string
		for _, c := range o.changes {
			w = append(w, fmt.Sprintf("%d.%d", c[0], c[1]))
		}
		ch = strings.Join(w, ",")
	}
	switch o.kind {
	case 'S':
		return fmt.Sprintf("S%d:%s", o.li, ch)
	case 'E':
		return fmt.Sprintf("E%d:%d:%s", o.li, enc.B(o.auto), ch)
	case 'L':
		return "L"
	}
	return fmt.Sprintf("R%d:%s", o.li, enc.ConfState(o.cs))
}

func parseCCOp(s string) ccOp {
	o := ccOp{kind: s[0]}
	if o.kind == 'L' {
		return o
	}
	f := strings.SplitN(s[1:], ":", 3)
	fmt.Sscan(f[0], &o.li)
	chs := ""
	switch o.kind {
	case 'S':
		chs = f[1]
	case 'E':
		o.auto = f[1] == "1"
		chs = f[2]
	case 'R':
		p := strings.Split(strings.Join(f[1:], ":"), ";")
		ids := func(s string) []uint64 {
			var r []uint64
			for _, w := range strings.Split(s, ".") {
				if w != "" {
					var x uint64
					fmt.Sscan(w, &x)
					r = append(r, x)
				}
			}
			return r
		}
		o.cs = &pb.ConfState{Voters: ids(p[0]), Learners: ids(p[1]), VotersOutgoing: ids(p[2]), LearnersNext: ids(p[3]), AutoLeave: new(p[4] == "1")}
		return o
	}
	if chs != "_" && chs != "" {
		for _, w := range strings.Split(chs, ",") {
			var t, id uint64
			fmt.Sscanf(w, "%d.%d", &t, &id)
			o.changes = append(o.changes, [2]uint64{t, id})
		}
	}
	return o
}

// ccViolation evaluates C13 on an accepted result (the implementation's own output).
func ccViolation(kind byte, before tracker.Config, cfg tracker.Config, prs tracker.ProgressMap) string {
	in, outg := cfg.Voters[0], cfg.Voters[1]
	for id := range cfg.Learners {
		if _, ok := in[id]; ok {
			return fmt.Sprintf("%d_is_voter_and_learner", id)
		}
		if _, ok := outg[id]; ok {
			return fmt.Sprintf("%d_is_outgoing_voter_and_learner", id)
		}
	}
	for id := range cfg.LearnersNext {
		if _, ok := outg[id]; !ok {
			return fmt.Sprintf("staged_learner_%d_is_not_an_outgoing_voter", id)
		}
		if _, ok := cfg.Learners[id]; ok {
			return fmt.Sprintf("staged_learner_%d_is_a_learner", id)
		}
	}
	members := map[uint64]struct{}{}
	for _, m := range []map[uint64]struct{}{in, outg, cfg.Learners, cfg.LearnersNext} {
		for id := range m {
			members[id] = struct{}{}
			if _, ok := prs[id]; !ok {
				return fmt.Sprintf("member_%d_has_no_progress", id)
			}
		}
	}
	for id, pr := range prs {
		if _, ok := members[id]; !ok {
			return fmt.Sprintf("non_member_%d_has_progress", id)
		}
		_, l := cfg.Learners[id]
		_, ln := cfg.LearnersNext[id]
		_ = ln
		if pr.IsLearner != l {
			return fmt.Sprintf("progress_of_%d_has_IsLearner_%v", id, pr.IsLearner)
		}
	}
	if len(in) == 0 {
		return "no_incoming_voter_remains"
	}
	if len(outg) == 0 && (len(cfg.LearnersNext) > 0 || cfg.AutoLeave) {
		return "non_joint_configuration_with_staging_or_auto_leave"
	}
	if kind == 'S' {
		d := 0
		for id := range in {
			if _, ok := before.Voters[0][id]; !ok {
				d++
			}
		}
		for id := range before.Voters[0] {
			if _, ok := in[id]; !ok {
				d++
			}
		}
		if d > 1 {
			return fmt.Sprintf("simple_change_altered_%d_voters", d)
		}
	}
	// round trip through ConfState
	t1 := tracker.MakeProgressTracker(4, 0)
	t1.Config, t1.Progress = cfg, prs
	cs := t1.ConfState()
	t2 := tracker.MakeProgressTracker(4, 0)
	c2, p2, err := confchange.Restore(confchange.Changer{Tracker: t2, LastIndex: 1}, cs)
	if err != nil {
		return "restore_of_own_confstate_fails"
	}
	if cfgStr(c2) != cfgStr(cfg) {
		return "restore_gives_" + strings.ReplaceAll(cfgStr(c2), " ", "_")
	}
	for id, pr := range prs {
		q, ok := p2[id]
		if !ok || q.IsLearner != pr.IsLearner {
			return fmt.Sprintf("restore_progress_of_%d_differs", id)
		}
	}
	if len(p2) != len(prs) {
		return "restore_progress_size_differs"
	}
	return ""
}

var ccMonitor func(what string)

func runCC(ops []ccOp) string {
	trk := tracker.MakeProgressTracker(4, 0)
	var res []string
	for _, o := range ops {
		before := trk.Config.Clone()
		beforeS, beforeP := cfgStr(trk.Config), prsStr(trk.Progress)
		var ccs []*pb.ConfChangeSingle
		for _, c := range o.changes {
			ccs = append(ccs, &pb.ConfChangeSingle{Type: pb.ConfChangeType(c[0]).Enum(), NodeId: new(c[1])})
		}
		var cfg tracker.Config
		var prs tracker.ProgressMap
		var err error
		func() {
			defer func() {
				if r := recover(); r != nil {
					err = fmt.Errorf("panic: %v", r)
				}
			}()
			chg := confchange.Changer{Tracker: trk, LastIndex: o.li}
			switch o.kind {
			case 'S':
				cfg, prs, err = chg.Simple(ccs...)
			case 'E':
				cfg, prs, err = chg.EnterJoint(o.auto, ccs...)
			case 'L':
				cfg, prs, err = chg.LeaveJoint()
			case 'R':
				trk = tracker.MakeProgressTracker(4, 0)
				chg = confchange.Changer{Tracker: trk, LastIndex: o.li}
				cfg, prs, err = confchange.Restore(chg, o.cs)
			}
		}()
		if o.kind != 'R' && (cfgStr(trk.Config) != beforeS || prsStr(trk.Progress) != beforeP) && ccMonitor != nil {
			ccMonitor("the_input_configuration_was_modified_in_place")
		}
		if err != nil {
			res = append(res, "ERR")
			continue
		}
		if v := ccViolation(o.kind, before, cfg, prs); v != "" && ccMonitor != nil && o.kind != 'R' {
			ccMonitor(fmt.Sprintf("op_%s:%s", o.String(), v))
		}
		trk.Config, trk.Progress = cfg, prs
		res = append(res, cfgStr(cfg)+"/"+prsStr(prs))
	}
	return strings.Join(res, "+")
}

func emitCC(ops []ccOp) {
	var w []string
	for _, o := range ops {
		w = append(w, o.String())
	}
	var viol []string
	ccMonitor = func(what string) { viol = append(viol, what) }
	line := fmt.Sprintf("CC|%s|%s", strings.Join(w, "+"), runCC(ops))
	ccMonitor = nil
	fmt.Fprintln(out, line)
	for _, v := range viol {
		fmt.Fprintf(out, "MONITOR property=C13 what=%s case=%s\n", v, line)
	}
}

func randChanges(rng *rand.Rand, maxN int, ids int) [][2]uint64 {
	n := rng.Intn(maxN + 1)
	var r [][2]uint64
	for i := 0; i < n; i++ {
		t := uint64(rng.Intn(4))
		if rng.Intn(40) == 0 {
			t = 7 // unknown type
		}
		id := uint64(1 + rng.Intn(ids))
		if rng.Intn(25) == 0 {
			id = 0 // node id zero is skipped
		}
		r = append(r, [2]uint64{t, id})
	}
	return r
}

func confchangeStream(rng *rand.Rand, thorough bool) {
	ccdecodeCases(rng, thorough)
	// exhaustive: from every start built by adding voters 1..k (k = 1..3) and an optional
	// learner, every list of up to two changes over ids 1..4 as Simple and as EnterJoint
	// (both auto-leave settings), followed by LeaveJoint
	for k := 1; k <= 3; k++ {
		for learner := 0; learner < 2; learner++ {
			var prefix []ccOp
			for id := 1; id <= k; id++ {
				prefix = append(prefix, ccOp{kind: 'S', li: 5, changes: [][2]uint64{{0, uint64(id)}}})
			}
			if learner == 1 {
				prefix = append(prefix, ccOp{kind: 'S', li: 6, changes: [][2]uint64{{3, uint64(k + 1)}}})
			}
			var lists [][][2]uint64
			lists = append(lists, nil)
			for t1 := uint64(0); t1 < 4; t1++ {
				for id1 := uint64(1); id1 <= 4; id1++ {
					lists = append(lists, [][2]uint64{{t1, id1}})
					for t2 := uint64(0); t2 < 4; t2++ {
						for id2 := uint64(1); id2 <= 4; id2++ {
							lists = append(lists, [][2]uint64{{t1, id1}, {t2, id2}})
						}
					}
				}
			}
			for _, l := range lists {
				emitCC(append(append([]ccOp{}, prefix...), ccOp{kind: 'S', li: 9, changes: l}, ccOp{kind: 'L'}))
				for _, auto := range []bool{false, true} {
					emitCC(append(append([]ccOp{}, prefix...), ccOp{kind: 'E', li: 9, auto: auto, changes: l}, ccOp{kind: 'S', li: 10, changes: l}, ccOp{kind: 'L'}, ccOp{kind: 'L'}))
				}
			}
		}
	}
	// random longer sequences, including Restore from random (possibly odd) ConfStates
	rounds := 3000
	if thorough {
		rounds = 60000
	}
	for r := 0; r < rounds; r++ {
		var ops []ccOp
		n := 2 + rng.Intn(8)
		for i := 0; i < n; i++ {
			li := uint64(rng.Intn(50))
			switch x := rng.Intn(10); {
			case x < 4:
				ops = append(ops, ccOp{kind: 'S', li: li, changes: randChanges(rng, 2, 5)})
			case x < 7:
				ops = append(ops, ccOp{kind: 'E', li: li, auto: rng.Intn(2) == 0, changes: randChanges(rng, 4, 5)})
			case x < 9:
				ops = append(ops, ccOp{kind: 'L'})
			default:
				pick := func(p int) []uint64 {
					var l []uint64
					for id := uint64(1); id <= 5; id++ {
						if rng.Intn(p) == 0 {
							l = append(l, id)
						}
					}
					return l
				}
				cs := &pb.ConfState{Voters: pick(2), AutoLeave: new(false)}
				if rng.Intn(3) == 0 {
					cs.VotersOutgoing = pick(2)
					cs.AutoLeave = new(rng.Intn(2) == 0)
					if rng.Intn(2) == 0 {
						for _, id := range cs.VotersOutgoing {
							if !containsU(cs.Voters, id) && rng.Intn(2) == 0 {
								cs.LearnersNext = append(cs.LearnersNext, id)
							}
						}
					}
				}
				for id := uint64(1); id <= 6; id++ {
					if !containsU(cs.Voters, id) && !containsU(cs.VotersOutgoing, id) && rng.Intn(4) == 0 {
						cs.Learners = append(cs.Learners, id)
					}
				}
				ops = append(ops, ccOp{kind: 'R', li: li, cs: cs})
			}
		}
		emitCC(ops)
	}
}

// ---------- decoding of configuration-change payloads (CD): what the propose-time check sees ----------

func ccV2Str(cc *pb.ConfChangeV2) string {
	var w []string
	for _, c := range cc.GetChanges() {
		w = append(w, fmt.Sprintf("%d.%d", int(c.GetType()), c.GetNodeId()))
	}
	ch := "_"
	if len(w) > 0 {
		ch = strings.Join(w, ",")
	}
	return fmt.Sprintf("%d;%s", int(cc.GetTransition()), ch)
}

func emitCD(typ pb.EntryType, data []byte) {
	res := "ERR"
	func() {
		defer func() { recover() }()
		switch typ {
		case pb.EntryConfChange:
			cc := &pb.ConfChange{}
			if proto.Unmarshal(data, cc) == nil {
				res = ccV2Str(cc.AsV2())
			}
		case pb.EntryConfChangeV2:
			cc := &pb.ConfChangeV2{}
			if proto.Unmarshal(data, cc) == nil {
				res = ccV2Str(cc)
			}
		}
	}()
	t := "C"
	if typ == pb.EntryConfChangeV2 {
		t = "V"
	}
	fmt.Fprintf(out, "CD|%s|%s|%s\n", t, enc.Hex(data), res)
}

func ccdecodeCases(rng *rand.Rand, thorough bool) {
	rounds := 1500
	if thorough {
		rounds = 30000
	}
	for r := 0; r < rounds; r++ {
		id := uint64(rng.Intn(7))
		if rng.Intn(10) == 0 {
			id = rng.Uint64()
		}
		if rng.Intn(2) == 0 {
			cc := &pb.ConfChange{Type: pb.ConfChangeType(rng.Intn(4)).Enum(), NodeId: new(id)}
			if rng.Intn(4) == 0 {
				cc.Id = new(uint64(rng.Intn(300)))
			}
			if rng.Intn(4) == 0 {
				cc.Context = []byte(strings.Repeat("c", rng.Intn(5)))
			}
			if rng.Intn(8) == 0 {
				cc.Type = nil
			}
			if rng.Intn(8) == 0 {
				cc.NodeId = nil
			}
			typ, data, _ := pb.MarshalConfChange(cc)
			emitCD(typ, data)
			continue
		}
		cc := &pb.ConfChangeV2{}
		if rng.Intn(3) > 0 {
			cc.Transition = pb.ConfChangeTransition(rng.Intn(3)).Enum()
		}
		for k := rng.Intn(5); k > 0; k-- {
			c := &pb.ConfChangeSingle{Type: pb.ConfChangeType(rng.Intn(4)).Enum(), NodeId: new(uint64(rng.Intn(300)))}
			if rng.Intn(8) == 0 {
				c.Type = nil
			}
			if rng.Intn(8) == 0 {
				c.NodeId = nil
			}
			cc.Changes = append(cc.Changes, c)
		}
		if rng.Intn(4) == 0 {
			cc.Context = []byte(strings.Repeat("x", rng.Intn(200)))
		}
		typ, data, _ := pb.MarshalConfChange(cc)
		emitCD(typ, data)
	}
	emitCD(pb.EntryConfChangeV2, nil)
}

func containsU(l []uint64, x uint64) bool {
	for _, y := range l {
		if x == y {
			return true
		}
	}
	return false
}

func replayCC(f []string) {
	var ops []ccOp
	for _, w := range strings.Split(f[1], "+") {
		ops = append(ops, parseCCOp(w))
	}
	emitCC(ops)
}

// ---------- tracker.Inflights (C16): sequences of Add / FreeLE / reset ----------

type ifOp struct {
	kind byte // A F Z
	a, b uint64
}

var ifMonitor func(what string)

func runIF(size int, maxBytes uint64, ops []ifOp) string {
	in := tracker.NewInflights(size, maxBytes)
	var res []string
	var ref [][2]uint64 // abstract window: (index, bytes), indexes increasing
	refFull := func() bool {
		var sum uint64
		for _, e := range ref {
			sum += e[1]
		}
		return len(ref) == size || (maxBytes != 0 && sum >= maxBytes)
	}
	for _, o := range ops {
		wasFull := refFull()
		pan := false
		func() {
			defer func() {
				if r := recover(); r != nil {
					pan = true
				}
			}()
			switch o.kind {
			case 'A':
				in.Add(o.a, o.b)
			case 'F':
				in.FreeLE(o.a)
			case 'Z':
				in = tracker.NewInflights(size, maxBytes)
			}
		}()
		if pan {
			if !(o.kind == 'A' && wasFull) && ifMonitor != nil {
				ifMonitor(fmt.Sprintf("panic_on_%c_with_a_window_that_is_not_full", o.kind))
			}
			res = append(res, "PANIC")
			break
		}
		switch o.kind {
		case 'A':
			if wasFull && ifMonitor != nil {
				ifMonitor("Add_accepted_on_a_full_window")
			}
			ref = append(ref, [2]uint64{o.a, o.b})
		case 'F':
			k := 0
			for k < len(ref) && ref[k][0] <= o.a {
				k++
			}
			ref = ref[k:]
		case 'Z':
			ref = nil
		}
		if ifMonitor != nil && (in.Count() != len(ref) || in.Full() != refFull()) {
			ifMonitor(fmt.Sprintf("after_%c:count_%d_full_%v_but_the_abstract_window_has_count_%d_full_%v", o.kind, in.Count(), in.Full(), len(ref), refFull()))
		}
		if ifMonitor != nil && in.Count() > size {
			ifMonitor(fmt.Sprintf("count_%d_exceeds_size_%d", in.Count(), size))
		}
		res = append(res, fmt.Sprintf("%d.%d", in.Count(), enc.B(in.Full())))
	}
	return strings.Join(res, "+")
}

func emitIF(size int, maxBytes uint64, ops []ifOp) {
	var w []string
	for _, o := range ops {
		switch o.kind {
		case 'A':
			w = append(w, fmt.Sprintf("A%d.%d", o.a, o.b))
		case 'F':
			w = append(w, fmt.Sprintf("F%d", o.a))
		default:
			w = append(w, "Z")
		}
	}
	var viol []string
	ifMonitor = func(what string) { viol = append(viol, what) }
	line := fmt.Sprintf("IF|%d|%d|%s|%s", size, maxBytes, strings.Join(w, "+"), runIF(size, maxBytes, ops))
	ifMonitor = nil
	fmt.Fprintln(out, line)
	for _, v := range viol {
		fmt.Fprintf(out, "MONITOR property=C16 what=%s case=%s\n", v, line)
	}
}

func inflightsStream(rng *rand.Rand, thorough bool) {
	rounds := 4000
	if thorough {
		rounds = 80000
	}
	for r := 0; r < rounds; r++ {
		size := []int{1, 2, 3, 4, 8, 16}[rng.Intn(6)]
		maxBytes := []uint64{0, 0, 10, 100}[rng.Intn(4)]
		var ops []ifOp
		next := uint64(1 + rng.Intn(5))
		cnt, byt := 0, uint64(0)
		n := 3 + rng.Intn(30)
		for i := 0; i < n; i++ {
			full := cnt == size || (maxBytes != 0 && byt >= maxBytes)
			switch x := rng.Intn(20); {
			case x < 12 && (!full || rng.Intn(30) == 0):
				b := uint64(rng.Intn(40))
				ops = append(ops, ifOp{'A', next, b})
				next += uint64(1 + rng.Intn(3))
				cnt++
				byt += b
			case x < 19:
				to := next - uint64(rng.Intn(int(min(next, 8))))
				ops = append(ops, ifOp{'F', to, 0})
				cnt, byt = -1000, 0 // lose track: the implementation's Full() decides from here on
			default:
				ops = append(ops, ifOp{'Z', 0, 0})
				cnt, byt = 0, 0
			}
			if cnt < 0 {
				// re-synchronise with the implementation
				in := tracker.NewInflights(size, maxBytes)
				ok := true
				func() {
					defer func() {
						if recover() != nil {
							ok = false
						}
					}()
					for _, o := range ops {
						switch o.kind {
						case 'A':
							in.Add(o.a, o.b)
						case 'F':
							in.FreeLE(o.a)
						case 'Z':
							in = tracker.NewInflights(size, maxBytes)
						}
					}
				}()
				if !ok {
					break
				}
				cnt = in.Count()
				if in.Full() {
					cnt = size
				}
				byt = 0
			}
		}
		emitIF(size, maxBytes, ops)
	}
}

func replayIF(f []string) {
	var size int
	var mb uint64
	fmt.Sscan(f[1], &size)
	fmt.Sscan(f[2], &mb)
	var ops []ifOp
	for _, w := range strings.Split(f[3], "+") {
		o := ifOp{kind: w[0]}
		switch o.kind {
		case 'A':
			fmt.Sscanf(w[1:], "%d.%d", &o.a, &o.b)
		case 'F':
			fmt.Sscan(w[1:], &o.a)
		}
		ops = append(ops, o)
	}
	emitIF(size, mb, ops)
}

// ---------- MemoryStorage (C18): write sequences with reads after every write ----------

type stOp struct {
	kind byte // A append, C compact, S create snapshot, P apply snapshot, E entries, T term
	a, b uint64
	c    uint64
	ents []*pb.Entry
}

func (o stOp) String() string {
	switch o.kind {
	case 'A':
		return "A" + enc.Entries(o.ents)
	case 'C':
		return fmt.Sprintf("C%d", o.a)
	case 'S':
		return fmt.Sprintf("S%d", o.a)
	case 'P':
		return fmt.Sprintf("P%d.%d", o.a, o.b)
	case 'E':
		return fmt.Sprintf("E%d.%d.%d", o.a, o.b, o.c)
	}
	return fmt.Sprintf("T%d", o.a)
}

func stErr(err error) string {
	switch err {
	case nil:
		return "ok"
	case raft.ErrCompacted:
		return "compacted"
	case raft.ErrUnavailable:
		return "unavailable"
	case raft.ErrSnapOutOfDate:
		return "snapoutofdate"
	}
	return "err"
}

func runST(ops []stOp) string {
	st := raft.NewMemoryStorage()
	var res []string
	for _, o := range ops {
		var r string
		pan := false
		func() {
			defer func() {
				if recover() != nil {
					pan = true
				}
			}()
			switch o.kind {
			case 'A':
				r = stErr(st.Append(o.ents))
			case 'C':
				r = stErr(st.Compact(o.a))
			case 'S':
				_, err := st.CreateSnapshot(o.a, &pb.ConfState{Voters: []uint64{1}}, nil)
				r = stErr(err)
			case 'P':
				r = stErr(st.ApplySnapshot(&pb.Snapshot{Metadata: &pb.SnapshotMetadata{Index: new(o.a), Term: new(o.b), ConfState: &pb.ConfState{Voters: []uint64{1}}}}))
			case 'E':
				es, err := st.Entries(o.a, o.b, o.c)
				r = stErr(err) + "=" + enc.Entries(es)
			case 'T':
				t, err := st.Term(o.a)
				r = fmt.Sprintf("%s=%d", stErr(err), t)
			}
		}()
		if pan {
			res = append(res, "PANIC")
			break
		}
		fi, _ := st.FirstIndex()
		li, _ := st.LastIndex()
		sn, _ := st.Snapshot()
		res = append(res, fmt.Sprintf("%s@%d.%d.%d.%d", r, fi, li, sn.GetMetadata().GetIndex(), sn.GetMetadata().GetTerm()))
	}
	return strings.Join(res, "+")
}

func emitST(ops []stOp) {
	var w []string
	for _, o := range ops {
		w = append(w, o.String())
	}
	fmt.Fprintf(out, "ST|%s|%s\n", strings.Join(w, "+"), runST(ops))
}

func storageStream(rng *rand.Rand, thorough bool) {
	rounds := 3000
	if thorough {
		rounds = 50000
	}
	for r := 0; r < rounds; r++ {
		var ops []stOp
		first, last, term := uint64(1), uint64(0), uint64(1)
		if rng.Intn(2) == 0 {
			i := uint64(1 + rng.Intn(5))
			ops = append(ops, stOp{kind: 'P', a: i, b: 1})
			first, last = i+1, i
		}
		n := 4 + rng.Intn(14)
		for k := 0; k < n; k++ {
			switch x := rng.Intn(20); {
			case x < 7:
				// append: mostly at the end, sometimes overwriting, sometimes straddling the compaction point
				lo := last + 1
				if rng.Intn(3) == 0 && last >= first {
					lo = first + uint64(rng.Intn(int(last-first+1)))
				}
				if rng.Intn(12) == 0 && lo > 2 {
					lo -= uint64(1 + rng.Intn(2)) // below the first index / leaving no gap check
				}
				if rng.Intn(60) == 0 {
					lo = last + 2 // gap: MemoryStorage panics ("missing log entry")
				}
				if rng.Intn(4) == 0 {
					term += uint64(rng.Intn(2))
				}
				cnt := 1 + rng.Intn(4)
				var es []*pb.Entry
				for j := 0; j < cnt; j++ {
					var data []byte
					if rng.Intn(3) > 0 {
						data = []byte(strings.Repeat("d", rng.Intn(12)))
					}
					es = append(es, &pb.Entry{Term: new(term), Index: new(lo + uint64(j)), Data: data})
				}
				ops = append(ops, stOp{kind: 'A', ents: es})
				if lo+uint64(cnt)-1 >= first && lo <= last+1 {
					last = lo + uint64(cnt) - 1
				}
			case x < 9:
				ops = append(ops, stOp{kind: 'C', a: within(rng, last)})
			case x < 11:
				ops = append(ops, stOp{kind: 'S', a: within(rng, last)})
			case x < 12:
				i := uint64(rng.Intn(int(last + 4)))
				ops = append(ops, stOp{kind: 'P', a: i, b: term})
			case x < 17:
				lo := within(rng, last+1)
				hi := lo + uint64(rng.Intn(6))
				if hi > last+1 && rng.Intn(15) != 0 {
					hi = last + 1
				}
				if hi < lo {
					lo = hi
				}
				mx := []uint64{0, 1, 10, 30, 100, math.MaxUint64}[rng.Intn(6)]
				ops = append(ops, stOp{kind: 'E', a: lo, b: hi, c: mx})
			default:
				ops = append(ops, stOp{kind: 'T', a: uint64(rng.Intn(int(last + 3)))})
			}
			// keep the generator's picture of [first, last] in step with the implementation
			st := raft.NewMemoryStorage()
			func() {
				defer func() { recover() }()
				runSTon(st, ops)
			}()
			first, _ = st.FirstIndex()
			last, _ = st.LastIndex()
		}
		emitST(ops)
	}
}

// within: mostly an index in [0, last], occasionally beyond
func within(rng *rand.Rand, last uint64) uint64 {
	if rng.Intn(15) == 0 {
		return last + 1 + uint64(rng.Intn(2))
	}
	return uint64(rng.Intn(int(last + 1)))
}

func runSTon(st *raft.MemoryStorage, ops []stOp) {
	for _, o := range ops {
		switch o.kind {
		case 'A':
			st.Append(o.ents)
		case 'C':
			st.Compact(o.a)
		case 'S':
			st.CreateSnapshot(o.a, &pb.ConfState{Voters: []uint64{1}}, nil)
		case 'P':
			st.ApplySnapshot(&pb.Snapshot{Metadata: &pb.SnapshotMetadata{Index: new(o.a), Term: new(o.b), ConfState: &pb.ConfState{Voters: []uint64{1}}}})
		}
	}
}

func logStream(rng *rand.Rand, thorough bool)  {}
func utilStream(rng *rand.Rand, thorough bool) {}

func replayST(f []string) {
	var ops []stOp
	for _, w := range strings.Split(f[1], "+") {
		o := stOp{kind: w[0]}
		switch o.kind {
		case 'A':
			o.ents = enc.ParseEntries(w[1:])
		case 'C', 'S', 'T':
			fmt.Sscan(w[1:], &o.a)
		case 'P':
			fmt.Sscanf(w[1:], "%d.%d", &o.a, &o.b)
		case 'E':
			fmt.Sscanf(w[1:], "%d.%d.%d", &o.a, &o.b, &o.c)
		}
		ops = append(ops, o)
	}
	emitST(ops)
}
