// Command pure runs the exported pure functions of /repo (quorum, tracker.Inflights,
// confchange, MemoryStorage, ...) on enumerated and random inputs and prints one line per
// case: the input followed by the implementation's result.  The OCaml driver evaluates the
// extracted Coq model on the same lines and reports every difference.
//
// usage: pure <stream> <tier> <seed>
package main

import (
	"bufio"
	"fmt"
	"io"
	"log"
	"math/rand"
	"os"
	"strconv"
	"strings"

	raft "go.etcd.io/raft/v3"
)

func init() { raft.SetLogger(&raft.DefaultLogger{Logger: log.New(io.Discard, "", 0)}) }

var out *bufio.Writer

func main() {
	if len(os.Args) >= 2 && os.Args[1] == "replay" {
		// re-evaluate the implementation on case lines read from stdin
		out = bufio.NewWriterSize(os.Stdout, 1<<20)
		defer out.Flush()
		sc := bufio.NewScanner(os.Stdin)
		sc.Buffer(make([]byte, 1<<20), 1<<26)
		for sc.Scan() {
			replayLine(sc.Text())
		}
		return
	}
	if len(os.Args) < 4 {
		fmt.Fprintln(os.Stderr, "usage: pure <stream> <quick|thorough> <seed>")
		os.Exit(2)
	}
	stream, tier := os.Args[1], os.Args[2]
	seed, err := strconv.ParseInt(os.Args[3], 10, 64)
	if err != nil {
		fmt.Fprintln(os.Stderr, "bad seed")
		os.Exit(2)
	}
	out = bufio.NewWriterSize(os.Stdout, 1<<20)
	defer out.Flush()
	rng := rand.New(rand.NewSource(seed))
	thorough := tier == "thorough"
	switch stream {
	case "quorum":
		quorumStream(rng, thorough)
	case "inflights":
		inflightsStream(rng, thorough)
	case "confchange":
		confchangeStream(rng, thorough)
	case "storage":
		storageStream(rng, thorough)
	case "log":
		logStream(rng, thorough)
	case "util":
		utilStream(rng, thorough)
	default:
		fmt.Fprintln(os.Stderr, "unknown stream", stream)
		os.Exit(2)
	}
}

// replayLine parses one case line and prints it again with the result the current
// implementation produces.
func replayLine(line string) {
	if line == "" || line[0] == '#' {
		return
	}
	f := strings.Split(line, "|")
	switch f[0] {
	case "MC", "JC", "MV", "JV":
		replayQuorum(f)
	case "CC":
		replayCC(f)
	case "IF":
		replayIF(f)
	case "ST":
		replayST(f)
	default:
		fmt.Fprintf(out, "# cannot replay tag %s\n", f[0])
	}
}
