package main

import (
	"bufio"
	"fmt"
	"math/rand"
	"os"
	"sort"

	"google.golang.org/protobuf/proto"

	raft "go.etcd.io/raft/v3"
	pb "go.etcd.io/raft/v3/raftpb"

	"verifharness/enc"
)

// The application model of DESIGN.md 3.3: for every node a small state machine that
// follows the documented Ready contract (synchronous: accept, persist, send, apply,
// advance; asynchronous: append thread and apply thread working through their queues).

type appState struct {
	// synchronous pipeline
	rd    *raft.Ready
	stage int // 0 idle, 1 accepted, 2 persisted, 3 sent, 4 applied

	// asynchronous queues
	appendQ []*pb.Message
	applyQ  []*pb.Message
	ackQ    []*pb.Message // acknowledgements of finished writes not yet delivered back to the node

	// volatile state machine of the application
	applied  uint64
	confs    map[uint64]*pb.ConfState // conf state after applying index i (conf changes only)
	lastConf *pb.ConfState

	restoredSnap uint64 // highest snapshot index restored in this incarnation (F9 signature)
}

type inflightMsg struct {
	m    *pb.Message
	from uint64
}

type Cluster struct {
	rng       *rand.Rand
	tr        *bufio.Writer
	seq       int
	nodes     map[uint64]*Node
	ids       []uint64
	net       []*pb.Message
	base      NodeCfg
	crashFull bool

	// pending MsgSnap deliveries whose outcome has not been reported to the sender
	snapsOut [][2]uint64 // (from, to)

	tok       int // proposal token counter
	mon       *Monitors
	tainted   map[string]bool // known-finding signatures observed on this run
	ops       int
	sched     []string // closed-loop schedule, for replays
	blocked   map[[2]uint64]bool
	stopped   bool
	envStrict bool
	nested    bool                     // inside a composite operation (heal): nested operations are not logged
	trBytes   int                      // bytes of trace written so far
	lastSnap  map[uint64][]*pb.Message // the MsgSnaps delivered to each node, oldest first (for late duplicates)
	overrun   string
}

// Budget of one schedule. On the unchanged tree a schedule makes below 7,000 calls (thorough:
// below 15,000) and the network holds a few dozen messages; a modified tree may loop, flood
// the network or grow its queues without bound, and the check must still terminate.
const (
	maxCalls    = 80000
	maxNet      = 4000
	maxTraceLen = 96 << 20
)

// over: the schedule has used up its budget; it is cut off here (and reported by heal, C15,
// when that happens in a fault-free suffix).
func (c *Cluster) over() bool {
	if c.overrun != "" {
		return true
	}
	switch {
	case c.seq > maxCalls:
		c.overrun = fmt.Sprintf("more than %d calls", maxCalls)
	case len(c.net) > maxNet:
		c.overrun = fmt.Sprintf("more than %d messages in flight", maxNet)
	case c.trBytes > maxTraceLen:
		c.overrun = fmt.Sprintf("more than %d MB of observations", maxTraceLen>>20)
	}
	if c.overrun != "" {
		c.stopped = true
	}
	return c.overrun != ""
}

func (c *Cluster) logOp(format string, a ...any) {
	c.sched = append(c.sched, fmt.Sprintf(format, a...))
	c.ops++
}

func (c *Cluster) onPanic(n *Node, kind, out string) {
	c.mon.onPanic(n, kind, out)
	// the process would be dead: treat as a crash
	n.rn = nil
	n.alive = false
	n.app = appState{}
	n.call("stop", "", func() string { return "res=ok" })
}

func mkSnapshot(index, term uint64, cs *pb.ConfState) *pb.Snapshot {
	return &pb.Snapshot{Metadata: &pb.SnapshotMetadata{Index: new(index), Term: new(term), ConfState: proto.Clone(cs).(*pb.ConfState)}}
}

// addNode creates a node. Initial members start from a storage whose snapshot (index > 0)
// carries the initial ConfState; joiners start from an empty storage.
func (c *Cluster) addNode(id uint64, initial *pb.ConfState, snapIndex, snapTerm uint64) *Node {
	cfg := c.base
	cfg.ID = id
	n := &Node{cl: c, id: id, cfg: cfg, st: raft.NewMemoryStorage()}
	c.nodes[id] = n
	c.ids = append(c.ids, id)
	sort.Slice(c.ids, func(i, j int) bool { return c.ids[i] < c.ids[j] })
	if initial != nil {
		n.stApplySnapshot(mkSnapshot(snapIndex, snapTerm, initial))
	}
	n.startApp()
	return n
}

// startApp (re)builds the application's volatile state from the storage snapshot and
// starts a RawNode with Applied = 0 (i.e. the snapshot index).
func (n *Node) startApp() {
	snap, _ := n.st.Snapshot()
	n.app = appState{confs: map[uint64]*pb.ConfState{}}
	n.app.applied = snap.GetMetadata().GetIndex()
	cs := snap.GetMetadata().GetConfState()
	if cs == nil {
		cs = &pb.ConfState{}
	}
	n.app.lastConf = proto.Clone(cs).(*pb.ConfState)
	n.app.confs[n.app.applied] = n.app.lastConf
	if n.start(n.app.applied) {
		n.cl.mon.onStart(n)
	}
}

func (c *Cluster) alive() []*Node {
	var r []*Node
	for _, id := range c.ids {
		if c.nodes[id].alive && c.nodes[id].rn != nil {
			r = append(r, c.nodes[id])
		}
	}
	return r
}

func (c *Cluster) send(from uint64, ms []*pb.Message) {
	for _, m := range ms {
		if raft.IsLocalMsgTarget(m.GetTo()) {
			continue
		}
		c.mon.onSend(c.nodes[from], m)
		c.net = append(c.net, proto.Clone(m).(*pb.Message))
		if m.GetType() == pb.MsgSnap {
			c.snapsOut = append(c.snapsOut, [2]uint64{from, m.GetTo()})
		}
	}
}

// deliver steps the k-th in-flight message into its destination.
func (c *Cluster) deliver(k int, keep bool) {
	if len(c.net) == 0 {
		return
	}
	k %= len(c.net)
	m := c.net[k]
	if !keep {
		c.net = append(c.net[:k:k], c.net[k+1:]...)
	}
	dst := c.nodes[m.GetTo()]
	if dst == nil || !dst.alive {
		return
	}
	if c.blocked[[2]uint64{m.GetFrom(), m.GetTo()}] {
		return
	}
	if m.GetType() == pb.MsgSnap {
		if c.lastSnap == nil {
			c.lastSnap = map[uint64][]*pb.Message{}
		}
		c.lastSnap[dst.id] = append(c.lastSnap[dst.id], proto.Clone(m).(*pb.Message))
	}
	c.mon.beforeStep(dst, m)
	dst.step(m)
	c.mon.afterOp(dst, "step")
}

// resnap delivers a duplicate of the MsgSnap that was delivered to dst [back] snapshots ago
// (0: the last one).
func (c *Cluster) resnap(dst *Node, back int) {
	h := c.lastSnap[dst.id]
	if back >= len(h) {
		return
	}
	m := h[len(h)-1-back]
	if !dst.alive || c.blocked[[2]uint64{m.GetFrom(), m.GetTo()}] || c.holdSnap(dst) {
		return
	}
	m = proto.Clone(m).(*pb.Message)
	c.mon.beforeStep(dst, m)
	dst.step(m)
	c.mon.afterOp(dst, "step")
}

func (c *Cluster) drop(k int) {
	if len(c.net) == 0 {
		return
	}
	k %= len(c.net)
	c.net = append(c.net[:k:k], c.net[k+1:]...)
}

// ---------- synchronous Ready handling ----------

// substep performs the next step of the Ready cycle on n; returns false if nothing to do.
// With atomic persistence the three storage writes are one step.
func (c *Cluster) substep(n *Node) bool {
	a := &n.app
	switch a.stage {
	case 0:
		if !n.hasReady() {
			return false
		}
		rd := n.ready()
		if rd == nil {
			return true
		}
		a.rd = rd
		a.stage = 1
		c.mon.onReady(n, rd)
	case 1:
		c.persist(n, a.rd.Entries, a.rd.HardState, a.rd.Snapshot)
		a.stage = 2
	case 2:
		c.send(n.id, a.rd.Messages)
		a.stage = 3
	case 3:
		c.applyEntries(n, a.rd.CommittedEntries)
		a.stage = 4
	case 4:
		if n.alive {
			c.mon.beforeAdvance(n)
			n.advance(*a.rd)
			c.mon.afterOp(n, "advance")
		}
		a.rd = nil
		a.stage = 0
	}
	return true
}

// persist writes one Ready's / one MsgStorageAppend's durable parts. README order is
// entries, hard state, snapshot; when a snapshot and entries behind it come together the
// snapshot has to go first (MemoryStorage.Append would panic on the gap).
func (c *Cluster) persist(n *Node, ents []*pb.Entry, hs *pb.HardState, snap *pb.Snapshot) {
	hasSnap := snap != nil && snap.GetMetadata().GetIndex() != 0
	if hasSnap && len(ents) > 0 {
		n.stApplySnapshot(snap)
		c.appRestore(n, snap)
		hasSnap = false
	}
	if len(ents) > 0 {
		if !n.stAppend(ents) {
			return
		}
	}
	if hs != nil && !raft.IsEmptyHardState(hs) {
		n.stSetHardState(hs)
		c.mon.onPersistHS(n, hs)
	}
	if hasSnap {
		n.stApplySnapshot(snap)
		c.appRestore(n, snap)
	}
}

// appRestore: the application installs the snapshot into its state machine.
func (c *Cluster) appRestore(n *Node, snap *pb.Snapshot) {
	i := snap.GetMetadata().GetIndex()
	if i > n.app.applied {
		n.app.applied = i
	}
	n.app.lastConf = proto.Clone(snap.GetMetadata().GetConfState()).(*pb.ConfState)
	n.app.confs[i] = n.app.lastConf
	if i > n.app.restoredSnap {
		n.app.restoredSnap = i
	}
	c.mon.onRestore(n, snap)
}

func decodeCC(e *pb.Entry) pb.ConfChangeI {
	switch e.GetType() {
	case pb.EntryConfChange:
		cc := &pb.ConfChange{}
		if err := proto.Unmarshal(e.GetData(), cc); err != nil {
			panic(err)
		}
		return cc
	case pb.EntryConfChangeV2:
		cc := &pb.ConfChangeV2{}
		if err := proto.Unmarshal(e.GetData(), cc); err != nil {
			panic(err)
		}
		return cc
	}
	return nil
}

func (c *Cluster) applyEntries(n *Node, ents []*pb.Entry) {
	for _, e := range ents {
		if !n.alive {
			return
		}
		c.mon.onApply(n, e)
		if e.GetIndex() <= n.app.applied {
			// handed out before a snapshot at or beyond this index was restored: the state
			// machine already reflects it (a correct application never applies backwards)
			continue
		}
		if cc := decodeCC(e); cc != nil {
			if e.GetIndex() <= n.app.restoredSnap {
				c.tainted["F9"] = true
			}
			cs := n.applyCC(cc)
			if !n.alive {
				return
			}
			n.app.lastConf = cs
			n.app.confs[e.GetIndex()] = cs
			c.mon.onConfApplied(n, e.GetIndex(), cs)
			n.app.applied = e.GetIndex()
			c.mon.afterOp(n, "applycc")
			// a snapshot at the applied index after each membership change lets joiners catch up
			if c.rng.Intn(4) != 0 {
				c.snapshotNode(n, 0)
			}
			continue
		}
		n.app.applied = e.GetIndex()
	}
}

// snapshotNode: the application takes a snapshot at an applied index (back entries behind its
// latest applied one).
func (c *Cluster) snapshotNode(n *Node, back uint64) {
	snap, _ := n.st.Snapshot()
	li, _ := n.st.LastIndex()
	// Env.snapshot_sound: only at an applied index that the durable commit index covers,
	// with the configuration as of that index
	i := n.app.applied
	if back < i {
		i -= back
	}
	hs, _, _ := n.st.InitialState()
	if c := hs.GetCommit(); c < i {
		i = c
	}
	if i <= snap.GetMetadata().GetIndex() || i > li {
		return
	}
	var cs *pb.ConfState
	var best uint64
	for idx, c := range n.app.confs {
		if idx <= i && (cs == nil || idx >= best) {
			cs, best = c, idx
		}
	}
	if cs == nil {
		return
	}
	n.stCreateSnapshot(i, cs, nil)
}

func (c *Cluster) compactNode(n *Node, upTo uint64) {
	snap, _ := n.st.Snapshot()
	fi, _ := n.st.FirstIndex()
	if upTo > snap.GetMetadata().GetIndex() {
		upTo = snap.GetMetadata().GetIndex()
	}
	if upTo < fi {
		return
	}
	n.stCompact(upTo)
}

// process runs the whole Ready cycle of n (sync) or one Ready plus both storage threads (async).
func (c *Cluster) process(n *Node) {
	if !n.alive {
		return
	}
	if n.cfg.Async {
		c.asyncReady(n)
		for n.alive && len(n.app.appendQ) > 0 {
			c.appendThread(n, false)
		}
		for n.alive && len(n.app.ackQ) > 0 {
			c.ackThread(n)
		}
		for n.alive && len(n.app.applyQ) > 0 {
			c.applyThread(n)
		}
		return
	}
	if n.app.stage == 0 && !n.hasReady() {
		return
	}
	for n.alive {
		c.substep(n)
		if n.app.stage == 0 {
			break
		}
	}
}

// ---------- asynchronous storage writes ----------

func (c *Cluster) asyncReady(n *Node) bool {
	if !n.hasReady() {
		return false
	}
	rd := n.ready()
	if rd == nil {
		return true
	}
	c.mon.onReady(n, rd)
	var netMsgs []*pb.Message
	for _, m := range rd.Messages {
		switch m.GetTo() {
		case raft.LocalAppendThread:
			n.app.appendQ = append(n.app.appendQ, m)
		case raft.LocalApplyThread:
			n.app.applyQ = append(n.app.applyQ, m)
		default:
			netMsgs = append(netMsgs, m)
		}
	}
	c.send(n.id, netMsgs)
	return true
}

// ackThread delivers the oldest pending write acknowledgement to the node.
func (c *Cluster) ackThread(n *Node) bool {
	if len(n.app.ackQ) == 0 || !n.alive {
		return false
	}
	r := n.app.ackQ[0]
	n.app.ackQ = n.app.ackQ[1:]
	c.mon.beforeStep(n, r)
	before := ""
	if os.Getenv("VERIF_DIR_DEBUG") != "" {
		before = c.mon.viewString(n)
	}
	n.step(r)
	if before != "" {
		fmt.Fprintf(os.Stderr, "ack node %d: %s\n   before %.200s\n   after  %.200s\n", n.id, enc.Message(r), before, c.mon.viewString(n))
	}
	c.mon.afterOp(n, "step")
	return true
}

// appendThread performs the oldest queued write. The responses addressed to other nodes are sent
// at once; those addressed to the node itself are delivered at once too, unless [hold] is set:
// then they wait in ackQ (in order, behind any older ones) for ackThread.
func (c *Cluster) appendThread(n *Node, hold bool) bool {
	if len(n.app.appendQ) == 0 {
		return false
	}
	m := n.app.appendQ[0]
	n.app.appendQ = n.app.appendQ[1:]
	var hs *pb.HardState
	if m.Term != nil || m.Vote != nil || m.Commit != nil {
		hs = &pb.HardState{Term: new(m.GetTerm()), Vote: new(m.GetVote()), Commit: new(m.GetCommit())}
	}
	c.persist(n, m.GetEntries(), hs, m.GetSnapshot())
	if hold || len(n.app.ackQ) > 0 {
		var out []*pb.Message
		for _, r := range m.GetResponses() {
			if r.GetTo() == n.id {
				n.app.ackQ = append(n.app.ackQ, r)
			} else {
				out = append(out, r)
			}
		}
		c.send(n.id, out)
		if !hold {
			for n.alive && len(n.app.ackQ) > 0 {
				c.ackThread(n)
			}
		}
		return true
	}
	c.deliverResponses(n, m.GetResponses())
	return true
}

func (c *Cluster) deliverResponses(n *Node, rs []*pb.Message) {
	var out []*pb.Message
	for _, r := range rs {
		if r.GetTo() == n.id {
			if n.alive {
				c.mon.beforeStep(n, r)
				n.step(r)
				c.mon.afterOp(n, "step")
			}
		} else {
			out = append(out, r)
		}
	}
	c.send(n.id, out)
}

func (c *Cluster) applyThread(n *Node) bool {
	if len(n.app.applyQ) == 0 {
		return false
	}
	m := n.app.applyQ[0]
	n.app.applyQ = n.app.applyQ[1:]
	c.applyEntries(n, m.GetEntries())
	if n.alive {
		c.deliverResponses(n, m.GetResponses())
	}
	return true
}

// ---------- crash / restart ----------

func (c *Cluster) crash(n *Node) {
	if !n.alive {
		return
	}
	c.mon.onCrash(n)
	n.stop()
	n.app = appState{}
}

func (c *Cluster) restart(n *Node) {
	if n.alive {
		return
	}
	n.startApp()
}
