// Command cluster drives real RawNodes of /repo under the application model and the
// network adversary of DESIGN.md 3.3, evaluates the property monitors on what the
// implementation does, and writes the open-loop per-node trace (I/O lines) that the OCaml
// driver replays on the extracted Coq model.
//
//	cluster gen <tier> <seed> <shard> <nshards> <monfile>     trace on stdout
//	cluster replay <schedule file> <monfile>                  trace on stdout
package main

import (
	"bufio"
	"bytes"
	"fmt"
	"math/rand"
	"os"
	"sort"
	"strconv"
	"strings"
)

type traceWriter struct {
	w   *bufio.Writer
	buf *bytes.Buffer
}

func newTraceWriter() *traceWriter {
	b := &bytes.Buffer{}
	return &traceWriter{w: bufio.NewWriterSize(b, 1<<16), buf: b}
}

func (t *traceWriter) bytes() []byte {
	t.w.Flush()
	return t.buf.Bytes()
}

type stats struct {
	scheds, ops, calls int
	byFamily           map[string]int
}

func emit(out *bufio.Writer, mon *bufio.Writer, id string, s SchedCfg, c *Cluster, trace []byte, second []byte) {
	fmt.Fprintf(out, "S %s %s\n", id, s.String())
	out.Write(trace)
	fmt.Fprintf(mon, "SCHED %s %s\n", id, s.String())
	fmt.Fprintf(mon, "OPS %s %s\n", id, strings.Join(c.sched, ";"))
	for _, v := range c.mon.viol {
		class := v.Class
		if class == "" {
			class = "-"
		}
		fmt.Fprintf(mon, "V %s %s %s %d %s\n", id, v.Prop, class, v.Seq, v.What)
	}
	if second != nil && !bytes.Equal(trace, second) {
		// first differing line
		a, b := strings.Split(string(trace), "\n"), strings.Split(string(second), "\n")
		i := 0
		for i < len(a) && i < len(b) && a[i] == b[i] {
			i++
		}
		la, lb := "", ""
		if i < len(a) {
			la = a[i]
		}
		if i < len(b) {
			lb = b[i]
		}
		fmt.Fprintf(mon, "V %s C19 - %d two runs of the same schedule differ at trace line %d: %.300s <> %.300s\n", id, i, i, la, lb)
	}
	var taints []string
	for k := range c.tainted {
		taints = append(taints, k)
	}
	fmt.Fprintf(mon, "E %s ops=%d calls=%d family=%s nodes=%d tainted=%s heal=%d/%d/%d undecided=%d excepted=%d over=%s\n", id, c.ops, c.seq, s.Family, len(c.ids), strings.Join(taints, ","),
		c.mon.healRuns, c.mon.healed, c.mon.healRounds, c.mon.undecided, c.mon.excepted, strings.ReplaceAll(c.overrun, " ", "_"))
	var acts []string
	for k, v := range c.mon.act {
		acts = append(acts, fmt.Sprintf("%s=%d", k, v))
	}
	sort.Strings(acts)
	fmt.Fprintf(mon, "A %s %s\n", id, strings.Join(acts, " "))
}

func main() {
	if len(os.Args) < 2 {
		fmt.Fprintln(os.Stderr, "usage: cluster gen|replay|scene ...")
		os.Exit(2)
	}
	out := bufio.NewWriterSize(os.Stdout, 1<<20)
	defer out.Flush()
	switch os.Args[1] {
	case "gen":
		tier := os.Args[2]
		seed, _ := strconv.ParseInt(os.Args[3], 10, 64)
		shard, _ := strconv.Atoi(os.Args[4])
		nshards, _ := strconv.Atoi(os.Args[5])
		mf, err := os.Create(os.Args[6])
		if err != nil {
			panic(err)
		}
		defer mf.Close()
		mon := bufio.NewWriter(mf)
		defer mon.Flush()
		total, nops := 960, 350
		if tier == "thorough" {
			total, nops = 16000, 600
		}
		if v := os.Getenv("VERIF_SCHEDULES"); v != "" {
			total, _ = strconv.Atoi(v)
		}
		families := append([]string{"mixed", "mixed"}, phases...)
		for i := shard; i < total; i += nshards {
			sseed := seed*1000003 + int64(i)
			g := rand.New(rand.NewSource(sseed))
			s := randomCfg(g, sseed, families[i%len(families)])
			tr := newTraceWriter()
			c := runRandom(s, nops, tr)
			first := append([]byte(nil), tr.bytes()...)
			// C19: the same schedule again, in a second instance; the traces must be identical
			tr2 := newTraceWriter()
			runOps(s, c.sched, tr2)
			emit(out, mon, fmt.Sprintf("r%d", i), s, c, first, tr2.bytes())
		}
	case "scene":
		// scene <name> <cfg line>: prints the schedule the scene executed (see scenes.go)
		s := parseSchedCfg(strings.Join(os.Args[3:], " "))
		c := newCluster(s, newTraceWriter())
		x := &gen{g: rand.New(rand.NewSource(s.Seed ^ 0x5eed)), c: c}
		for i := 0; i < 3*s.Base.ET && x.leader() == nil; i++ {
			c.exec("tickall")
			c.exec("flush 3")
		}
		scenes[os.Args[2]](x)
		c.exec("unblock")
		c.exec("heal")
		fmt.Fprintln(out, s.String())
		for _, op := range c.sched {
			fmt.Fprintln(out, op)
		}
	case "replay":
		data, err := os.ReadFile(os.Args[2])
		if err != nil {
			panic(err)
		}
		mf, err := os.Create(os.Args[3])
		if err != nil {
			panic(err)
		}
		defer mf.Close()
		mon := bufio.NewWriter(mf)
		defer mon.Flush()
		// a file holds one or more schedules: "cfg ..." line followed by op lines
		var s SchedCfg
		var ops []string
		id := 0
		flush := func() {
			if len(s.Voters) == 0 {
				return
			}
			tr := newTraceWriter()
			c := runOps(s, ops, tr)
			first := append([]byte(nil), tr.bytes()...)
			tr2 := newTraceWriter()
			runOps(s, ops, tr2)
			emit(out, mon, fmt.Sprintf("%s#%d", os.Args[2][strings.LastIndexByte(os.Args[2], '/')+1:], id), s, c, first, tr2.bytes())
			id++
		}
		for _, line := range strings.Split(string(data), "\n") {
			line = strings.TrimSpace(line)
			if line == "" || line[0] == '#' {
				continue
			}
			if strings.HasPrefix(line, "cfg ") {
				flush()
				s = parseSchedCfg(line)
				ops = nil
				continue
			}
			for _, op := range strings.Split(line, ";") {
				ops = append(ops, strings.TrimSpace(op))
			}
		}
		flush()
	}
}
