package main

import (
	"fmt"
	"strconv"
	"strings"

	raft "go.etcd.io/raft/v3"
	pb "go.etcd.io/raft/v3/raftpb"
)

// exec interprets one schedule operation (closed-loop: "deliver the k-th in-flight
// message"). Operations that are not enabled in the current state are no-ops, so any
// sub-sequence of a schedule is again a schedule (this is what shrinking relies on).

func atou(s string) uint64 {
	v, _ := strconv.ParseUint(s, 10, 64)
	return v
}

func (c *Cluster) nodeArg(s string) *Node { return c.nodes[atou(s)] }

func parseCC(spec string) pb.ConfChangeI {
	// v1:add|remove|learner|update:<id>   v2:auto|implicit|explicit:<v4,l5,r2,u3>   leave
	if spec == "leave" {
		return &pb.ConfChangeV2{}
	}
	f := strings.Split(spec, ":")
	if f[0] == "v1" {
		t := pb.ConfChangeAddNode
		switch f[1] {
		case "remove":
			t = pb.ConfChangeRemoveNode
		case "learner":
			t = pb.ConfChangeAddLearnerNode
		case "update":
			t = pb.ConfChangeUpdateNode
		}
		return &pb.ConfChange{Type: t.Enum(), NodeId: new(atou(f[2]))}
	}
	cc := &pb.ConfChangeV2{}
	switch f[1] {
	case "implicit":
		cc.Transition = pb.ConfChangeTransitionJointImplicit.Enum()
	case "explicit":
		cc.Transition = pb.ConfChangeTransitionJointExplicit.Enum()
	default:
		cc.Transition = pb.ConfChangeTransitionAuto.Enum()
	}
	if len(f) > 2 && f[2] != "" {
		for _, w := range strings.Split(f[2], ",") {
			t := pb.ConfChangeAddNode
			switch w[0] {
			case 'l':
				t = pb.ConfChangeAddLearnerNode
			case 'r':
				t = pb.ConfChangeRemoveNode
			case 'u':
				t = pb.ConfChangeUpdateNode
			}
			cc.Changes = append(cc.Changes, &pb.ConfChangeSingle{Type: t.Enum(), NodeId: new(atou(w[1:]))})
		}
	}
	return cc
}

// pendingApply: has the node handed out committed entries that the application has not applied
// yet, and is a configuration change among them?  Env.apply_before_snap_step: no MsgSnap is
// stepped while a handed-out configuration change is unapplied (finding F9); schedules with the
// strict flag postpone a MsgSnap behind any unapplied hand-out.
func (n *Node) pendingApply() (some bool, confChange bool) {
	var batches [][]*pb.Entry
	if n.cfg.Async {
		for _, m := range n.app.applyQ {
			batches = append(batches, m.GetEntries())
		}
	} else if n.app.rd != nil && n.app.stage < 4 {
		batches = append(batches, n.app.rd.CommittedEntries)
	}
	for _, b := range batches {
		for _, e := range b {
			some = true
			if e.GetType() != pb.EntryNormal {
				confChange = true
			}
		}
	}
	return
}

// holdSnap: must a MsgSnap addressed to dst wait?
func (c *Cluster) holdSnap(dst *Node) bool {
	some, cc := dst.pendingApply()
	return cc || (c.envStrict && some)
}

// exec runs one operation; a panic that escapes the recorded calls (HasReady, the state dump,
// a storage read of the harness) ends the schedule and is reported like any other panic.
func (c *Cluster) exec(op string) {
	if c.stopped || c.over() {
		return
	}
	defer func() {
		if r := recover(); r != nil {
			c.stopped = true
			c.mon.report("C14", "", "panic outside a recorded call during %q: %s", op, sanitize(fmt.Sprint(r)))
		}
	}()
	c.execOp(op)
}

func (c *Cluster) execOp(op string) {
	if !c.nested {
		c.logOp("%s", op)
	}
	f := strings.Fields(op)
	switch f[0] {
	case "tick":
		if n := c.nodeArg(f[1]); n != nil && n.alive {
			n.tick()
			c.mon.onTick(n)
			c.mon.afterOp(n, "tick")
		}
	case "tickall":
		for _, n := range c.alive() {
			n.tick()
			c.mon.onTick(n)
			c.mon.afterOp(n, "tick")
		}
	case "deliver", "dup":
		k := int(atou(f[1]))
		if len(c.net) == 0 {
			return
		}
		m := c.net[k%len(c.net)]
		if dst := c.nodes[m.GetTo()]; dst != nil && dst.alive && m.GetType() == pb.MsgSnap && c.holdSnap(dst) {
			return // postponed
		}
		c.deliver(k, f[0] == "dup")
	case "drop":
		c.drop(int(atou(f[1])))
	case "steplocal":
		// the application (wrongly) steps a local message type that claims to come from a peer:
		// RawNode.Step must refuse it (ErrStepLocalMsg) and change nothing
		if n := c.nodeArg(f[1]); n != nil && n.alive {
			t := []pb.MessageType{pb.MsgHup, pb.MsgBeat, pb.MsgUnreachable, pb.MsgSnapStatus, pb.MsgCheckQuorum}[int(atou(f[2]))%5]
			m := &pb.Message{Type: t.Enum(), From: new(n.id%5 + 1), To: new(n.id)}
			c.mon.beforeStep(n, m)
			n.step(m)
			c.mon.afterOp(n, "step")
		}
	case "resnap":
		if n := c.nodeArg(f[1]); n != nil {
			back := 0
			if len(f) > 2 {
				back = int(atou(f[2]))
			}
			c.resnap(n, back)
		}
	case "process":
		if n := c.nodeArg(f[1]); n != nil {
			c.process(n)
		}
	case "sub":
		if n := c.nodeArg(f[1]); n != nil && n.alive {
			if n.cfg.Async {
				c.asyncReady(n)
			} else {
				c.substep(n)
			}
		}
	case "appendthread":
		// appendthread <node> [hold]: with hold the acknowledgement to the node itself is queued
		if n := c.nodeArg(f[1]); n != nil && n.alive {
			c.appendThread(n, len(f) > 2 && f[2] == "hold")
		}
	case "ackthread":
		if n := c.nodeArg(f[1]); n != nil && n.alive {
			c.ackThread(n)
		}
	case "applythread":
		if n := c.nodeArg(f[1]); n != nil && n.alive {
			c.applyThread(n)
		}
	case "flush":
		c.flush(int(atou(f[1])))
	case "propose":
		if n := c.nodeArg(f[1]); n != nil && n.alive {
			c.tok++
			tok := fmt.Sprintf("p%d", c.tok)
			if len(f) > 2 { // padded payload for size pressure
				tok += strings.Repeat("x", int(atou(f[2])))
			}
			out := n.propose([]byte(tok))
			d := n.rn.VerifState()
			c.mon.onPropose(tok, out, d.State == raft.StateLeader)
			if strings.Contains(out, "res=ok") {
				c.mon.onAccepted(n, 1)
			}
			c.mon.afterOp(n, "propose")
		}
	case "proposebatch":
		// one MsgProp carrying several entries (RawNode.Step), optionally with a
		// configuration change at position f[3] (and a second one at f[5]):
		// proposebatch <node> <n> [<pos> <ccspec> [<pos2> <ccspec2>]]
		if n := c.nodeArg(f[1]); n != nil && n.alive {
			cnt := int(atou(f[2]))
			var ents []*pb.Entry
			var toks []string
			ccAt := map[int]string{}
			for k := 3; k+1 < len(f); k += 2 {
				ccAt[int(atou(f[k]))] = f[k+1]
			}
			for i := 0; i < cnt; i++ {
				if spec, ok := ccAt[i]; ok {
					typ, data, _ := pb.MarshalConfChange(parseCC(spec))
					ents = append(ents, &pb.Entry{Type: typ.Enum(), Data: data})
					continue
				}
				c.tok++
				tok := fmt.Sprintf("p%d", c.tok)
				if c.rng.Intn(2) == 0 {
					tok += strings.Repeat("y", c.rng.Intn(40))
				}
				toks = append(toks, tok)
				ents = append(ents, &pb.Entry{Data: []byte(tok)})
			}
			m := &pb.Message{Type: pb.MsgProp.Enum(), From: new(n.id), Entries: ents}
			c.mon.beforeStep(n, m)
			out := n.step(m)
			d := n.rn.VerifState()
			for _, tok := range toks {
				c.mon.onPropose(tok, out, d.State == raft.StateLeader)
			}
			c.mon.onBatch(n, ents, out)
			if strings.Contains(out, "res=ok") {
				c.mon.onAccepted(n, len(ents))
			}
			c.mon.afterOp(n, "step")
		}
	case "proposecc":
		if n := c.nodeArg(f[1]); n != nil && n.alive {
			n.proposeCC(parseCC(f[2]))
			c.mon.afterOp(n, "proposecc")
		}
	case "campaign":
		if n := c.nodeArg(f[1]); n != nil && n.alive {
			n.campaign()
			c.mon.afterOp(n, "campaign")
		}
	case "readindex":
		if n := c.nodeArg(f[1]); n != nil && n.alive {
			c.tok++
			ctx := fmt.Sprintf("r%d", c.tok)
			c.mon.onReadIndex(ctx)
			n.readIndex([]byte(ctx))
			c.mon.afterOp(n, "readindex")
		}
	case "transfer":
		if n := c.nodeArg(f[1]); n != nil && n.alive {
			n.transferLeader(atou(f[2]))
			c.mon.afterOp(n, "transfer")
		}
	case "forget":
		if n := c.nodeArg(f[1]); n != nil && n.alive {
			n.forgetLeader()
			c.mon.afterOp(n, "forget")
		}
	case "unreach":
		if n := c.nodeArg(f[1]); n != nil && n.alive {
			n.reportUnreachable(atou(f[2]))
			c.mon.afterOp(n, "unreach")
		}
	case "reportsnap":
		if len(c.snapsOut) == 0 {
			return
		}
		k := int(atou(f[1])) % len(c.snapsOut)
		p := c.snapsOut[k]
		c.snapsOut = append(c.snapsOut[:k:k], c.snapsOut[k+1:]...)
		if n := c.nodes[p[0]]; n != nil && n.alive {
			n.reportSnapshot(p[1], f[2] == "0")
			c.mon.afterOp(n, "snapstatus")
		}
	case "snapshot":
		if n := c.nodeArg(f[1]); n != nil {
			back := uint64(0)
			if len(f) > 2 {
				back = atou(f[2])
			}
			c.snapshotNode(n, back)
		}
	case "compact":
		if n := c.nodeArg(f[1]); n != nil {
			c.compactNode(n, atou(f[2]))
		}
	case "crash":
		if n := c.nodeArg(f[1]); n != nil {
			c.crash(n)
		}
	case "restart":
		if n := c.nodeArg(f[1]); n != nil {
			c.restart(n)
		}
	case "addnode":
		id := atou(f[1])
		if c.nodes[id] == nil {
			c.addNode(id, nil, 0, 0)
		}
	case "heal":
		// C15: the faults stop here; see converge.go
		c.nested = true
		c.heal()
		c.nested = false
	case "block":
		a, b := atou(f[1]), atou(f[2])
		c.blocked[[2]uint64{a, b}] = true
		c.blocked[[2]uint64{b, a}] = true
	case "unblock":
		c.blocked = map[[2]uint64]bool{}
	}
}

// flush: up to n rounds of "process every node, deliver everything in flight"
func (c *Cluster) flush(rounds int) {
	for r := 0; r < rounds && !c.over(); r++ {
		busy := false
		for _, n := range c.alive() {
			if n.hasReady() || n.app.stage != 0 || len(n.app.appendQ) > 0 || len(n.app.applyQ) > 0 || len(n.app.ackQ) > 0 {
				busy = true
				c.process(n)
			}
		}
		k := len(c.net)
		for i := 0; i < k && len(c.net) > 0 && !c.over(); i++ {
			busy = true
			m := c.net[0]
			if dst := c.nodes[m.GetTo()]; dst != nil && dst.alive && m.GetType() == pb.MsgSnap && c.holdSnap(dst) {
				c.process(dst)
			}
			c.deliver(0, false)
		}
		for len(c.snapsOut) > 0 {
			p := c.snapsOut[0]
			c.snapsOut = c.snapsOut[1:]
			if n := c.nodes[p[0]]; n != nil && n.alive {
				n.reportSnapshot(p[1], false)
				c.mon.afterOp(n, "snapstatus")
			}
		}
		if !busy {
			return
		}
	}
}
