package main

import (
	"fmt"
	"os"
	"sort"
	"strings"

	raft "go.etcd.io/raft/v3"
	pb "go.etcd.io/raft/v3/raftpb"
	"go.etcd.io/raft/v3/tracker"
)

// C15: the fault-free suffix. "heal" ends the faults (partitions lifted, every member of the
// committed configuration running, removed nodes stopped), then keeps ticking, delivering every
// message and reporting every snapshot outcome, and checks that the group converges within a
// bounded number of election timeouts.
//
// The operation is part of the schedule (closed loop), so a non-converging run replays.

const (
	healTimeouts    = 25  // election timeouts after which a cluster that stopped changing is given up
	healMaxTimeouts = 300 // ... and one whose terms still move (competing candidates without PreVote: liveness is probabilistic)
	healProposals   = 3
	healAfterwards  = 12 // election timeouts allowed for the proposals made afterwards
	healFlushRounds = 12
)

func confMembers(cs *pb.ConfState) map[uint64]bool {
	m := map[uint64]bool{}
	if cs == nil {
		return m
	}
	for _, l := range [][]uint64{cs.GetVoters(), cs.GetVotersOutgoing(), cs.GetLearners(), cs.GetLearnersNext()} {
		for _, id := range l {
			m[id] = true
		}
	}
	return m
}

// committedConf: the most advanced applied configuration (every applied configuration is a
// committed one).
func (c *Cluster) committedConf() *pb.ConfState {
	var best *Node
	for _, id := range c.ids {
		n := c.nodes[id]
		if n.alive && n.app.lastConf != nil && (best == nil || n.app.applied > best.app.applied) {
			best = n
		}
	}
	if best == nil {
		return nil
	}
	return best.app.lastConf
}

// settle: members of the committed configuration run, everybody else is stopped.
func (c *Cluster) settle(retired map[uint64]bool) map[uint64]bool {
	for _, id := range append([]uint64(nil), c.ids...) {
		if n := c.nodes[id]; !n.alive && !retired[id] {
			c.restart(n)
		}
	}
	members := confMembers(c.committedConf())
	var ids []uint64
	for id := range members {
		ids = append(ids, id)
	}
	sort.Slice(ids, func(i, j int) bool { return ids[i] < ids[j] })
	for _, id := range ids {
		if c.nodes[id] == nil {
			c.addNode(id, nil, 0, 0)
		} else if n := c.nodes[id]; !n.alive {
			// removed earlier and added again by a configuration applied since
			delete(retired, id)
			c.restart(n)
		}
	}
	for _, id := range append([]uint64(nil), c.ids...) {
		n := c.nodes[id]
		if !members[id] && n.alive {
			c.crash(n)
			retired[id] = true
		}
	}
	return members
}

type convState struct {
	ok      bool
	why     string
	leader  *Node
	members []*Node
}

// converged evaluates the end state the property promises.
func (c *Cluster) converged(members map[uint64]bool) convState {
	var ms []*Node
	for _, id := range c.ids {
		if members[id] {
			n := c.nodes[id]
			if n == nil || !n.alive || n.rn == nil {
				return convState{why: fmt.Sprintf("member %d is not running", id)}
			}
			ms = append(ms, n)
		}
	}
	if len(ms) == 0 {
		return convState{why: "no members"}
	}
	dumps := map[uint64]raft.VerifDump{}
	var leaders []*Node
	for _, n := range ms {
		d := n.rn.VerifState()
		dumps[n.id] = d
		if d.State == raft.StateLeader {
			leaders = append(leaders, n)
		}
	}
	if len(leaders) != 1 {
		var l []string
		for _, n := range leaders {
			l = append(l, fmt.Sprint(n.id))
		}
		return convState{why: fmt.Sprintf("%d leaders among the members (%s)", len(leaders), strings.Join(l, ",")), members: ms}
	}
	ld := leaders[0]
	dl := dumps[ld.id]
	st := convState{leader: ld, members: ms}
	if dl.LeadTransferee != 0 {
		st.why = fmt.Sprintf("leader %d still has a pending leadership transfer to %d", ld.id, dl.LeadTransferee)
		return st
	}
	lv := ld.logView(&dl)
	for _, n := range ms {
		d := dumps[n.id]
		if len(d.UnstableEntries) > 0 || d.UnstableSnapshot != nil {
			st.why = fmt.Sprintf("node %d keeps %d unstable entries / unstable snapshot %v unacknowledged", n.id, len(d.UnstableEntries), d.UnstableSnapshot != nil)
			return st
		}
		if n.app.stage != 0 || len(n.app.appendQ) > 0 || len(n.app.applyQ) > 0 || len(n.app.ackQ) > 0 {
			st.why = fmt.Sprintf("node %d has storage work in progress", n.id)
			return st
		}
		if d.Term != dl.Term {
			st.why = fmt.Sprintf("node %d is in term %d, the leader in term %d", n.id, d.Term, dl.Term)
			return st
		}
		if n != ld && d.Lead != ld.id {
			st.why = fmt.Sprintf("node %d follows %d, not the leader %d", n.id, d.Lead, ld.id)
			return st
		}
		v := n.logView(&d)
		if v.last() != lv.last() || v.lastTerm() != lv.lastTerm() {
			st.why = fmt.Sprintf("node %d ends at (index %d, term %d), the leader at (%d, %d)", n.id, v.last(), v.lastTerm(), lv.last(), lv.lastTerm())
			return st
		}
		if d.Committed != dl.Committed || d.Committed != lv.last() {
			st.why = fmt.Sprintf("node %d has commit %d, the leader commit %d and last index %d", n.id, d.Committed, dl.Committed, lv.last())
			return st
		}
		if d.Applied != d.Committed || n.app.applied != d.Committed {
			st.why = fmt.Sprintf("node %d applied %d (application %d) of commit %d", n.id, d.Applied, n.app.applied, d.Committed)
			return st
		}
		if len(d.Config.Voters[1]) > 0 && d.Config.AutoLeave {
			st.why = fmt.Sprintf("node %d is still in the joint configuration %s that leaves automatically", n.id, cfgStr(d.Config))
			return st
		}
		if cfgStr(d.Config) != cfgStr(dl.Config) {
			st.why = fmt.Sprintf("node %d has configuration %s, the leader %s", n.id, cfgStr(d.Config), cfgStr(dl.Config))
			return st
		}
	}
	for _, n := range ms {
		if n == ld {
			continue
		}
		pr, ok := dl.Progress[n.id]
		if !ok {
			st.why = fmt.Sprintf("leader %d tracks no progress for member %d", ld.id, n.id)
			return st
		}
		if pr.State != tracker.StateReplicate || pr.Match != lv.last() || pr.PendingSnapshot != 0 {
			st.why = fmt.Sprintf("leader %d has member %d in state %s match %d (last index %d) pending snapshot %d", ld.id, n.id, pr.State, pr.Match, lv.last(), pr.PendingSnapshot)
			return st
		}
		if pr.Paused || pr.InflFull {
			st.why = fmt.Sprintf("leader %d keeps replication to %d paused (paused=%v, inflights full=%v) with nothing outstanding", ld.id, n.id, pr.Paused, pr.InflFull)
			return st
		}
	}
	st.ok = true
	return st
}

// twoVoterException: README "use three or more nodes": a survivor whose own configuration still
// has a two-voter half containing a node that the committed configuration has removed or demoted
// to learner. The survivor needs that node's vote for its stale quorum; a removed node is stopped
// and a demoted one neither campaigns nor votes for a shorter log.
func (c *Cluster) twoVoterException(members map[uint64]bool) bool {
	voters := map[uint64]bool{}
	if cs := c.committedConf(); cs != nil {
		for _, id := range cs.GetVoters() {
			voters[id] = true
		}
		for _, id := range cs.GetVotersOutgoing() {
			voters[id] = true
		}
	}
	for _, id := range c.ids {
		n := c.nodes[id]
		if !members[id] || !n.alive || n.rn == nil {
			continue
		}
		d := n.rn.VerifState()
		for _, half := range d.Config.Voters {
			if len(half) == 2 {
				for v := range half {
					if !members[v] || !voters[v] {
						return true
					}
				}
			}
		}
	}
	return false
}

// debugState prints one line per node (VERIF_HEAL_DEBUG=1).
func (c *Cluster) debugState(tag string) {
	if os.Getenv("VERIF_HEAL_DEBUG") == "" {
		return
	}
	c.debugStateAlways(tag)
}

func (c *Cluster) debugStateAlways(tag string) {
	fmt.Fprintf(os.Stderr, "-- %s net=%d\n", tag, len(c.net))
	for _, id := range c.ids {
		n := c.nodes[id]
		if !n.alive || n.rn == nil {
			fmt.Fprintf(os.Stderr, "   node %d down\n", id)
			continue
		}
		d := n.rn.VerifState()
		v := n.logView(&d)
		fmt.Fprintf(os.Stderr, "   node %d %s term=%d lead=%d commit=%d applied=%d/%d last=%d/%d cfg=%s unst=%d xfer=%d pci=%d usz=%d", id, d.State, d.Term, d.Lead,
			d.Committed, d.Applied, n.app.applied, v.last(), v.lastTerm(), cfgStr(d.Config), len(d.UnstableEntries), d.LeadTransferee, d.PendingConfIndex, d.UncommittedSize)
		if d.State == raft.StateLeader {
			for _, pid := range sortedU64(d.Progress) {
				pr := d.Progress[pid]
				fmt.Fprintf(os.Stderr, " [%d:%s m=%d n=%d p=%v if=%d ra=%v ps=%d]", pid, pr.State, pr.Match, pr.Next, pr.Paused, pr.InflCount, pr.RecentActive, pr.PendingSnapshot)
			}
		}
		fmt.Fprintln(os.Stderr)
	}
}

// duel: there is no leader, but some member that could win an election (it is a voter of its own
// configuration, has nothing committed but unapplied that would stop it from campaigning, and the
// members whose logs are not ahead of its own form a quorum of every voter set of its
// configuration) has campaigned since round [since].
func (c *Cluster) duel(members map[uint64]bool, campaigned map[uint64]int, since int) bool {
	type info struct {
		d raft.VerifDump
		v logView
	}
	st := map[uint64]info{}
	for _, n := range c.alive() {
		if n.rn == nil || !members[n.id] {
			continue
		}
		d := n.rn.VerifState()
		if d.State == raft.StateLeader {
			return false
		}
		st[n.id] = info{d, n.logView(&d)}
	}
	for id, m := range st {
		pr, ok := m.d.Progress[id]
		if !ok || pr.IsLearner || m.d.Applied < m.d.Committed {
			continue
		}
		if r, ok := campaigned[id]; !ok || r < since {
			continue
		}
		grants := func(q uint64) bool {
			if q == id {
				return true
			}
			o, ok := st[q]
			if !ok {
				return false
			}
			return m.v.lastTerm() > o.v.lastTerm() || (m.v.lastTerm() == o.v.lastTerm() && m.v.last() >= o.v.last())
		}
		if jointQuorum(m.d.Config, grants) {
			return true
		}
	}
	return false
}

// signature: what heal looks at to decide that nothing moves any more (timers excluded).
func (c *Cluster) signature() string {
	var sb strings.Builder
	fmt.Fprintf(&sb, "net=%d;", len(c.net))
	for _, id := range c.ids {
		n := c.nodes[id]
		if !n.alive || n.rn == nil {
			fmt.Fprintf(&sb, "%d:down;", id)
			continue
		}
		d := n.rn.VerifState()
		v := n.logView(&d)
		fmt.Fprintf(&sb, "%d:%s/%d/%d/%d/%d/%d/%d/%d/%s/%d/%d", id, d.State, d.Term, d.Vote, d.Lead, d.Committed, d.Applied, v.last(), v.lastTerm(), cfgStr(d.Config),
			len(d.UnstableEntries), d.LeadTransferee)
		for _, pid := range sortedU64(d.Progress) {
			pr := d.Progress[pid]
			fmt.Fprintf(&sb, "[%d:%s/%d/%d/%d/%v]", pid, pr.State, pr.Match, pr.Next, pr.PendingSnapshot, pr.Paused)
		}
		sb.WriteByte(';')
	}
	return sb.String()
}

func (c *Cluster) healRound() {
	if c.over() {
		return
	}
	// a cooperative application: a leader that may have to send a snapshot gets one that
	// covers what it has applied (in particular the current membership)
	for _, n := range c.alive() {
		if n.rn != nil && n.rn.VerifState().State == raft.StateLeader {
			c.execOp(fmt.Sprintf("snapshot %d", n.id))
		}
	}
	c.execOp("tickall")
	c.execOp(fmt.Sprintf("flush %d", healFlushRounds))
}

func (c *Cluster) heal() {
	if c.stopped || len(c.tainted) > 0 {
		return
	}
	defer func() {
		if c.overrun != "" && len(c.tainted) == 0 {
			c.mon.report("C15", "", "the fault-free suffix does not quiesce: %s", c.overrun)
		}
	}()
	c.mon.healRuns++
	c.blocked = map[[2]uint64]bool{}
	retired := map[uint64]bool{}
	et := c.base.ET
	var members map[uint64]bool
	var st convState
	rounds := 0
	c.debugState("heal starts")
	// a cluster whose nodes have not changed at all for more than three election timeouts (every
	// randomized timeout has fired by then) will not change any more: stop waiting
	last, same := "", 0
	campaigned := map[uint64]int{}
	maxT := healMaxTimeouts
	if v := os.Getenv("VERIF_HEAL_MAX"); v != "" {
		fmt.Sscan(v, &maxT)
	}
	for ; rounds < maxT*et && !c.stopped; rounds++ {
		members = c.settle(retired)
		if len(members) == 0 {
			return
		}
		c.healRound()
		if os.Getenv("VERIF_HEAL_TRACE") != "" {
			fmt.Fprintf(os.Stderr, "round %d:", rounds)
			for _, n := range c.alive() {
				d := n.rn.VerifState()
				fmt.Fprintf(os.Stderr, " %d:%s/t%d/ee%d/ret%d/v%d", n.id, d.State, d.Term, d.ElectionElapsed, d.RandomizedElectionTimeout, d.Vote)
			}
			fmt.Fprintln(os.Stderr)
		}
		if st = c.converged(c.settle(retired)); st.ok {
			break
		}
		if sig := c.signature(); sig == last {
			if same++; same > 3*et+2 {
				break
			}
		} else {
			last, same = sig, 0
		}
		for _, n := range c.alive() {
			if d := n.rn.VerifState(); d.State == raft.StateCandidate || d.State == raft.StatePreCandidate || d.State == raft.StateLeader {
				campaigned[n.id] = rounds
			}
		}
		if rounds >= healTimeouts*et && !c.duel(members, campaigned, rounds-healTimeouts*et/2) {
			break // nobody who could win an election is still trying: the group will not converge
		}
	}
	if c.stopped || len(c.tainted) > 0 {
		return
	}
	members = c.settle(retired)
	if st = c.converged(members); !st.ok {
		if c.twoVoterException(members) {
			c.mon.excepted++
			return
		}
		if rounds >= healTimeouts*et && c.duel(members, campaigned, rounds-healTimeouts*et/2) {
			// an election that can still be won is being fought for a very long time: competing
			// candidates without PreVote / CheckQuorum, typically one of them a voter whose stale
			// configuration does not know the other. Liveness is probabilistic there; not decided.
			c.mon.undecided++
			return
		}
		c.debugState("no convergence")
		c.mon.report("C15", "", "no convergence %d election timeouts after the faults stopped: %s", rounds/et, st.why)
		if strings.Contains(st.why, "that leaves automatically") {
			// C10: an auto-leave joint configuration is left by the leader itself once applied
			c.mon.report("C10", "", "%d election timeouts after the faults stopped: %s", rounds/et, st.why)
		}
		return
	}
	c.mon.healed++
	c.mon.healRounds += rounds
	// every proposal accepted from now on is committed and applied by every member
	var toks []string
	for i := 0; i < healProposals; i++ {
		c.tok++
		tok := fmt.Sprintf("p%d", c.tok)
		out := st.leader.propose([]byte(tok))
		d := st.leader.rn.VerifState()
		c.mon.onPropose(tok, out, d.State == raft.StateLeader)
		c.mon.afterOp(st.leader, "propose")
		if out == "res=ok" {
			toks = append(toks, tok)
		}
	}
	for r := 0; r < healAfterwards*et && !c.stopped; r++ {
		c.healRound()
		if st = c.converged(c.settle(retired)); st.ok {
			break
		}
	}
	if c.stopped || len(c.tainted) > 0 {
		return
	}
	members = c.settle(retired)
	if st = c.converged(members); !st.ok {
		if c.twoVoterException(members) {
			c.mon.excepted++
		} else {
			c.mon.report("C15", "", "proposals after convergence: no convergence within %d election timeouts: %s", healAfterwards, st.why)
		}
		return
	}
	for _, n := range st.members {
		d := n.rn.VerifState()
		v := n.logView(&d)
		found := map[string]bool{}
		for _, e := range v.ents {
			if e.GetType() == pb.EntryNormal && e.GetIndex() <= n.app.applied {
				found[string(e.GetData())] = true
			}
		}
		for _, tok := range toks {
			if !found[tok] {
				c.mon.report("C15", "", "proposal %q accepted by the leader after convergence was not applied by member %d", tok, n.id)
			}
		}
	}
}
