package main

import (
	"fmt"
	"os"

	pb "go.etcd.io/raft/v3/raftpb"
)

// netIndex: position in the network of the first message of type t addressed to [to] (-1: none)
func (x *gen) netIndex(t pb.MessageType, to uint64) int {
	for i, m := range x.c.net {
		if m.GetType() == t && m.GetTo() == to {
			return i
		}
	}
	return -1
}

func (x *gen) idle() {
	x.c.exec("tickall")
	x.c.exec("flush 3")
}

// directedDupVote (asynchronous storage writes): a voter receives a vote request, accepts the
// Ready that carries the vote's hard state without the append thread running, receives a
// duplicate of the request, accepts again; then it crashes before the write happens and another
// candidate asks for its vote in the same term.
func (x *gen) directedDupVote() {
	c := x.c
	if !c.base.Async || len(c.alive()) < 3 {
		x.idle()
		return
	}
	c.exec("flush 4")
	var cand *Node
	for _, n := range c.alive() {
		if !x.isLeader(n) && (cand == nil || x.g.Intn(2) == 0) {
			cand = n
		}
	}
	if cand == nil {
		x.idle()
		return
	}
	c.exec(fmt.Sprintf("campaign %d", cand.id))
	// serve everything except real vote requests until some are in flight (pre-vote phase, own vote)
	for r := 0; r < 6; r++ {
		c.exec(fmt.Sprintf("process %d", cand.id))
		have := false
		for i := 0; i < len(c.net) && !c.stopped; {
			if c.net[i].GetType() == pb.MsgVote {
				have = true
				i++
				continue
			}
			to := c.net[i].GetTo()
			c.exec(fmt.Sprintf("deliver %d", i))
			if n := c.nodes[to]; n != nil && n.alive && n != cand {
				c.exec(fmt.Sprintf("process %d", to))
			}
		}
		if have {
			break
		}
	}
	var v *Node
	for _, n := range x.others(cand.id) {
		if x.netIndex(pb.MsgVote, n.id) >= 0 && len(n.app.appendQ) == 0 && (v == nil || x.g.Intn(2) == 0) {
			v = n
		}
	}
	if v == nil {
		c.exec("flush 4")
		return
	}
	c.exec(fmt.Sprintf("dup %d", x.netIndex(pb.MsgVote, v.id)))
	c.exec(fmt.Sprintf("sub %d", v.id)) // hard state {term, vote} handed to the append thread
	if k := x.netIndex(pb.MsgVote, v.id); k >= 0 {
		c.exec(fmt.Sprintf("deliver %d", k)) // the duplicate
	}
	c.exec(fmt.Sprintf("sub %d", v.id))
	if x.g.Intn(2) == 0 {
		// the write never happens; a second candidate asks in the same term
		c.exec(fmt.Sprintf("crash %d", v.id))
		c.exec(fmt.Sprintf("restart %d", v.id))
		for _, n := range x.others(v.id) {
			if n != cand && !x.isLeader(n) {
				c.exec(fmt.Sprintf("campaign %d", n.id))
				c.exec(fmt.Sprintf("process %d", n.id))
				break
			}
		}
	}
	c.exec("flush 6")
}

// directedSnapLead (byte-limited inflight window): a follower is restored from a snapshot, is
// elected later, and streams padded entries to a follower whose acknowledgements do not arrive.
func (x *gen) directedSnapLead() {
	c := x.c
	l := x.leader()
	if l == nil || len(c.alive()) < 3 || c.base.MaxInflightBytes == 0 {
		x.idle()
		return
	}
	f := x.others(l.id)[x.g.Intn(len(x.others(l.id)))]
	x.isolate(f)
	for i := 0; i < 3; i++ {
		c.exec(fmt.Sprintf("propose %d", l.id))
	}
	for r := 0; r < 4; r++ {
		for _, n := range x.others(f.id) {
			c.exec(fmt.Sprintf("process %d", n.id))
		}
		x.deliverAll()
	}
	c.exec(fmt.Sprintf("snapshot %d", l.id))
	c.exec(fmt.Sprintf("compact %d 1000", l.id))
	c.exec("unblock")
	for r := 0; r < 3*l.cfg.ET; r++ {
		c.exec(fmt.Sprintf("tick %d", l.id))
		c.exec("flush 3")
	}
	// f takes over
	t := x.termOf(l)
	if x.electAmong(c.alive(), t, f) != f {
		c.exec("flush 4")
		return
	}
	c.exec("flush 4") // everybody replicates from f
	g := x.others(f.id)[x.g.Intn(len(x.others(f.id)))]
	for i := 0; i < 12; i++ {
		c.exec(fmt.Sprintf("propose %d %d", f.id, 20+x.g.Intn(60)))
		c.exec(fmt.Sprintf("process %d", f.id))
		// everybody but g is served
		for k := 0; k < len(c.net) && !c.stopped; {
			if c.net[k].GetTo() == g.id || c.net[k].GetFrom() == g.id {
				k++
				continue
			}
			to := c.net[k].GetTo()
			c.exec(fmt.Sprintf("deliver %d", k))
			if n := c.nodes[to]; n != nil && n.alive && n != f {
				c.exec(fmt.Sprintf("process %d", to))
			}
		}
	}
	c.exec("flush 6")
}

// directedReReads (ReadOnlySafe, five or more voters): a node leads, serves reads, is deposed,
// leads again, and is then cut off together with one peer while the majority moves on; a read
// is requested from it.
func (x *gen) directedReReads() {
	c := x.c
	a := x.leader()
	if a == nil || len(c.alive()) < 5 || c.base.Lease {
		x.idle()
		return
	}
	c.exec("flush 4")
	n1 := 1 + x.g.Intn(2)
	for i := 0; i < n1; i++ {
		c.exec(fmt.Sprintf("readindex %d", a.id))
		c.exec("flush 3")
	}
	rest := x.others(a.id)
	b, cc := rest[0], rest[1]
	// b takes over while a is cut off, then a comes back and leads again
	x.isolate(a)
	if !x.elect(b) {
		c.exec("unblock")
		c.exec("flush 4")
		return
	}
	c.exec("unblock")
	c.exec("flush 4")
	if !x.elect(a) {
		c.exec("flush 4")
		return
	}
	c.exec("flush 4")
	c.exec(fmt.Sprintf("propose %d", a.id))
	c.exec("flush 4")
	// a and cc on one side, the majority on the other
	for _, n := range rest {
		if n != cc {
			c.exec(fmt.Sprintf("block %d %d", a.id, n.id))
			c.exec(fmt.Sprintf("block %d %d", cc.id, n.id))
		}
	}
	x.net0()
	if x.elect(b) {
		for i := 0; i < 2; i++ {
			c.exec(fmt.Sprintf("propose %d", b.id))
			for r := 0; r < 3; r++ {
				for _, n := range rest {
					if n != cc {
						c.exec(fmt.Sprintf("process %d", n.id))
					}
				}
				x.deliverAll()
			}
		}
	}
	if x.isLeader(a) {
		// as many reads as the first leadership served, or one more, queued back to back
		for i, n2 := 0, n1+x.g.Intn(2); i < n2; i++ {
			c.exec(fmt.Sprintf("readindex %d", a.id))
		}
		for r := 0; r < 3; r++ {
			c.exec(fmt.Sprintf("process %d", a.id))
			x.deliverAll()
			c.exec(fmt.Sprintf("process %d", cc.id))
			x.deliverAll()
		}
	}
	c.exec("unblock")
	c.exec("flush 6")
}

// directedSnapApply (asynchronous storage writes): a follower has handed committed entries to its
// apply thread, which lags; meanwhile the leader compacts, the follower is sent a snapshot beyond
// those entries and its append thread installs it; only then does the apply thread finish.
func (x *gen) directedSnapApply() {
	c := x.c
	l := x.leader()
	if l == nil || !c.base.Async || len(c.alive()) < 3 {
		x.idle()
		return
	}
	c.exec("flush 4")
	f := x.others(l.id)[x.g.Intn(len(x.others(l.id)))]
	// f learns of a committed normal entry and hands it to the apply thread, which does not run
	c.exec(fmt.Sprintf("propose %d", l.id))
	for r := 0; r < 4; r++ {
		for _, n := range x.others(f.id) {
			c.exec(fmt.Sprintf("process %d", n.id))
		}
		x.deliverAll()
		c.exec(fmt.Sprintf("sub %d", f.id))
		c.exec(fmt.Sprintf("appendthread %d", f.id))
		if len(f.app.applyQ) > 0 {
			break
		}
		c.exec(fmt.Sprintf("tick %d", l.id))
	}
	if len(f.app.applyQ) == 0 {
		c.exec("flush 4")
		return
	}
	// f is cut off; the others move on, the leader compacts
	x.isolate(f)
	x.net0()
	for i := 0; i < 4; i++ {
		c.exec(fmt.Sprintf("propose %d", l.id))
	}
	for r := 0; r < 4; r++ {
		for _, n := range x.others(f.id) {
			c.exec(fmt.Sprintf("process %d", n.id))
		}
		x.deliverAll()
	}
	c.exec(fmt.Sprintf("unreach %d %d", l.id, f.id))
	c.exec(fmt.Sprintf("snapshot %d", l.id))
	c.exec(fmt.Sprintf("compact %d 1000", l.id))
	c.exec("unblock")
	usnap := func() bool {
		if !f.alive || f.rn == nil {
			return false
		}
		d := f.rn.VerifState()
		return d.UnstableSnapshot != nil
	}
	// serve f's Ready and append thread only; the apply thread stays behind
	for r := 0; r < 10 && !usnap(); r++ {
		c.exec(fmt.Sprintf("tick %d", l.id))
		c.exec(fmt.Sprintf("process %d", l.id))
		x.deliverAll()
		c.exec(fmt.Sprintf("sub %d", f.id))
		c.exec(fmt.Sprintf("appendthread %d", f.id))
		x.deliverAll()
	}
	if usnap() {
		c.exec(fmt.Sprintf("sub %d", f.id))
		for len(f.app.appendQ) > 0 && f.alive && !c.stopped {
			c.exec(fmt.Sprintf("appendthread %d", f.id)) // installs the snapshot, acknowledges it
		}
	}
	for len(f.app.applyQ) > 0 && f.alive && !c.stopped {
		c.exec(fmt.Sprintf("applythread %d", f.id)) // the late acknowledgement of the old entries
	}
	c.exec("flush 6")
}

// directedABA (asynchronous storage writes, five voters): one index of a follower is written in
// term t1, overwritten in t2 and handed out again with the t1 entry in t3, while the
// acknowledgements of the finished writes are still on their way; then they arrive.
func (x *gen) directedABA() {
	c := x.c
	l1 := x.leader()
	if l1 == nil || !c.base.Async || len(c.alive()) < 5 {
		x.idle()
		return
	}
	c.exec("flush 4")
	rest := x.others(l1.id)
	f, n2 := rest[0], rest[1]
	write := func() { // f's append thread writes everything queued; the acknowledgements are held back
		for len(f.app.appendQ) > 0 && f.alive && !c.stopped {
			c.exec(fmt.Sprintf("appendthread %d hold", f.id))
		}
	}
	// (k, t1) reaches f only
	for _, n := range rest {
		if n != f {
			c.exec(fmt.Sprintf("block %d %d", l1.id, n.id))
		}
	}
	c.exec(fmt.Sprintf("propose %d", l1.id))
	c.exec(fmt.Sprintf("process %d", l1.id))
	x.deliverAll()
	if !l1.alive || l1.rn == nil {
		c.exec("unblock")
		c.exec("flush 5")
		return
	}
	t1 := x.termOf(l1)
	dl := l1.rn.VerifState()
	k := l1.logView(&dl).last()
	c.exec(fmt.Sprintf("sub %d", f.id))
	write()
	// n2 wins the next term with the votes of the two others; its empty entry (k, t2) reaches f only
	x.isolate(l1)
	x.isolate(f)
	x.net0()
	var side []*Node
	for _, n := range rest {
		if n != f {
			side = append(side, n)
		}
	}
	if x.electAmong(side, t1, n2) != n2 { // f is not served meanwhile: its acknowledgements stay queued
		c.exec("unblock")
		c.exec("flush 5")
		return
	}
	c.exec("unblock")
	for _, n := range rest {
		if n != f && n != n2 {
			c.exec(fmt.Sprintf("block %d %d", n2.id, n.id))
		}
	}
	x.net0()
	// n2 serves f; of n2's traffic only heartbeats reach l1 (it learns the term, keeps its log)
	serve := func(from *Node, only pb.MessageType) {
		for i := 0; i < len(c.net) && !c.stopped; {
			m := c.net[i]
			if m.GetTo() == l1.id && m.GetFrom() == from.id && m.GetType() != only {
				c.exec(fmt.Sprintf("drop %d", i))
				continue
			}
			c.exec(fmt.Sprintf("deliver %d", i))
		}
	}
	for r := 0; r < 6; r++ {
		c.exec(fmt.Sprintf("tick %d", n2.id))
		c.exec(fmt.Sprintf("process %d", n2.id))
		serve(n2, pb.MsgHeartbeat)
		c.exec(fmt.Sprintf("sub %d", f.id))
		write()
		c.exec(fmt.Sprintf("process %d", l1.id))
		serve(n2, pb.MsgHeartbeat)
	}
	// l1 wins a later term with the two others and replicates (k, t1) and its new entry to f
	x.isolate(n2)
	x.isolate(f)
	x.net0()
	t2 := x.termOf(n2)
	var voters []*Node
	for _, n := range c.alive() {
		if n != n2 && n != f {
			voters = append(voters, n)
		}
	}
	if x.electAmong(voters, t2, l1) != l1 {
		c.exec("unblock")
		c.exec("flush 5")
		return
	}
	c.exec("unblock")
	x.isolate(n2)
	x.net0()
	again := func() bool { // does f hold (k, t1) in its unstable log again?
		if !f.alive || f.rn == nil {
			return false
		}
		d := f.rn.VerifState()
		for _, e := range d.UnstableEntries {
			if e.GetIndex() == k && e.GetTerm() == t1 && d.Term > t2 {
				return true
			}
		}
		return false
	}
	for r := 0; r < 14 && !again(); r++ {
		c.exec(fmt.Sprintf("tick %d", l1.id))
		c.exec(fmt.Sprintf("process %d", l1.id))
		x.deliverAll()
		if again() {
			break
		}
		c.exec(fmt.Sprintf("sub %d", f.id))
		write()
		x.deliverAll()
	}
	if os.Getenv("VERIF_DIR_DEBUG") != "" {
		fmt.Fprintf(os.Stderr, "aba: f=%d l1=%d n2=%d k=%d t1=%d t2=%d again=%v acks=%d\n", f.id, l1.id, n2.id, k, t1, t2, again(), len(f.app.ackQ))
	}
	// the third hand-out is accepted but not written yet; the old acknowledgements arrive
	c.exec(fmt.Sprintf("sub %d", f.id))
	for len(f.app.ackQ) > 0 && f.alive && !c.stopped {
		c.exec(fmt.Sprintf("ackthread %d", f.id))
	}
	c.exec("unblock")
	c.exec("flush 6")
	x.midTruncateQueued()
}

// directedXferJoint: a leader applies the entry that enters a joint configuration with automatic
// leave while a leadership transfer to an unreachable node is pending (the proposal that leaves
// the joint configuration is dropped then); the transfer times out; nothing else is proposed.
func (x *gen) directedXferJoint() {
	c := x.c
	l := x.leader()
	if l == nil || len(c.alive()) < 3 || c.base.Async {
		x.idle()
		return
	}
	c.exec("flush 4")
	if !l.alive || l.rn == nil {
		return
	}
	d := l.rn.VerifState()
	if len(d.Config.Voters[1]) > 0 {
		x.idle()
		return
	}
	// a joint change with automatic leave: demote one follower and promote it again is not
	// accepted in one change, so: add a learner id (or remove a learner) together with a no-op update
	var t *Node
	for _, n := range x.others(l.id) {
		t = n
	}
	spec := fmt.Sprintf("v2:implicit:u%d", l.id)
	c.exec(fmt.Sprintf("proposecc %d %s", l.id, spec))
	// replicate and commit, but stop the leader right after it has applied the entry and before Advance
	for r := 0; r < 6; r++ {
		for _, n := range x.others(l.id) {
			c.exec(fmt.Sprintf("process %d", n.id))
		}
		x.deliverAll()
		for st := 0; st < 6; st++ {
			if l.app.stage == 4 && l.app.rd != nil && len(l.app.rd.CommittedEntries) > 0 {
				break
			}
			c.exec(fmt.Sprintf("sub %d", l.id))
		}
		if l.app.stage == 4 && l.app.rd != nil && len(l.app.rd.CommittedEntries) > 0 {
			break
		}
	}
	joint := func() bool {
		if !l.alive || l.rn == nil {
			return false
		}
		d := l.rn.VerifState()
		return len(d.Config.Voters[1]) > 0 && d.Config.AutoLeave
	}
	if !(l.app.stage == 4 && joint()) {
		c.exec("flush 5")
		return
	}
	// the transfer target cannot be reached
	x.isolate(t)
	c.exec(fmt.Sprintf("transfer %d %d", l.id, t.id))
	c.exec(fmt.Sprintf("sub %d", l.id)) // Advance: appliedTo -> the leave proposal is dropped
	c.exec("unblock")
	c.exec("flush 4")
}

// directedSoloRead (a single voter, asynchronous storage writes): the application applies a
// committed entry while the hard state carrying that commit index is still queued; the node
// crashes, restarts, becomes leader again and is asked for a read index before it has committed
// anything in its new term.
func (x *gen) directedSoloRead() {
	c := x.c
	l := x.leader()
	if l == nil || !c.base.Async || c.base.Lease || len(c.alive()) != 1 {
		x.idle()
		return
	}
	d := l.rn.VerifState()
	if len(d.Config.Voters[0]) != 1 || len(d.Config.Voters[1]) != 0 {
		x.idle()
		return
	}
	c.exec("flush 3")
	c.exec(fmt.Sprintf("propose %d", l.id))
	c.exec(fmt.Sprintf("sub %d", l.id))
	for len(l.app.appendQ) > 0 && l.alive && !c.stopped {
		c.exec(fmt.Sprintf("appendthread %d", l.id)) // the entry is durable, the node commits it
	}
	c.exec(fmt.Sprintf("sub %d", l.id)) // Ready: hard state {commit} to the append thread, the entry to the apply thread
	for len(l.app.applyQ) > 0 && l.alive && !c.stopped {
		c.exec(fmt.Sprintf("applythread %d", l.id))
	}
	c.exec(fmt.Sprintf("crash %d", l.id)) // the commit index was never written
	c.exec(fmt.Sprintf("restart %d", l.id))
	for i := 0; i < 2*l.cfg.ET+2 && !x.isLeader(l); i++ {
		c.exec(fmt.Sprintf("tick %d", l.id))
		if !x.isLeader(l) {
			c.exec(fmt.Sprintf("process %d", l.id))
		}
	}
	if x.isLeader(l) {
		c.exec(fmt.Sprintf("readindex %d", l.id))
	}
	c.exec("flush 5")
}

// directedReadHeartbeat: a deposed leader with a divergent uncommitted tail rejoins; before any
// append has repaired its log it receives the heartbeat that carries a pending ReadIndex request
// of the new leader.
func (x *gen) directedReadHeartbeat() {
	c := x.c
	a := x.leader()
	if a == nil || len(c.alive()) < 3 || c.base.Lease {
		x.idle()
		return
	}
	c.exec("flush 4")
	// a is cut off with uncommitted entries
	x.isolate(a)
	x.net0()
	for i := 0; i < 2; i++ {
		c.exec(fmt.Sprintf("propose %d", a.id))
	}
	c.exec(fmt.Sprintf("process %d", a.id))
	x.net0()
	// the others elect b and commit other entries at the same indexes
	rest := x.others(a.id)
	b := x.electAmong(rest, x.termOf(a), nil)
	if b == nil {
		c.exec("unblock")
		c.exec("flush 5")
		return
	}
	for i := 0; i < 3; i++ {
		c.exec(fmt.Sprintf("propose %d", b.id))
	}
	for r := 0; r < 4; r++ {
		for _, n := range rest {
			c.exec(fmt.Sprintf("process %d", n.id))
		}
		x.deliverAll()
	}
	// another of them takes over (its Next for a starts beyond everything committed so far) and
	// commits its own first entry
	if len(rest) > 1 {
		var cand *Node
		for _, n := range rest {
			if n != b {
				cand = n
			}
		}
		if nb := x.electAmong(rest, x.termOf(b), cand); nb != nil {
			b = nb
			for r := 0; r < 4; r++ {
				for _, n := range rest {
					c.exec(fmt.Sprintf("process %d", n.id))
				}
				x.deliverAll()
			}
		}
	}
	// a is reachable again, but only heartbeats get through to it for a while
	c.exec("unblock")
	x.net0()
	c.exec(fmt.Sprintf("readindex %d", b.id))
	for r := 0; r < 3 && !c.stopped; r++ {
		c.exec(fmt.Sprintf("tick %d", b.id))
		c.exec(fmt.Sprintf("process %d", b.id))
		for i := 0; i < len(c.net) && !c.stopped; {
			m := c.net[i]
			if m.GetTo() == a.id && m.GetType() != pb.MsgHeartbeat {
				c.exec(fmt.Sprintf("drop %d", i))
				continue
			}
			c.exec(fmt.Sprintf("deliver %d", i))
		}
		for _, n := range c.alive() {
			if n != b {
				c.exec(fmt.Sprintf("process %d", n.id))
			}
		}
	}
	c.exec("flush 6")
}

// directedSelfAck (asynchronous storage writes): the leader hands new entries to its append thread,
// which does not run; a follower persists and acknowledges them first; then the leader crashes.
func (x *gen) directedSelfAck() {
	c := x.c
	l := x.leader()
	if l == nil || !c.base.Async || len(c.alive()) < 3 {
		x.idle()
		return
	}
	c.exec("flush 4")
	if !l.alive || l.rn == nil {
		return
	}
	rest := x.others(l.id)
	f := rest[x.g.Intn(len(rest))]
	c.exec(fmt.Sprintf("propose %d", l.id))
	c.exec(fmt.Sprintf("sub %d", l.id)) // MsgApp goes out, the leader's own write is queued
	// only f receives the entries, persists them and acknowledges
	for i := 0; i < len(c.net) && !c.stopped; {
		if m := c.net[i]; m.GetTo() != f.id {
			c.exec(fmt.Sprintf("drop %d", i))
			continue
		}
		c.exec(fmt.Sprintf("deliver %d", i))
	}
	c.exec(fmt.Sprintf("process %d", f.id))
	for i := 0; i < len(c.net) && !c.stopped; {
		if m := c.net[i]; m.GetTo() != l.id {
			c.exec(fmt.Sprintf("drop %d", i))
			continue
		}
		c.exec(fmt.Sprintf("deliver %d", i))
	}
	c.exec(fmt.Sprintf("sub %d", l.id)) // commit index after f's acknowledgement alone?
	if x.g.Intn(2) == 0 {
		c.exec(fmt.Sprintf("crash %d", l.id))
		c.exec(fmt.Sprintf("restart %d", l.id))
		// the others elect a leader among themselves without f
		x.isolate(f)
		var side []*Node
		for _, n := range c.alive() {
			if n != f {
				side = append(side, n)
			}
		}
		if nl := x.electAmong(side, 0, nil); nl != nil {
			c.exec(fmt.Sprintf("propose %d", nl.id))
		}
		c.exec("unblock")
	}
	c.exec("flush 6")
	x.stalledFollowerAck()
}

// stalledFollowerAck (asynchronous storage writes): a follower has handed entries to its append
// thread, which does not run; heartbeats and the empty appends that follow them go back and forth.
// The follower must not acknowledge those entries before they are written, and the leader must not
// commit them on the strength of such an acknowledgement.
func (x *gen) stalledFollowerAck() {
	c := x.c
	l := x.leader()
	if l == nil || !c.base.Async || len(c.alive()) != 3 {
		return
	}
	rest := x.others(l.id)
	f, third := rest[0], rest[1]
	c.exec(fmt.Sprintf("block %d %d", l.id, third.id))
	c.exec(fmt.Sprintf("block %d %d", f.id, third.id))
	x.net0()
	c.exec(fmt.Sprintf("propose %d", l.id))
	c.exec(fmt.Sprintf("process %d", l.id))
	x.deliverAll()
	c.exec(fmt.Sprintf("sub %d", f.id)) // the write is queued, not executed
	for r := 0; r < 3 && !c.stopped; r++ {
		for t := 0; t < l.cfg.HB; t++ {
			c.exec(fmt.Sprintf("tick %d", l.id))
		}
		c.exec(fmt.Sprintf("process %d", l.id))
		x.deliverAll()
		c.exec(fmt.Sprintf("sub %d", f.id))
		x.deliverAll()
		c.exec(fmt.Sprintf("process %d", l.id))
		x.deliverAll()
		c.exec(fmt.Sprintf("sub %d", f.id))
		x.deliverAll()
	}
	c.exec(fmt.Sprintf("process %d", l.id))
	c.exec(fmt.Sprintf("appendthread %d", f.id))
	c.exec("unblock")
	c.exec("flush 6")
}

// directedOddCalls: API calls in states where they must be refused or ignored: Campaign at a node
// that cannot be promoted, a leadership transfer to a learner or to the leader itself, local
// message types stepped as if they came from a peer, proposals at a node without a leader.
func (x *gen) directedOddCalls() {
	c := x.c
	c.exec("flush 3")
	for _, n := range c.alive() {
		d := n.rn.VerifState()
		pr, ok := d.Progress[n.id]
		if !ok || pr.IsLearner || d.IsLearner {
			c.exec(fmt.Sprintf("campaign %d", n.id))
			c.exec(fmt.Sprintf("process %d", n.id))
		}
		if x.g.Intn(2) == 0 {
			c.exec(fmt.Sprintf("steplocal %d %d", n.id, x.g.Intn(5)))
		}
	}
	if l := x.leader(); l != nil {
		d := l.rn.VerifState()
		for id, pr := range d.Progress {
			if pr.IsLearner {
				c.exec(fmt.Sprintf("transfer %d %d", l.id, id))
				break
			}
		}
		c.exec(fmt.Sprintf("transfer %d %d", l.id, l.id))
		c.exec(fmt.Sprintf("transfer %d 99", l.id)) // unknown node
		c.exec(fmt.Sprintf("unreach %d 99", l.id))
		c.exec(fmt.Sprintf("process %d", l.id))
	}
	c.exec("flush 3")
	x.campaignOnPendingSnapshot()
}

// campaignOnPendingSnapshot: a follower that fell behind the leader's compaction point steps the
// MsgSnap and, before its application has handled that Ready, is told to campaign (Campaign() or a
// MsgTimeoutNow): it must refuse quietly, the snapshot is not saved yet.
func (x *gen) campaignOnPendingSnapshot() {
	c := x.c
	l := x.leader()
	if l == nil || len(c.alive()) < 3 {
		return
	}
	f := x.others(l.id)[x.g.Intn(len(x.others(l.id)))]
	x.isolate(f)
	x.net0()
	for i := 0; i < 3; i++ {
		c.exec(fmt.Sprintf("propose %d", l.id))
	}
	for r := 0; r < 4; r++ {
		for _, n := range x.others(f.id) {
			c.exec(fmt.Sprintf("process %d", n.id))
		}
		x.deliverAll()
	}
	if !x.isLeader(l) {
		c.exec("unblock")
		return
	}
	c.exec(fmt.Sprintf("snapshot %d", l.id))
	c.exec(fmt.Sprintf("compact %d 1000", l.id))
	c.exec("unblock")
	x.net0()
	for r := 0; r < 8 && !c.stopped; r++ {
		c.exec(fmt.Sprintf("tick %d", l.id))
		c.exec(fmt.Sprintf("process %d", l.id))
		if i := x.netIndex(pb.MsgSnap, f.id); i >= 0 {
			if x.g.Intn(3) == 0 {
				// the other order: f has timed out and campaigns in a higher term when the snapshot
				// of the old term arrives; a stale message must not take the term back
				c.exec(fmt.Sprintf("campaign %d", f.id))
				c.exec(fmt.Sprintf("process %d", f.id))
				if j := x.netIndex(pb.MsgSnap, f.id); j >= 0 {
					c.exec(fmt.Sprintf("deliver %d", j))
				}
				c.exec(fmt.Sprintf("process %d", f.id))
				break
			}
			c.exec(fmt.Sprintf("deliver %d", i)) // stepped; the Ready that carries it is not handled yet
			if x.g.Intn(2) == 0 {
				c.exec(fmt.Sprintf("campaign %d", f.id))
			} else {
				c.exec(fmt.Sprintf("transfer %d %d", l.id, f.id))
				c.exec(fmt.Sprintf("process %d", l.id))
				if j := x.netIndex(pb.MsgTimeoutNow, f.id); j >= 0 {
					c.exec(fmt.Sprintf("deliver %d", j))
				} else {
					c.exec(fmt.Sprintf("campaign %d", f.id))
				}
			}
			break
		}
		x.deliverAll()
		c.exec(fmt.Sprintf("process %d", f.id))
	}
	c.exec("flush 6")
}

// directedSnapInactive (CheckQuorum): a follower is down long enough to be marked inactive while the
// leader compacts its log past it; the leader then has to decide about a snapshot for it.
func (x *gen) directedSnapInactive() {
	c := x.c
	l := x.leader()
	if l == nil || len(c.alive()) < 3 || !c.base.CheckQuorum {
		x.idle()
		return
	}
	c.exec("flush 4")
	if !l.alive || l.rn == nil {
		return
	}
	f := x.others(l.id)[x.g.Intn(len(x.others(l.id)))]
	c.exec(fmt.Sprintf("crash %d", f.id))
	for i := 0; i < 3; i++ {
		c.exec(fmt.Sprintf("propose %d", l.id))
	}
	for r := 0; r < 2*l.cfg.ET+2 && !c.stopped; r++ {
		c.exec("tickall")
		c.exec("flush 2")
	}
	if l = x.leader(); l == nil {
		c.exec(fmt.Sprintf("restart %d", f.id))
		c.exec("flush 5")
		return
	}
	c.exec(fmt.Sprintf("snapshot %d", l.id))
	c.exec(fmt.Sprintf("compact %d 1000", l.id))
	c.exec(fmt.Sprintf("propose %d", l.id)) // the leader tries to replicate to the inactive follower
	c.exec(fmt.Sprintf("process %d", l.id))
	c.exec(fmt.Sprintf("unreach %d %d", l.id, f.id))
	c.exec(fmt.Sprintf("propose %d", l.id))
	c.exec(fmt.Sprintf("process %d", l.id))
	c.exec(fmt.Sprintf("restart %d", f.id))
	c.exec("flush 6")
}

// directedSnapTerm (asynchronous storage writes): a follower accepts a snapshot; before its append
// thread has written it, the follower learns of a higher term; then the write is acknowledged with
// the old term.
func (x *gen) directedSnapTerm() {
	c := x.c
	l := x.leader()
	if l == nil || !c.base.Async || len(c.alive()) < 3 {
		x.idle()
		return
	}
	c.exec("flush 4")
	if !l.alive || l.rn == nil {
		return
	}
	rest := x.others(l.id)
	f := rest[0]
	var o *Node
	for _, n := range rest {
		if n != f {
			o = n
		}
	}
	// f falls behind a compaction
	x.isolate(f)
	for i := 0; i < 3; i++ {
		c.exec(fmt.Sprintf("propose %d", l.id))
	}
	for r := 0; r < 4; r++ {
		for _, n := range x.others(f.id) {
			c.exec(fmt.Sprintf("process %d", n.id))
		}
		x.deliverAll()
	}
	c.exec(fmt.Sprintf("snapshot %d", l.id))
	c.exec(fmt.Sprintf("compact %d 1000", l.id))
	c.exec("unblock")
	usnap := func() bool {
		if !f.alive || f.rn == nil {
			return false
		}
		d := f.rn.VerifState()
		return d.UnstableSnapshot != nil
	}
	for r := 0; r < 10 && !usnap() && !c.stopped; r++ {
		c.exec(fmt.Sprintf("tick %d", l.id))
		c.exec(fmt.Sprintf("process %d", l.id))
		x.deliverAll()
		if usnap() {
			break
		}
		c.exec(fmt.Sprintf("process %d", f.id))
		x.deliverAll()
	}
	if !usnap() || o == nil {
		c.exec("flush 5")
		return
	}
	c.exec(fmt.Sprintf("sub %d", f.id)) // the snapshot is handed to the append thread
	// o campaigns: f sees a higher term before the write is done
	x.net0()
	c.exec(fmt.Sprintf("campaign %d", o.id))
	c.exec(fmt.Sprintf("process %d", o.id))
	for i := 0; i < len(c.net) && !c.stopped; {
		if m := c.net[i]; m.GetTo() != f.id {
			c.exec(fmt.Sprintf("drop %d", i))
			continue
		}
		c.exec(fmt.Sprintf("deliver %d", i))
	}
	c.exec(fmt.Sprintf("sub %d", f.id))
	for len(f.app.appendQ) > 0 && f.alive && !c.stopped {
		c.exec(fmt.Sprintf("appendthread %d", f.id))
	}
	c.exec("flush 6")
}

// directedXferRemoved: the target of a pending leadership transfer is removed from the
// configuration by a change that the leader applies while the transfer is pending.
func (x *gen) directedXferRemoved() {
	c := x.c
	l := x.leader()
	if l == nil || len(c.alive()) < 3 || c.base.Async {
		x.idle()
		return
	}
	c.exec("flush 4")
	if !l.alive || l.rn == nil {
		return
	}
	d := l.rn.VerifState()
	if len(d.Config.Voters[1]) > 0 || len(d.Config.Voters[0]) < 3 {
		x.idle()
		return
	}
	var t *Node
	for _, n := range x.others(l.id) {
		if _, ok := d.Config.Voters[0][n.id]; ok {
			t = n
		}
	}
	if t == nil {
		x.idle()
		return
	}
	c.exec(fmt.Sprintf("proposecc %d v1:remove:%d", l.id, t.id))
	// replicate and commit; stop the leader when it holds the Ready that hands the change out, before
	// the application applies it
	ready := func() bool {
		if l.app.stage != 3 || l.app.rd == nil {
			return false
		}
		for _, e := range l.app.rd.CommittedEntries {
			if e.GetType() != pb.EntryNormal {
				return true
			}
		}
		return false
	}
	for r := 0; r < 6 && !ready() && !c.stopped; r++ {
		for _, n := range x.others(l.id) {
			c.exec(fmt.Sprintf("process %d", n.id))
		}
		x.deliverAll()
		for st := 0; st < 5 && !ready(); st++ {
			c.exec(fmt.Sprintf("sub %d", l.id))
		}
	}
	if ready() {
		x.isolate(t)
		c.exec(fmt.Sprintf("transfer %d %d", l.id, t.id)) // pending: the target cannot answer
		c.exec(fmt.Sprintf("sub %d", l.id))               // the application applies the removal
		c.exec(fmt.Sprintf("sub %d", l.id))
		c.exec("unblock")
	}
	c.exec("flush 5")
}

// directedCQReports (CheckQuorum): the leader is cut off from every peer; its transport keeps
// reporting the peers unreachable (and a pending snapshot as failed), which is local information,
// not a sign of life; after two election timeouts of ticks it must have stepped down.
func (x *gen) directedCQReports() {
	c := x.c
	l := x.leader()
	if l == nil || len(c.alive()) < 3 || !c.base.CheckQuorum {
		x.idle()
		return
	}
	c.exec("flush 4")
	if !l.alive || l.rn == nil {
		return
	}
	for _, o := range x.others(l.id) {
		c.exec(fmt.Sprintf("block %d %d", l.id, o.id))
	}
	if x.g.Intn(2) == 0 {
		c.exec(fmt.Sprintf("propose %d", l.id))
	}
	for r := 0; r < 2*l.cfg.ET+3 && !c.stopped && l.alive && l.rn != nil; r++ {
		if x.g.Intn(3) == 0 {
			c.exec("tickall")
		} else {
			c.exec(fmt.Sprintf("tick %d", l.id))
		}
		c.exec(fmt.Sprintf("process %d", l.id))
		for _, o := range x.others(l.id) {
			switch x.g.Intn(4) {
			case 0:
			case 1:
				c.exec(fmt.Sprintf("reportsnap %d %d", x.g.Intn(8), x.g.Intn(2)))
			default:
				c.exec(fmt.Sprintf("unreach %d %d", l.id, o.id))
			}
		}
	}
	c.exec("unblock")
	c.exec("flush 6")
}

// directedJointCampaign: five voters enter a joint configuration that removes two of them (so two
// voters belong to the outgoing half only), and while it is joint other nodes campaign: the vote
// requests go to the union of both halves, in a fixed order.
func (x *gen) directedJointCampaign() {
	c := x.c
	l := x.leader()
	if l == nil || len(c.alive()) < 5 {
		x.idle()
		return
	}
	c.exec("flush 4")
	if !l.alive || l.rn == nil || !x.isLeader(l) {
		return
	}
	cs := x.mostAdvancedConf()
	if len(cs.VotersOutgoing) > 0 || len(cs.Voters) < 5 {
		x.idle()
		return
	}
	var rest []uint64
	for _, id := range cs.Voters {
		if id != l.id {
			rest = append(rest, id)
		}
	}
	x.g.Shuffle(len(rest), func(i, j int) { rest[i], rest[j] = rest[j], rest[i] })
	a, b := rest[0], rest[1]
	c.exec(fmt.Sprintf("proposecc %d v2:explicit:r%d,r%d", l.id, a, b))
	c.exec("flush 8")
	for round := 0; round < 2 && !c.stopped; round++ {
		cand := c.nodes[rest[2+round%2]]
		if cand == nil || !cand.alive || cand.rn == nil {
			continue
		}
		x.elect(cand)
		c.exec("flush 4")
	}
	if nl := x.leader(); nl != nil {
		c.exec(fmt.Sprintf("proposecc %d leave", nl.id))
	}
	c.exec("flush 8")
}

// directedTwoCCBatch: the leader of three voters receives ONE proposal that carries two
// configuration changes, each removing one of the other voters. Only the first may take effect (the
// second is replaced by an empty entry); if both did, the leader would be the sole voter, commit on
// its own while cut off, and the other two would elect a leader that lacks those entries.
func (x *gen) directedTwoCCBatch() {
	c := x.c
	l := x.leader()
	if l == nil || len(c.alive()) != 3 {
		x.idle()
		return
	}
	c.exec("flush 4")
	cs := x.mostAdvancedConf()
	if !l.alive || l.rn == nil || !x.isLeader(l) || len(cs.VotersOutgoing) > 0 || len(cs.Voters) != 3 {
		x.idle()
		return
	}
	o := x.others(l.id)
	if len(o) != 2 {
		return
	}
	a, b := o[0], o[1]
	// b is cut off throughout; a receives the proposal's entries and acknowledges them, but never
	// learns that they are committed
	c.exec(fmt.Sprintf("block %d %d", l.id, b.id))
	c.exec(fmt.Sprintf("proposebatch %d 2 0 v1:remove:%d 1 v1:remove:%d", l.id, b.id, a.id))
	c.exec(fmt.Sprintf("process %d", l.id))
	x.deliverAll()
	c.exec(fmt.Sprintf("process %d", a.id))
	x.deliverAll() // the acknowledgement reaches the leader: committed under the old configuration
	c.exec(fmt.Sprintf("block %d %d", l.id, a.id))
	x.net0()
	for i := 0; i < 3; i++ {
		c.exec(fmt.Sprintf("process %d", l.id)) // applies what it committed
	}
	for i := 0; i < 2; i++ {
		c.exec(fmt.Sprintf("propose %d", l.id))
		c.exec(fmt.Sprintf("process %d", l.id))
		c.exec(fmt.Sprintf("process %d", l.id))
	}
	x.net0()
	// the others time out and elect one of themselves (a has the longer log)
	x.electAmong([]*Node{a, b}, x.termOf(l), nil)
	for r := 0; r < 3; r++ {
		c.exec(fmt.Sprintf("process %d", a.id))
		c.exec(fmt.Sprintf("process %d", b.id))
		x.deliverAll()
	}
	c.exec("unblock")
	c.exec("flush 8")
}

// directedSnapFinish: a deposed leader with an uncommitted tail must be caught up by snapshot; the
// transport reports the snapshot as delivered (ReportSnapshot finish) while the MsgSnap is still in
// flight, and a heartbeat of the new leader overtakes it. The heartbeat must not make the old
// leader commit anything on the strength of a snapshot it has not received.
func (x *gen) directedSnapFinish() {
	c := x.c
	a := x.leader()
	if a == nil || len(c.alive()) < 3 {
		x.idle()
		return
	}
	c.exec("flush 4")
	if !a.alive || a.rn == nil || !x.isLeader(a) {
		return
	}
	giveUp := func() {
		c.exec("unblock")
		c.exec("flush 4")
	}
	// a is cut off with uncommitted entries of its own
	x.isolate(a)
	x.net0()
	for i := 0; i < 3; i++ {
		c.exec(fmt.Sprintf("propose %d", a.id))
	}
	c.exec(fmt.Sprintf("process %d", a.id))
	x.net0()
	// another node wins a higher term and commits other entries at those indexes
	b := x.electAmong(x.others(a.id), x.termOf(a), nil)
	if b == nil {
		giveUp()
		return
	}
	for i := 0; i < 2; i++ {
		c.exec(fmt.Sprintf("propose %d", b.id))
	}
	for r := 0; r < 5; r++ {
		for _, m := range x.others(a.id) {
			c.exec(fmt.Sprintf("process %d", m.id))
		}
		x.deliverAll()
	}
	if !x.isLeader(b) {
		giveUp()
		return
	}
	// b snapshots and compacts beyond what a could be sent as entries
	c.exec(fmt.Sprintf("snapshot %d", b.id))
	c.exec(fmt.Sprintf("compact %d 1000", b.id))
	c.exec("unblock")
	x.net0()
	// heartbeat, a answers, b finds that it must send a snapshot; the MsgSnap stays in flight
	for r := 0; r < 6 && x.netIndex(pb.MsgSnap, a.id) < 0 && !c.stopped; r++ {
		c.exec(fmt.Sprintf("tick %d", b.id))
		c.exec(fmt.Sprintf("process %d", b.id))
		for k := len(c.net); k > 0 && len(c.net) > 0; k-- {
			if i := x.netIndex(pb.MsgSnap, a.id); i >= 0 {
				break
			}
			c.exec("deliver 0")
		}
		c.exec(fmt.Sprintf("process %d", a.id))
		for k := len(c.net); k > 0 && len(c.net) > 0 && x.netIndex(pb.MsgSnap, a.id) < 0; k-- {
			c.exec("deliver 0")
		}
		c.exec(fmt.Sprintf("process %d", b.id))
	}
	if x.netIndex(pb.MsgSnap, a.id) < 0 {
		giveUp()
		return
	}
	// the transport reports success; the next heartbeat overtakes the snapshot
	c.exec("reportsnap 0 1")
	for r := 0; r < 2; r++ {
		for t := 0; t < b.cfg.HB; t++ {
			c.exec(fmt.Sprintf("tick %d", b.id))
		}
		c.exec(fmt.Sprintf("process %d", b.id))
		for i := x.netIndex(pb.MsgHeartbeat, a.id); i >= 0; i = x.netIndex(pb.MsgHeartbeat, a.id) {
			c.exec(fmt.Sprintf("deliver %d", i))
		}
		c.exec(fmt.Sprintf("process %d", a.id))
		c.exec(fmt.Sprintf("process %d", a.id))
	}
	c.exec("flush 8")
}

// midTruncateQueued (asynchronous storage writes): a follower has handed three entries of an old
// leader to its append thread in ONE write that has not run yet; a new leader, whose log agrees with
// the first of them only, overwrites from the second. The queued write, and everything else the
// earlier Ready handed out, must stay as it was handed out: the unstable log may not write through
// the array it shares with those slices.
func (x *gen) midTruncateQueued() {
	c := x.c
	a := x.leader()
	if a == nil || !c.base.Async || len(c.alive()) < 3 {
		return
	}
	c.exec("flush 6")
	if !a.alive || a.rn == nil || !x.isLeader(a) {
		return
	}
	f := x.others(a.id)[0]
	var rest []*Node
	for _, n := range x.others(a.id) {
		if n != f {
			rest = append(rest, n)
		}
	}
	// entry k reaches everybody but f
	x.isolate(f)
	x.net0()
	c.exec(fmt.Sprintf("propose %d", a.id))
	for r := 0; r < 4; r++ {
		for _, n := range x.others(f.id) {
			c.exec(fmt.Sprintf("process %d", n.id))
		}
		x.deliverAll()
	}
	// entries k+1, k+2 exist at a only; f is reconnected to a alone and receives k..k+2 in one append
	c.exec("unblock")
	for _, n := range rest {
		c.exec(fmt.Sprintf("block %d %d", a.id, n.id))
		c.exec(fmt.Sprintf("block %d %d", f.id, n.id))
	}
	x.net0()
	c.exec(fmt.Sprintf("propose %d", a.id))
	c.exec(fmt.Sprintf("propose %d", a.id))
	unst := func() int {
		if !f.alive || f.rn == nil {
			return 0
		}
		d := f.rn.VerifState()
		return len(d.UnstableEntries)
	}
	for r := 0; r < 8 && unst() < 2 && !c.stopped; r++ {
		for t := 0; t < a.cfg.HB; t++ {
			c.exec(fmt.Sprintf("tick %d", a.id))
		}
		c.exec(fmt.Sprintf("process %d", a.id))
		x.deliverAll()
		if unst() >= 2 {
			break
		}
		// f answers (rejections, heartbeat responses): its writes so far carry no entries
		c.exec(fmt.Sprintf("sub %d", f.id))
		for len(f.app.appendQ) > 0 && f.alive && !c.stopped {
			c.exec(fmt.Sprintf("appendthread %d", f.id))
		}
		x.deliverAll()
	}
	if unst() < 2 {
		c.exec("unblock")
		c.exec("flush 6")
		return
	}
	c.exec(fmt.Sprintf("sub %d", f.id)) // ONE write with all of them, queued and not run
	variant := x.g.Intn(3)
	if variant == 1 {
		// the write runs: the storage holds the old leader's entries
		for len(f.app.appendQ) > 0 && f.alive && !c.stopped {
			c.exec(fmt.Sprintf("appendthread %d", f.id))
		}
	}
	// a is cut off; another node wins the next term (it holds k but not k+1, k+2)
	c.exec("unblock")
	x.isolate(a)
	for _, n := range rest {
		c.exec(fmt.Sprintf("block %d %d", f.id, n.id))
	}
	x.net0()
	b := x.electAmong(rest, x.termOf(a), nil)
	if b == nil && len(rest) == 1 {
		// two nodes cannot elect without f: let f vote but keep its append thread stalled
		c.exec("unblock")
		x.isolate(a)
		b = x.electAmong(rest, x.termOf(a), nil)
	}
	if b == nil {
		c.exec("unblock")
		c.exec("flush 8")
		return
	}
	c.exec("unblock")
	x.isolate(a)
	switch variant {
	case 2:
		// the new leader commits entries of its own with the others, snapshots inside f's unwritten
		// tail and compacts; f, reconnected, can only be sent the snapshot
		c.exec(fmt.Sprintf("block %d %d", b.id, f.id))
		for i := 0; i < 2; i++ {
			c.exec(fmt.Sprintf("propose %d", b.id))
		}
		for r := 0; r < 8 && !c.stopped; r++ {
			c.exec(fmt.Sprintf("tick %d", b.id))
			for _, n := range rest {
				c.exec(fmt.Sprintf("process %d", n.id))
			}
			x.deliverAll()
		}
		// the snapshot lands on the second entry of f's unwritten tail
		df := f.rn.VerifState()
		target := df.UnstableOffset + 1
		if !b.alive || b.rn == nil || b.app.applied < target {
			c.exec("unblock")
			c.exec("flush 8")
			return
		}
		c.exec(fmt.Sprintf("snapshot %d %d", b.id, b.app.applied-target))
		c.exec(fmt.Sprintf("compact %d 1000", b.id))
		c.exec("unblock")
		x.isolate(a)
		x.net0()
		for r := 0; r < 6 && !c.stopped; r++ {
			for t := 0; t < b.cfg.HB; t++ {
				c.exec(fmt.Sprintf("tick %d", b.id))
			}
			c.exec(fmt.Sprintf("process %d", b.id))
			x.deliverAll()
			c.exec(fmt.Sprintf("sub %d", f.id)) // f's first write is still queued when the snapshot arrives
			x.deliverAll()
		}
	case 1:
		// only f hears from the new leader, which overwrites from the second entry; the overwrite is
		// not written yet, so the storage still ends with the old leader's entries
		for _, n := range rest {
			if n != b {
				c.exec(fmt.Sprintf("block %d %d", b.id, n.id))
			}
		}
		for r := 0; r < 3 && !c.stopped; r++ {
			c.exec(fmt.Sprintf("process %d", b.id))
			x.deliverAll()
			c.exec(fmt.Sprintf("sub %d", f.id))
			x.deliverAll()
			for t := 0; t < b.cfg.HB; t++ {
				c.exec(fmt.Sprintf("tick %d", b.id))
			}
		}
		// the old leader comes back, wins a later term with the nodes that never saw the new
		// leader's entries, and probes f beyond the end of f's log
		c.exec("unblock")
		x.isolate(b)
		x.net0()
		side := []*Node{a}
		for _, n := range rest {
			if n != b {
				side = append(side, n)
			}
		}
		// (f is not served meanwhile: its overwrite stays unwritten)
		if x.electAmong(side, x.termOf(b), a) == a {
			for r := 0; r < 2 && !c.stopped; r++ {
				c.exec(fmt.Sprintf("process %d", a.id))
				x.deliverAll()
				c.exec(fmt.Sprintf("sub %d", f.id))
				x.deliverAll()
			}
		}
	default:
		for r := 0; r < 4 && !c.stopped; r++ {
			c.exec(fmt.Sprintf("process %d", b.id))
			x.deliverAll()
			c.exec(fmt.Sprintf("sub %d", f.id)) // the overwrite happens here, the first write still queued
			x.deliverAll()
			for t := 0; t < b.cfg.HB; t++ {
				c.exec(fmt.Sprintf("tick %d", b.id))
			}
		}
	}
	for len(f.app.appendQ) > 0 && f.alive && !c.stopped {
		c.exec(fmt.Sprintf("appendthread %d", f.id))
	}
	c.exec("unblock")
	c.exec("flush 8")
}
