package main

import (
	"hash/fnv"
	"crypto/rand"
	"fmt"
	"math"
	"sort"
	"strings"

	"google.golang.org/protobuf/proto"

	raft "go.etcd.io/raft/v3"
	pb "go.etcd.io/raft/v3/raftpb"
	"go.etcd.io/raft/v3/tracker"

	"verifharness/enc"
)

// ---------- deterministic randomness ----------
//
// raft's only random draw is globalRand.Intn(electionTimeout), implemented with
// crypto/rand.Int(rand.Reader, n). rand.Reader is replaced by a reader that returns a value
// below n chosen by the schedule's PRNG and records it, so that the draw is an explicit
// input of the trace.

type detReader struct{}

var (
	drawN     uint64 = 10 // electionTimeout of the node being called
	drawSrc   func() uint64
	drawsUsed []uint64
)

func (detReader) Read(p []byte) (int, error) {
	v := uint64(0)
	if drawSrc != nil && drawN > 0 {
		v = drawSrc() % drawN
	}
	drawsUsed = append(drawsUsed, v)
	for i := range p {
		p[i] = 0
	}
	x := v
	for i := len(p) - 1; i >= 0 && x > 0; i-- {
		p[i] = byte(x)
		x >>= 8
	}
	return len(p), nil
}

func init() { rand.Reader = detReader{} }

// ---------- node wrapper ----------

type NodeCfg struct {
	ID                                              uint64
	ET, HB                                          int
	Async, CheckQuorum, PreVote, StepDown, DPF, DCV bool
	MaxSize, MaxCommitted, MaxUncommitted           uint64
	MaxInflight                                     int
	MaxInflightBytes                                uint64
	Lease                                           bool
}

func (c NodeCfg) raftConfig(st *raft.MemoryStorage, applied uint64) *raft.Config {
	ro := raft.ReadOnlySafe
	if c.Lease {
		ro = raft.ReadOnlyLeaseBased
	}
	return &raft.Config{
		ID: c.ID, ElectionTick: c.ET, HeartbeatTick: c.HB, Storage: st, Applied: applied,
		AsyncStorageWrites: c.Async, MaxSizePerMsg: c.MaxSize, MaxCommittedSizePerReady: c.MaxCommitted,
		MaxUncommittedEntriesSize: c.MaxUncommitted, MaxInflightMsgs: c.MaxInflight,
		MaxInflightBytes: c.MaxInflightBytes, CheckQuorum: c.CheckQuorum, PreVote: c.PreVote,
		ReadOnlyOption: ro, DisableProposalForwarding: c.DPF, DisableConfChangeValidation: c.DCV,
		StepDownOnRemoval: c.StepDown, Logger: discardLogger{},
	}
}

type Node struct {
	cl    *Cluster
	id    uint64
	cfg   NodeCfg
	st    *raft.MemoryStorage
	rn    *raft.RawNode
	alive bool
	inc   int // incarnation

	// application model
	app appState
}

type discardLogger struct{}

func (discardLogger) Debug(v ...any)                   {}
func (discardLogger) Debugf(format string, v ...any)   {}
func (discardLogger) Error(v ...any)                   {}
func (discardLogger) Errorf(format string, v ...any)   {}
func (discardLogger) Info(v ...any)                    {}
func (discardLogger) Infof(format string, v ...any)    {}
func (discardLogger) Warning(v ...any)                 {}
func (discardLogger) Warningf(format string, v ...any) {}
func (discardLogger) Fatal(v ...any)                   { panic(fmt.Sprint(v...)) }
func (discardLogger) Fatalf(format string, v ...any)   { panic(fmt.Sprintf(format, v...)) }
func (discardLogger) Panic(v ...any)                   { panic(fmt.Sprint(v...)) }
func (discardLogger) Panicf(format string, v ...any)   { panic(fmt.Sprintf(format, v...)) }

// call runs f against the node with the deterministic reader armed, recovers a panic,
// and writes the I and O lines of the trace.
func (n *Node) call(kind, args string, f func() string) (out string, panicked bool) {
	drawN = uint64(n.cfg.ET)
	drawsUsed = drawsUsed[:0]
	// C18: RawNode only reads its Storage; a call that is not a storage write must leave the
	// contents of MemoryStorage exactly as they were (a read must not write through a shared array)
	var sigBefore uint64
	checkSt := n.st != nil && !isStorageKind(kind) && kind != "new" && kind != "stop"
	if checkSt {
		sigBefore = storageSig(n.st)
	}
	func() {
		defer func() {
			if r := recover(); r != nil {
				panicked = true
				out = "res=panic:" + sanitize(fmt.Sprint(r))
			}
		}()
		out = f()
	}()
	ds := make([]string, len(drawsUsed))
	for i, d := range drawsUsed {
		ds[i] = fmt.Sprint(d)
	}
	n.cl.seq++
	fmt.Fprintf(n.cl.tr, "I %d %d %s %s d=%s\n", n.cl.seq, n.id, kind, args, strings.Join(ds, ","))
	var sb strings.Builder
	sb.WriteString(out)
	if !panicked {
		if isStorageKind(kind) || kind == "new" || kind == "stop" {
			sb.WriteString(" ")
			sb.WriteString(storageDump(n.st))
		}
		if n.rn != nil && !isStorageKind(kind) && kind != "stop" {
			sb.WriteString(" ")
			sb.WriteString(stateDump(n.rn))
		}
	}
	fmt.Fprintf(n.cl.tr, "O %d %s\n", n.cl.seq, sb.String())
	n.cl.trBytes += len(args) + sb.Len() + 32
	if panicked {
		n.cl.onPanic(n, kind, out)
	}
	if checkSt && !panicked && storageSig(n.st) != sigBefore {
		n.cl.mon.report("C18", "", "node %d: the call %q changed the contents of MemoryStorage (a read wrote through an array shared with the storage)", n.id, kind)
	}
	return out, panicked
}

// storageSig: a hash of everything MemoryStorage answers (hard state, snapshot position, entries)
func storageSig(st *raft.MemoryStorage) uint64 {
	h := fnv.New64a()
	w := func(x uint64) {
		var b [8]byte
		for i := 0; i < 8; i++ {
			b[i] = byte(x >> (8 * i))
		}
		h.Write(b[:])
	}
	hs, _, _ := st.InitialState()
	w(hs.GetTerm())
	w(hs.GetVote())
	w(hs.GetCommit())
	fi, _ := st.FirstIndex()
	li, _ := st.LastIndex()
	dt, _ := st.Term(fi - 1)
	w(fi)
	w(li)
	w(dt)
	if li >= fi {
		ents, _ := st.Entries(fi, li+1, math.MaxUint64)
		for _, e := range ents {
			w(e.GetIndex())
			w(e.GetTerm())
			w(uint64(e.GetType()))
			h.Write(e.GetData())
			w(uint64(len(e.GetData())))
		}
	}
	return h.Sum64()
}

func isStorageKind(k string) bool {
	switch k {
	case "stappend", "sths", "stsnap", "stcreate", "stcompact":
		return true
	}
	return false
}

func sanitize(s string) string {
	s = strings.Map(func(r rune) rune {
		if r == ' ' || r == '\n' || r == '\t' || r == '|' {
			return '_'
		}
		return r
	}, s)
	if len(s) > 160 {
		s = s[:160]
	}
	return s
}

func errName(err error) string {
	switch err {
	case nil:
		return "ok"
	case raft.ErrProposalDropped:
		return "err:ProposalDropped"
	case raft.ErrStepLocalMsg:
		return "err:StepLocalMsg"
	case raft.ErrStepPeerNotFound:
		return "err:StepPeerNotFound"
	case raft.ErrCompacted:
		return "err:Compacted"
	case raft.ErrUnavailable:
		return "err:Unavailable"
	case raft.ErrSnapOutOfDate:
		return "err:SnapOutOfDate"
	}
	return "err:Other"
}

// ---------- dumps ----------

func storageDump(st *raft.MemoryStorage) string {
	hs, _, _ := st.InitialState()
	snap, _ := st.Snapshot()
	fi, _ := st.FirstIndex()
	li, _ := st.LastIndex()
	dt, _ := st.Term(fi - 1)
	var ents []*pb.Entry
	if li >= fi {
		ents, _ = st.Entries(fi, li+1, math.MaxUint64)
	}
	return fmt.Sprintf("st.hs=%s st.snap=%s st.di=%d st.dt=%d st.ents=%s", enc.HardState(hs), enc.Snapshot(snap), fi-1, dt, enc.Entries(ents))
}

func stateLetter(s raft.StateType) string {
	switch s {
	case raft.StateFollower:
		return "F"
	case raft.StateCandidate:
		return "C"
	case raft.StateLeader:
		return "L"
	case raft.StatePreCandidate:
		return "P"
	}
	return "?"
}

func sortedU64[V any](m map[uint64]V) []uint64 {
	ks := make([]uint64, 0, len(m))
	for k := range m {
		ks = append(ks, k)
	}
	sort.Slice(ks, func(i, j int) bool { return ks[i] < ks[j] })
	return ks
}

func setStr(m map[uint64]struct{}) string { return enc.IDs(sortedU64(m)) }

func cfgStr(c tracker.Config) string {
	return fmt.Sprintf("%s;%s;%s;%s;%d", setStr(c.Voters[0]), setStr(c.Learners), setStr(c.Voters[1]), setStr(c.LearnersNext), enc.B(c.AutoLeave))
}

func prStateLetter(s tracker.StateType) string {
	switch s {
	case tracker.StateProbe:
		return "P"
	case tracker.StateReplicate:
		return "R"
	case tracker.StateSnapshot:
		return "S"
	}
	return "?"
}

func stateDump(rn *raft.RawNode) string {
	d := rn.VerifState()
	var sb strings.Builder
	fmt.Fprintf(&sb, "term=%d vote=%d lead=%d state=%s xfer=%d ee=%d he=%d ret=%d isl=%d pci=%d usz=%d",
		d.Term, d.Vote, d.Lead, stateLetter(d.State), d.LeadTransferee, d.ElectionElapsed, d.HeartbeatElapsed,
		d.RandomizedElectionTimeout, enc.B(d.IsLearner), d.PendingConfIndex, d.UncommittedSize)
	fmt.Fprintf(&sb, " com=%d apg=%d apd=%d asz=%d apz=%d uo=%d uoip=%d uents=%s usnap=%s usip=%d",
		d.Committed, d.Applying, d.Applied, d.ApplyingEntsSize, enc.B(d.ApplyingEntsPaused), d.UnstableOffset,
		d.UnstableOffsetInProgress, enc.Entries(d.UnstableEntries), enc.Snapshot(d.UnstableSnapshot), enc.B(d.UnstableSnapshotInProgress))
	fmt.Fprintf(&sb, " cfg=%s", cfgStr(d.Config))
	// progress
	var prs []string
	for _, id := range sortedU64(d.Progress) {
		p := d.Progress[id]
		var w []string
		for _, e := range p.InflWindow {
			w = append(w, fmt.Sprintf("%d/%d", e[0], e[1]))
		}
		ws := "_"
		if len(w) > 0 {
			ws = strings.Join(w, ",")
		}
		prs = append(prs, fmt.Sprintf("%d:%d:%d:%s:%d:%d:%d:%d:%d:%d:%d:%d:%s:%d:%d", id, p.Match, p.Next, prStateLetter(p.State),
			p.PendingSnapshot, enc.B(p.RecentActive), enc.B(p.Paused), p.SentCommit, enc.B(p.IsLearner),
			p.InflCount, p.InflBytes, enc.B(p.InflFull), ws, p.InflSize, p.InflMaxBytes))
	}
	fmt.Fprintf(&sb, " prs=%s tmif=%d tmib=%d", listOr(prs, "|"), d.TrackerMaxInflight, d.TrackerMaxInflightBytes)
	var vs []string
	for _, id := range sortedU64(d.Votes) {
		vs = append(vs, fmt.Sprintf("%d:%d", id, enc.B(d.Votes[id])))
	}
	fmt.Fprintf(&sb, " votes=%s", listOr(vs, ","))
	var as []string
	for _, id := range sortedU64(d.ROAcks) {
		as = append(as, fmt.Sprintf("%d:%d", id, d.ROAcks[id]))
	}
	var un []string
	for _, u := range d.ROUnconfirmed {
		un = append(un, fmt.Sprintf("%d@%s", u.Index, enc.Message(u.Req)))
	}
	fmt.Fprintf(&sb, " roacks=%s rounc=%s roconf=%d", listOr(as, ","), listOr(un, "|"), d.ROConfirmed)
	fmt.Fprintf(&sb, " msgs=%s maa=%s soa=%s pri=%s", enc.Messages(d.Msgs), enc.Messages(d.MsgsAfterAppend),
		enc.Messages(d.StepsOnAdvance), enc.Messages(d.PendingReadIndex))
	var rs []string
	for _, r := range d.ReadStates {
		rs = append(rs, fmt.Sprintf("%d@%s", r.Index, enc.Hex(r.RequestCtx)))
	}
	fmt.Fprintf(&sb, " rss=%s phs=%s pss=%d.%s", listOr(rs, ","), enc.HardState(d.PrevHardState), d.PrevSoftState.Lead, stateLetter(d.PrevSoftState.RaftState))
	return sb.String()
}

func listOr(l []string, sep string) string {
	if len(l) == 0 {
		return "_"
	}
	return strings.Join(l, sep)
}

// readyDump: the observable content of a Ready.
func readyDump(rd *raft.Ready, async bool) string {
	var sb strings.Builder
	ss := "_"
	if rd.SoftState != nil {
		ss = fmt.Sprintf("%d.%s", rd.SoftState.Lead, stateLetter(rd.SoftState.RaftState))
	}
	var rs []string
	for _, r := range rd.ReadStates {
		rs = append(rs, fmt.Sprintf("%d@%s", r.Index, enc.Hex(r.RequestCtx)))
	}
	var msgs []*pb.Message
	app, apply := "_", "_"
	for _, m := range rd.Messages {
		switch m.GetType() {
		case pb.MsgStorageAppend:
			hs := "_"
			if m.Term != nil || m.Vote != nil || m.Commit != nil {
				hs = fmt.Sprintf("%d.%d.%d", m.GetTerm(), m.GetVote(), m.GetCommit())
			}
			app = fmt.Sprintf("%s^%s^%s^%s", enc.Entries(m.GetEntries()), hs, enc.Snapshot(m.GetSnapshot()), enc.Messages(m.GetResponses()))
		case pb.MsgStorageApply:
			apply = fmt.Sprintf("%s^%s", enc.Entries(m.GetEntries()), enc.Messages(m.GetResponses()))
		default:
			msgs = append(msgs, m)
		}
	}
	snap := "_"
	if rd.Snapshot != nil {
		snap = enc.Snapshot(rd.Snapshot)
	}
	fmt.Fprintf(&sb, "rd.ss=%s rd.hs=%s rd.rs=%s rd.ents=%s rd.snap=%s rd.cents=%s rd.msgs=%s rd.sync=%d rd.app=%s rd.apply=%s",
		ss, enc.HardState(rd.HardState), listOr(rs, ","), enc.Entries(rd.Entries), snap, enc.Entries(rd.CommittedEntries),
		enc.Messages(msgs), enc.B(rd.MustSync), app, apply)
	return sb.String()
}

func cfgArgs(c NodeCfg, applied uint64) string {
	return fmt.Sprintf("id=%d et=%d hb=%d applied=%d async=%d msz=%d mcs=%d mus=%d mif=%d mib=%d cq=%d pv=%d ro=%d dpf=%d dcv=%d sdr=%d",
		c.ID, c.ET, c.HB, applied, enc.B(c.Async), c.MaxSize, c.MaxCommitted, c.MaxUncommitted, c.MaxInflight, c.MaxInflightBytes,
		enc.B(c.CheckQuorum), enc.B(c.PreVote), enc.B(c.Lease), enc.B(c.DPF), enc.B(c.DCV), enc.B(c.StepDown))
}

// ---------- recorded operations on one node ----------

func (n *Node) start(applied uint64) bool {
	_, p := n.call("new", cfgArgs(n.cfg, applied), func() string {
		rn, err := raft.NewRawNode(n.cfg.raftConfig(n.st, applied))
		if err != nil {
			return "res=" + errName(err)
		}
		n.rn = rn
		return "res=ok"
	})
	if !p {
		n.alive = true
		n.inc++
	}
	return !p
}

func (n *Node) stop() {
	n.rn = nil
	n.alive = false
	n.call("stop", "", func() string { return "res=ok" })
}

func (n *Node) simple(kind, args string, f func() error) (string, bool) {
	return n.call(kind, args, func() string { return "res=" + errName(f()) })
}

func (n *Node) tick() { n.simple("tick", "", func() error { n.rn.Tick(); return nil }) }
func (n *Node) campaign() {
	n.simple("campaign", "", func() error { return n.rn.Campaign() })
}
func (n *Node) propose(data []byte) string {
	out, _ := n.simple("propose", "data="+enc.Hex(data), func() error { return n.rn.Propose(data) })
	return out
}
func (n *Node) proposeCC(cc pb.ConfChangeI) string {
	typ, data, _ := pb.MarshalConfChange(cc)
	e := &pb.Entry{Type: typ.Enum(), Data: data}
	out, _ := n.simple("proposecc", "e="+enc.Entry(e), func() error { return n.rn.ProposeConfChange(cc) })
	return out
}

func ccStr(cc *pb.ConfChangeV2) string {
	var cs []string
	for _, c := range cc.Changes {
		cs = append(cs, fmt.Sprintf("%d.%d", int(c.GetType()), c.GetNodeId()))
	}
	return fmt.Sprintf("%d;%s", int(cc.GetTransition()), listOr(cs, ","))
}

func (n *Node) applyCC(cc pb.ConfChangeI) *pb.ConfState {
	var cs *pb.ConfState
	n.call("applycc", "cc="+ccStr(cc.AsV2()), func() string {
		cs = n.rn.ApplyConfChange(cc)
		return "res=ok cs=" + enc.ConfState(cs)
	})
	return cs
}

func (n *Node) step(m *pb.Message) string {
	mm := proto.Clone(m).(*pb.Message)
	out, _ := n.simple("step", "m="+enc.Message(mm), func() error { return n.rn.Step(mm) })
	return out
}

func (n *Node) ready() *raft.Ready {
	var rd raft.Ready
	_, p := n.call("ready", "", func() string {
		rd = n.rn.Ready()
		return "res=ok " + readyDump(&rd, n.cfg.Async)
	})
	if p {
		return nil
	}
	return &rd
}

func (n *Node) hasReady() bool {
	// not recorded: HasReady is read-only and is called very often by the scheduler
	return n.rn.HasReady()
}

func (n *Node) hasReadyRecorded() {
	n.call("hasready", "", func() string { return fmt.Sprintf("res=ok b=%d", enc.B(n.rn.HasReady())) })
}

func (n *Node) advance(rd raft.Ready) {
	n.simple("advance", "", func() error { n.rn.Advance(rd); return nil })
}
func (n *Node) reportUnreachable(id uint64) {
	n.simple("unreach", fmt.Sprintf("id=%d", id), func() error { n.rn.ReportUnreachable(id); return nil })
}
func (n *Node) reportSnapshot(id uint64, fail bool) {
	st := raft.SnapshotFinish
	if fail {
		st = raft.SnapshotFailure
	}
	n.simple("snapstatus", fmt.Sprintf("id=%d fail=%d", id, enc.B(fail)), func() error { n.rn.ReportSnapshot(id, st); return nil })
}
func (n *Node) transferLeader(id uint64) {
	n.simple("transfer", fmt.Sprintf("id=%d", id), func() error { n.rn.TransferLeader(id); return nil })
}
func (n *Node) forgetLeader() {
	n.simple("forget", "", func() error { return n.rn.ForgetLeader() })
}
func (n *Node) readIndex(ctx []byte) {
	n.simple("readindex", "ctx="+enc.Hex(ctx), func() error { n.rn.ReadIndex(ctx); return nil })
}

// storage writes of the application
func (n *Node) stAppend(ents []*pb.Entry) bool {
	_, p := n.simple("stappend", "ents="+enc.Entries(ents), func() error { return n.st.Append(ents) })
	return !p
}
func (n *Node) stSetHardState(hs *pb.HardState) {
	n.simple("sths", "hs="+enc.HardState(hs), func() error { return n.st.SetHardState(hs) })
}
func (n *Node) stApplySnapshot(s *pb.Snapshot) {
	out, _ := n.simple("stsnap", "snap="+enc.Snapshot(s), func() error { return n.st.ApplySnapshot(s) })
	if strings.Contains(out, "res=ok") {
		n.cl.mon.onStorageSnapshot(n, s)
	}
}
func (n *Node) stCreateSnapshot(i uint64, cs *pb.ConfState, data []byte) {
	c := "_"
	if cs != nil {
		c = enc.ConfState(cs)
	}
	n.call("stcreate", fmt.Sprintf("i=%d cs=%s data=%s", i, c, enc.Hex(data)), func() string {
		s, err := n.st.CreateSnapshot(i, cs, data)
		if err != nil {
			return "res=" + errName(err) + " snap=_"
		}
		return "res=ok snap=" + enc.Snapshot(s)
	})
}
func (n *Node) stCompact(i uint64) {
	n.simple("stcompact", fmt.Sprintf("i=%d", i), func() error { return n.st.Compact(i) })
}
