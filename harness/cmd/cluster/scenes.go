package main

import (
	"fmt"

	pb "go.etcd.io/raft/v3/raftpb"
)

// Scenes: directed schedules that no family of the generator reaches. They are not part of the
// generator's phases (adding a phase re-deals every random schedule); "cluster scene <name> <cfg>"
// runs one on a fresh cluster and prints the explicit schedule it executed, which is committed under
// /verif/corpus and replayed first by every check.

var scenes = map[string]func(x *gen){
	"jointstaleread":   (*gen).sceneJointStaleRead,
	"ignoredsnapdup":   (*gen).sceneIgnoredSnapDup,
	"reelectedmatches": (*gen).sceneReelectedMatches,
}

// deliverWhere delivers the in-flight messages that satisfy keep (once each) and drops the others.
func (x *gen) deliverWhere(keep func(m *pb.Message) bool) {
	c := x.c
	for k := len(c.net); k > 0 && len(c.net) > 0 && !c.stopped; k-- {
		if keep(c.net[0]) {
			c.exec("deliver 0")
		} else {
			c.exec("drop 0")
		}
	}
}

func (x *gen) serve(rounds int, ns ...*Node) {
	for r := 0; r < rounds && !x.c.stopped; r++ {
		for _, n := range ns {
			x.c.exec(fmt.Sprintf("process %d", n.id))
		}
		x.deliverAll()
	}
}

// sceneJointStaleRead (C11): five voters; the leader l commits and applies an explicit joint change
// that removes a and b (incoming {l,c,d}, outgoing all five) with the help of a and c; a never
// learns that it is committed. The cluster splits into {l,c} and {a,b,d}; a is elected by b and d
// under the old configuration and commits its first entry. A ReadIndex at l may not be served: l
// hears from c only, a majority of the incoming voters but not of the outgoing ones.
func (x *gen) sceneJointStaleRead() {
	c := x.c
	l := x.leader()
	if l == nil || len(c.alive()) != 5 {
		return
	}
	c.exec("flush 6")
	if !x.isLeader(l) {
		return
	}
	o := x.others(l.id)
	a, b, cc, d := o[0], o[1], o[2], o[3]
	c.exec(fmt.Sprintf("block %d %d", l.id, b.id))
	c.exec(fmt.Sprintf("block %d %d", l.id, d.id))
	c.exec(fmt.Sprintf("proposecc %d v2:explicit:r%d,r%d", l.id, a.id, b.id))
	c.exec(fmt.Sprintf("process %d", l.id))
	x.deliverAll()
	c.exec(fmt.Sprintf("process %d", a.id))
	c.exec(fmt.Sprintf("process %d", cc.id))
	x.deliverAll() // both acknowledgements reach l
	c.exec(fmt.Sprintf("block %d %d", l.id, a.id))
	x.serve(3, l, cc) // l commits and applies the joint configuration, c follows
	for _, p := range []*Node{l, cc} {
		for _, q := range []*Node{a, b, d} {
			c.exec(fmt.Sprintf("block %d %d", p.id, q.id))
		}
	}
	x.net0()
	na := x.electAmong([]*Node{a, b, d}, x.termOf(l), a)
	if na != a {
		return
	}
	x.serve(8, a, b, d) // a's first entry is committed by a, b, d under the old configuration
	c.exec(fmt.Sprintf("readindex %d", l.id))
	x.serve(3, l, cc)
	c.exec("unblock")
	c.exec("flush 8")
}

// sceneIgnoredSnapDup (C09): a follower that was caught up by snapshot holds entries of the same
// leader that are not committed yet when a delayed duplicate of the MsgSnap arrives. The duplicate
// is ignored, and the answer may vouch for the commit index only.
func (x *gen) sceneIgnoredSnapDup() {
	c := x.c
	l := x.leader()
	if l == nil || len(c.alive()) < 3 {
		return
	}
	c.exec("flush 6")
	if !x.isLeader(l) {
		return
	}
	o := x.others(l.id)
	f, rest := o[0], o[1:]
	c.exec(fmt.Sprintf("block %d %d", l.id, f.id))
	for i := 0; i < 3; i++ {
		c.exec(fmt.Sprintf("propose %d", l.id))
	}
	x.serve(4, append([]*Node{l}, rest...)...)
	c.exec(fmt.Sprintf("snapshot %d", l.id))
	c.exec(fmt.Sprintf("compact %d 1000", l.id))
	c.exec("unblock")
	for r := 0; r < 8 && len(c.lastSnap[f.id]) == 0 && !c.stopped; r++ {
		c.exec(fmt.Sprintf("tick %d", l.id))
		x.serve(2, l, f)
	}
	x.serve(4, l, f) // f installs the snapshot and acknowledges it
	if len(c.lastSnap[f.id]) == 0 {
		return
	}
	// two more entries reach f; nobody's acknowledgement reaches l, so they stay uncommitted
	for i := 0; i < 2; i++ {
		c.exec(fmt.Sprintf("propose %d", l.id))
	}
	c.exec(fmt.Sprintf("process %d", l.id))
	x.deliverWhere(func(m *pb.Message) bool { return m.GetTo() == f.id })
	c.exec(fmt.Sprintf("process %d", f.id))
	x.net0()
	c.exec(fmt.Sprintf("resnap %d 0", f.id))
	c.exec(fmt.Sprintf("process %d", f.id))
	x.deliverAll()
	x.serve(3, l, f)
	c.exec("flush 6")
}

// sceneReelectedMatches (C01): five voters. Leader l replicates three entries to f only (f
// acknowledges them, they stay uncommitted); l and f are cut off, another node m leads a higher
// term and commits other entries at those indexes; l returns without f, has its tail replaced, and
// wins a third term. f is reachable again, and the first thing it hears is a heartbeat. What l
// knew about f's log in its earlier term says nothing now: the heartbeat may not make f commit.
func (x *gen) sceneReelectedMatches() {
	c := x.c
	l := x.leader()
	if l == nil || len(c.alive()) != 5 {
		return
	}
	c.exec("flush 6")
	if !x.isLeader(l) {
		return
	}
	o := x.others(l.id)
	f, rest := o[0], o[1:]
	for _, n := range rest {
		c.exec(fmt.Sprintf("block %d %d", l.id, n.id))
		c.exec(fmt.Sprintf("block %d %d", f.id, n.id))
	}
	for i := 0; i < 3; i++ {
		c.exec(fmt.Sprintf("propose %d", l.id))
	}
	x.serve(3, l, f)
	x.net0()
	m := x.electAmong(rest, x.termOf(l), nil)
	if m == nil {
		return
	}
	for i := 0; i < 2; i++ {
		c.exec(fmt.Sprintf("propose %d", m.id))
	}
	x.serve(4, rest...)
	// l returns, f stays cut off
	c.exec("unblock")
	x.isolate(f)
	x.net0()
	for r := 0; r < 4 && !c.stopped; r++ {
		c.exec(fmt.Sprintf("tick %d", m.id))
		x.serve(2, append([]*Node{l}, rest...)...)
	}
	with := append([]*Node{l}, rest...)
	if x.electAmong(with, x.termOf(m), l) != l {
		return
	}
	x.serve(4, with...)
	// f is reachable; only heartbeats get through to it at first
	c.exec("unblock")
	x.net0()
	for r := 0; r < 2 && !c.stopped; r++ {
		for t := 0; t < l.cfg.HB; t++ {
			c.exec(fmt.Sprintf("tick %d", l.id))
		}
		c.exec(fmt.Sprintf("process %d", l.id))
		x.deliverWhere(func(mm *pb.Message) bool { return mm.GetTo() != f.id || mm.GetType() == pb.MsgHeartbeat })
		c.exec(fmt.Sprintf("process %d", f.id))
		x.deliverWhere(func(mm *pb.Message) bool { return mm.GetType() == pb.MsgHeartbeatResp })
	}
	c.exec("flush 8")
}
