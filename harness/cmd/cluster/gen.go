package main

import (
	"fmt"
	"math/rand"
	"sort"
	"strings"

	raft "go.etcd.io/raft/v3"
	pb "go.etcd.io/raft/v3/raftpb"
)

// Schedule configuration (the "cfg" line of a schedule file).
type SchedCfg struct {
	Seed     int64
	Voters   []uint64
	Learners []uint64
	Base     NodeCfg
	Strict   bool // Env.apply_before_snap_step enforced by the scheduler
	SnapIdx  uint64
	SnapTerm uint64
	Family   string
}

func (s SchedCfg) String() string {
	b := s.Base
	return fmt.Sprintf("cfg seed=%d family=%s voters=%s learners=%s snap=%d/%d strict=%d et=%d hb=%d async=%d cq=%d pv=%d sdr=%d dpf=%d dcv=%d lease=%d msz=%d mcs=%d mus=%d mif=%d mib=%d",
		s.Seed, s.Family, joinIDs(s.Voters), joinIDs(s.Learners), s.SnapIdx, s.SnapTerm, b2i(s.Strict), b.ET, b.HB, b2i(b.Async), b2i(b.CheckQuorum),
		b2i(b.PreVote), b2i(b.StepDown), b2i(b.DPF), b2i(b.DCV), b2i(b.Lease), b.MaxSize, b.MaxCommitted, b.MaxUncommitted, b.MaxInflight, b.MaxInflightBytes)
}

func b2i(b bool) int {
	if b {
		return 1
	}
	return 0
}

func joinIDs(ids []uint64) string {
	s := make([]string, len(ids))
	for i, id := range ids {
		s[i] = fmt.Sprint(id)
	}
	return strings.Join(s, ",")
}

func splitIDs(s string) []uint64 {
	var r []uint64
	for _, w := range strings.Split(s, ",") {
		if w != "" {
			r = append(r, atou(w))
		}
	}
	return r
}

func parseSchedCfg(line string) SchedCfg {
	var s SchedCfg
	kv := map[string]string{}
	for _, w := range strings.Fields(line)[1:] {
		if i := strings.IndexByte(w, '='); i > 0 {
			kv[w[:i]] = w[i+1:]
		}
	}
	u := func(k string) uint64 { return atou(kv[k]) }
	bb := func(k string) bool { return kv[k] == "1" }
	s.Seed = int64(u("seed"))
	s.Family = kv["family"]
	s.Voters = splitIDs(kv["voters"])
	s.Learners = splitIDs(kv["learners"])
	if sp := strings.Split(kv["snap"], "/"); len(sp) == 2 {
		s.SnapIdx, s.SnapTerm = atou(sp[0]), atou(sp[1])
	}
	s.Strict = bb("strict")
	s.Base = NodeCfg{ET: int(u("et")), HB: int(u("hb")), Async: bb("async"), CheckQuorum: bb("cq"), PreVote: bb("pv"),
		StepDown: bb("sdr"), DPF: bb("dpf"), DCV: bb("dcv"), Lease: bb("lease"), MaxSize: u("msz"), MaxCommitted: u("mcs"),
		MaxUncommitted: u("mus"), MaxInflight: int(u("mif")), MaxInflightBytes: u("mib")}
	return s
}

const noLimit = ^uint64(0)

func randomCfg(g *rand.Rand, seed int64, family string) SchedCfg {
	s := SchedCfg{Seed: seed, Family: family, Strict: true}
	nv := []int{1, 2, 3, 3, 3, 3, 4, 5, 5}[g.Intn(9)]
	if g.Intn(24) == 0 {
		nv = 8 + g.Intn(2) // beyond the 7-slot stack buffers of tracker.Visit and quorum
	}
	for i := 1; i <= nv; i++ {
		s.Voters = append(s.Voters, uint64(i))
	}
	if nv < 5 && g.Intn(4) == 0 {
		s.Learners = append(s.Learners, uint64(nv+1))
	}
	s.SnapIdx = uint64(1 + g.Intn(3))
	s.SnapTerm = 1
	b := NodeCfg{ET: 3 + g.Intn(5), HB: 1, MaxInflight: []int{1, 2, 4, 256}[g.Intn(4)]}
	b.Async = g.Intn(2) == 0
	b.CheckQuorum = g.Intn(2) == 0
	b.PreVote = g.Intn(2) == 0
	b.StepDown = g.Intn(2) == 0
	b.DPF = g.Intn(8) == 0
	b.Lease = b.CheckQuorum && g.Intn(4) == 0
	b.MaxSize = []uint64{0, 1, 40, 200, noLimit}[g.Intn(5)]
	b.MaxCommitted = []uint64{0, 0, 30, 100}[g.Intn(4)]
	b.MaxUncommitted = []uint64{0, 0, 60, 400}[g.Intn(4)]
	b.MaxInflightBytes = []uint64{0, 0, 0, 300}[g.Intn(4)]
	if b.MaxInflightBytes != 0 && b.MaxInflightBytes < b.MaxSize {
		b.MaxInflightBytes = 0
	}
	switch family {
	case "dupvote":
		b.Async = true
	case "snaplead":
		b.MaxInflightBytes = 300
		if b.MaxSize > 300 {
			b.MaxSize = 200
		}
	case "rereads", "jointcampaign":
		b.Lease = false
		if len(s.Voters) < 5 {
			s.Voters = []uint64{1, 2, 3, 4, 5}
			s.Learners = nil
		}
	}
	s.Strict = g.Intn(2) == 0
	switch family {
	case "snapapply":
		b.Async = true
		s.Strict = false
	case "xferremoved":
		b.Async = false
	case "snapinactive", "cqreports":
		b.CheckQuorum = true
	case "snapterm":
		b.Async = true
	case "selfack":
		b.Async = true
	case "readhb":
		b.Lease = false
	case "soloread":
		b.Async = true
		b.Lease = false
		s.Voters = []uint64{1}
		s.Learners = nil
	case "twoccbatch":
		s.Voters = []uint64{1, 2, 3}
		s.Learners = nil
		b.StepDown = false
		b.CheckQuorum = false
		b.Lease = false
	case "xferjoint":
		b.Async = false
	case "aba":
		b.Async = true
		if len(s.Voters) < 5 {
			s.Voters = []uint64{1, 2, 3, 4, 5}
			s.Learners = nil
		}
	}
	s.Base = b
	return s
}

func newCluster(s SchedCfg, tr *traceWriter) *Cluster {
	c := &Cluster{rng: rand.New(rand.NewSource(s.Seed)), tr: tr.w, nodes: map[uint64]*Node{}, base: s.Base,
		tainted: map[string]bool{}, blocked: map[[2]uint64]bool{}, envStrict: s.Strict}
	c.mon = newMonitors(c)
	c.mon.maxLeaderCommit = s.SnapIdx
	c.mon.maxReported = s.SnapIdx
	drawSrc = func() uint64 { return uint64(c.rng.Int63()) }
	cs := &pb.ConfState{Voters: s.Voters, Learners: s.Learners}
	all := append(append([]uint64{}, s.Voters...), s.Learners...)
	sort.Slice(all, func(i, j int) bool { return all[i] < all[j] })
	for _, id := range all {
		c.addNode(id, cs, s.SnapIdx, s.SnapTerm)
	}
	return c
}

// ---------- random generator ----------

type gen struct {
	g *rand.Rand
	c *Cluster
}

func (x *gen) pickAlive() *Node {
	a := x.c.alive()
	if len(a) == 0 {
		return nil
	}
	return a[x.g.Intn(len(a))]
}

func (x *gen) pickAny() *Node {
	return x.c.nodes[x.c.ids[x.g.Intn(len(x.c.ids))]]
}

func (x *gen) leader() *Node {
	var best *Node
	var bt uint64
	for _, n := range x.c.alive() {
		d := n.rn.VerifState()
		if d.State == raft.StateLeader && d.Term >= bt {
			best, bt = n, d.Term
		}
	}
	return best
}

// mostAdvancedConf: the configuration of the node that applied the most.
func (x *gen) mostAdvancedConf() *pb.ConfState {
	var best *Node
	for _, id := range x.c.ids {
		n := x.c.nodes[id]
		if n.alive && (best == nil || n.app.applied > best.app.applied) {
			best = n
		}
	}
	if best == nil || best.app.lastConf == nil {
		return &pb.ConfState{}
	}
	return best.app.lastConf
}

func has(l []uint64, id uint64) bool {
	for _, x := range l {
		if x == id {
			return true
		}
	}
	return false
}

// confChangeSpec picks a configuration change that the Changer will accept on the most
// advanced applied configuration (Env.cc_keeps_voter).
func (x *gen) confChangeSpec() string {
	cs := x.mostAdvancedConf()
	joint := len(cs.VotersOutgoing) > 0
	if joint {
		return "leave"
	}
	voters, learners := cs.Voters, cs.Learners
	members := append(append([]uint64{}, voters...), learners...)
	// candidates for addition: ids 1..6 not members
	var free []uint64
	for id := uint64(1); id <= 6; id++ {
		if !has(members, id) {
			free = append(free, id)
		}
	}
	var singles []string
	if len(free) > 0 && len(members) < 5 {
		id := free[x.g.Intn(len(free))]
		singles = append(singles, fmt.Sprintf("add:%d", id), fmt.Sprintf("learner:%d", id))
	}
	if len(voters) > 1 {
		id := voters[x.g.Intn(len(voters))]
		singles = append(singles, fmt.Sprintf("remove:%d", id), fmt.Sprintf("learner:%d", id))
	}
	if len(learners) > 0 {
		id := learners[x.g.Intn(len(learners))]
		singles = append(singles, fmt.Sprintf("add:%d", id), fmt.Sprintf("remove:%d", id))
	}
	if len(singles) == 0 {
		return "v1:update:1"
	}
	pick := singles[x.g.Intn(len(singles))]
	switch x.g.Intn(5) {
	case 0, 1:
		return "v1:" + pick
	case 2:
		f := strings.Split(pick, ":")
		return "v2:auto:" + map[string]string{"add": "v", "remove": "r", "learner": "l"}[f[0]] + f[1]
	default:
		// joint change: replace / add+remove, keeping at least one voter
		var ch []string
		if len(free) > 0 && len(members) < 5 {
			ch = append(ch, fmt.Sprintf("v%d", free[0]))
		}
		if len(voters) > 1 {
			ch = append(ch, []string{"r", "l"}[x.g.Intn(2)]+fmt.Sprint(voters[x.g.Intn(len(voters))]))
		}
		if len(ch) == 0 {
			ch = append(ch, "u1")
		}
		return "v2:" + []string{"auto", "implicit", "explicit"}[x.g.Intn(3)] + ":" + strings.Join(ch, ",")
	}
}

type wop struct {
	w  int
	op func() string
}

func (x *gen) choose(ops []wop) string {
	tot := 0
	for _, o := range ops {
		tot += o.w
	}
	r := x.g.Intn(tot)
	for _, o := range ops {
		if r < o.w {
			return o.op()
		}
		r -= o.w
	}
	return ""
}

func (x *gen) nid(n *Node) uint64 {
	if n == nil {
		return 1
	}
	return n.id
}

// one random operation for the given phase
func (x *gen) next(phase string) string {
	g := x.g
	k := func() int { return g.Intn(64) }
	anyAlive := func() uint64 { return x.nid(x.pickAlive()) }
	lead := func() uint64 {
		if l := x.leader(); l != nil && g.Intn(5) != 0 {
			return l.id
		}
		return anyAlive()
	}
	common := []wop{
		{12, func() string { return "tickall" }},
		{6, func() string { return fmt.Sprintf("tick %d", anyAlive()) }},
		{20, func() string { return fmt.Sprintf("deliver %d", k()) }},
		{14, func() string { return fmt.Sprintf("process %d", anyAlive()) }},
		{6, func() string { return fmt.Sprintf("propose %d", lead()) }},
		{3, func() string { return fmt.Sprintf("propose %d %d", lead(), []int{1, 7, 25, 60}[g.Intn(4)]) }},
		{2, func() string { return fmt.Sprintf("proposebatch %d %d", lead(), 2+g.Intn(3)) }},
		{3, func() string { return fmt.Sprintf("flush %d", 1+g.Intn(3)) }},
		{2, func() string { return fmt.Sprintf("reportsnap %d %d", k(), g.Intn(4)) }},
	}
	switch phase {
	case "healthy":
		return x.choose(append(common, wop{10, func() string { return fmt.Sprintf("flush %d", 2+g.Intn(4)) }}))
	case "chaos":
		return x.choose(append(common,
			wop{8, func() string { return fmt.Sprintf("drop %d", k()) }},
			wop{6, func() string { return fmt.Sprintf("dup %d", k()) }},
			wop{6, func() string { return fmt.Sprintf("sub %d", anyAlive()) }},
			wop{4, func() string { return fmt.Sprintf("appendthread %d", anyAlive()) }},
			wop{1, func() string { return fmt.Sprintf("appendthread %d hold", anyAlive()) }},
			wop{2, func() string { return fmt.Sprintf("ackthread %d", anyAlive()) }},
			wop{4, func() string { return fmt.Sprintf("applythread %d", anyAlive()) }},
			wop{2, func() string { return fmt.Sprintf("campaign %d", anyAlive()) }},
			wop{2, func() string { return fmt.Sprintf("unreach %d %d", lead(), x.nid(x.pickAny())) }},
		))
	case "partition":
		return x.choose(append(common,
			wop{4, func() string { return fmt.Sprintf("block %d %d", x.nid(x.pickAny()), x.nid(x.pickAny())) }},
			wop{1, func() string { return "unblock" }},
			wop{6, func() string { return fmt.Sprintf("drop %d", k()) }},
			wop{3, func() string { return fmt.Sprintf("campaign %d", anyAlive()) }},
		))
	case "crashy":
		return x.choose(append(common,
			wop{5, func() string { return fmt.Sprintf("crash %d", anyAlive()) }},
			wop{8, func() string { return fmt.Sprintf("restart %d", x.nid(x.pickAny())) }},
			wop{6, func() string { return fmt.Sprintf("sub %d", anyAlive()) }},
			wop{4, func() string { return fmt.Sprintf("appendthread %d", anyAlive()) }},
			wop{1, func() string { return fmt.Sprintf("appendthread %d hold", anyAlive()) }},
			wop{2, func() string { return fmt.Sprintf("ackthread %d", anyAlive()) }},
			wop{4, func() string { return fmt.Sprintf("applythread %d", anyAlive()) }},
			wop{3, func() string { return fmt.Sprintf("drop %d", k()) }},
		))
	case "confchange":
		return x.choose(append(common,
			wop{10, func() string { return fmt.Sprintf("proposecc %d %s", lead(), x.confChangeSpec()) }},
			wop{4, func() string {
				n := 2 + g.Intn(3)
				return fmt.Sprintf("proposebatch %d %d %d %s", lead(), n, g.Intn(n), x.confChangeSpec())
			}},
			// two configuration changes in one proposal: the second must be neutralised
			wop{2, func() string {
				n := 2 + g.Intn(3)
				a := g.Intn(n)
				b := (a + 1 + g.Intn(n-1)) % n
				return fmt.Sprintf("proposebatch %d %d %d %s %d %s", lead(), n, a, x.confChangeSpec(), b, x.confChangeSpec())
			}},
			wop{3, func() string {
				for id := uint64(1); id <= 6; id++ {
					if x.c.nodes[id] == nil {
						return fmt.Sprintf("addnode %d", id)
					}
				}
				return "tickall"
			}},
			wop{4, func() string { return fmt.Sprintf("snapshot %d", anyAlive()) }},
			wop{3, func() string { return fmt.Sprintf("compact %d %d", anyAlive(), 1+g.Intn(30)) }},
			wop{6, func() string { return fmt.Sprintf("flush %d", 1+g.Intn(3)) }},
		))
	case "snapshots":
		return x.choose(append(common,
			wop{8, func() string { return fmt.Sprintf("snapshot %d", anyAlive()) }},
			wop{8, func() string { return fmt.Sprintf("compact %d %d", anyAlive(), 1+g.Intn(40)) }},
			wop{5, func() string { return fmt.Sprintf("block %d %d", lead(), anyAlive()) }},
			wop{2, func() string { return "unblock" }},
			wop{4, func() string { return fmt.Sprintf("unreach %d %d", lead(), x.nid(x.pickAny())) }},
			wop{6, func() string { return fmt.Sprintf("propose %d", lead()) }},
			wop{3, func() string { return fmt.Sprintf("crash %d", anyAlive()) }},
			wop{4, func() string { return fmt.Sprintf("restart %d", x.nid(x.pickAny())) }},
		))
	case "transfer":
		return x.choose(append(common,
			wop{8, func() string { return fmt.Sprintf("transfer %d %d", lead(), x.nid(x.pickAny())) }},
			wop{3, func() string { return fmt.Sprintf("forget %d", anyAlive()) }},
			wop{4, func() string { return fmt.Sprintf("drop %d", k()) }},
		))
	case "reads":
		return x.choose(append(common,
			wop{14, func() string { return fmt.Sprintf("readindex %d", anyAlive()) }},
			wop{4, func() string { return fmt.Sprintf("drop %d", k()) }},
			wop{3, func() string { return fmt.Sprintf("block %d %d", lead(), anyAlive()) }},
			wop{2, func() string { return "unblock" }},
			wop{2, func() string { return fmt.Sprintf("campaign %d", anyAlive()) }},
		))
	case "limits":
		return x.choose(append(common,
			wop{20, func() string { return fmt.Sprintf("propose %d %d", lead(), []int{0, 10, 50, 150}[g.Intn(4)]) }},
			wop{6, func() string { return fmt.Sprintf("drop %d", k()) }},
			wop{4, func() string { return fmt.Sprintf("sub %d", anyAlive()) }},
		))
	}
	return "tickall"
}

var phases = []string{"healthy", "chaos", "partition", "crashy", "confchange", "snapshots", "transfer", "reads", "limits", "stall", "dsnap", "fig8snap", "dupvote", "snaplead", "rereads", "snapapply", "aba", "xferjoint", "soloread", "readhb", "selfack", "oddcalls", "snapinactive", "snapterm", "xferremoved", "cqreports", "jointcampaign", "twoccbatch", "snapfinish"}

func (x *gen) isLeader(n *Node) bool {
	if !n.alive || n.rn == nil {
		return false
	}
	d := n.rn.VerifState()
	return d.State == raft.StateLeader
}

// isolate cuts n off from every other node
func (x *gen) isolate(n *Node) {
	for _, id := range x.c.ids {
		if id != n.id {
			x.c.exec(fmt.Sprintf("block %d %d", n.id, id))
		}
	}
}

// elect makes n campaign until it leads (among the nodes it can reach)
func (x *gen) elect(n *Node) bool {
	for try := 0; try < 6 && !x.isLeader(n); try++ {
		x.c.exec(fmt.Sprintf("campaign %d", n.id))
		for r := 0; r < 4; r++ {
			for _, m := range x.c.alive() {
				x.c.exec(fmt.Sprintf("process %d", m.id))
			}
			x.deliverAll()
		}
		if !x.isLeader(n) {
			for i := 0; i < n.cfg.ET; i++ {
				x.c.exec(fmt.Sprintf("tick %d", n.id))
			}
		}
	}
	return x.isLeader(n)
}

// termOf: current term of a running node
func (x *gen) termOf(n *Node) uint64 {
	if !n.alive || n.rn == nil {
		return 0
	}
	d := n.rn.VerifState()
	return d.Term
}

// electAmong ticks and serves the nodes in [in] (one message at a time) until one of them leads
// a term above [above]; returns it right at that moment, before its first Ready is processed.
func (x *gen) electAmong(in []*Node, above uint64, only *Node) *Node {
	check := func() *Node {
		for _, n := range in {
			if x.isLeader(n) && x.termOf(n) > above {
				return n
			}
		}
		return nil
	}
	for round := 0; round < 60; round++ {
		for _, n := range in {
			if only == nil || n == only {
				x.c.exec(fmt.Sprintf("tick %d", n.id))
			}
			if l := check(); l != nil {
				return l
			}
			x.c.exec(fmt.Sprintf("process %d", n.id))
		}
		for k := len(x.c.net); k > 0 && len(x.c.net) > 0; k-- {
			x.c.exec("deliver 0")
			if l := check(); l != nil {
				return l
			}
		}
	}
	return nil
}

// directedFigure8Snap: two failed leaderships leave divergent uncommitted tails of different
// terms; the first leader returns, commits its old entries, takes a snapshot at one of them
// and compacts; the node with the other tail (same length, higher term) is sent that snapshot.
func (x *gen) directedFigure8Snap() {
	a := x.leader()
	if a == nil || len(x.c.alive()) < 3 {
		x.c.exec("tickall")
		x.c.exec("flush 3")
		return
	}
	x.c.exec("flush 4")
	giveUp := func() {
		x.c.exec("unblock")
		x.c.exec("flush 4")
	}
	// a is cut off with two uncommitted entries
	x.isolate(a)
	x.net0()
	x.c.exec(fmt.Sprintf("propose %d", a.id))
	x.c.exec(fmt.Sprintf("propose %d", a.id))
	x.c.exec(fmt.Sprintf("process %d", a.id))
	x.net0()
	// some other node wins a higher term; it is cut off before its first append leaves
	cnode := x.electAmong(x.others(a.id), x.termOf(a), nil)
	if cnode == nil {
		giveUp()
		return
	}
	x.isolate(cnode)
	x.c.exec(fmt.Sprintf("propose %d", cnode.id))
	x.c.exec(fmt.Sprintf("process %d", cnode.id))
	x.net0()
	// a returns (c stays cut off), wins again and commits its old entries
	x.c.exec("unblock")
	x.isolate(cnode)
	if l := x.electAmong(x.others(cnode.id), x.termOf(cnode), a); l != a {
		giveUp()
		return
	}
	x.c.exec(fmt.Sprintf("propose %d", a.id))
	for r := 0; r < 5; r++ {
		for _, m := range x.others(cnode.id) {
			x.c.exec(fmt.Sprintf("process %d", m.id))
		}
		x.deliverAll()
	}
	// snapshot at one of the old entries, compact up to it
	x.c.exec(fmt.Sprintf("snapshot %d %d", a.id, 2+x.g.Intn(2)))
	x.c.exec(fmt.Sprintf("compact %d 1000", a.id))
	x.c.exec("unblock")
	for r := 0; r < 8; r++ {
		x.c.exec(fmt.Sprintf("tick %d", a.id))
		x.c.exec("flush 2")
	}
}

// net0 drops every message in flight (stale traffic of the cut-off node)
func (x *gen) net0() {
	for len(x.c.net) > 0 && !x.c.stopped {
		x.c.exec("drop 0")
	}
}

// others: alive nodes except f
func (x *gen) others(f uint64) []*Node {
	var r []*Node
	for _, n := range x.c.alive() {
		if n.id != f {
			r = append(r, n)
		}
	}
	return r
}

// deliverAll delivers every in-flight message once (messages produced meanwhile stay).
func (x *gen) deliverAll() {
	for k := len(x.c.net); k > 0 && len(x.c.net) > 0; k-- {
		x.c.exec("deliver 0")
	}
}

// directedStall: a follower receives a committed configuration change, accepts the Ready that
// hands it out (or lets its apply thread lag), and is then ticked past its election timeout
// without hearing from the leader, before the change is applied.
func (x *gen) directedStall() {
	l := x.leader()
	if l == nil || len(x.c.alive()) < 3 {
		x.c.exec("tickall")
		x.c.exec("flush 3")
		return
	}
	var f *Node
	for _, n := range x.others(l.id) {
		if f == nil || x.g.Intn(2) == 0 {
			f = n
		}
	}
	x.c.exec(fmt.Sprintf("proposecc %d %s", l.id, x.confChangeSpec()))
	for r := 0; r < 5; r++ {
		for _, n := range x.others(f.id) {
			x.c.exec(fmt.Sprintf("process %d", n.id))
		}
		x.deliverAll()
	}
	// f accepts what it has (not applied yet), optionally persists in async mode
	x.c.exec(fmt.Sprintf("sub %d", f.id))
	if f.cfg.Async && x.g.Intn(2) == 0 {
		x.c.exec(fmt.Sprintf("appendthread %d", f.id))
	}
	for i := 0; i < 2*f.cfg.ET+2; i++ {
		x.c.exec(fmt.Sprintf("tick %d", f.id))
		if x.g.Intn(6) == 0 {
			x.c.exec(fmt.Sprintf("sub %d", f.id))
		}
	}
	if x.g.Intn(2) == 0 {
		x.deliverAll()
	}
	x.c.exec(fmt.Sprintf("process %d", f.id))
	x.c.exec("flush 4")
}

// directedDoubleSnapshot: a lagging follower is sent a snapshot, accepts it without finishing the
// write, and is sent a newer snapshot before the first write is acknowledged.
func (x *gen) directedDoubleSnapshot() {
	l := x.leader()
	if l == nil || len(x.c.alive()) < 3 {
		x.c.exec("tickall")
		x.c.exec("flush 3")
		return
	}
	f := x.others(l.id)[x.g.Intn(len(x.others(l.id)))]
	x.c.exec(fmt.Sprintf("block %d %d", l.id, f.id))
	grow := func() {
		for i := 0; i < 3; i++ {
			x.c.exec(fmt.Sprintf("propose %d", l.id))
		}
		for r := 0; r < 4; r++ {
			for _, n := range x.others(f.id) {
				x.c.exec(fmt.Sprintf("process %d", n.id))
			}
			x.deliverAll()
		}
		x.c.exec(fmt.Sprintf("snapshot %d", l.id))
		x.c.exec(fmt.Sprintf("compact %d 1000", l.id))
	}
	grow()
	x.c.exec("unblock")
	usnap := func() uint64 {
		if !f.alive || f.rn == nil {
			return 0
		}
		d := f.rn.VerifState()
		return d.UnstableSnapshot.GetMetadata().GetIndex()
	}
	// the leader learns that f is behind and sends the first snapshot; stop as soon as f holds it
	for r := 0; r < 8 && usnap() == 0; r++ {
		x.c.exec(fmt.Sprintf("tick %d", l.id))
		x.c.exec(fmt.Sprintf("process %d", l.id))
		x.deliverAll()
		if usnap() != 0 {
			break
		}
		x.c.exec(fmt.Sprintf("process %d", f.id))
		x.deliverAll()
	}
	s1 := usnap()
	late := s1 != 0 && x.g.Intn(2) == 0 // the first MsgSnap is delivered once more at the end
	if s1 != 0 && x.g.Intn(2) == 0 {
		// the transport reports f unreachable while the outcome of the snapshot is still open
		x.c.exec(fmt.Sprintf("unreach %d %d", l.id, f.id))
		x.c.exec(fmt.Sprintf("propose %d", l.id))
		x.c.exec(fmt.Sprintf("process %d", l.id))
	}
	if s1 != 0 {
		// f accepts the Ready that carries the snapshot; the write is not finished
		x.c.exec(fmt.Sprintf("sub %d", f.id))
		x.c.exec(fmt.Sprintf("block %d %d", l.id, f.id))
		grow()
		x.c.exec("unblock")
		x.c.exec("reportsnap 0 1")
		for r := 0; r < 8 && usnap() <= s1; r++ {
			x.c.exec(fmt.Sprintf("tick %d", l.id))
			x.c.exec(fmt.Sprintf("process %d", l.id))
			x.deliverAll()
			if f.cfg.Async {
				x.c.exec(fmt.Sprintf("sub %d", f.id)) // answers heartbeats while the append thread lags
				x.deliverAll()
			}
		}
	}
	if late {
		// the newer snapshot (and possibly entries after it) is accepted but not applied yet
		// when a delayed duplicate of the older MsgSnap is delivered
		x.c.exec(fmt.Sprintf("resnap %d 1", f.id))
	}
	x.c.exec(fmt.Sprintf("process %d", f.id))
	x.c.exec("flush 5")
}

// runRandom generates and executes one random schedule of about nops operations.
func runRandom(s SchedCfg, nops int, tr *traceWriter) *Cluster {
	c := newCluster(s, tr)
	x := &gen{g: rand.New(rand.NewSource(s.Seed ^ 0x5eed)), c: c}
	// get a leader first, most of the time
	if x.g.Intn(5) != 0 {
		for i := 0; i < 3*s.Base.ET && x.leader() == nil; i++ {
			c.exec("tickall")
			c.exec("flush 3")
		}
	}
	for c.ops < nops && !c.stopped {
		phase := phases[x.g.Intn(len(phases))]
		if s.Family != "" && s.Family != "mixed" && x.g.Intn(3) != 0 {
			phase = s.Family
		}
		switch phase {
		case "stall":
			x.directedStall()
		case "dsnap":
			x.directedDoubleSnapshot()
		case "fig8snap":
			x.directedFigure8Snap()
		case "dupvote":
			x.directedDupVote()
		case "snaplead":
			x.directedSnapLead()
		case "rereads":
			x.directedReReads()
		case "snapapply":
			x.directedSnapApply()
		case "aba":
			x.directedABA()
		case "xferjoint":
			x.directedXferJoint()
		case "soloread":
			x.directedSoloRead()
		case "readhb":
			x.directedReadHeartbeat()
		case "selfack":
			x.directedSelfAck()
		case "oddcalls":
			x.directedOddCalls()
		case "snapinactive":
			x.directedSnapInactive()
		case "snapterm":
			x.directedSnapTerm()
		case "xferremoved":
			x.directedXferRemoved()
		case "cqreports":
			x.directedCQReports()
		case "jointcampaign":
			x.directedJointCampaign()
		case "twoccbatch":
			x.directedTwoCCBatch()
		case "snapfinish":
			x.directedSnapFinish()
		default:
			for i, l := 0, 15+x.g.Intn(50); i < l && c.ops < nops; i++ {
				c.exec(x.next(phase))
			}
		}
		if x.g.Intn(3) == 0 {
			c.exec("unblock")
		}
	}
	// C15: two schedules out of three end with a fault-free suffix
	if x.g.Intn(3) != 0 {
		c.exec("heal")
	}
	c.finishMonitors()
	return c
}

func (c *Cluster) finishMonitors() {
	defer func() {
		if r := recover(); r != nil {
			c.mon.report("C14", "", "panic during the end-of-run checks: %s", sanitize(fmt.Sprint(r)))
		}
	}()
	c.mon.finish()
}

// runOps executes an explicit schedule.
func runOps(s SchedCfg, ops []string, tr *traceWriter) *Cluster {
	c := newCluster(s, tr)
	for _, op := range ops {
		if op = strings.TrimSpace(op); op != "" && op[0] != '#' {
			c.exec(op)
		}
	}
	c.finishMonitors()
	return c
}
