package main

import (
	"hash/fnv"
	"fmt"
	"math"
	"strings"

	"google.golang.org/protobuf/proto"

	raft "go.etcd.io/raft/v3"
	"go.etcd.io/raft/v3/quorum"
	pb "go.etcd.io/raft/v3/raftpb"
	"go.etcd.io/raft/v3/tracker"

	"verifharness/enc"
)

// Monitors evaluate the decidable reading of every property on the implementation's own
// behaviour (they do not depend on the model). They are the search for a failing input;
// they are not part of any proof.

type Violation struct {
	Prop  string
	What  string
	Seq   int
	Class string // known-finding signature class, "" if none
}

type propInfo struct {
	dropped    bool
	deliveries int
	local      bool
}

type nodeMon struct {
	prev        *raft.VerifDump
	startTerm   uint64
	lastRdHS    *pb.HardState
	// C20 / C18: what a Ready handed out must not change afterwards (no array shared with raft's
	// own state may be written through later)
	lastRd    *raft.Ready
	lastRdSig uint64
	nextApply   uint64
	prevState   raft.StateType
	prevTerm    uint64
	preGrants   map[uint64]bool
	leadSince   int
	viewFirst   uint64            // C09: first index of the logical log, per incarnation
	exposedVote map[uint64]uint64 // C07: term -> vote of the hard states exposed (or loaded at start)
	// C17 (CheckQuorum): ticks of this node, and for the current leadership the tick at which
	// each peer was last heard from
	ticks     int
	leadTerm  uint64
	leadStart int
	heard     map[uint64]int
	// the same without the restart of the window by a leadership-transfer request (finding F13)
	rawStart int
	rawHeard map[uint64]int
}

type Monitors struct {
	c    *Cluster
	viol []Violation
	seen map[string]bool

	handed          map[uint64]string // C01: index -> entry handed out first
	committed       map[uint64]string // entries known committed (below some node's commit index)
	leaders         map[uint64][2]uint64
	leaderCfg       map[uint64]string
	votes           map[[2]uint64]uint64 // (voter, term) -> candidate, real votes on the wire
	prevotes        map[[3]uint64]bool   // (voter, term, candidate) pre-vote grants on the wire
	persisted       map[uint64]*pb.HardState
	confAt          map[uint64]string
	reads           map[string]uint64
	maxReported     uint64
	maxLeaderCommit uint64
	props           map[string]*propInfo
	nm              map[uint64]*nodeMon
	stepMsg         *pb.Message
	stepPrev        *raft.VerifDump
	stepLast        [2]uint64
	viewBefore      string // C18: logical log before a persistence acknowledgement is processed
	// C15: fault-free suffixes run / converged, rounds (ticks) needed
	healRuns, healed, healRounds int
	undecided                    int // fault-free suffixes given up while a winnable election was still being fought
	excepted                     int // ... that ended in the documented two-voter exception
	// property-relevant events on which a monitor evaluated its condition (evidence: what was exercised)
	act map[string]int
}

func newMonitors(c *Cluster) *Monitors {
	return &Monitors{c: c, seen: map[string]bool{}, handed: map[uint64]string{}, committed: map[uint64]string{},
		leaders: map[uint64][2]uint64{}, leaderCfg: map[uint64]string{}, votes: map[[2]uint64]uint64{},
		prevotes: map[[3]uint64]bool{}, persisted: map[uint64]*pb.HardState{}, confAt: map[uint64]string{},
		reads: map[string]uint64{}, props: map[string]*propInfo{}, nm: map[uint64]*nodeMon{}, act: map[string]int{}}
}

func (m *Monitors) report(prop, class, format string, a ...any) {
	what := fmt.Sprintf(format, a...)
	key := prop + "|" + what
	if m.seen[key] || len(m.viol) > 200 {
		return
	}
	m.seen[key] = true
	m.viol = append(m.viol, Violation{Prop: prop, What: what, Seq: m.c.seq, Class: class})
}

// hit counts one evaluation of a monitor condition on a relevant event.
func (m *Monitors) hit(what string) { m.act[what]++ }

func (m *Monitors) node(n *Node) *nodeMon {
	x := m.nm[n.id]
	if x == nil {
		x = &nodeMon{preGrants: map[uint64]bool{}}
		m.nm[n.id] = x
	}
	return x
}

func entKey(e *pb.Entry) string {
	return fmt.Sprintf("%d/%d/%s", e.GetTerm(), int(e.GetType()), enc.Hex(e.GetData()))
}

// logical log of a node: storage entries overlaid by the unstable tail
type logView struct {
	first uint64 // index of the first entry held
	ents  []*pb.Entry
	baseT uint64 // term at first-1
}

func (n *Node) logView(d *raft.VerifDump) logView {
	fi, _ := n.st.FirstIndex()
	li, _ := n.st.LastIndex()
	bt, _ := n.st.Term(fi - 1)
	var ents []*pb.Entry
	if li >= fi {
		ents, _ = n.st.Entries(fi, li+1, math.MaxUint64)
	}
	v := logView{first: fi, ents: ents, baseT: bt}
	if d != nil {
		if d.UnstableSnapshot != nil {
			v.first = d.UnstableSnapshot.GetMetadata().GetIndex() + 1
			v.baseT = d.UnstableSnapshot.GetMetadata().GetTerm()
			v.ents = nil
		}
		if len(d.UnstableEntries) > 0 {
			off := d.UnstableOffset
			if off >= v.first && off <= v.first+uint64(len(v.ents)) {
				v.ents = append(append([]*pb.Entry(nil), v.ents[:off-v.first]...), d.UnstableEntries...)
			} else if off < v.first {
				// unstable reaches below the stable base (cannot happen in a healthy log)
				v.first = off
				v.ents = d.UnstableEntries
			}
		}
	}
	return v
}

func (v logView) at(i uint64) *pb.Entry {
	if i < v.first || i >= v.first+uint64(len(v.ents)) {
		return nil
	}
	return v.ents[i-v.first]
}
func (v logView) last() uint64 { return v.first + uint64(len(v.ents)) - 1 }
func (v logView) lastTerm() uint64 {
	if len(v.ents) == 0 {
		return v.baseT
	}
	return v.ents[len(v.ents)-1].GetTerm()
}

// ---------- hooks ----------

func (m *Monitors) onPanic(n *Node, kind, out string) {
	// C18: a range or term query of the combined log view must answer ErrCompacted / ErrUnavailable
	// outside the available range, not run into a bounds assertion
	if strings.Contains(out, "out_of_bound") || strings.Contains(out, "slice[") {
		m.report("C18", "", "node %d: a log view query ran into a bounds assertion in %s: %.160s", n.id, kind, out)
	}
	class := ""
	switch {
	case strings.Contains(out, "removed_all_voters") || strings.Contains(out, "more_than_one_voter") ||
		strings.Contains(out, "zero-voter") || strings.Contains(out, "already_joint") || strings.Contains(out, "non-joint") ||
		strings.Contains(out, "can't_apply_simple"):
		class = "F6"
	case strings.Contains(out, "state.commit") && strings.Contains(out, "out_of_range") && kind == "new":
		class = "F2"
	case strings.Contains(out, "not_positive"):
		class = "F10"
	}
	if m.c.tainted["F9"] && class == "" {
		class = "F9"
	}
	m.report("C14", class, "panic in %s on node %d: %s", kind, n.id, out)
}

func (m *Monitors) onStart(n *Node) {
	x := m.node(n)
	d := n.rn.VerifState()
	x.prev = &d
	x.startTerm = d.Term
	x.prevState = d.State
	x.prevTerm = d.Term
	x.preGrants = map[uint64]bool{}
	x.viewFirst = 0
	hs, _, _ := n.st.InitialState()
	x.lastRdHS = hs
	x.lastRd = nil
	if x.exposedVote == nil {
		x.exposedVote = map[uint64]uint64{}
	}
	if hs != nil && hs.GetVote() != 0 {
		x.exposedVote[hs.GetTerm()] = hs.GetVote()
	}
	snap, _ := n.st.Snapshot()
	x.nextApply = snap.GetMetadata().GetIndex() + 1
	// C07: the new incarnation continues from exactly the last persisted hard state
	if p := m.persisted[n.id]; p != nil {
		m.hit("C07.restart-from-persisted")
		if d.Term != p.GetTerm() || d.Vote != p.GetVote() || d.Committed < p.GetCommit() {
			m.report("C07", "", "node %d restarted with term/vote/commit %d/%d/%d, last persisted %s", n.id, d.Term, d.Vote, d.Committed, enc.HardState(p))
		}
	}
}

func (m *Monitors) onCrash(n *Node) { m.hit("C05.crash") }

func (m *Monitors) onReady(n *Node, rd *raft.Ready) {
	x := m.node(n)
	d := n.rn.VerifState()
	if x.lastRd != nil {
		m.hit("C20.previous-ready-rehashed")
		if readySig(x.lastRd) != x.lastRdSig {
			m.report("C20", "", "node %d: the contents of the previous Ready (entries, committed entries or messages) changed after it had been handed out", n.id)
		}
	}
	x.lastRd, x.lastRdSig = rd, readySig(rd)
	// C07 (a): exposed hard states
	if rd.HardState != nil && !raft.IsEmptyHardState(rd.HardState) {
		// C02 / C05: a Ready whose hard state carries a new term or a new vote (or that carries
		// entries) must ask for a durable write: an application that syncs only when MustSync says
		// so would otherwise forget the vote in a crash and could vote again in the same term
		if !n.cfg.Async {
			pt, pv := uint64(0), uint64(0)
			if p := x.lastRdHS; p != nil {
				pt, pv = p.GetTerm(), p.GetVote()
			} else if hs, _, err := n.st.InitialState(); err == nil && hs != nil {
				pt, pv = hs.GetTerm(), hs.GetVote()
			}
			if (rd.HardState.GetTerm() != pt || rd.HardState.GetVote() != pv || len(rd.Entries) > 0) && !rd.MustSync {
				m.report("C02", "", "node %d: a Ready exposes term %d vote %d (before: term %d vote %d) without MustSync: an application that syncs only when told to loses the vote in a crash", n.id, rd.HardState.GetTerm(), rd.HardState.GetVote(), pt, pv)
			}
			m.hit("C02.hardstate-exposed-mustsync")
		}
		if p := x.lastRdHS; p != nil {
			m.hit("C07.exposed-hardstate")
			m.checkHS("exposed", n, p, rd.HardState)
		}
		x.lastRdHS = rd.HardState
		if rd.HardState.GetVote() != 0 {
			x.exposedVote[rd.HardState.GetTerm()] = rd.HardState.GetVote()
		}
		if c := rd.HardState.GetCommit(); c > m.maxReported {
			m.maxReported = c
		}
	}
	// C08
	cents := rd.CommittedEntries
	for _, mm := range rd.Messages {
		if mm.GetType() == pb.MsgStorageApply {
			cents = mm.GetEntries()
		}
	}
	if rd.Snapshot != nil && rd.Snapshot.GetMetadata().GetIndex() != 0 {
		if len(cents) > 0 {
			m.report("C08", "", "node %d: committed entries handed out together with a pending snapshot", n.id)
		}
		if s := rd.Snapshot.GetMetadata().GetIndex() + 1; s > x.nextApply {
			x.nextApply = s
		}
	}
	if len(cents) > 0 {
		m.hit("C08.handout-batch")
		if d.UnstableSnapshot != nil {
			m.report("C08", "", "node %d: committed entries handed out while a snapshot install is outstanding", n.id)
		}
		if cents[0].GetIndex() != x.nextApply {
			m.report("C08", "", "node %d: batch starts at %d, expected %d", n.id, cents[0].GetIndex(), x.nextApply)
		}
		for i, e := range cents {
			if e.GetIndex() != cents[0].GetIndex()+uint64(i) {
				m.report("C08", "", "node %d: batch not contiguous at %d", n.id, e.GetIndex())
			}
			if e.GetIndex() > d.Committed {
				m.report("C08", "", "node %d: index %d handed out beyond commit %d", n.id, e.GetIndex(), d.Committed)
			}
			if n.cfg.Async {
				if li, _ := n.st.LastIndex(); e.GetIndex() > li && e.GetIndex() >= d.UnstableOffset {
					m.report("C08", "", "node %d (async): index %d handed out but not locally durable", n.id, e.GetIndex())
				}
			}
		}
		x.nextApply = cents[len(cents)-1].GetIndex() + 1
	}
	// C11
	for _, rs := range rd.ReadStates {
		ctx := string(rs.RequestCtx)
		m.hit("C11.read-served")
		want, ok := m.reads[ctx]
		if !ok {
			m.report("C11", "", "node %d: read state with unknown context %q", n.id, ctx)
		} else if rs.Index < want && !n.cfg.Lease {
			// (the property is about ReadOnlySafe; a lease-based read relies on bounded clock drift,
			// which a schedule that ticks nodes independently does not provide)
			class := ""
			if len(d.Config.Voters[0]) == 1 && len(d.Config.Voters[1]) == 0 {
				class = "F3"
			}
			m.report("C11", class, "node %d: read state %q index %d below commit %d reported before the request", n.id, ctx, rs.Index, want)
		}
	}
	// C18: entry ranges are consecutive
	ranges := [][]*pb.Entry{rd.Entries}
	for _, mm := range rd.Messages {
		if mm.GetType() == pb.MsgStorageAppend {
			ranges = append(ranges, mm.GetEntries())
		}
		if mm.GetType() == pb.MsgApp && len(mm.GetEntries()) > 0 {
			m.hit("C18.append-range")
			if mm.GetEntries()[0].GetIndex() != mm.GetIndex()+1 {
				m.report("C18", "", "node %d: MsgApp to %d with prev index %d starts at entry %d", n.id, mm.GetTo(), mm.GetIndex(), mm.GetEntries()[0].GetIndex())
			}
			ranges = append(ranges, mm.GetEntries())
		}
	}
	for _, es := range ranges {
		for i, e := range es {
			if e.GetIndex() != es[0].GetIndex()+uint64(i) {
				m.report("C18", "", "node %d: an entry range handed out is not consecutive: index %d at position %d after %d", n.id, e.GetIndex(), i, es[0].GetIndex())
				break
			}
			if i > 0 && e.GetTerm() < es[i-1].GetTerm() {
				m.report("C18", "", "node %d: an entry range handed out has decreasing terms at index %d", n.id, e.GetIndex())
				break
			}
		}
	}
	// C16: append sizes
	for _, mm := range rd.Messages {
		if mm.GetType() == pb.MsgApp && len(mm.GetEntries()) > 1 {
			m.hit("C16.multi-entry-append")
			var sz uint64
			for _, e := range mm.GetEntries() {
				sz += uint64(proto.Size(e))
			}
			if sz > n.cfg.MaxSize {
				m.report("C16", "", "node %d: MsgApp with %d entries of %d bytes exceeds MaxSizePerMsg %d", n.id, len(mm.GetEntries()), sz, n.cfg.MaxSize)
			}
		}
	}
	m.afterOp(n, "ready")
}

func (m *Monitors) checkHS(kind string, n *Node, p, h *pb.HardState) {
	if h.GetTerm() < p.GetTerm() || h.GetCommit() < p.GetCommit() {
		m.report("C07", "", "node %d: %s hard state went back: %s -> %s", n.id, kind, enc.HardState(p), enc.HardState(h))
	}
	if h.GetTerm() == p.GetTerm() && p.GetVote() != 0 && h.GetVote() != p.GetVote() {
		m.report("C07", "", "node %d: %s vote changed within term %d: %d -> %d", n.id, kind, h.GetTerm(), p.GetVote(), h.GetVote())
	}
}

func (m *Monitors) onPersistHS(n *Node, hs *pb.HardState) {
	if p := m.persisted[n.id]; p != nil {
		m.hit("C07.persisted-hardstate")
		m.checkHS("persisted", n, p, hs)
	}
	m.persisted[n.id] = proto.Clone(hs).(*pb.HardState)
}

func (m *Monitors) onRestore(n *Node, snap *pb.Snapshot) { m.hit("C09.snapshot-installed") }

func (m *Monitors) onApply(n *Node, e *pb.Entry) {
	k := entKey(e)
	m.hit("C01.handout")
	if _, ok := m.handed[e.GetIndex()]; ok {
		m.hit("C01.handout-compared-with-another-node")
	}
	if old, ok := m.handed[e.GetIndex()]; ok && old != k {
		class := ""
		if m.c.tainted["F9"] {
			class = "F9"
		}
		if m.c.tainted["F5"] {
			class = "F5"
		}
		m.report("C01", class, "index %d handed out as %s to node %d but as %s before", e.GetIndex(), k, n.id, old)
	} else if !ok {
		m.handed[e.GetIndex()] = k
	}
	if e.GetType() == pb.EntryNormal && len(e.GetData()) > 0 {
		tok := string(e.GetData())
		if p := m.props[tok]; p == nil {
			m.report("C20", "", "node %d applies payload %q that nobody proposed", n.id, tok)
		} else if p.dropped {
			m.report("C20", "", "payload %q of a proposal reported as dropped was committed", tok)
		}
	}
}

func (m *Monitors) onConfApplied(n *Node, idx uint64, cs *pb.ConfState) {
	s := enc.ConfStateSorted(cs)
	m.hit("C10.conf-change-applied")
	if old, ok := m.confAt[idx]; ok && old != s {
		class := ""
		if m.c.tainted["F9"] {
			class = "F9"
		}
		m.report("C10", class, "node %d: configuration after index %d is %s, another node derived %s", n.id, idx, s, old)
	} else if !ok {
		m.confAt[idx] = s
	}
}

func (m *Monitors) onPropose(tok string, out string, local bool) {
	m.props[tok] = &propInfo{dropped: strings.Contains(out, "ProposalDropped"), local: local}
	if strings.Contains(out, "ProposalDropped") {
		m.hit("C20.proposal-dropped")
	} else {
		m.hit("C20.proposal-accepted")
	}
}

func (m *Monitors) onReadIndex(ctx string) { m.reads[ctx] = m.maxReported }

// onAccepted (C16): node n accepted a proposal of k entries. With MaxUncommittedEntriesSize set, a
// proposal that puts payload into the log is accepted only while the payload the leader has
// proposed in its own term and not yet seen committed stays within the limit (the proposal that
// starts from zero may cross it: the "plus one"): the uncommitted payload of the leader's own term
// BEFORE this proposal must not exceed the limit. What counts is what entered the log: a refused
// configuration change enters as an empty entry and is always accepted.
func (m *Monitors) onAccepted(n *Node, k int) {
	lim := n.cfg.MaxUncommitted
	if lim == 0 || lim == math.MaxUint64 || k <= 0 || !n.alive || n.rn == nil {
		return
	}
	d := n.rn.VerifState()
	if d.State != raft.StateLeader {
		return
	}
	v := n.logView(&d)
	if len(v.ents) < k {
		return
	}
	var tail, appended uint64
	for i, e := range v.ents {
		if v.first+uint64(i) > d.Committed && e.GetTerm() == d.Term {
			tail += uint64(len(e.GetData()))
			if i >= len(v.ents)-k {
				appended += uint64(len(e.GetData()))
			}
		}
	}
	if appended == 0 {
		return
	}
	m.hit("C16.proposal-accepted-under-uncommitted-limit")
	if before := tail - appended; before > lim {
		m.report("C16", "", "leader %d accepted a non-empty proposal although %d bytes of its own uncommitted proposals were already in its log (MaxUncommittedEntriesSize %d)", n.id, before, lim)
	}
}

// onBatch: a multi-entry proposal was stepped into node n. If it was accepted at a leader, the
// entries must appear in its log in order, with type and payload preserved, except that a
// configuration change may be replaced by an empty normal entry (C20).
func (m *Monitors) onBatch(n *Node, ents []*pb.Entry, out string) {
	if !n.alive || n.rn == nil || !strings.HasSuffix(out, "res=ok") && !strings.Contains(out, "res=ok") {
		return
	}
	d := n.rn.VerifState()
	if d.State != raft.StateLeader {
		return
	}
	v := n.logView(&d)
	if len(v.ents) < len(ents) {
		m.report("C20", "", "leader %d accepted a batch of %d entries but its log holds fewer", n.id, len(ents))
		return
	}
	m.hit("C20.batch-accepted")
	tail := v.ents[len(v.ents)-len(ents):]
	for i, e := range ents {
		g := tail[i]
		if e.GetType() == pb.EntryNormal {
			if g.GetType() != pb.EntryNormal || string(g.GetData()) != string(e.GetData()) {
				m.report("C20", "", "leader %d: entry %d of an accepted batch was stored as type %v payload %q instead of payload %q", n.id, i, g.GetType(), g.GetData(), e.GetData())
			}
		} else {
			kept := g.GetType() == e.GetType() && string(g.GetData()) == string(e.GetData())
			neutral := g.GetType() == pb.EntryNormal && len(g.GetData()) == 0
			if !kept && !neutral {
				m.report("C20", "", "leader %d: configuration change %d of an accepted batch was stored as neither itself nor an empty entry", n.id, i)
			}
		}
	}
}

// onTick: node n was ticked (after the call).
func (m *Monitors) onTick(n *Node) {
	x := m.node(n)
	x.ticks++
}

// onSend: a message is handed to the network by node n.
func (m *Monitors) onSend(n *Node, msg *pb.Message) {
	x := m.node(n)
	t := msg.GetType()
	if msg.GetTerm() != 0 && msg.GetTerm() < x.startTerm && t != pb.MsgPreVoteResp {
		m.report("C07", "", "node %d sent %s with term %d below the term %d it restarted from", n.id, t, msg.GetTerm(), x.startTerm)
	}
	hs, _, _ := n.st.InitialState()
	switch t {
	case pb.MsgVoteResp:
		if msg.GetReject() {
			return
		}
		k := [2]uint64{n.id, msg.GetTerm()}
		m.hit("C02.vote-granted")
		m.hit("C05.vote-released")
		if c, ok := m.votes[k]; ok && c != msg.GetTo() {
			m.report("C02", "", "node %d granted its vote in term %d to %d and to %d", n.id, msg.GetTerm(), c, msg.GetTo())
		}
		m.votes[k] = msg.GetTo()
		// C07: the vote that is granted has been exposed in a hard state of this node
		m.hit("C07.grant-vs-exposed-hardstate")
		// (a node that has meanwhile exposed a higher term can no longer vote in this one)
		if x.exposedVote[msg.GetTerm()] != msg.GetTo() && !(x.lastRdHS != nil && x.lastRdHS.GetTerm() > msg.GetTerm()) {
			m.report("C07", "", "node %d granted its vote to %d in term %d but never exposed a hard state with that vote (exposed for that term: vote %d)", n.id, msg.GetTo(), msg.GetTerm(), x.exposedVote[msg.GetTerm()])
		}
		// C05/C02: the vote is durable before the grant is visible
		if hs.GetTerm() < msg.GetTerm() || (hs.GetTerm() == msg.GetTerm() && hs.GetVote() != msg.GetTo()) {
			m.report("C05", "", "node %d released a vote for %d in term %d while its durable hard state is %s", n.id, msg.GetTo(), msg.GetTerm(), enc.HardState(hs))
		}
	case pb.MsgPreVoteResp:
		if !msg.GetReject() {
			m.prevotes[[3]uint64{n.id, msg.GetTerm(), msg.GetTo()}] = true
		}
	case pb.MsgAppResp:
		if msg.GetReject() {
			return
		}
		li, _ := n.st.LastIndex()
		m.hit("C05.append-acknowledged")
		if li < msg.GetIndex() && hs.GetTerm() <= msg.GetTerm() {
			m.report("C05", "", "node %d acknowledged index %d in term %d while its storage ends at %d", n.id, msg.GetIndex(), msg.GetTerm(), li)
		}
	case pb.MsgSnap:
		m.hit("C09.snapshot-sent")
		if d := x.prev; d != nil && msg.GetSnapshot().GetMetadata().GetIndex() > d.Committed {
			m.report("C09", "", "node %d sent a snapshot at %d beyond its commit %d", n.id, msg.GetSnapshot().GetMetadata().GetIndex(), d.Committed)
		}
	case pb.MsgApp:
		if d := x.prev; d != nil {
			if p, ok := d.Progress[msg.GetTo()]; ok && p.State == tracker.StateSnapshot && d.State == raft.StateLeader && d.Term == msg.GetTerm() {
				// queued while the follower was already waiting for a snapshot?
				_ = p
			}
		}
	}
}

// viewString renders the logical log of n (first index, then every entry).
func (m *Monitors) viewString(n *Node) string {
	d := n.rn.VerifState()
	v := n.logView(&d)
	var sb strings.Builder
	fmt.Fprintf(&sb, "%d/%d:", v.first, v.baseT)
	for _, e := range v.ents {
		sb.WriteString(entKey(e))
		sb.WriteByte(',')
	}
	return sb.String()
}

// beforeAdvance: the application is about to acknowledge the persistence of a Ready (sync).
func (m *Monitors) beforeAdvance(n *Node) {
	if n.alive && n.rn != nil {
		m.viewBefore = m.viewString(n)
	}
}

func (m *Monitors) beforeStep(n *Node, msg *pb.Message) {
	m.viewBefore = ""
	if t := msg.GetType(); (t == pb.MsgStorageAppendResp || t == pb.MsgStorageApplyResp) && n.alive && n.rn != nil {
		m.viewBefore = m.viewString(n)
	}
	if x := m.node(n); x.heard != nil && msg.GetFrom() != 0 && msg.GetFrom() != n.id && !raft.IsLocalMsg(msg.GetType()) {
		x.heard[msg.GetFrom()] = x.ticks
		x.rawHeard[msg.GetFrom()] = x.ticks
	}
	m.stepMsg = msg
	d := n.rn.VerifState()
	m.stepPrev = &d
	v := n.logView(&d)
	m.stepLast = [2]uint64{v.lastTerm(), v.last()}
	if msg.GetType() == pb.MsgProp {
		for _, e := range msg.GetEntries() {
			if p := m.props[string(e.GetData())]; p != nil {
				p.deliveries++
			}
		}
	}
}

func jointQuorum(cfg tracker.Config, has func(uint64) bool) bool {
	votes := map[uint64]bool{}
	for id := range cfg.Voters.IDs() {
		if has(id) {
			votes[id] = true
		}
	}
	return cfg.Voters.VoteResult(votes) == quorum.VoteWon
}

// afterOp: per-node checks after any call that may have changed the node.
func (m *Monitors) afterOp(n *Node, kind string) {
	if !n.alive || n.rn == nil {
		return
	}
	x := m.node(n)
	d := n.rn.VerifState()
	prev := x.prev
	x.prev = &d
	v := n.logView(&d)
	msg := m.stepMsg
	if kind != "step" {
		msg = nil
	}
	m.stepMsg = nil
	// C18: a persistence acknowledgement (possibly stale or reordered) never changes the logical log
	if m.viewBefore != "" && (kind == "step" || kind == "advance") {
		m.hit("C18.persistence-ack")
		// (the old log must be a prefix of the new one: Advance also steps the node's messages to
		// itself, where a candidate that becomes leader appends its empty entry, and an apply
		// acknowledgement can make a leader append the entry that leaves a joint configuration)
		if now := m.viewString(n); !strings.HasPrefix(now, m.viewBefore) {
			m.report("C18", "", "node %d: a persistence acknowledgement (%s) changed the logical log from %.300s to %.300s", n.id, kind, m.viewBefore, now)
		}
	}
	m.viewBefore = ""

	// C15 / C17: the election timer of a node that cannot campaign (a learner, a node outside the
	// configuration, a node with a snapshot pending) is never restarted by a tick: it keeps growing,
	// so that the CheckQuorum lease of a leader the node no longer hears from runs out
	if kind == "tick" && prev != nil && d.State != raft.StateLeader && prev.State == d.State && prev.Term == d.Term &&
		d.ElectionElapsed < prev.ElectionElapsed {
		pr, ok := d.Progress[n.id]
		promotable := ok && !pr.IsLearner && d.UnstableSnapshot == nil && !d.UnstableSnapshotInProgress
		m.hit("C15.election-timer-restarted-by-tick")
		if !promotable {
			m.report("C15", "", "node %d cannot campaign (learner, not a member or snapshot pending) but a tick restarted its election timer (%d -> %d): it keeps renewing the lease of a leader it no longer hears from", n.id, prev.ElectionElapsed, d.ElectionElapsed)
		}
	}

	// C17: a granted pre-vote response is an answer to a pre-campaign; at a node that is not (or no
	// longer) a pre-candidate it changes neither term nor leader
	if msg != nil && prev != nil && msg.GetType() == pb.MsgPreVoteResp && !msg.GetReject() && prev.State != raft.StatePreCandidate {
		m.hit("C17.prevote-grant-at-non-precandidate")
		if d.Term != prev.Term || d.Lead != prev.Lead {
			m.report("C17", "", "node %d (%v, not a pre-candidate) stepped a pre-vote grant of term %d and went from term %d lead %d to term %d lead %d", n.id, prev.State, msg.GetTerm(), prev.Term, prev.Lead, d.Term, d.Lead)
		}
	}

	// C06 / C14-adjacent: commit never ahead of the log, never decreasing within an incarnation
	if d.Committed > v.last() {
		m.report("C06", "", "node %d: commit %d beyond last index %d", n.id, d.Committed, v.last())
	}
	if prev != nil && d.Committed < prev.Committed {
		m.report("C09", "", "node %d: commit index went back %d -> %d (%s)", n.id, prev.Committed, d.Committed, kind)
	}
	if prev != nil && d.Term < prev.Term {
		m.report("C07", "", "node %d: term went back %d -> %d", n.id, prev.Term, d.Term)
	}
	// C09: the base of the logical log never moves back within an incarnation (a snapshot that
	// was accepted stays the base until it is durable; compaction only moves forward)
	if kind != "new" && x.viewFirst != 0 && v.first < x.viewFirst {
		m.report("C09", "", "node %d: the base of its log went back from %d to %d (%s)", n.id, x.viewFirst-1, v.first-1, kind)
	}
	x.viewFirst = v.first
	// C03: within one log
	pt := v.baseT
	for i, e := range v.ents {
		if e.GetIndex() != v.first+uint64(i) {
			m.report("C03", "", "node %d: log not contiguous at position %d (index %d)", n.id, i, e.GetIndex())
			break
		}
		if e.GetTerm() < pt {
			m.report("C03", "", "node %d: term decreases at index %d", n.id, e.GetIndex())
			break
		}
		pt = e.GetTerm()
	}
	// C03: against all other nodes
	for _, id := range m.c.ids {
		o := m.c.nodes[id]
		if o == n {
			continue
		}
		var od *raft.VerifDump
		if o.alive && o.rn != nil {
			od = m.node(o).prev
		}
		ov := o.logView(od)
		lo, hi := max(v.first, ov.first), min(v.last(), ov.last())
		if hi >= lo && hi > 0 {
			m.hit("C03.pair-of-overlapping-logs")
		}
		match := false
		for i := hi; i >= lo && i > 0; i-- {
			a, b := v.at(i), ov.at(i)
			if a == nil || b == nil {
				continue
			}
			if a.GetTerm() == b.GetTerm() {
				match = true
			}
			if match && entKey(a) != entKey(b) {
				class := ""
				if m.c.tainted["F5"] {
					class = "F5"
				}
				m.report("C03", class, "logs of %d and %d agree on a term above index %d but differ there: %s vs %s", n.id, o.id, i, entKey(a), entKey(b))
				break
			}
		}
	}
	// committed prefix bookkeeping (C01 at commit time, C04, C06)
	for i := max(v.first, 1); i <= d.Committed && i <= v.last(); i++ {
		if prev != nil && i <= prev.Committed && kind != "new" {
			continue
		}
		e := v.at(i)
		if e == nil {
			continue
		}
		k := entKey(e)
		m.hit("C01.newly-committed-index")
		if old, ok := m.committed[i]; ok && old != k {
			class := ""
			if m.c.tainted["F5"] {
				class = "F5"
			}
			m.report("C01", class, "node %d considers %s committed at index %d, another node %s", n.id, k, i, old)
			if d.State != raft.StateLeader {
				// C06: a follower's commit index covers only the prefix on which it matches the leader
				m.report("C06", class, "node %d (not leader) moved its commit index over index %d where it holds %s, not the committed %s", n.id, i, k, old)
			}
		} else if !ok {
			m.committed[i] = k
		}
	}
	// C16: no appends to a follower whose snapshot is pending: a follower leaves StateSnapshot only
	// through a reported outcome, an acknowledgement from that follower, a change of its progress
	// record by a configuration change, or the end of the leadership
	if prev != nil && prev.State == raft.StateLeader && d.State == raft.StateLeader && prev.Term == d.Term {
		for id, pp := range prev.Progress {
			np, ok := d.Progress[id]
			if pp.State != tracker.StateSnapshot || !ok || np.State == tracker.StateSnapshot {
				continue
			}
			m.hit("C16.left-snapshot-state")
			allowed := kind == "snapstatus" || kind == "applycc" || kind == "advance" ||
				(kind == "step" && msg != nil && (msg.GetFrom() == id || msg.GetType() == pb.MsgStorageApplyResp || msg.GetType() == pb.MsgStorageAppendResp))
			if !allowed {
				m.report("C16", "", "leader %d resumed appends to %d (%s -> %s) on %q while the outcome of the snapshot it sent is pending", n.id, id, pp.State, np.State, kind)
			}
		}
	}
	// leader checks
	if d.State == raft.StateLeader {
		me := [2]uint64{n.id, uint64(n.inc)}
		if l, ok := m.leaders[d.Term]; ok && l != me {
			class := ""
			if l[0] == n.id {
				class = "F5"
				m.c.tainted["F5"] = true
			}
			m.report("C02", class, "term %d has two leaders: node %d (incarnation %d) and node %d (incarnation %d)", d.Term, l[0], l[1], n.id, n.inc)
		} else if !ok {
			m.leaders[d.Term] = me
			m.hit("C02.leader-elected")
			m.hit("C04.new-leader-vs-committed")
			// C02: election quorum from grants on the wire (plus the own vote)
			grant := func(id uint64) bool {
				if id == n.id {
					return true
				}
				return m.votes[[2]uint64{id, d.Term}] == n.id
			}
			if !jointQuorum(d.Config, grant) {
				m.report("C02", "", "node %d leads term %d without granted votes from a majority of every voter set of %s", n.id, d.Term, cfgStr(d.Config))
			}
			// own vote durable? (F5)
			hs, _, _ := n.st.InitialState()
			if hs.GetTerm() < d.Term {
				m.c.tainted["F5pre"] = true
			}
			// C04: the new leader holds every entry known committed
			for i, k := range m.committed {
				if e := v.at(i); e != nil && entKey(e) != k {
					m.report("C04", "", "new leader %d of term %d has %s at index %d where %s is committed", n.id, d.Term, entKey(e), i, k)
				} else if e == nil && i > v.last() {
					m.report("C04", "", "new leader %d of term %d lacks committed index %d", n.id, d.Term, i)
				}
			}
		}
		if d.Committed > m.maxLeaderCommit {
			m.maxLeaderCommit = d.Committed
		}
		// C06: a commit advancement at the leader is backed by a durable quorum and own term
		if prev != nil && prev.State == raft.StateLeader && prev.Term == d.Term && d.Committed > prev.Committed {
			c := d.Committed
			e := v.at(c)
			m.hit("C06.leader-commit-advanced")
			if e != nil && e.GetTerm() != d.Term {
				m.report("C06", "", "leader %d of term %d advanced commit to %d whose entry has term %d", n.id, d.Term, c, e.GetTerm())
			}
			if e != nil {
				holds := func(id uint64) bool {
					o := m.c.nodes[id]
					if o == nil {
						return false
					}
					fi, _ := o.st.FirstIndex()
					li, _ := o.st.LastIndex()
					if c < fi {
						snap, _ := o.st.Snapshot()
						return snap.GetMetadata().GetIndex() >= c
					}
					if c > li {
						return false
					}
					es, err := o.st.Entries(c, c+1, math.MaxUint64)
					return err == nil && len(es) == 1 && entKey(es[0]) == entKey(e)
				}
				if !jointQuorum(d.Config, holds) {
					m.report("C06", "", "leader %d advanced commit to %d which is not durably stored on a majority of every voter set of %s", n.id, c, cfgStr(d.Config))
				}
			}
		}
		// C05: own entries count towards commit only when durable
		if p, ok := d.Progress[n.id]; ok {
			if li, _ := n.st.LastIndex(); p.Match > li {
				m.report("C05", "", "leader %d counts its own entries up to %d while its storage ends at %d", n.id, p.Match, li)
			}
		}
		// C10: at most one unapplied conf change of this leadership in the log
		if !n.cfg.DCV {
			cnt := 0
			for i := d.Applied + 1; i <= v.last(); i++ {
				if e := v.at(i); e != nil && e.GetTerm() == d.Term && e.GetType() != pb.EntryNormal {
					cnt++
				}
			}
			if cnt > 1 {
				m.report("C10", "", "leader %d of term %d has %d unapplied configuration changes of its own term in its log", n.id, d.Term, cnt)
			}
		}
		// C16: inflight window (count, and the byte budget up to the message that crosses it)
		for id, p := range d.Progress {
			if p.InflCount > 0 {
				m.hit("C16.inflight-window-nonempty")
			}
			if p.InflFull {
				m.hit("C16.inflight-window-full")
			}
			if p.InflCount > n.cfg.MaxInflight {
				m.report("C16", "", "leader %d has %d inflight appends to %d, limit %d", n.id, p.InflCount, id, n.cfg.MaxInflight)
			}
			if mb := n.cfg.MaxInflightBytes; mb != 0 && len(p.InflWindow) > 0 {
				last := p.InflWindow[len(p.InflWindow)-1][1]
				if p.InflBytes-last >= mb {
					m.report("C16", "", "leader %d has %d inflight bytes to %d, more than one message beyond MaxInflightBytes %d", n.id, p.InflBytes, id, mb)
				}
			}
		}
		// C17: with CheckQuorum a leader that has not heard from a quorum for two election
		// timeouts is no longer leader (no transfer was requested in between: a transfer
		// restarts the timer)
		if x.leadTerm != d.Term || x.heard == nil {
			x.leadTerm, x.leadStart, x.heard = d.Term, x.ticks, map[uint64]int{}
			x.rawStart, x.rawHeard = x.ticks, map[uint64]int{}
		}
		// a member added to the configuration is presumed active for its first window
		// (initProgress sets RecentActive), like a peer heard from at that moment
		if prev != nil {
			for id := range d.Progress {
				if _, ok := prev.Progress[id]; !ok {
					x.heard[id] = x.ticks
					x.rawHeard[id] = x.ticks
				}
			}
		}
		// a change of the voter sets changes what a quorum is: restart the window
		if prev != nil && cfgStr(prev.Config) != cfgStr(d.Config) {
			x.leadStart = x.ticks
			x.rawStart = x.ticks
		}
		// a leadership-transfer request that the leader accepts restarts its election timer
		// (TransferLeader, or a MsgTransferLeader forwarded by a follower)
		if kind == "transfer" || (kind == "step" && m.stepMsg != nil && m.stepMsg.GetType() == pb.MsgTransferLeader) {
			x.leadStart = x.ticks
			for k := range x.heard {
				x.heard[k] = x.ticks
			}
		}
		if n.cfg.CheckQuorum && kind == "tick" && x.ticks-x.leadStart > 2*n.cfg.ET {
			m.hit("C17.checkquorum-window-elapsed")
			recent := func(id uint64) bool {
				if id == n.id {
					return true
				}
				t, ok := x.heard[id]
				return ok && x.ticks-t <= 2*n.cfg.ET
			}
			if !jointQuorum(d.Config, recent) {
				m.report("C17", "", "leader %d of term %d is still leader %d ticks after it last heard from a quorum (election timeout %d)", n.id, d.Term, 2*n.cfg.ET+1, n.cfg.ET)
			}
		}
		if n.cfg.CheckQuorum && kind == "tick" && x.ticks-x.rawStart > 2*n.cfg.ET {
			// the property as written, with no allowance for transfer requests (F13)
			recent := func(id uint64) bool {
				if id == n.id {
					return true
				}
				t, ok := x.rawHeard[id]
				return ok && x.ticks-t <= 2*n.cfg.ET
			}
			if !jointQuorum(d.Config, recent) {
				m.hit("C17.transfer-restarted-timer")
				m.report("C17", "transfer-restarts-timer", "leader %d is still leader more than two election timeouts after it last heard from a quorum: a leadership-transfer request restarted its election timer", n.id)
			}
		}
	} else if x.heard = nil; d.Committed > m.maxLeaderCommit && kind != "new" {
		m.report("C06", "", "node %d (not leader) has commit %d above every leader's commit %d", n.id, d.Committed, m.maxLeaderCommit)
	}
	// campaign checks (C10 hup, C17)
	if prev != nil && (d.State == raft.StateCandidate || d.State == raft.StatePreCandidate) && (prev.State != d.State || prev.Term != d.Term) {
		m.hit("C10.campaign-started")
		if n.cfg.PreVote {
			m.hit("C17.campaign-with-prevote")
		}
		for i := d.Applied + 1; i <= d.Committed; i++ {
			if e := v.at(i); e != nil && e.GetType() != pb.EntryNormal {
				m.report("C10", "", "node %d campaigns in term %d with a committed unapplied configuration change at %d", n.id, d.Term, i)
			}
		}
		if d.State == raft.StateCandidate && n.cfg.PreVote && d.Term > prev.Term {
			forced := msg != nil && msg.GetType() == pb.MsgTimeoutNow
			if !forced {
				grant := func(id uint64) bool {
					return id == n.id || m.prevotes[[3]uint64{id, d.Term, n.id}]
				}
				if prev.State != raft.StatePreCandidate || !jointQuorum(prev.Config, grant) {
					m.report("C17", "", "node %d raised its term to %d to campaign without a pre-vote majority", n.id, d.Term)
				}
			}
		}
	}
	// step-specific checks
	if msg != nil && m.stepPrev != nil {
		p := m.stepPrev
		switch msg.GetType() {
		case pb.MsgPreVote:
			m.hit("C17.prevote-request-stepped")
			if d.Term != p.Term || d.Vote != p.Vote {
				m.report("C17", "", "node %d: a pre-vote request changed term/vote %d/%d -> %d/%d", n.id, p.Term, p.Vote, d.Term, d.Vote)
			}
		case pb.MsgVote:
			// C02: grant only to an up-to-date candidate
			for _, r := range d.MsgsAfterAppend[min(len(p.MsgsAfterAppend), len(d.MsgsAfterAppend)):] {
				if r.GetType() == pb.MsgVoteResp && !r.GetReject() && r.GetTo() == msg.GetFrom() {
					lt, li := m.stepLast[0], m.stepLast[1]
					if msg.GetLogTerm() < lt || (msg.GetLogTerm() == lt && msg.GetIndex() < li) {
						m.report("C02", "", "node %d granted its vote to %d whose log (%d,%d) is behind its own (%d,%d)", n.id, msg.GetFrom(), msg.GetLogTerm(), msg.GetIndex(), lt, li)
					}
				}
			}
		}
		if t := msg.GetType(); (t == pb.MsgVote || t == pb.MsgPreVote) && n.cfg.CheckQuorum && msg.GetTerm() > p.Term &&
			p.Lead != 0 && p.ElectionElapsed < n.cfg.ET && string(msg.GetContext()) != "CampaignTransfer" {
			m.hit("C17.vote-request-inside-lease")
			if d.Term != p.Term || d.Vote != p.Vote || len(d.MsgsAfterAppend) != len(p.MsgsAfterAppend) || d.State != p.State {
				m.report("C17", "", "node %d reacted to %s from %d inside its leader lease", n.id, t, msg.GetFrom())
			}
		}
	}
	x.prevState, x.prevTerm = d.State, d.Term
}

// finish: end-of-run checks.
func (m *Monitors) finish() {
	// C20: every non-empty normal payload in any log was proposed, appears at most once per
	// delivery, and never stems from a dropped proposal
	for _, id := range m.c.ids {
		n := m.c.nodes[id]
		var d *raft.VerifDump
		if n.alive && n.rn != nil {
			d = m.node(n).prev
		}
		v := n.logView(d)
		cnt := map[string]int{}
		for _, e := range v.ents {
			if e.GetType() == pb.EntryNormal && len(e.GetData()) > 0 {
				cnt[string(e.GetData())]++
			}
		}
		for tok, c := range cnt {
			p := m.props[tok]
			if p == nil {
				m.report("C20", "", "log of node %d holds payload %q that nobody proposed", id, tok)
				continue
			}
			if p.dropped {
				m.report("C20", "", "log of node %d holds payload %q of a proposal reported as dropped", id, tok)
			}
			allowed := p.deliveries
			if p.local && allowed < 1 {
				allowed = 1
			}
			if allowed < 1 {
				allowed = 1
			}
			if c > allowed {
				m.report("C20", "", "log of node %d holds payload %q %d times for %d deliveries", id, tok, c, allowed)
			}
		}
	}
}

// onStorageSnapshot (C09): ApplySnapshot succeeded on node n's storage: the storage now starts
// right after the snapshot and holds nothing else (exactly the snapshot's index and term as base).
func (m *Monitors) onStorageSnapshot(n *Node, s *pb.Snapshot) {
	idx, term := s.GetMetadata().GetIndex(), s.GetMetadata().GetTerm()
	fi, _ := n.st.FirstIndex()
	li, _ := n.st.LastIndex()
	t, err := n.st.Term(idx)
	m.hit("C09.snapshot-applied-to-storage")
	if fi != idx+1 || li != idx || err != nil || t != term {
		m.report("C09", "", "node %d: after ApplySnapshot(%d/%d) the storage answers first %d last %d term(%d)=%d: not exactly the snapshot as the new base", n.id, idx, term, fi, li, idx, t)
	}
}

// readySig: a hash of everything a Ready hands out by reference (entries, committed entries,
// messages with their entries and, for the storage threads, their responses)
func readySig(rd *raft.Ready) uint64 {
	h := fnv.New64a()
	w := func(x uint64) {
		var b [8]byte
		for i := 0; i < 8; i++ {
			b[i] = byte(x >> (8 * i))
		}
		h.Write(b[:])
	}
	ents := func(es []*pb.Entry) {
		w(uint64(len(es)))
		for _, e := range es {
			w(e.GetIndex())
			w(e.GetTerm())
			w(uint64(e.GetType()))
			w(uint64(len(e.GetData())))
			h.Write(e.GetData())
		}
	}
	var msg func(mm *pb.Message)
	msg = func(mm *pb.Message) {
		w(uint64(mm.GetType()))
		w(mm.GetTo())
		w(mm.GetFrom())
		w(mm.GetTerm())
		w(mm.GetLogTerm())
		w(mm.GetIndex())
		w(mm.GetCommit())
		if mm.GetReject() {
			w(1)
		} else {
			w(0)
		}
		ents(mm.GetEntries())
		w(uint64(len(mm.GetResponses())))
		for _, r := range mm.GetResponses() {
			msg(r)
		}
	}
	ents(rd.Entries)
	ents(rd.CommittedEntries)
	w(uint64(len(rd.Messages)))
	for _, mm := range rd.Messages {
		msg(mm)
	}
	return h.Sum64()
}
