// Package enc is the text format shared by the Go harness and the OCaml driver
// (DESIGN.md appendix A): entries, snapshots, conf states, messages.
//
//	entry     term/index/T/h/datahex/l     T in N,C,V; h = Type field set; l = payload decodes
//	                                        to an empty change list ("leave joint")
//	entries   e,e,...   or _
//	confstate v.v;l.l;o.o;n.n;a
//	snapshot  index~term~confstate~datahex   or _
//	message   TYPE:to:from:term:logterm:index:commit:vote:rej:hint:ctxhex:snapshot:entries
//	messages  m|m|...   or _
package enc

import (
	"encoding/hex"
	"fmt"
	"sort"
	"strconv"
	"strings"

	"google.golang.org/protobuf/proto"

	pb "go.etcd.io/raft/v3/raftpb"
)

// Hex: "-" is a nil slice, "e" an empty non-nil one (proto2 bytes presence)
func Hex(b []byte) string {
	if b == nil {
		return "-"
	}
	if len(b) == 0 {
		return "e"
	}
	return hex.EncodeToString(b)
}

func UnHex(s string) []byte {
	if s == "-" || s == "" {
		return nil
	}
	if s == "e" {
		return []byte{}
	}
	b, err := hex.DecodeString(s)
	if err != nil {
		panic(err)
	}
	return b
}

// LeaveFlag: does the payload of a conf-change entry decode to an empty change list?
func LeaveFlag(e *pb.Entry) bool {
	switch e.GetType() {
	case pb.EntryConfChange:
		cc := &pb.ConfChange{}
		if proto.Unmarshal(e.GetData(), cc) != nil {
			return false
		}
		return len(cc.AsV2().Changes) == 0
	case pb.EntryConfChangeV2:
		cc := &pb.ConfChangeV2{}
		if proto.Unmarshal(e.GetData(), cc) != nil {
			return false
		}
		return len(cc.Changes) == 0
	}
	return false
}

func Entry(e *pb.Entry) string {
	t := "N"
	switch e.GetType() {
	case pb.EntryConfChange:
		t = "C"
	case pb.EntryConfChangeV2:
		t = "V"
	}
	h, l := 0, 0
	if e.Type != nil {
		h = 1
	}
	if LeaveFlag(e) {
		l = 1
	}
	return fmt.Sprintf("%d/%d/%s/%d/%s/%d", e.GetTerm(), e.GetIndex(), t, h, Hex(e.GetData()), l)
}

func Entries(es []*pb.Entry) string {
	if len(es) == 0 {
		return "_"
	}
	s := make([]string, len(es))
	for i, e := range es {
		s[i] = Entry(e)
	}
	return strings.Join(s, ",")
}

func IDs(ids []uint64) string {
	s := make([]string, len(ids))
	for i, id := range ids {
		s[i] = strconv.FormatUint(id, 10)
	}
	return strings.Join(s, ".")
}

func SortedIDs(ids []uint64) string {
	c := append([]uint64(nil), ids...)
	sort.Slice(c, func(i, j int) bool { return c[i] < c[j] })
	return IDs(c)
}

func ConfState(cs *pb.ConfState) string {
	a := 0
	if cs.GetAutoLeave() {
		a = 1
	}
	return fmt.Sprintf("%s;%s;%s;%s;%d", IDs(cs.GetVoters()), IDs(cs.GetLearners()), IDs(cs.GetVotersOutgoing()), IDs(cs.GetLearnersNext()), a)
}

// ConfStateSorted sorts each set (used where Go's slice order is a map-iteration artefact)
func ConfStateSorted(cs *pb.ConfState) string {
	a := 0
	if cs.GetAutoLeave() {
		a = 1
	}
	return fmt.Sprintf("%s;%s;%s;%s;%d", SortedIDs(cs.GetVoters()), SortedIDs(cs.GetLearners()), SortedIDs(cs.GetVotersOutgoing()), SortedIDs(cs.GetLearnersNext()), a)
}

func Snapshot(s *pb.Snapshot) string {
	if s == nil {
		return "_"
	}
	cs := s.GetMetadata().GetConfState()
	if cs == nil {
		cs = &pb.ConfState{}
	}
	return fmt.Sprintf("%d~%d~%s~%s", s.GetMetadata().GetIndex(), s.GetMetadata().GetTerm(), ConfState(cs), Hex(s.GetData()))
}

func B(b bool) int {
	if b {
		return 1
	}
	return 0
}

func Message(m *pb.Message) string {
	return fmt.Sprintf("%d:%d:%d:%d:%d:%d:%d:%d:%d:%d:%s:%s:%s", int(m.GetType()), m.GetTo(), m.GetFrom(), m.GetTerm(),
		m.GetLogTerm(), m.GetIndex(), m.GetCommit(), m.GetVote(), B(m.GetReject()), m.GetRejectHint(),
		Hex(m.GetContext()), Snapshot(m.GetSnapshot()), Entries(m.GetEntries()))
}

func Messages(ms []*pb.Message) string {
	if len(ms) == 0 {
		return "_"
	}
	s := make([]string, len(ms))
	for i, m := range ms {
		s[i] = Message(m)
	}
	return strings.Join(s, "|")
}

func HardState(h *pb.HardState) string {
	if h == nil {
		return "_"
	}
	return fmt.Sprintf("%d.%d.%d", h.GetTerm(), h.GetVote(), h.GetCommit())
}

// ---------- decoding (replays, scripted schedules) ----------

func pu(s string) uint64 {
	v, err := strconv.ParseUint(s, 10, 64)
	if err != nil {
		panic(fmt.Sprintf("bad number %q", s))
	}
	return v
}

func ParseIDs(s string) []uint64 {
	if s == "" {
		return nil
	}
	var r []uint64
	for _, w := range strings.Split(s, ".") {
		r = append(r, pu(w))
	}
	return r
}

func ParseEntry(s string) *pb.Entry {
	f := strings.Split(s, "/")
	e := &pb.Entry{Term: new(pu(f[0])), Index: new(pu(f[1])), Data: UnHex(f[4])}
	if f[3] == "1" {
		switch f[2] {
		case "N":
			e.Type = pb.EntryNormal.Enum()
		case "C":
			e.Type = pb.EntryConfChange.Enum()
		case "V":
			e.Type = pb.EntryConfChangeV2.Enum()
		}
	}
	return e
}

func ParseEntries(s string) []*pb.Entry {
	if s == "_" || s == "" {
		return nil
	}
	var r []*pb.Entry
	for _, w := range strings.Split(s, ",") {
		r = append(r, ParseEntry(w))
	}
	return r
}

func ParseConfState(s string) *pb.ConfState {
	f := strings.Split(s, ";")
	return &pb.ConfState{Voters: ParseIDs(f[0]), Learners: ParseIDs(f[1]), VotersOutgoing: ParseIDs(f[2]),
		LearnersNext: ParseIDs(f[3]), AutoLeave: new(f[4] == "1")}
}

func ParseSnapshot(s string) *pb.Snapshot {
	if s == "_" {
		return nil
	}
	f := strings.Split(s, "~")
	return &pb.Snapshot{Data: UnHex(f[3]), Metadata: &pb.SnapshotMetadata{Index: new(pu(f[0])), Term: new(pu(f[1])), ConfState: ParseConfState(f[2])}}
}

func ParseMessage(s string) *pb.Message {
	f := strings.Split(s, ":")
	m := &pb.Message{Type: pb.MessageType(pu(f[0])).Enum()}
	set := func(dst **uint64, v string) {
		if x := pu(v); x != 0 {
			*dst = new(x)
		}
	}
	set(&m.To, f[1])
	set(&m.From, f[2])
	set(&m.Term, f[3])
	set(&m.LogTerm, f[4])
	set(&m.Index, f[5])
	set(&m.Commit, f[6])
	set(&m.Vote, f[7])
	if f[8] == "1" {
		m.Reject = new(true)
	}
	set(&m.RejectHint, f[9])
	m.Context = UnHex(f[10])
	m.Snapshot = ParseSnapshot(f[11])
	m.Entries = ParseEntries(f[12])
	return m
}
