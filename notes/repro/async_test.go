package reprofindings

import (
	"fmt"
	"math"
	"testing"

	"go.etcd.io/raft/v3"
	pb "go.etcd.io/raft/v3/raftpb"
)

// ---- asynchronous storage writes driver -------------------------------------------------
// Network messages of a Ready are sent at once; MsgStorageAppend / MsgStorageApply are queued
// for the two storage threads, each processed in order and atomically (CrashAtomic).

type anode struct {
	id      uint64
	rn      *raft.RawNode
	st      *raft.MemoryStorage
	appendQ []*pb.Message
	applyQ  []*pb.Message
	applied []string
}

type acluster struct {
	nodes map[uint64]*anode
	net   []*pb.Message
}

func acfg(id uint64, st *raft.MemoryStorage) *raft.Config {
	return &raft.Config{ID: id, ElectionTick: 10, HeartbeatTick: 1, Storage: st,
		MaxSizePerMsg: math.MaxUint64, MaxInflightMsgs: 256, AsyncStorageWrites: true}
}

func (c *acluster) add(id uint64, voters []uint64) {
	st := raft.NewMemoryStorage()
	st.ApplySnapshot(&pb.Snapshot{Metadata: &pb.SnapshotMetadata{ConfState: &pb.ConfState{Voters: voters}}})
	rn, _ := raft.NewRawNode(acfg(id, st))
	c.nodes[id] = &anode{id: id, rn: rn, st: st}
}

func (c *acluster) ready(id uint64) {
	n := c.nodes[id]
	for n.rn.HasReady() {
		rd := n.rn.Ready()
		for _, m := range rd.Messages {
			switch m.GetTo() {
			case raft.LocalAppendThread:
				n.appendQ = append(n.appendQ, m)
			case raft.LocalApplyThread:
				n.applyQ = append(n.applyQ, m)
			default:
				c.net = append(c.net, m)
			}
		}
	}
}

func (c *acluster) route(n *anode, resps []*pb.Message) {
	for _, r := range resps {
		if r.GetTo() == n.id {
			n.rn.Step(r)
		} else {
			c.net = append(c.net, r)
		}
	}
}

func (c *acluster) appendThread(id uint64) {
	n := c.nodes[id]
	for len(n.appendQ) > 0 {
		m := n.appendQ[0]
		n.appendQ = n.appendQ[1:]
		if s := m.GetSnapshot(); s != nil && !raft.IsEmptySnap(s) {
			n.st.ApplySnapshot(s)
		}
		n.st.Append(m.GetEntries())
		hs := &pb.HardState{Term: m.Term, Vote: m.Vote, Commit: m.Commit}
		if !raft.IsEmptyHardState(hs) {
			n.st.SetHardState(hs)
		}
		c.route(n, m.GetResponses())
	}
}

func (c *acluster) applyThread(id uint64) {
	n := c.nodes[id]
	for len(n.applyQ) > 0 {
		m := n.applyQ[0]
		n.applyQ = n.applyQ[1:]
		for _, e := range m.GetEntries() {
			n.applied = append(n.applied, fmt.Sprintf("%d/%d/%q", e.GetIndex(), e.GetTerm(), e.GetData()))
		}
		c.route(n, m.GetResponses())
	}
}

func (c *acluster) full(id uint64) {
	for i := 0; i < 10; i++ {
		c.ready(id)
		c.appendThread(id)
		c.applyThread(id)
	}
	c.ready(id)
}

func (c *acluster) deliver(pred func(m *pb.Message) bool) {
	ms := c.net
	c.net = nil
	for _, m := range ms {
		if pred(m) {
			c.nodes[m.GetTo()].rn.Step(m)
		} else {
			c.net = append(c.net, m)
		}
	}
}

func to(id uint64, ts ...pb.MessageType) func(m *pb.Message) bool {
	return func(m *pb.Message) bool {
		if m.GetTo() != id {
			return false
		}
		if len(ts) == 0 {
			return true
		}
		for _, t := range ts {
			if m.GetType() == t {
				return true
			}
		}
		return false
	}
}

// F5: with AsyncStorageWrites a candidate becomes leader on peer grants alone, before its own
// term and vote are durable; after a crash it wins the same term again and reuses (term, index).
func TestF5_SameNodeLeadsSameTermTwice(t *testing.T) {
	c := &acluster{nodes: map[uint64]*anode{}}
	for _, id := range []uint64{1, 2, 3} {
		c.add(id, []uint64{1, 2, 3})
	}
	n1 := c.nodes[1]
	n1.rn.Campaign()
	c.ready(1) // MsgVotes on the wire; HardState{term 1, vote 1} waits on the append thread
	c.deliver(to(2))
	c.deliver(to(3))
	c.full(2)
	c.full(3)
	c.deliver(to(1, pb.MsgVoteResp))
	hs, _, _ := n1.st.InitialState()
	fmt.Printf("  node 1 after peer votes: %v term=%d, durable hard state=%v\n", n1.rn.Status().RaftState, n1.rn.Status().GetTerm(), hs)
	firstLeader := n1.rn.Status().RaftState == raft.StateLeader
	c.ready(1)
	c.deliver(to(2, pb.MsgApp)) // empty entry (1,1) to node 2
	c.net = nil
	c.full(2)
	c.deliver(to(1, pb.MsgAppResp))
	c.ready(1)
	n1.rn.Propose([]byte("P"))
	c.ready(1)
	c.deliver(to(2, pb.MsgApp)) // P at (1,2) to node 2, which persists it
	c.net = nil
	c.full(2)
	c.net = nil

	fmt.Printf("  node 1 crashes with %d unprocessed MsgStorageAppend\n", len(n1.appendQ))
	rn, _ := raft.NewRawNode(acfg(1, n1.st))
	n1.rn, n1.appendQ, n1.applyQ = rn, nil, nil
	fmt.Printf("  node 1 restarted at term %d\n", n1.rn.Status().GetTerm())

	n1.rn.Campaign()
	c.full(1)
	c.deliver(to(2))
	c.deliver(to(3))
	c.full(2)
	c.full(3)
	c.deliver(to(1))
	c.full(1)
	fmt.Printf("  node 1 second incarnation: %v term=%d\n", n1.rn.Status().RaftState, n1.rn.Status().GetTerm())
	if firstLeader && n1.rn.Status().RaftState == raft.StateLeader && n1.rn.Status().GetTerm() == 1 {
		t.Errorf("F5 reproduces: node 1 led term 1 in two incarnations")
	}
	n1.rn.Propose([]byte("Q"))
	c.full(1)
	for i := 0; i < 6; i++ {
		c.deliver(to(2))
		c.full(2)
		c.deliver(to(1))
		c.full(1)
		n1.rn.Tick()
	}
	fmt.Println("  node 1 applied:", n1.applied)
	fmt.Println("  node 2 applied:", c.nodes[2].applied)
	a1, a2 := n1.applied, c.nodes[2].applied
	for i := 0; i < len(a1) && i < len(a2); i++ {
		if a1[i] != a2[i] {
			t.Errorf("F5 reproduces: state machine safety violated: %s vs %s", a1[i], a2[i])
		}
	}
}

// F3: a sole voter answers ReadIndex before committing in its term; after losing a queued
// HardState{Commit} in a crash the index is below one already handed out for application.
func TestF3_SingletonReadIndexBelowReportedCommit(t *testing.T) {
	c := &acluster{nodes: map[uint64]*anode{}}
	c.add(1, []uint64{1})
	n1 := c.nodes[1]
	n1.rn.Campaign()
	c.full(1)
	n1.rn.Propose([]byte("x"))
	c.ready(1)
	c.appendThread(1) // entry durable, self-ack -> commit 2
	c.ready(1)        // HardState{commit 2} queued for the append thread; MsgStorageApply queued
	c.applyThread(1)  // x@2 applied while HardState{commit 2} is still queued
	fmt.Println("  applied before crash:", n1.applied)
	hs, _, _ := n1.st.InitialState()
	fmt.Println("  durable hard state at crash:", hs)
	rn, _ := raft.NewRawNode(acfg(1, n1.st))
	n1.rn, n1.appendQ, n1.applyQ = rn, nil, nil
	n1.rn.Campaign()
	c.ready(1)
	c.appendThread(1)
	st := n1.rn.Status()
	fmt.Printf("  restarted: %v term=%d commit=%d\n", st.RaftState, st.GetTerm(), st.GetCommit())
	n1.rn.ReadIndex([]byte("r1"))
	rd := n1.rn.Ready()
	fmt.Println("  read states:", rd.ReadStates)
	for _, rs := range rd.ReadStates {
		if rs.Index < 2 {
			t.Errorf("F3 reproduces: read state index %d < 2, although index 2 had been applied", rs.Index)
		}
	}
}
