package reprofindings

import (
	"fmt"
	"testing"

	"go.etcd.io/raft/v3"
	pb "go.etcd.io/raft/v3/raftpb"
)

// F10: MaxSizePerMsg = 0 is documented ("0 for at most one entry per message");
// MaxCommittedSizePerReady then defaults to 0 too, and the first committed entry panics in
// nextCommittedEnts ("applying entry size (0-0)=0 not positive").
func TestF10_ZeroMaxSizePerMsg(t *testing.T) {
	st := raft.NewMemoryStorage()
	st.ApplySnapshot(&pb.Snapshot{Metadata: &pb.SnapshotMetadata{ConfState: &pb.ConfState{Voters: []uint64{1}}}})
	rn, err := raft.NewRawNode(&raft.Config{ID: 1, ElectionTick: 10, HeartbeatTick: 1, Storage: st,
		MaxSizePerMsg: 0, MaxInflightMsgs: 256})
	if err != nil {
		t.Fatal(err)
	}
	defer func() {
		if r := recover(); r != nil {
			t.Errorf("F10 reproduces: %v", r)
		}
	}()
	rn.Campaign()
	for i := 0; i < 5 && rn.HasReady(); i++ {
		rd := rn.Ready()
		st.Append(rd.Entries)
		if !raft.IsEmptyHardState(rd.HardState) {
			st.SetHardState(rd.HardState)
		}
		fmt.Printf("  Ready: %d entries, %d committed\n", len(rd.Entries), len(rd.CommittedEntries))
		rn.Advance(rd)
	}
	fmt.Println("  no panic; applied", rn.Status().Applied)
}
