package reprofindings

import (
	"fmt"
	"math"
	"testing"

	"google.golang.org/protobuf/proto"

	"go.etcd.io/raft/v3"
	pb "go.etcd.io/raft/v3/raftpb"
)

// ---- synchronous (Ready/Advance) driver ------------------------------------------------

type node struct {
	id      uint64
	rn      *raft.RawNode
	st      *raft.MemoryStorage
	applied []string // "index/term/type/data"
}

type cluster struct {
	nodes map[uint64]*node
	msgs  []*pb.Message
}

func cfg(id uint64, st *raft.MemoryStorage) *raft.Config {
	return &raft.Config{ID: id, ElectionTick: 10, HeartbeatTick: 1, Storage: st,
		MaxSizePerMsg: math.MaxUint64, MaxInflightMsgs: 256}
}

func newCluster() *cluster { return &cluster{nodes: map[uint64]*node{}} }

func (c *cluster) add(id uint64, voters []uint64) {
	st := raft.NewMemoryStorage()
	if voters != nil {
		if err := st.ApplySnapshot(&pb.Snapshot{Metadata: &pb.SnapshotMetadata{ConfState: &pb.ConfState{Voters: voters}}}); err != nil {
			panic(err)
		}
	}
	rn, err := raft.NewRawNode(cfg(id, st))
	if err != nil {
		panic(err)
	}
	c.nodes[id] = &node{id: id, rn: rn, st: st}
}

// ready handles Readys of node id in README order: Entries, HardState, Snapshot, send, apply,
// Advance. crashAfterEntries simulates a crash between the first two persistent writes.
func (c *cluster) ready(id uint64, crashAfterEntries bool) {
	n := c.nodes[id]
	for n.rn.HasReady() {
		rd := n.rn.Ready()
		if err := n.st.Append(rd.Entries); err != nil {
			panic(err)
		}
		if crashAfterEntries {
			fmt.Printf("  node %d CRASH after persisting %d entries, before HardState %v\n", id, len(rd.Entries), rd.HardState)
			c.restart(id)
			return
		}
		if !raft.IsEmptyHardState(rd.HardState) {
			n.st.SetHardState(rd.HardState)
		}
		if !raft.IsEmptySnap(rd.Snapshot) {
			n.st.ApplySnapshot(rd.Snapshot)
		}
		c.msgs = append(c.msgs, rd.Messages...)
		for _, e := range rd.CommittedEntries {
			n.applied = append(n.applied, fmt.Sprintf("%d/%d/%s/%q", e.GetIndex(), e.GetTerm(), e.GetType(), e.GetData()))
			if e.GetType() == pb.EntryConfChange {
				var cc pb.ConfChange
				proto.Unmarshal(e.GetData(), &cc)
				n.rn.ApplyConfChange(&cc)
			}
		}
		n.rn.Advance(rd)
	}
}

func (c *cluster) restart(id uint64) {
	n := c.nodes[id]
	rn, err := raft.NewRawNode(cfg(id, n.st))
	if err != nil {
		panic(err)
	}
	n.rn = rn
	n.applied = append(n.applied, "RESTART")
}

func (c *cluster) run(allow func(m *pb.Message) bool) {
	for iter := 0; iter < 200; iter++ {
		for id := range c.nodes {
			c.ready(id, false)
		}
		if len(c.msgs) == 0 {
			return
		}
		ms := c.msgs
		c.msgs = nil
		for _, m := range ms {
			if n, ok := c.nodes[m.GetTo()]; ok && allow(m) {
				n.rn.Step(m)
			}
		}
	}
}

func (c *cluster) deliver(pred func(m *pb.Message) bool) {
	ms := c.msgs
	c.msgs = nil
	for _, m := range ms {
		if pred(m) {
			c.nodes[m.GetTo()].rn.Step(m)
		}
	}
}

func only(ids ...uint64) func(m *pb.Message) bool {
	s := map[uint64]bool{}
	for _, i := range ids {
		s[i] = true
	}
	return func(m *pb.Message) bool { return s[m.GetFrom()] && s[m.GetTo()] }
}

func (c *cluster) divergence() []string {
	var out []string
	seen := map[int]string{}
	for id := uint64(1); id <= 9; id++ {
		n, ok := c.nodes[id]
		if !ok {
			continue
		}
		for _, a := range n.applied {
			if a == "RESTART" {
				continue
			}
			var idx int
			fmt.Sscanf(a, "%d/", &idx)
			if prev, ok := seen[idx]; ok && prev != a {
				out = append(out, fmt.Sprintf("index %d: %s vs %s (node %d)", idx, prev, a, id))
			}
			seen[idx] = a
		}
	}
	return out
}

// Note on joiners in F1: nodes 4 and 5 start with empty storage and replay the log from index 1;
// the initial configuration lives in the index-0 ConfState, so their own view of the
// configuration is incomplete. They only ever act as followers here (acknowledging appends does
// not depend on the local configuration), so the outcome does not depend on it. The harness
// starts initial members from a snapshot at index > 0 and snapshots after membership changes.
//
// F1: commit index lost in a crash between Entries and HardState + two membership changes
// => a node wins an election with a two-steps-stale configuration; state machines diverge.
func TestF1_StaleConfigElectionAfterCommitLoss(t *testing.T) {
	c := newCluster()
	for _, id := range []uint64{1, 2, 3} {
		c.add(id, []uint64{1, 2, 3})
	}
	c.nodes[1].rn.Campaign()
	c.run(only(1, 2, 3))

	// cc1 = add 4: replicated to 3 only, committed by {1,3}, applied by 1; 3 does not learn the commit.
	if err := c.nodes[1].rn.ProposeConfChange(&pb.ConfChange{Type: pb.ConfChangeAddNode.Enum(), NodeId: proto.Uint64(4)}); err != nil {
		t.Fatal(err)
	}
	c.add(4, nil)
	c.add(5, nil)
	c.ready(1, false)
	c.deliver(func(m *pb.Message) bool { return m.GetTo() == 3 })
	c.ready(3, false)
	c.deliver(func(m *pb.Message) bool { return m.GetTo() == 1 })
	c.ready(1, false)
	c.msgs = nil

	// cc2 = add 5: MsgApp(commit=2) reaches 3, which persists the entry and crashes before HardState.
	if err := c.nodes[1].rn.ProposeConfChange(&pb.ConfChange{Type: pb.ConfChangeAddNode.Enum(), NodeId: proto.Uint64(5)}); err != nil {
		t.Fatal(err)
	}
	c.ready(1, false)
	c.deliver(func(m *pb.Message) bool { return m.GetTo() == 3 && m.GetType() == pb.MsgApp })
	c.ready(3, true)
	fmt.Printf("  node 3 after restart: commit=%d config=%v\n", c.nodes[3].rn.Status().GetCommit(), c.nodes[3].rn.Status().Config.Voters)

	// 1,2,4,5 proceed without 3; then e is committed by {1,4,5} only.
	for i := 0; i < 30; i++ {
		c.nodes[1].rn.Tick()
		c.run(only(1, 2, 4, 5))
	}
	if err := c.nodes[1].rn.Propose([]byte("e")); err != nil {
		t.Fatal(err)
	}
	c.run(only(1, 4, 5))

	// node 3 campaigns under {1,2,3}; only 2 and 3 talk.
	c.msgs = nil
	c.nodes[3].rn.Campaign()
	c.run(only(2, 3))
	for i := 0; i < 5; i++ {
		c.nodes[3].rn.Tick()
		c.run(only(2, 3))
	}
	st := c.nodes[3].rn.Status()
	fmt.Printf("  node 3: %v term=%d commit=%d\n", st.RaftState, st.GetTerm(), st.GetCommit())
	fmt.Println("  node 1 applied:", c.nodes[1].applied)
	fmt.Println("  node 3 applied:", c.nodes[3].applied)
	for _, d := range c.divergence() {
		t.Errorf("F1 reproduces: state machine safety violated at %s", d)
	}
}

// F2: crash between HardState and Snapshot of one Ready (either order) => restart panics.
func TestF2_RestartPanicBetweenHardStateAndSnapshot(t *testing.T) {
	for _, order := range []string{"hardstate-first (README order)", "snapshot-first"} {
		func() {
			c := newCluster()
			for _, id := range []uint64{1, 2, 3} {
				c.add(id, []uint64{1, 2, 3})
			}
			c.nodes[1].rn.Campaign()
			c.run(only(1, 2, 3))
			for i := 0; i < 5; i++ {
				c.nodes[1].rn.Propose([]byte("x"))
				c.run(only(1, 2)) // 3 lags
			}
			n1 := c.nodes[1]
			ai := n1.rn.Status().Applied
			if _, err := n1.st.CreateSnapshot(ai, &pb.ConfState{Voters: []uint64{1, 2, 3}}, []byte("snap")); err != nil {
				t.Fatal(err)
			}
			if err := n1.st.Compact(ai); err != nil {
				t.Fatal(err)
			}
			var snapMsg *pb.Message
			for i := 0; i < 20 && snapMsg == nil; i++ {
				n1.rn.Tick()
				for round := 0; round < 2; round++ {
					for _, id := range []uint64{1, 2, 3} {
						c.ready(id, false)
					}
					ms := c.msgs
					c.msgs = nil
					for _, m := range ms {
						if m.GetType() == pb.MsgSnap {
							snapMsg = m
							continue
						}
						c.nodes[m.GetTo()].rn.Step(m)
					}
				}
			}
			if snapMsg == nil {
				t.Fatal("no MsgSnap produced")
			}
			n3 := c.nodes[3]
			n3.rn.Step(snapMsg)
			rd := n3.rn.Ready()
			fmt.Printf("  [%s] Ready: snapshot idx=%d entries=%d hardstate=%v\n", order, rd.Snapshot.GetMetadata().GetIndex(), len(rd.Entries), rd.HardState)
			n3.st.Append(rd.Entries)
			if order == "snapshot-first" {
				n3.st.ApplySnapshot(rd.Snapshot)
			} else {
				n3.st.SetHardState(rd.HardState)
			}
			defer func() {
				if r := recover(); r != nil {
					t.Errorf("F2 reproduces [%s]: restart panics: %v", order, r)
				}
			}()
			c.restart(3)
		}()
	}
}

// F6: a proposal that removes the last voter is accepted; applying it panics.
func TestF6_RemoveLastVoterPanicsAtApply(t *testing.T) {
	c := newCluster()
	c.add(1, []uint64{1})
	c.nodes[1].rn.Campaign()
	c.ready(1, false)
	err := c.nodes[1].rn.ProposeConfChange(&pb.ConfChange{Type: pb.ConfChangeRemoveNode.Enum(), NodeId: proto.Uint64(1)})
	fmt.Println("  ProposeConfChange(remove 1) returned:", err)
	defer func() {
		if r := recover(); r != nil {
			t.Errorf("F6 reproduces: apply panics: %v", r)
		}
	}()
	c.ready(1, false)
}

// F8 (candidate): one Ready carrying a snapshot and entries behind it cannot be persisted in
// README order (Entries first) with MemoryStorage.
func TestF8_SnapshotAndEntriesInOneReady(t *testing.T) {
	c := newCluster()
	for _, id := range []uint64{1, 2, 3} {
		c.add(id, []uint64{1, 2, 3})
	}
	c.nodes[1].rn.Campaign()
	c.run(only(1, 2, 3))
	for i := 0; i < 5; i++ {
		c.nodes[1].rn.Propose([]byte("x"))
		c.run(only(1, 2))
	}
	n1 := c.nodes[1]
	ai := n1.rn.Status().Applied
	n1.st.CreateSnapshot(ai, &pb.ConfState{Voters: []uint64{1, 2, 3}}, []byte("snap"))
	n1.st.Compact(ai)
	n1.rn.Propose([]byte("y"))
	c.run(only(1, 2))
	// The network holds the MsgSnap for 3; the application reports it as sent; 3 keeps
	// answering heartbeats and rejecting appends; the leader probes past the snapshot and
	// emits the MsgApp that follows it; both reach 3 before its next Ready.
	var snapMsg, appMsg *pb.Message
	for i := 0; i < 60 && (snapMsg == nil || appMsg == nil); i++ {
		n1.rn.Tick()
		for round := 0; round < 3; round++ {
			for _, id := range []uint64{1, 2, 3} {
				c.ready(id, false)
			}
			ms := c.msgs
			c.msgs = nil
			for _, m := range ms {
				switch {
				case m.GetType() == pb.MsgSnap && m.GetTo() == 3:
					if snapMsg == nil {
						snapMsg = m
						n1.rn.ReportSnapshot(3, raft.SnapshotFinish)
					}
				case snapMsg != nil && m.GetType() == pb.MsgApp && m.GetTo() == 3 &&
					m.GetIndex() == snapMsg.GetSnapshot().GetMetadata().GetIndex() && len(m.GetEntries()) > 0:
					if appMsg == nil {
						appMsg = m
					}
				default:
					c.nodes[m.GetTo()].rn.Step(m)
				}
			}
		}
	}
	if snapMsg == nil || appMsg == nil {
		t.Skipf("could not build the scenario (snap=%v app=%v)", snapMsg != nil, appMsg != nil)
	}
	n3 := c.nodes[3]
	n3.rn.Step(snapMsg)
	n3.rn.Step(appMsg)
	rd := n3.rn.Ready()
	fmt.Printf("  Ready: snapshot idx=%d entries=%d\n", rd.Snapshot.GetMetadata().GetIndex(), len(rd.Entries))
	if raft.IsEmptySnap(rd.Snapshot) || len(rd.Entries) == 0 {
		t.Skip("Ready does not carry both")
	}
	defer func() {
		if r := recover(); r != nil {
			t.Errorf("F8 reproduces: README order (Entries first) panics in MemoryStorage.Append: %v", r)
		}
	}()
	n3.st.Append(rd.Entries)
}
