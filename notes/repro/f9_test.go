package reprofindings

import (
	"fmt"
	"testing"

	"google.golang.org/protobuf/proto"

	"go.etcd.io/raft/v3"
	pb "go.etcd.io/raft/v3/raftpb"
)

// F9: a MsgSnap is stepped (restore switches the configuration at once) between the moment a
// Ready with a committed conf-change entry was accepted and the moment the application applies
// it (node.run allows exactly this interleaving: it keeps stepping messages while a Ready is
// outstanding). ApplyConfChange for the old entry then lands on top of the snapshot's
// configuration. Voters {1,2,3,4}; index a: demote 4 to learner; index b: promote 4 again.
func TestF9_ApplyConfChangeAfterRestore(t *testing.T) {
	c := newCluster()
	for _, id := range []uint64{1, 2, 3, 4} {
		c.add(id, []uint64{1, 2, 3, 4})
	}
	c.nodes[1].rn.Campaign()
	c.run(only(1, 2, 3, 4))

	if err := c.nodes[1].rn.ProposeConfChange(&pb.ConfChange{Type: pb.ConfChangeAddLearnerNode.Enum(), NodeId: proto.Uint64(4)}); err != nil {
		t.Fatal(err)
	}
	n3 := c.nodes[3]
	var pending *raft.Ready
	for i := 0; i < 20 && pending == nil; i++ {
		for _, id := range []uint64{1, 2, 4} {
			c.ready(id, false)
		}
		for n3.rn.HasReady() && pending == nil {
			rd := n3.rn.Ready()
			n3.st.Append(rd.Entries)
			if !raft.IsEmptyHardState(rd.HardState) {
				n3.st.SetHardState(rd.HardState)
			}
			c.msgs = append(c.msgs, rd.Messages...)
			for _, e := range rd.CommittedEntries {
				if e.GetType() == pb.EntryConfChange {
					pending = &rd
				}
			}
			if pending != nil {
				break // accepted, persisted, messages sent; application has not applied it yet
			}
			n3.rn.Advance(rd)
		}
		ms := c.msgs
		c.msgs = nil
		for _, m := range ms {
			c.nodes[m.GetTo()].rn.Step(m)
		}
		c.nodes[1].rn.Tick()
	}
	if pending == nil {
		t.Fatal("node 3 never got the committed conf change")
	}
	fmt.Printf("  node 3 holds an accepted Ready whose committed conf change (demote 4) is not applied yet; config=%v\n", n3.rn.Status().Config)

	// Node 3 is cut off (and nobody takes another Ready from it). The others promote 4 again,
	// write more, snapshot and compact.
	c.msgs = nil
	delete(c.nodes, 3)
	for i := 0; i < 10; i++ {
		c.nodes[1].rn.Tick()
		c.run(only(1, 2, 4))
	}
	if err := c.nodes[1].rn.ProposeConfChange(&pb.ConfChange{Type: pb.ConfChangeAddNode.Enum(), NodeId: proto.Uint64(4)}); err != nil {
		t.Fatal(err)
	}
	for i := 0; i < 10; i++ {
		c.nodes[1].rn.Tick()
		c.run(only(1, 2, 4))
	}
	for i := 0; i < 3; i++ {
		c.nodes[1].rn.Propose([]byte("x"))
		c.run(only(1, 2, 4))
	}
	n1 := c.nodes[1]
	ai := n1.rn.Status().Applied
	fmt.Printf("  leader config=%v applied=%d\n", n1.rn.Status().Config, ai)
	cs := &pb.ConfState{Voters: []uint64{1, 2, 3, 4}}
	if _, err := n1.st.CreateSnapshot(ai, cs, []byte("snap")); err != nil {
		t.Fatal(err)
	}
	n1.st.Compact(ai)

	// Heal: node 3 steps what arrives (its raft loop keeps running) but its application is still
	// busy with the outstanding Ready, so its own responses wait for the next Ready. The leader
	// learns node 3 is reachable again from the application (ReportUnreachable is not needed: its
	// progress for 3 probes at an index that is now compacted, which yields a snapshot at once).
	n1.rn.ReportUnreachable(3) // the transport failed to reach 3 during the partition: back to probing from Match+1
	n1.rn.Propose([]byte("y"))
	restored := false
	for i := 0; i < 40 && !restored; i++ {
		n1.rn.Tick()
		for _, id := range []uint64{1, 2, 4} {
			c.ready(id, false)
		}
		ms := c.msgs
		c.msgs = nil
		for _, m := range ms {
			if m.GetTo() == 3 {
				if m.GetType() == pb.MsgSnap {
					restored = true
				}
				n3.rn.Step(m)
			} else {
				c.nodes[m.GetTo()].rn.Step(m)
			}
		}
	}
	if !restored {
		t.Skip("leader never sent a snapshot to node 3")
	}
	fmt.Printf("  node 3 after stepping MsgSnap (Ready still outstanding): config=%v commit=%d\n", n3.rn.Status().Config, n3.rn.Status().GetCommit())

	// Now the application gets around to applying the outstanding Ready.
	for _, e := range pending.CommittedEntries {
		if e.GetType() == pb.EntryConfChange {
			var cc pb.ConfChange
			proto.Unmarshal(e.GetData(), &cc)
			got := n3.rn.ApplyConfChange(&cc)
			fmt.Printf("  node 3 ApplyConfChange(idx %d: %v %d) -> voters=%v learners=%v\n", e.GetIndex(), cc.GetType(), cc.GetNodeId(), got.Voters, got.Learners)
		}
	}
	n3.rn.Advance(*pending)
	c.nodes[3] = n3
	c.ready(3, false)
	got := fmt.Sprint(n3.rn.Status().Config)
	want := fmt.Sprint(n1.rn.Status().Config)
	fmt.Printf("  node 3 final: config=%s applied=%d; leader config=%s\n", got, n3.rn.Status().Applied, want)
	if got != want {
		t.Errorf("F9 reproduces: node 3 applied through index %d but its configuration is %s; the committed log folds to %s", n3.rn.Status().Applied, got, want)
	}
}
