# verif.py: shared machinery behind /verif/bin/check and /verif/bin/setup.
# Plain python3, standard library only.
import hashlib
import json
import os
import re
import subprocess
import sys
import time

ROOT = "/verif"
REPO = "/repo"
BUILD = os.path.join(ROOT, "build")
COQ = os.path.join(ROOT, "coq")
GO = "go1.26.8"

GOENV = dict(os.environ)
GOENV.update(
    GOFLAGS="-mod=mod",
    GOPROXY="off",
    GOSUMDB="off",
    GOTOOLCHAIN="local",
    CGO_ENABLED="0",
    GOCACHE=os.path.join(BUILD, "gocache"),
)

FORBIDDEN = (
    r"\bAdmitted\b|\badmit\b|\bAxiom\b|\bAxioms\b|\bParameter\b|\bParameters\b|\bConjecture\b|"
    r"Unset\s+Guard|Unset\s+Positivity|Unset\s+Universe|bypass_check|type-in-type|"
    r"impredicative-set|Admit\s+Obligations"
)

# axioms of the standard library that a theorem may depend on (named in the trusted base
# whenever Print Assumptions reports them)
ALLOWED_AXIOMS = {
    "functional_extensionality_dep",
    "FunctionalExtensionality.functional_extensionality_dep",
    "proof_irrelevance",
    "classic",
    "JMeq_eq",
    "Eqdep.Eq_rect_eq.eq_rect_eq",
    "Coq.Logic.Eqdep.Eq_rect_eq.eq_rect_eq",
}


def sh(cmd, cwd=None, timeout=None, env=None, stdin=None):
    """run a shell command; returns (rc, stdout+stderr). rc=124 on timeout."""
    try:
        p = subprocess.run(
            cmd,
            shell=isinstance(cmd, str),
            executable="/bin/bash" if isinstance(cmd, str) else None,
            cwd=cwd,
            env=env,
            stdin=stdin,
            stdout=subprocess.PIPE,
            stderr=subprocess.STDOUT,
            timeout=timeout,
        )
        return p.returncode, p.stdout.decode("utf-8", "replace")
    except subprocess.TimeoutExpired as e:
        out = e.stdout.decode("utf-8", "replace") if e.stdout else ""
        return 124, out + "\n[timeout]"


def log(msg):
    sys.stdout.write(msg + "\n")
    sys.stdout.flush()


# ---------------------------------------------------------------------------
# Coq side


def coq_files():
    with open(os.path.join(COQ, "_CoqProject")) as f:
        return [l.strip() for l in f if l.strip().endswith(".v")]


def coq_build(clean=False, timeout=3000):
    """full .vo build (never -vos).  Returns (ok, output)."""
    os.makedirs(BUILD, exist_ok=True)
    if clean or not os.path.exists(os.path.join(COQ, "Makefile")):
        if clean and os.path.exists(os.path.join(COQ, "Makefile")):
            sh("make clean >/dev/null 2>&1", cwd=COQ, timeout=300)
        rc, out = sh("coq_makefile -f _CoqProject -o Makefile", cwd=COQ, timeout=120)
        if rc != 0:
            return False, out
    elif os.path.getmtime(os.path.join(COQ, "_CoqProject")) > os.path.getmtime(os.path.join(COQ, "Makefile")):
        rc, out = sh("coq_makefile -f _CoqProject -o Makefile", cwd=COQ, timeout=120)
        if rc != 0:
            return False, out
    rc, out = sh("make -j16", cwd=COQ, timeout=timeout)
    with open(os.path.join(BUILD, "coq_build.log"), "a") as f:
        f.write(out)
    return rc == 0, out


def coq_sources_hash():
    h = hashlib.sha256()
    for f in sorted(coq_files()):
        with open(os.path.join(COQ, f), "rb") as fh:
            h.update(f.encode())
            h.update(hashlib.sha256(fh.read()).digest())
    return h.hexdigest()


def coqchk_all(timeout=6000):
    """Second opinion on the compiled development: coqchk re-checks every Props module and
    everything it depends on with the independent checker and lists the axioms (-o).  One run
    per state of the .v sources (cached).  Returns (ok, summary text)."""
    outf = os.path.join(BUILD, "coqchk-%s.txt" % coq_sources_hash()[:16])
    if not os.path.exists(outf):
        mods = " ".join("RaftV.Props.C%02d" % i for i in range(1, 21))
        rc, out = sh("coqchk -silent -o -Q . RaftV " + mods, cwd=COQ, timeout=timeout)
        with open(outf, "w") as f:
            f.write(("OK\n" if rc == 0 else "FAIL\n") + out)
    raw = open(outf).read()
    ok = raw.startswith("OK\n")
    summ = raw[raw.find("CONTEXT SUMMARY"):] if "CONTEXT SUMMARY" in raw else raw[-800:]
    clean = all(("* " + k + ": <none>") in summ for k in (
        "Axioms", "Constants/Inductives relying on type-in-type", "Constants/Inductives relying on unsafe (co)fixpoints",
        "Inductives whose positivity is assumed"))
    return ok and clean, " ".join(summ.split())[:600]


def props_assumptions(pid, timeout=900):
    """Compile Props/<pid>.v on its own and capture the Print Assumptions answers.
    Cached on the mtime of the .v and of every .vo it may depend on.
    Returns (ok, [(theorem, [axioms])], raw output)."""
    src = os.path.join(COQ, "Props", pid + ".v")
    outdir = os.path.join(BUILD, "assumptions")
    os.makedirs(outdir, exist_ok=True)
    outf = os.path.join(outdir, pid + ".txt")
    newest = os.path.getmtime(src)
    for f in coq_files():
        vo = os.path.join(COQ, f + "o")
        if os.path.exists(vo) and not f.startswith("Props/"):
            newest = max(newest, os.path.getmtime(vo))
    if os.path.exists(outf) and os.path.getmtime(outf) >= newest:
        raw = open(outf).read()
        rc = 0 if raw.startswith("OK\n") else 1
    else:
        rc, raw = sh("coqc -Q . RaftV Props/%s.v" % pid, cwd=COQ, timeout=timeout)
        raw = ("OK\n" if rc == 0 else "FAIL\n") + raw
        with open(outf, "w") as f:
            f.write(raw)
    # theorems printed in order of the Print Assumptions commands in the source
    names = re.findall(r"^Print Assumptions\s+([A-Za-z0-9_']+)\.", open(src).read(), re.M)
    blocks = []
    cur = None
    for line in raw.splitlines()[1:]:
        if line.startswith("Closed under the global context"):
            blocks.append([])
            cur = None
        elif line.startswith("Axioms:"):
            cur = []
            blocks.append(cur)
        elif cur is not None and re.match(r"^[A-Za-z_][A-Za-z0-9_.']*\s*:", line):
            cur.append(line.split(":")[0].strip())
    res = list(zip(names, blocks))
    ok = rc == 0 and len(blocks) == len(names)
    return ok, res, raw


def forbidden_grep():
    """forbidden vernacular anywhere in the development (comments stripped)."""
    hits = []
    for root, _, files in os.walk(COQ):
        for fn in files:
            if not fn.endswith(".v"):
                continue
            p = os.path.join(root, fn)
            txt = open(p).read()
            # strip (non-nested is enough for our style) comments
            prev = None
            while prev != txt:
                prev = txt
                txt = re.sub(r"\(\*(?:(?!\(\*|\*\)).)*\*\)", " ", txt, flags=re.S)
            for m in re.finditer(FORBIDDEN, txt):
                hits.append("%s: %s" % (os.path.relpath(p, ROOT), m.group(0)))
    return hits


def count_obligations(files):
    """(stated, closed) lemma counts over the given .v files (relative to coq/)."""
    stated = closed = 0
    for f in files:
        p = os.path.join(COQ, f)
        if not os.path.exists(p):
            continue
        txt = open(p).read()
        stated += len(re.findall(r"^\s*(?:Theorem|Lemma|Corollary|Example|Fact|Remark|Proposition)\s", txt, re.M))
        closed += len(re.findall(r"\b(?:Qed|Defined)\.", txt))
    return stated, closed


def coq_closure(files):
    """transitive closure of project-local dependencies of the given .v files via coqdep."""
    rc, out = sh("coqdep -Q . RaftV " + " ".join(coq_files()), cwd=COQ, timeout=120)
    deps = {}
    for line in out.splitlines():
        if ":" not in line:
            continue
        lhs, rhs = line.split(":", 1)
        tgt = [t for t in lhs.split() if t.endswith(".vo")]
        if not tgt:
            continue
        src = tgt[0][:-1]
        deps[src] = [d[:-1] for d in rhs.split() if d.endswith(".vo")]
    seen = []
    todo = list(files)
    while todo:
        f = todo.pop()
        if f in seen:
            continue
        seen.append(f)
        todo.extend(deps.get(f, []))
    return sorted(seen)


# ---------------------------------------------------------------------------
# tools


def newer(target, sources):
    if not os.path.exists(target):
        return False
    t = os.path.getmtime(target)
    return all(os.path.getmtime(s) <= t for s in sources if os.path.exists(s))


def build_driver(timeout=1200):
    """extract the model and compile the OCaml driver. Returns (ok, output)."""
    d = os.path.join(BUILD, "ocaml")
    os.makedirs(d, exist_ok=True)
    srcs = [os.path.join(COQ, f) for f in coq_files() if f.startswith("Model/")]
    srcs.append(os.path.join(COQ, "Extract", "Extract.v"))
    mls = [os.path.join(ROOT, "ocaml", f) for f in sorted(os.listdir(os.path.join(ROOT, "ocaml"))) if f.endswith(".ml")]
    drv = os.path.join(d, "driver")
    if newer(drv, srcs + mls):
        return True, "up to date"
    rc, out = sh("coqc -Q %s RaftV %s" % (COQ, os.path.join(COQ, "Extract", "Extract.v")), cwd=d, timeout=timeout)
    if rc != 0:
        return False, out
    sh("cp %s/ocaml/*.ml ." % ROOT, cwd=d)
    order = "model.mli model.ml conv.ml " + " ".join(
        f for f in ["trace.ml", "pure_more.ml", "driver.ml"] if os.path.exists(os.path.join(d, f))
    )
    rc, out2 = sh("ocamlfind ocamlopt -O3 -w -a -o driver " + order, cwd=d, timeout=timeout)
    return rc == 0, out + out2


def build_harness(timeout=1200):
    """build the Go harness against /repo's current working tree with -tags verif."""
    h = os.path.join(ROOT, "harness")
    os.makedirs(os.path.join(BUILD, "bin"), exist_ok=True)
    sh("cp %s/go.sum %s/go.sum" % (REPO, h))
    outs = []
    ok = True
    for cmd in sorted(os.listdir(os.path.join(h, "cmd"))):
        rc, out = sh(
            [GO, "build", "-tags", "verif", "-o", os.path.join(BUILD, "bin", cmd), "./cmd/" + cmd],
            cwd=h,
            timeout=timeout,
            env=GOENV,
        )
        outs.append(out)
        ok = ok and rc == 0
    return ok, "\n".join(outs)


def repo_tree_hash():
    """hash of every file that can influence the harness build from /repo."""
    h = hashlib.sha256()
    for root, dirs, files in os.walk(REPO):
        dirs[:] = sorted(d for d in dirs if d not in (".git", "tla", "tools", "scripts", "testdata"))
        for fn in sorted(files):
            if fn.endswith(".go") or fn in ("go.mod", "go.sum"):
                p = os.path.join(root, fn)
                h.update(os.path.relpath(p, REPO).encode())
                with open(p, "rb") as f:
                    h.update(hashlib.sha256(f.read()).digest())
    return h.hexdigest()


def verif_hash():
    """hash of the machinery itself (so caches do not survive edits to it)."""
    h = hashlib.sha256()
    for sub in ("harness", "ocaml", "coq/Model", "coq/Extract", "lib", "corpus"):
        base = os.path.join(ROOT, sub)
        for root, dirs, files in os.walk(base):
            dirs.sort()
            for fn in sorted(files):
                if fn.endswith((".go", ".ml", ".v", ".py", ".txt", ".sched", ".mod")):
                    p = os.path.join(root, fn)
                    h.update(p.encode())
                    with open(p, "rb") as f:
                        h.update(hashlib.sha256(f.read()).digest())
    return h.hexdigest()


# ---------------------------------------------------------------------------
# evidence


def write_evidence(pid, tier, seed, level, coverage, assumptions, wall, violations):
    os.makedirs(os.path.join(ROOT, "evidence"), exist_ok=True)
    ev = {
        "property_id": pid,
        "tier": tier,
        "seed": int(seed),
        "level": level,
        "coverage": coverage,
        "assumptions": assumptions,
        "wall_s": round(wall, 2),
        "violations": int(violations),
    }
    p = os.path.join(ROOT, "evidence", pid + ".json")
    with open(p + ".tmp", "w") as f:
        json.dump(ev, f, indent=1, sort_keys=True)
        f.write("\n")
    os.replace(p + ".tmp", p)
    return p


def write_replay(pid, seed, body):
    d = os.path.join(ROOT, "replays")
    os.makedirs(d, exist_ok=True)
    p = os.path.join(d, "%s-%s.json" % (pid, seed))
    with open(p, "w") as f:
        json.dump(body, f, indent=1)
        f.write("\n")
    return p
