# check.py: decide one property.  Flow (DESIGN.md section 5):
#   1 proof obligations   2 build tie from /repo's working tree   3 correspondence on the
#   property's projection   4 monitors on the implementation's own results   5 verdict
#   6 evidence
import json
import os
import sys
import time

sys.path.insert(0, os.path.dirname(os.path.abspath(__file__)))
import verif as V
from proptable import PROPS, TRUSTED_BASE

CACHE = os.path.join(V.ROOT, ".cache")


def run_pure_stream(stream, tier, seed, key):
    """run one pure stream of the Go harness through the OCaml driver; cached per tree."""
    d = os.path.join(CACHE, key)
    os.makedirs(d, exist_ok=True)
    outf = os.path.join(d, "pure-%s-%s-%s.out" % (stream, tier, seed))
    if not os.path.exists(outf):
        cmd = "%s/bin/pure %s %s %s | %s/ocaml/driver pure > %s.tmp" % (V.BUILD, stream, tier, seed, V.BUILD, outf)
        rc, out = V.sh("set -o pipefail; " + cmd, timeout=3000, env=V.GOENV)
        rc2 = 0
        if rc != 0:
            with open(outf + ".tmp", "a") as f:
                f.write("HARNESS-ERROR rc=%d %s\n" % (rc, out.replace("\n", " ")[:2000]))
        os.replace(outf + ".tmp", outf)
    res = {"summary": {}, "mismatches": [], "monitor": [], "samples": [], "errors": []}
    for line in open(outf):
        line = line.rstrip("\n")
        if line.startswith("SUMMARY "):
            kv = dict(x.split("=", 1) for x in line.split()[1:])
            res["summary"][kv["tag"]] = {k: int(v) for k, v in kv.items() if k != "tag"}
        elif line.startswith("MISMATCH "):
            res["mismatches"].append(line)
        elif line.startswith("MONITOR "):
            res["monitor"].append(line)
        elif line.startswith("SAMPLE "):
            res["samples"].append(line[len("SAMPLE "):])
        elif line.startswith("HARNESS-ERROR"):
            res["errors"].append(line)
    return res


def prune_cache(keep):
    if not os.path.isdir(CACHE):
        return
    ds = sorted((os.path.getmtime(os.path.join(CACHE, d)), d) for d in os.listdir(CACHE))
    for _, d in ds[:-2]:
        if d != keep:
            V.sh("rm -rf " + os.path.join(CACHE, d))


def parse_kv(line):
    """MISMATCH tag=.. line=.. model=.. impl=.. case=<rest>"""
    head, _, case = line.partition(" case=")
    kv = dict(x.split("=", 1) for x in head.split()[1:] if "=" in x)
    kv["case"] = case
    return kv


def check(pid, tier, seed, replay=None):
    t0 = time.time()
    spec = PROPS[pid]
    violations = []  # (what, replay body)
    known = []
    notes = []

    # ---- 1. proof obligations
    ok_build, build_out = V.coq_build(clean=False)
    closure = V.coq_closure([spec["props"]]) if os.path.exists(os.path.join(V.COQ, spec["props"])) else []
    proof_broken = None
    if not ok_build:
        # does the failure concern this property's closure?
        failed = [f for f in closure if not os.path.exists(os.path.join(V.COQ, f + "o"))]
        if failed:
            proof_broken = "coq build failed in %s" % ",".join(failed)
    ok_ass, assumptions, raw = V.props_assumptions(pid)
    if not ok_ass and not proof_broken:
        proof_broken = "Props/%s.v does not compile: %s" % (pid, raw[-400:])
    axioms_used = sorted({a for _, l in assumptions for a in l})
    bad_axioms = [a for a in axioms_used if a not in V.ALLOWED_AXIOMS]
    if bad_axioms and not proof_broken:
        proof_broken = "theorems depend on axioms outside the allow-list: %s" % bad_axioms
    forb = V.forbidden_grep()
    if forb and not proof_broken:
        proof_broken = "forbidden vernacular: %s" % forb[:5]
    stated, closed = V.count_obligations(closure)
    coqchk_note = "not run in the quick tier"
    if tier == "thorough" and ok_build:
        ok_chk, coqchk_note = V.coqchk_all()
        if not ok_chk and not proof_broken:
            proof_broken = "coqchk does not accept the compiled development or reports axioms / disabled checks: " + coqchk_note

    # ---- 2. tie
    ok_drv, drv_out = V.build_driver()
    ok_h, h_out = V.build_harness()
    tie_broken = None
    if not ok_drv:
        tie_broken = "driver build failed: " + drv_out[-800:]
    if not ok_h:
        tie_broken = "harness does not build against /repo's working tree: " + h_out[-1500:]

    key = (V.repo_tree_hash()[:16] + "-" + V.verif_hash()[:16])
    evaluations = 0
    nontrivial = 0
    samples = []
    per_tag = {}
    corr_mismatch = []  # mismatches on this property's projection
    drift = 0

    # ---- 3/4. correspondence + monitors, pure streams
    if not tie_broken:
        for stream, sspec in spec.get("pure", {}).items():
            res = run_pure_stream(stream, tier, seed, key)
            if res["errors"]:
                tie_broken = "pure stream %s failed: %s" % (stream, res["errors"][0][:800])
                continue
            for tag, st in res["summary"].items():
                if tag in sspec["tags"]:
                    evaluations += st["cases"]
                    nontrivial += st["distinct_nontrivial"]
                    per_tag[tag] = st
                else:
                    drift += st["mismatches"]
            for s in res["samples"]:
                if s.split(" ", 1)[0].split("=")[1] in sspec["tags"]:
                    samples.append(s)
            for m in res["mismatches"]:
                kv = parse_kv(m)
                if kv["tag"] in sspec["tags"]:
                    corr_mismatch.append(kv)
            for m in res["monitor"]:
                kv = parse_kv(m)
                if kv.get("property") == pid:
                    violations.append(("monitor", kv))
            # for exact tags the model is proved equal to the property's specification, so a
            # disagreement is itself an input on which the property fails
            if sspec.get("exact"):
                for kv in corr_mismatch:
                    if kv["tag"] in sspec["exact"]:
                        violations.append(("exact", kv))
        prune_cache(key)

    # ---- cluster streams
    if not tie_broken and spec.get("cluster"):
        import cluster
        cres = cluster.run(pid, spec, tier, seed, key)
        evaluations += cres["evaluations"]
        nontrivial += cres["nontrivial"]
        samples += cres["samples"]
        corr_mismatch += cres["mismatches"]
        violations += cres["violations"]
        known += cres["known"]
        notes += cres["notes"]
        per_tag.update(cres.get("per_tag", {}))

    # ---- 5. verdict
    rc = 0
    for k in known:
        V.log("KNOWN-FINDING: property=%s %s" % (pid, k))
    if violations:
        kind, kv = violations[0]
        body = {
            "property": pid,
            "kind": kind,
            "tier": tier,
            "seed": seed,
            "first": kv,
            "count": len(violations),
            "others": [v[1] for v in violations[1:10]],
            "how_to_replay": "bin/check %s --replay <this file>" % pid,
        }
        path = V.write_replay(pid, seed, body)
        V.log("VIOLATION property=%s replay=%s" % (pid, path))
        rc = 1
    elif proof_broken or tie_broken or corr_mismatch:
        body = {
            "property": pid,
            "kind": "proof" if proof_broken else "correspondence",
            "tier": tier,
            "seed": seed,
            "broken_theorem_or_obligation": proof_broken,
            "tie": tie_broken,
            "first_mismatches": corr_mismatch[:10],
            "note": "no input was found on which the property itself fails; the property is "
            "no longer shown to hold because the named obligation or correspondence no longer checks",
        }
        path = V.write_replay(pid, seed, body)
        V.log("VIOLATION property=%s replay=%s no-failing-input-found" % (pid, path))
        rc = 1

    # ---- 6. evidence
    cov = {
        "obligations": stated,
        "discharged": closed if (ok_build and not proof_broken) else 0,
        "checker_cmd": "cd /verif/coq && coq_makefile -f _CoqProject -o Makefile && make -j16  "
        "(coqc 8.16.1, full .vo build; thorough tier adds coqchk -silent -o)",
        "trusted_base": TRUSTED_BASE + spec.get("trusted_extra", []),
        "theorems": [{"name": n, "axioms": a} for n, a in assumptions],
        "axioms_reported": axioms_used,
        "coqchk": coqchk_note,
        "proof_files": closure,
        "evaluations": evaluations,
        "distinct_nontrivial": nontrivial,
        "rule": spec.get("rule", ""),
        "samples": samples[:8] if samples else ["(no samples)"],
        "per_tag": per_tag,
        "correspondence_mismatches_on_projection": len(corr_mismatch),
        "model_drift_outside_projection": drift,
        "exhaustive": False,
        "explanation": spec.get("explanation", ""),
        "notes": notes,
        "known_findings_seen": sorted(set(known)),
        "repo_tree": key,
    }
    V.write_evidence(pid, tier, seed, spec.get("level", "proof"), cov, spec.get("assumptions", []), time.time() - t0, len(violations))
    return rc


def replay(pid, path):
    """re-run a stored replay against the current tree."""
    body = json.load(open(path))
    ok_drv, _ = V.build_driver()
    ok_h, h_out = V.build_harness()
    if not (ok_drv and ok_h):
        V.log("cannot build: " + h_out[-500:])
        return 2
    cases = []
    for kv in [body.get("first", {})] + body.get("others", []) + body.get("first_mismatches", []):
        if isinstance(kv, dict) and kv.get("case"):
            cases.append(kv["case"])
    if body.get("schedule"):
        import cluster
        return cluster.replay(pid, body)
    if not cases:
        V.log("replay file names no input: %s" % (body.get("broken_theorem_or_obligation") or body.get("tie")))
        return 1
    tmp = os.path.join(V.BUILD, "replay.cases")
    with open(tmp, "w") as f:
        f.write("\n".join(cases) + "\n")
    rc, out = V.sh("%s/bin/pure replay < %s | %s/ocaml/driver pure" % (V.BUILD, tmp, V.BUILD), env=V.GOENV, timeout=600)
    V.log(out)
    bad = [l for l in out.splitlines() if l.startswith("MISMATCH") or l.startswith("MONITOR")]
    if bad:
        V.log("VIOLATION property=%s replay=%s" % (pid, path))
        return 1
    V.log("replay: no longer reproduces")
    return 0


def main(argv):
    import argparse

    ap = argparse.ArgumentParser()
    ap.add_argument("pid")
    ap.add_argument("--tier", default=os.environ.get("VERIF_TIER", "quick"))
    ap.add_argument("--replay")
    a = ap.parse_args(argv)
    seed = int(os.environ.get("VERIF_SEED", "1"))
    if a.pid not in PROPS:
        print("unknown property", a.pid)
        return 2
    if a.replay:
        return replay(a.pid, a.replay)
    return check(a.pid, a.tier, seed)


if __name__ == "__main__":
    sys.exit(main(sys.argv[1:]))
