import os, sys
sys.path.insert(0, os.path.dirname(os.path.abspath(__file__)))
import verif as V
from proptable import PROPS

def main():
    ok, out = V.coq_build(clean=False)
    print(out[-3000:])
    if not ok:
        print("SETUP: coq build failed"); return 1
    for pid in sorted(PROPS):
        ok, res, raw = V.props_assumptions(pid)
        print("assumptions", pid, "ok" if ok else "FAILED", sum(len(a) for _, a in res), "axioms")
    ok, out = V.build_driver()
    print("driver:", "ok" if ok else out[-3000:])
    if not ok: return 1
    ok, out = V.build_harness()
    print("harness:", "ok" if ok else out[-3000:])
    return 0 if ok else 1

if __name__ == "__main__":
    sys.exit(main())
