# proptable.py: per-property configuration of the checks.

TRUSTED_BASE = [
    "Coq 8.16.1 kernel (coqc); coqchk as second checker in the thorough tier; no native_compute",
    "vm_compute used only for finite sweeps, non-vacuity examples and refutation witnesses",
    "extraction: ExtrOcamlBasic only (Extract Inductive bool/option/unit/prod/list/sumbool/sumor), no Extract Constant; N/positive/nat/Z stay inductive",
    "OCaml 4.13.1 ocamlopt; hand-written ocaml/conv.ml, ocaml/driver.ml (parsing, calling extracted code, printing)",
    "Go harness under /verif/harness (case generation, calls into /repo, text format)",
    "the Gallina model is a hand transcription of the Go code; the correspondence run is a differential test, as strong as its generators",
]

CLUSTER_RULE = (
    "cluster stream: random closed-loop schedules (960 quick / 16000 thorough, ~350-600 operations each) over clusters of "
    "1..5 voters (+learner, +joiners up to 6 ids), random PreVote/CheckQuorum/async/StepDownOnRemoval/size-limit settings, "
    "phases healthy/chaos/partition/crashy/confchange/snapshots/transfer/reads/limits, plus the corpus; every call into a "
    "RawNode or its MemoryStorage is replayed on the extracted model and compared key by key; distinct_nontrivial = number of "
    "distinct (operation kind, role before, message type, result) tuples exercised")

PROPS = {
    "C12": {
        "props": "Props/C12.v",
        "level": "proof",
        "pure": {"quorum": {"tags": ["MC", "JC", "MV", "JV"], "exact": ["MC", "JC", "MV", "JV"]}},
        "rule": "quorum stream: every pair of subsets of a 4-id (thorough: 5-id) universe x every assignment of "
        "{missing,0..3} acks / {missing,yes,no} votes to the union, plus random sets of size 0..12 (crossing the "
        "7-slot stack fast path) with indexes up to 2^64-1; a case is non-trivial when some voter set is non-empty; "
        "distinct = distinct case lines",
        "explanation": "Theorems C12_* (Props/C12.v) state the property for all voter lists, all ack/vote maps, "
        "unbounded sizes, over Model/Quorum.v; the correspondence run compares quorum.MajorityConfig/JointConfig of "
        "/repo with the extracted model on every generated case. The model is proved equal to the specification, so "
        "any disagreement is an input on which the property fails.",
        "assumptions": [
            "voter lists are the key lists of Go maps (duplicate free); acknowledged indexes are uint64 values",
        ],
    },
    "C07": {
        "props": "Props/C07.v",
        "level": "proof",
        "cluster": True,
        "rule": CLUSTER_RULE,
        "explanation": "Theorems C07_incarnation / C07_exposed / C07_restart / C07_step (Props/C07.v): over the executable "
        "node model (Model/Raft.v, RawNode.v: a function-by-function transcription of raft.go and rawnode.go) the hard state "
        "(term, vote, commit) moves forward only, for every sequence of RawNode API calls, every message of any type, term "
        "and content, every storage write, and a restart continues from exactly the persisted hard state. The model is tied "
        "to /repo by lockstep execution: every call made on a real RawNode by the cluster harness is replayed on the "
        "extracted model and all observables (Ready contents, full internal state, storage) compared.",
        "assumptions": [
            "wf_input: a stepped MsgApp/MsgHeartbeat/MsgSnap carries a non-zero term (true of every message raft sends)",
            "terms, indexes and sizes stay below 2^63 (no uint64 wrap-around in additions)",
            "clause (d) of the design (no emitted message carries a term below the incarnation's starting term) is monitored on the implementation, not yet proved",
        ],
    },
}
