# proptable.py: per-property configuration of the checks.

TRUSTED_BASE = [
    "Coq 8.16.1 kernel (coqc); coqchk as second checker in the thorough tier; no native_compute",
    "vm_compute used only for finite sweeps, non-vacuity examples and refutation witnesses",
    "extraction: ExtrOcamlBasic only (Extract Inductive bool/option/unit/prod/list/sumbool/sumor), no Extract Constant; N/positive/nat/Z stay inductive",
    "OCaml 4.13.1 ocamlopt; hand-written ocaml/conv.ml, ocaml/driver.ml (parsing, calling extracted code, printing)",
    "Go harness under /verif/harness (case generation, calls into /repo, text format)",
    "the Gallina model is a hand transcription of the Go code; the correspondence run is a differential test, as strong as its generators",
]

CLUSTER_RULE = (
    "cluster stream: random closed-loop schedules (960 quick / 16000 thorough, ~350-600 operations each) over clusters of "
    "1..5 voters (+learner, +joiners up to 6 ids), random PreVote/CheckQuorum/async/StepDownOnRemoval/size-limit settings, "
    "(1 in 24: 8..9 voters), phases healthy/chaos/partition/crashy/confchange/snapshots/transfer/reads/limits/stall/dsnap/fig8snap, plus the corpus; every call into a "
    "RawNode or its MemoryStorage is replayed on the extracted model and compared key by key; two schedules out of three end with a "
    "fault-free suffix (C15). distinct_nontrivial = number of distinct schedules (distinct seeds and configurations) in which this "
    "property's monitor evaluated at least one event relevant to it (events and counts: coverage.per_tag.monitor_events; for C14/C18/C19 every "
    "schedule counts: every call runs under recover(), uses the storage, and is executed twice), plus the distinct cases of the property's pure streams")

PROPS = {
    "C12": {
        "props": "Props/C12.v",
        "level": "proof",
        "pure": {"quorum": {"tags": ["MC", "JC", "MV", "JV"], "exact": ["MC", "JC", "MV", "JV"]}},
        "rule": "quorum stream: every pair of subsets of a 4-id (thorough: 5-id) universe x every assignment of "
        "{missing,0..3} acks / {missing,yes,no} votes to the union, plus random sets of size 0..12 (crossing the "
        "7-slot stack fast path) with indexes up to 2^64-1; a case is non-trivial when some voter set is non-empty; "
        "distinct = distinct case lines",
        "explanation": "Theorems C12_* (Props/C12.v) state the property for all voter lists, all ack/vote maps, "
        "unbounded sizes, over Model/Quorum.v; the correspondence run compares quorum.MajorityConfig/JointConfig of "
        "/repo with the extracted model on every generated case. The model is proved equal to the specification, so "
        "any disagreement is an input on which the property fails.",
        "assumptions": [
            "voter lists are the key lists of Go maps (duplicate free); acknowledged indexes are uint64 values",
        ],
    },
}

_COMMON_ASSUME = [
    "terms, indexes and sizes stay below 2^63 (no uint64 wrap-around in additions)",
    "the Gallina model (coq/Model) is a hand transcription of raft.go, log.go, log_unstable.go, rawnode.go, storage.go, "
    "tracker/, confchange/, quorum/, read_only.go; it is tied to /repo by the lockstep comparison of this run",
]

_TIE = ("The model is tied to /repo on every run: each call the cluster harness makes on a real RawNode or its MemoryStorage is "
        "replayed on the extracted model and Ready contents, the full internal state and the storage are compared key by key; "
        "property monitors evaluate the property itself on the implementation's behaviour and provide the replay.")


def _p(pid, level, expl, assume, extra=None):
    d = {
        "props": "Props/%s.v" % pid,
        "level": level,
        "cluster": True,
        "rule": CLUSTER_RULE + ("; " + extra["rule_extra"] if extra and "rule_extra" in extra else ""),
        "explanation": expl + " " + _TIE,
        "assumptions": assume + _COMMON_ASSUME,
    }
    if extra:
        d.update(extra)
    PROPS[pid] = d


_p("C01", "proof",
   "PROVED at protocol level (Props/C01.v over Spec/Safety.v, theorem C01_state_machine_safety_protocol): in every execution of any network of "
   "nodes that follow the election/replication/commit rules the node model implements (unbounded nodes, terms, log lengths and steps; messages "
   "delayed, duplicated, reordered, lost; a static configuration, simple or joint: a quorum is a majority of the voters and of the outgoing voters), any two hand-outs at the same position by any nodes at any moments carry the same "
   "entry, and what a node may treat as committed is never replaced or dropped (C01_committed_never_replaced). PROVED node-locally on the "
   "extracted model: what a node hands out is the consecutive run of its log after the applying cursor within commit; commit moves forward only. "
   "PARTIAL: that the node model follows the protocol rules is shown rule by rule (Props C02/C04/C05/C06 local theorems), not as one refinement "
   "theorem; membership change, snapshots/compaction and crash loss of unacknowledged suffixes are outside the protocol theorem and are EXPLORED: "
   "monitors compare every committed-entry hand-out and every commit-time prefix across all nodes and incarnations on every generated schedule.",
   ["crash model of the main stream: the persistent writes of one Ready / one MsgStorageAppend are atomic (CrashAtomic)",
    "protocol theorem: static configuration (simple or joint; no transitions between configurations), no snapshots, acknowledged log prefixes are durable"],
   {"technique": "Coq: protocol-level State Machine Safety (invariant with history variables, Spec/Safety.v) + node-local lemmas on the extracted "
                 "model; lockstep tie model<->code; cluster exploration with cross-node hand-out monitors for what the protocol theorem leaves out"})
_p("C02", "proof",
   "Proved for every state and message (Props/C02.v): one vote per term across the incarnation and restart from the durable vote (hs_le), a vote is "
   "granted only if canVote holds and the candidate's log is up to date, a candidate becomes leader only when the tally over the joint "
   "configuration (C12) is VoteWon. Election Safety itself is proved at protocol level (C02_election_safety, C02_election_safety_joint over "
   "Spec/Election.v: vote uniqueness + majority intersection, also for joint configurations); the composition with restarts under asynchronous "
   "storage is checked by monitors on every schedule.",
   ["wf_msg: leader messages carry a non-zero term", "known finding F5 (async storage: leadership before the own vote is durable) is classified separately"])
_p("C03", "proof",
   "PROVED at protocol level (Props/C03.v over Spec/LogMatching.v, theorem C03_log_matching_protocol): for every reachable state of any network "
   "whose logs evolve by the replication rules of the node model (one leadership per term, leader appends entries of its term, followers accept "
   "any slice of a leadership's log on a (prev index, prev term) match and truncate only at the first mismatch, a crash may lose any suffix), two "
   "logs holding an entry of the same term at the same position are identical up to it. PROVED node-locally: every log keeps consecutive indexes "
   "under overwrite-from-index; the leader stamps its term at lastIndex+1...; only matching (index, term) acknowledgements release unstable "
   "entries (C18). PARTIAL: the node model following the protocol rules is shown rule by rule; snapshots/compaction are outside the protocol "
   "theorem and EXPLORED: monitors compare all pairs of logical logs (storage + unstable) after every step.", [],
   {"technique": "Coq: protocol-level Log Matching (ghost leadership logs, Spec/LogMatching.v) + node-local lemmas; lockstep tie; pairwise "
                 "log-matching monitor"})
_p("C04", "proof",
   "PROVED at protocol level (Props/C04.v over Spec/Safety.v): in every reachable state, a candidate holding a majority of votes of term t (the "
   "moment it becomes leader) already agrees through position i with every earlier leadership that committed position i "
   "(C04_new_leader_holds_committed), every later leadership keeps the entry (C04_leader_completeness_protocol), and no step removes it from a "
   "follower that held it (C04_followers_keep_committed). PROVED node-locally: votes only for up-to-date logs; commit only of own-term entries at "
   "the quorum index. PARTIAL: static configuration (simple or joint), no snapshots in the protocol theorem; changes of configuration, learners promoted unknowingly, "
   "restarts and snapshot-covered entries are EXPLORED: at every leadership change the monitor compares the new leader's log with every entry "
   "known committed.", ["protocol theorem: static configuration (simple or joint; no transitions between configurations), no snapshots, acknowledged log prefixes are durable"],
   {"technique": "Coq: protocol-level Leader Completeness (quorum intersection of commit and election majorities, Spec/Safety.v) + node-local "
                 "lemmas (up-to-date vote, own-term quorum commit); lockstep tie; leader-completeness monitor"})
_p("C05", "proof",
   "Proved for every function of the node and every input (Props/C05.v, Proofs/RaftRouting.v): MsgAppResp / MsgVoteResp / MsgPreVoteResp are only "
   "ever appended to msgsAfterAppend, never to the immediately sendable queue; the static configuration is untouched; restart state is a function "
   "of storage; after an accepted append the follower's logical log holds every entry of the message and reaches the acknowledged index "
   "(C05_accepted_append_is_held). That the application persists before sending is the Ready contract, implemented by the harness' application "
   "model (synchronous Ready/Advance, or append / apply threads with separately delayed acknowledgements); monitors check at send time that "
   "storage holds the promised vote / entries and that a leader counts its own entries only when they are durable.", [])
_p("C06", "proof",
   "Proved (Props/C06.v): maybeCommit moves commit only to the joint quorum index of Match (exact by C12) and only if the entry there has the leader's "
   "term and lies within the log; heartbeats carry min(Match, commit); commitTo never passes the last index; commit never decreases; an accepted MsgApp "
   "moves a follower's commit index to min(leader's commit, end of the matched prefix) and no further (C06_follower_commit_clamped); every change of term or role leaves Match = 0 and StateProbe for every peer, so an acknowledgement of an earlier term never counts towards a commit of the new one (C06_new_term_forgets_matches). That Match "
   "reflects durable storage on the followers is cluster-level and checked by monitors (durable joint quorum at every commit advancement).", ["wf_msg"])
_p("C07", "proof",
   "Theorems C07_incarnation / C07_exposed / C07_restart / C07_step: the hard state (term, vote, commit) moves forward only, for every sequence of "
   "RawNode API calls, every message of any type, term and content, every storage write; a restart continues from exactly the persisted hard state. "
   "Clause (d), never acting in a lower term (Proofs/TermProofs.v): for every function of raft.go, whatever a node emits carries a term that is not below "
   "the term it had before, or no term at all in the case of a forwarded proposal / read request (C07_step_emits_no_lower_term, C07_tick_emits_no_lower_term); "
   "through the RawNode API every message a Ready hands to the transport or attaches to the storage write satisfies this for the whole incarnation "
   "(C07_node_emits_no_lower_term, C07_history_no_lower_term), and a new incarnation starts with nothing queued at the term of the persisted hard state "
   "(C07_restart_term_invariant).",
   ["wf_input: a stepped MsgApp/MsgHeartbeat/MsgSnap carries a non-zero term (true of every message raft sends)"])
_p("C08", "proof",
   "Proved (Props/C08.v) for every well-formed log/storage state: nextCommittedEnts returns nothing while paused or while a snapshot is pending, "
   "otherwise consecutive entries starting right after the applying cursor, within commit, and (async) below the unstable offset; batches respect "
   "the size budget up to one entry; the entries handed out are the logical log's entries at applying+1.. (C08_handout_is_the_logical_log). "
   "The stream over histories is proved too (Proofs/CursorProofs.v, StreamProofs.v): inside raft.go the applying cursor is moved by nothing but "
   "appliedTo, i.e. by a stepped MsgStorageApplyResp / MsgStorageAppendResp-with-snapshot to the index it acknowledges, never by any other message, "
   "tick, proposal or configuration change (C08_step_moves_cursor_only_by_acks, C08_tick_keeps_cursor); through the RawNode API a Ready hands out the "
   "consecutive run right after the cursor and moves the cursor to its end, Advance moves it only to what the last Ready queued (C08_cursor_discipline, "
   "C08_advance_acks); hence for every history of one incarnation a later batch lies strictly above every earlier one (C08_apply_stream_exactly_once) and "
   "starts right after the previous one unless an acknowledgement above the cursor, an installed snapshot, came in between (C08_apply_stream_gap_free); a new "
   "incarnation starts at the configured applied index (C08_restart_cursor); C08_stream_nonvacuous exhibits a history with two batches. The monitors watch "
   "the same on every schedule.",
   ["well-formedness of storage and unstable log (consecutive indexes) at each Ready, established by C18's theorems for contract-following storage writes"])
_p("C09", "proof",
   "Proved (Props/C09.v): restore never lowers commit, returns false without touching the unstable log when index <= commit / not in the "
   "snapshot's membership / (index, term) already matches, restores only as follower; the response is a promise message (withheld until "
   "persistence) and vouches for the whole log only if the snapshot was installed, for the commit index otherwise (C09_snapshot_answer); the snapshot a leader sends is the one its log can offer, the pending unstable one or the storage's latest (C09_snapshot_sent_is_the_logs); "
   "an accepted snapshot leaves exactly its index, term and membership as the new log base "
   "(C09_restore_installs_exactly_the_snapshot). 'Every snapshot a leader sends is a committed prefix', 'no fork' and 'the log base never moves "
   "back' are monitored.", [])
_p("C10", "proof",
   "Proved (Props/C10.v): the propose-time gate (a change survives only if pendingConfIndex <= applied, the joint/leave shape fits and the "
   "current configuration accepts it in a dry run of the Changer on the decoded payload -- the F6 repair, C10_unacceptable_change_refused --, "
   "otherwise it is replaced by an empty normal entry; surviving changes move pendingConfIndex), hup refuses while a committed change is unapplied and the scan behind that refusal is exact on the logical log: it answers false only if no entry in (applied, committed] - entries already handed to the application included - is a configuration change, so a node that campaigns holds none (C10_unapplied_scan_exact, C10_campaign_only_without_unapplied_change, over the log view of Proofs/SliceRefine.v), a new "
   "leader's pendingConfIndex is its last index, accepted changes keep the configuration invariants (C13), joint decisions use both halves (C12); at protocol level a quorum of a joint "
   "configuration is a majority of both voter sets and with it State Machine Safety holds in a joint configuration as in a simple one "
   "(C10_joint_quorum_is_both_majorities, C10_state_machine_safety_in_joint_configuration, C10_joint_nonvacuous). "
   "'All nodes derive the same configurations' is monitored (configuration after index i compared across nodes).",
   ["DisableConfChangeValidation = false for the gate lemma", "Env.apply_before_snap_step (finding F9) is enforced by the generator"],
   {"pure": {"confchange": {"tags": ["CD"]}},
    "rule_extra": "confchange stream, tag CD: 1500 (thorough 30000) random ConfChange / ConfChangeV2 payloads (missing optional fields, large ids, "
                  "contexts) decoded by proto.Unmarshal + AsV2 in /repo and by the model's decoder, which the propose-time gate uses"})
_p("C11", "proof",
   "Proved (Props/C11.v): a leader that is not the sole voter and has not committed in its term only postpones a MsgReadIndex; reads are released "
   "exactly up to the joint quorum order statistic of acknowledged positions (C12), which a majority of the incoming AND a majority of the outgoing voters have acknowledged (C11_confirmed_by_both_majorities); read bookkeeping is dropped on every reset; a leader that is "
   "not a voter of its configuration never takes the sole-voter shortcut (C11_non_voter_leader_asks_quorum, the F12 repair). PROVED at protocol "
   "level (C11_read_index_covers_protocol over Spec/ReadIndex.v on top of Spec/Safety.v, non-vacuity in ReadIndexEx.v): once a majority has "
   "answered the heartbeat sent after the request, every entry committed by any leadership before the request lies at or below a position the "
   "serving leadership had committed by then. Linearizability across the cluster is also monitored on every schedule with ReadOnlySafe (read "
   "index >= every commit reported before the request); lease-based reads are outside the property.",
   ["protocol theorem: static configuration (simple or joint)", "F3 and F12 are repaired (known_findings.txt)"])
_p("C13", "proof",
   "Proved (Props/C13.v) for every tracker state and change list: an accepted Simple / EnterJoint / LeaveJoint yields a configuration satisfying the "
   "invariants of checkInvariants (as a proposition: members have progress, staged learners are outgoing voters and not learners, learners are "
   "disjoint from both voter sets, non-joint implies no staging and no auto-leave), keeps an incoming voter, Simple changes the voter set by at "
   "most one; a rejected change yields no configuration; only members have a progress record (C13_only_members_have_progress: an invariant of the Changer from the empty tracker on, which checkInvariants itself does not test); whatever Restore accepts (C13_restore_invariants_partial) satisfies the same invariants, keeps a voter, and is joint with the ConfState's AutoLeave exactly when the ConfState names outgoing voters, and its outgoing voter set is exactly the ConfState's VotersOutgoing (C13_restore_outgoing_roundtrip), and its incoming voter set is exactly the ConfState's Voters, joint or not (C13_restore_voters_roundtrip, C13_restore_voters_joint_roundtrip), and its learner sets are the ConfState's: Learners for a non-joint ConfState (C13_restore_learners_roundtrip), for a joint one the named ids become learners when they are not outgoing voters and staged learners when they are (C13_restore_learners_joint_roundtrip) - so the whole set-level round trip of an accepted Restore is a theorem; that Restore accepts the ConfState of every reachable configuration is decided by the stream, not by a theorem. The confchange stream runs exhaustive short and random long sequences of Simple / "
   "EnterJoint / LeaveJoint / Restore (unknown types, zero ids, duplicates, demotions in joint state, odd ConfStates) on confchange.Changer of "
   "/repo and on the model, compares every result, and evaluates the property itself on every accepted result of the implementation "
   "(disjointness, staging, exactly the members have progress, an incoming voter remains, Simple alters at most one voter, input untouched, "
   "ConfState round trip).", [],
   {"pure": {"confchange": {"tags": ["CC", "CD"]}},
    "rule_extra": "confchange stream: every list of up to two changes over ids 1..4 as Simple and as EnterJoint (both auto-leave settings) from 6 "
                  "start configurations, plus 3000 (thorough 60000) random sequences of 2..9 operations"})
_p("C14", "exploration",
   "No-panic under contract-respecting usage is EXPLORED: every call on every generated schedule is made under recover(); any panic is a violation "
   "unless classified as a known finding. Every panic site of the modelled code is an explicit Panic result of the model and panic/no-panic is "
   "compared in lockstep. Proved for every state and every input (Props/C14.v, Proofs/PanicProofs.v): no function of the node model, node_step included, "
   "returns a panic of the locally guarded sites: Inflights.Add on a full window, SentEntries in StateSnapshot, the state transitions leader->candidate, "
   "leader->pre-candidate and follower->leader, unknown Progress states, the recursion leaf of the nested Step (C14_step_unreachable_assertions, "
   "C14_tick_unreachable_assertions, C14_node_unreachable_assertions, C14_flow_assertions_unreachable). The other assertions depend on invariants that involve "
   "the application and the peers and are explored. Also proved: the nested Step is exact; writes keep storage well formed.",
   ["Env.cc_keeps_voter, Env.snapshot_sound, Env.snap_before_entries, Env.apply_before_snap_step (DESIGN.md 3.3) are enforced by the generator"])
_p("C15", "exploration",
   "Convergence after faults stop is EXPLORED, not proved (a liveness property of the whole group; the Coq development has no fairness/time "
   "model). Two random schedules out of three end with a fault-free suffix (operation 'heal', harness/cmd/cluster/converge.go): partitions are "
   "lifted, every member of the most advanced applied (hence committed) configuration is (re)started, nodes outside it are stopped, and then "
   "every round ticks every node, runs every Ready cycle, delivers every message, reports every snapshot outcome (a leader's application offers "
   "a snapshot of what it has applied). Within 40 election timeouts the check demands: exactly one leader among the members, no pending "
   "transfer, same term and leader everywhere, equal last (index, term), commit = applied = last index on every member, no unstable entries or "
   "snapshot, no auto-leave joint configuration left, equal configurations, every follower in StateReplicate with Match = last index, not paused, "
   "no pending snapshot; then three proposals at the leader must be applied by every member within 12 more election timeouts. The README exception "
   "(a survivor whose two-voter configuration half still contains a removed or demoted node) is recognised and skipped. This check found F7 (the "
   "automatic leave of a joint configuration was never retried after an aborted leadership transfer), repaired in /repo. Proved (Props/C15.v): "
   "heartbeat responses un-pause a follower; a pending transfer is aborted when the election timeout elapses. The monitors also watch that a tick never restarts the election timer of a node that cannot campaign. Supporting theorems (Props/C15.v): a heartbeat response unpauses a probing follower; a pending transfer is given up at the election timeout and the automatic leave of a joint configuration is then retried; the election timer of a non-leader counts and, at the randomized timeout, a node that may campaign becomes pre-candidate or candidate.",
   ["the fault-free suffix assumes a cooperative application: the leader's storage offers a snapshot covering its applied index and membership when one must be sent"])
_p("C16", "proof",
   "Proved (Props/C16.v): limitSize / raftLog.slice / entries return within the budget or a single entry, for every log and storage; every MsgApp "
   "queued by maybeSendAppend respects MaxSizePerMsg or carries one entry and nothing is sent in StateSnapshot; the uncommitted-size rule "
   "(exact refusal condition, refusal changes nothing); Inflights never exceeds its size, Add on a full window is refused. The per-follower "
   "window is an invariant of the node (Proofs/FlowInvProofs.v): every Progress has a window that holds at most MaxInflightMsgs messages and, under a byte "
   "limit, all but its newest message below MaxInflightBytes; newRaft, reset and the configuration changer create such windows and every message, tick, "
   "proposal, configuration change and snapshot restore keeps them (C16_window_invariant_step / _tick / _conf_change / _history / _start, C16_window_bounds); "
   "the monitors watch the same on every leader; tracker.Inflights is proved to refine a plain list window operation by operation "
   "(C16_inflights_refines_window: Add panics exactly when the window is full by count or by bytes, FreeLE drops exactly the leading entries with "
   "index <= to) and every window so reached keeps all but its newest message below the byte limit (C16_window_budget); the inflights stream compares tracker.Inflights with the model and with an abstract window "
   "(count, Full, panic exactly on Add to a full window) over random Add / FreeLE / reset sequences.", [],
   {"pure": {"inflights": {"tags": ["IF"]}},
    "rule_extra": "inflights stream: 4000 (thorough 80000) random sequences of 3..32 operations, sizes 1..16, byte limits 0/10/100"})
_p("C17", "proof",
   "Proved for every state and message (Props/C17.v): a pre-vote request never changes term or vote; becoming pre-candidate neither; with PreVote a "
   "MsgHup does not raise the term; a pre-candidate raises its term only on a completed tally over the joint configuration; inside the leader lease "
   "a non-forced higher-term (pre-)vote request changes nothing. CheckQuorum (Proofs/CheckQuorumProofs.v): a leader marks a peer recently active only "
   "when it steps a MsgAppResp or MsgHeartbeatResp from it, whatever else it steps (C17_leader_hears_only_responses); a tick advances the election timer or "
   "fires the check, which finds a quorum marked or ends the leadership and clears the marks (C17_check_quorum_tick); therefore, over every sequence of ticks "
   "and messages, a leader that hears only from peers that with itself are no quorum of every voter set is no longer leader of its term after at most two "
   "election timeouts of ticks (C17_check_quorum_steps_down; C17_check_quorum_nonvacuous is a concrete elected leader that only ticks); the hypothesis that the leader knows a leader "
   "is an invariant of reachable states (a leader's lead is its own id and the id is not 0: C17_leader_knows_itself_step / _tick / _history / _start, "
   "Proofs/RoleProofs.v), which gives C17_check_quorum_steps_down_reachable. The monitor checks "
   "the same bound on every schedule.",
   ["known finding F13: the step-down window is counted from the last leadership-transfer request, because raft.go restarts the election timer "
    "when it accepts one ('Transfer leadership should be finished in one electionTimeout'); the statement without that exclusion is refuted on the "
    "model (C17_unrestricted_refuted) and on the implementation (corpus/f13_transfer_postpones_checkquorum.sched), and such histories are "
    "classified as the known finding"])
_p("C18", "proof",
   "Proved (Props/C18.v): MemoryStorage refines an abstract log (base + consecutive entries): Term / Entries answer exactly as the abstract log with "
   "ErrCompacted / ErrUnavailable exactly outside the range, size-limited non-empty prefixes; Append (truncate-and-append), Compact, ApplySnapshot, "
   "CreateSnapshot keep it well formed; the unstable tail stays one consecutive log under overwrite-from-index and only matching (index, term) "
   "acknowledgements drop a prefix (stale/ABA ones are ignored); raftLog.slice returns consecutive entries, and they are the entries the "
   "logical log (storage below the unstable offset, then the unstable tail) holds at those indexes (C18_slice_returns_logical_log); an accepted "
   "persistence acknowledgement leaves the logical log unchanged (C18_ack_keeps_logical_log). The storage stream runs random "
   "Append / Compact / CreateSnapshot / ApplySnapshot sequences with Entries / Term / FirstIndex / LastIndex / Snapshot reads after every step on "
   "MemoryStorage of /repo and on the model (which is proved to answer as the abstract log), errors and panics included.", [],
   {"pure": {"storage": {"tags": ["ST"], "exact": ["ST"]}},
    "rule_extra": "storage stream: 3000 (thorough 50000) random sequences of 4..18 operations"})
_p("C19", "proof",
   "The model is a function of (state, input, draws) and the quorum decisions are proved independent of iteration order (Props/C19.v). The tie for "
   "this property is the code against itself: every schedule is executed twice in separate instances and the complete traces (every Ready, "
   "message order included) must be byte-identical; plus lockstep with the model, whose iteration is over sorted keys.", [])
_p("C20", "proof",
   "Proved (Props/C20.v): appendEntry stamps term/index and keeps type, payload and order; a proposal that does not fit is reported dropped and "
   "appends nothing; a follower forwards the proposal unchanged to its leader or reports it dropped and queues nothing; a candidate drops. "
   "On the logical log (Proofs/ProposalProofs.v): the gate keeps every entry of a proposal in place and may only replace a configuration change by an empty "
   "normal entry (C20_gate_shape); a proposal stepped at a leader is reported dropped with the log untouched, or extends the logical log at its end by exactly "
   "the gated entries in order, stamped with the leader's term and the next indexes (C20_leader_propose; C20_step_propose for every role); becoming leader adds "
   "exactly one empty entry (C20_one_empty_entry_per_leadership); C20_proposal_nonvacuous is a concrete leader and proposal. "
   "Cluster-level provenance (every payload in every log stems from a Propose call, no duplication beyond deliveries) is monitored with unique tokens.",
   ["well-formedness of storage and unstable log (l_wf) at the proposal, as for C03/C18"])
