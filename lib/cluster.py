# cluster.py: the cluster-lockstep part of a check: run the Go cluster harness (real RawNodes
# of /repo under the application model and the network adversary) through the OCaml driver
# (extracted Coq model), collect correspondence mismatches on the property's projection and
# the verdicts of the property monitors, classify against known_findings.txt.
import os
import re
import subprocess
import time

import verif as V

CACHE = os.path.join(V.ROOT, ".cache")
NSHARDS = 16

# ---- projection: observable -> properties it is evidence for (DESIGN.md 4.4)
KEY_PROPS = {
    "term": "C07 C02 C05 C17", "vote": "C07 C02 C05 C17", "phs": "C07", "rd.hs": "C07 C02 C05 C06", "st.hs": "C07 C05",
    "state": "C02 C04 C17 C15", "lead": "C02 C17 C15", "rd.ss": "C02 C15", "pss": "C02",
    "com": "C06 C01 C09", "apg": "C08", "apd": "C08 C10", "asz": "C08 C16", "apz": "C08",
    "rd.cents": "C08 C01 C10 C20", "rd.apply": "C08 C01 C05",
    "uents": "C03 C18 C20", "uo": "C18 C05", "uoip": "C18 C05", "rd.ents": "C03 C05 C18 C20",
    "st.ents": "C18 C03", "st.di": "C18", "st.dt": "C18",
    "usnap": "C09 C18", "usip": "C09 C05", "rd.snap": "C09 C05 C08", "st.snap": "C09 C18", "snap": "C18 C09",
    "cfg": "C10 C13", "cs": "C10 C13", "pci": "C10", "isl": "C10",
    "prs": "C06 C16 C15 C09", "tmif": "C16", "tmib": "C16", "votes": "C02 C17",
    "roacks": "C11", "rounc": "C11", "roconf": "C11", "pri": "C11", "rss": "C11", "rd.rs": "C11",
    "ee": "C17 C15", "he": "C15", "ret": "C17 C15 C19", "xfer": "C02 C15 C17",
    "usz": "C16 C20", "res": "C14", "draws": "C19", "b": "C15", "rd.sync": "C05",
}
MSG_KEYS = {"msgs", "maa", "soa", "rd.msgs", "rd.app"}
MSGTYPE_PROPS = {
    2: "C20", 3: "C03 C04 C06 C16 C20", 4: "C05 C06 C03 C09", 5: "C02 C17", 6: "C02 C05 C17", 17: "C17 C02", 18: "C17 C02",
    7: "C09 C16", 8: "C06 C11", 9: "C06 C11", 13: "C15 C02", 14: "C02 C15 C17", 15: "C11", 16: "C11",
    20: "C05 C18 C08", 22: "C08", 12: "C17", 1: "C15",
}


def msg_list(v):
    v = v.split("^")[-1] if "^" in v else v
    return [] if v in ("_", "", "<absent>") else v.rstrip(".").split("|")


def props_of_mismatch(kv):
    key = kv["key"]
    if key in MSG_KEYS:
        a, b = msg_list(kv["model"]), msg_list(kv["impl"])
        if kv["model"].endswith("...") or kv["impl"].endswith("..."):
            a, b = a[:-1], b[:-1]
        if sorted(a) == sorted(b) and a != b:
            return {"C19"}  # order only
        diff = set(a) ^ set(b)
        ps = set()
        for m in diff:
            try:
                ps |= set(MSGTYPE_PROPS.get(int(m.split(":")[0]), "").split())
            except ValueError:
                pass
        if key == "rd.app":
            ps |= {"C05", "C07"}
        if not ps:
            ps = {"C05"}
        if kv.get("kind") == "propose":
            ps |= {"C20"}
        return ps
    if key == "prs" and not (kv["model"].endswith("...") or kv["impl"].endswith("...")):
        # per-progress, per-field projection
        fields = {1: "C06 C15", 2: "C06 C15", 3: "C09 C16 C15", 4: "C09 C16 C15", 5: "C17 C15", 6: "C16 C15", 7: "C06",
                  8: "C10 C13", 9: "C16 C15", 10: "C16 C15", 11: "C16 C15", 12: "C16 C15", 13: "C16", 14: "C16"}
        a = {x.split(":")[0]: x.split(":") for x in kv["model"].split("|") if x not in ("_", "")}
        b = {x.split(":")[0]: x.split(":") for x in kv["impl"].split("|") if x not in ("_", "")}
        ps = set()
        if set(a) != set(b):
            ps |= {"C10", "C13"}
        for k in set(a) & set(b):
            for i, (x, y) in enumerate(zip(a[k], b[k])):
                if x != y:
                    ps |= set(fields.get(i, "C16").split())
        return ps or {"C16"}
    ps = set(KEY_PROPS.get(key, "").split())
    if key == "res" and kv.get("kind") in ("propose", "proposecc"):
        ps |= {"C20", "C16", "C10"}
    return ps


def load_known():
    """known_findings.txt -> {(property, class): text}"""
    known = {}
    p = os.path.join(V.ROOT, "known_findings.txt")
    if os.path.exists(p):
        for line in open(p):
            line = line.strip()
            if not line.startswith("finding:"):
                continue
            kv = dict(x.split("=", 1) for x in line.split()[1:] if "=" in x and x.split("=")[0] in ("property", "id", "class", "replay"))
            what = line.split(" -- ", 1)[1] if " -- " in line else line
            known[(kv.get("property"), kv.get("class"))] = (kv.get("id"), what)
    return known


def run_shared(tier, seed, key):
    """run (or reuse) the shared trace generation for this tree; returns the result dir"""
    d = os.path.join(CACHE, key, "cluster-%s-%s" % (tier, seed))
    done = os.path.join(d, "DONE")
    if os.path.exists(done):
        return d
    os.makedirs(d, exist_ok=True)
    lock = os.path.join(d, "LOCK")
    try:
        os.mkdir(lock)
    except FileExistsError:
        # another check is generating: wait for it
        for _ in range(3600):
            if os.path.exists(done):
                return d
            time.sleep(1)
        return d
    try:
        procs = []
        drv = os.path.join(V.BUILD, "ocaml", "driver")
        clu = os.path.join(V.BUILD, "bin", "cluster")
        for sh in range(NSHARDS):
            cmd = "%s gen %s %s %d %d %s/mon_%d.txt | %s trace > %s/drv_%d.txt" % (clu, tier, seed, sh, NSHARDS, d, sh, drv, d, sh)
            procs.append(subprocess.Popen(["/bin/bash", "-c", "set -o pipefail; " + cmd], env=V.GOENV, stdout=subprocess.PIPE, stderr=subprocess.STDOUT, start_new_session=True))
        # corpus: known findings and directed scenarios, replayed first on every run
        cdir = os.path.join(V.ROOT, "corpus")
        if os.path.isdir(cdir):
            for i, fn in enumerate(sorted(os.listdir(cdir))):
                if fn.endswith(".sched"):
                    cmd = "%s replay %s/%s %s/mon_c%d.txt | %s trace > %s/drv_c%d.txt" % (clu, cdir, fn, d, i, drv, d, i)
                    procs.append(subprocess.Popen(["/bin/bash", "-c", "set -o pipefail; " + cmd], env=V.GOENV, stdout=subprocess.PIPE, stderr=subprocess.STDOUT, start_new_session=True))
        errs = []
        # a modified tree must not hang the check: the schedules have their own budget, this is the backstop
        deadline = time.time() + (1500 if tier == "quick" else 10800)
        for p in procs:
            try:
                out, _ = p.communicate(timeout=max(1, deadline - time.time()))
            except subprocess.TimeoutExpired:
                import signal
                try:
                    os.killpg(os.getpgid(p.pid), signal.SIGKILL)
                except Exception:
                    p.kill()
                out, _ = p.communicate()
                errs.append("shard timed out: " + out.decode("utf-8", "replace")[-500:])
                continue
            if p.returncode != 0:
                errs.append(out.decode("utf-8", "replace")[-1500:])
        with open(os.path.join(d, "ERRORS"), "w") as f:
            f.write("\n".join(errs))
        open(done, "w").write("ok\n")
    finally:
        os.rmdir(lock)
    return d


def parse_results(d):
    res = {"viol": [], "mism": [], "ops": 0, "scheds": 0, "keys": 0, "cov": {}, "kinds": {}, "sched": {}, "errors": "", "taint": {}, "act": {}, "heal": {}}
    if os.path.exists(os.path.join(d, "ERRORS")):
        res["errors"] = open(os.path.join(d, "ERRORS")).read().strip()
    for fn in sorted(os.listdir(d)):
        p = os.path.join(d, fn)
        if fn.startswith("mon_"):
            for line in open(p, errors="replace"):
                if line.startswith("V "):
                    f = line.rstrip("\n").split(" ", 5)
                    res["viol"].append({"sched": f[1], "prop": f[2], "class": f[3], "seq": f[4], "what": f[5] if len(f) > 5 else "", "file": fn})
                elif line.startswith("SCHED "):
                    f = line.rstrip("\n").split(" ", 2)
                    res["sched"].setdefault(f[1], {})["cfg"] = f[2]
                elif line.startswith("OPS "):
                    f = line.rstrip("\n").split(" ", 2)
                    res["sched"].setdefault(f[1], {})["ops"] = f[2] if len(f) > 2 else ""
                elif line.startswith("E "):
                    f = line.split()
                    for w in f[2:]:
                        if w.startswith("tainted=") and len(w) > 8:
                            res["taint"][f[1]] = w[8:]
                        if w.startswith("heal="):
                            res["heal"][f[1]] = tuple(int(x) for x in w[5:].split("/"))
                        if w.startswith("undecided="):
                            res["undecided"] = res.get("undecided", 0) + int(w[10:])
                        if w.startswith("excepted="):
                            res["excepted"] = res.get("excepted", 0) + int(w[9:])
                elif line.startswith("A "):
                    f = line.split()
                    res["act"][f[1]] = {kv.split("=")[0]: int(kv.split("=")[1]) for kv in f[2:]}
        elif fn.startswith("drv_"):
            for line in open(p, errors="replace"):
                if line.startswith("MISMATCH "):
                    head, _, rest = line.rstrip("\n").partition(" model=")
                    kv = dict(x.split("=", 1) for x in head.split()[1:])
                    mv, _, iv = rest.partition(" impl=")
                    kv["model"], kv["impl"] = mv, iv
                    res["mism"].append(kv)
                elif line.startswith("TRACE "):
                    kv = dict(x.split("=") for x in line.split()[1:])
                    res["ops"] += int(kv["ops"])
                    res["scheds"] += int(kv["scheds"])
                    res["keys"] += int(kv["keys"])
                elif line.startswith("COV "):
                    f = line.split()
                    res["cov"][f[1]] = res["cov"].get(f[1], 0) + int(f[2])
                elif line.startswith("KIND "):
                    f = line.split()
                    res["kinds"][f[1]] = res["kinds"].get(f[1], 0) + int(f[2])
    return res


def run(pid, spec, tier, seed, key):
    d = run_shared(tier, seed, key)
    r = parse_results(d)
    # schedules in which this property's monitor evaluated at least one relevant event
    relevant_key = {"C12": "C02.leader-elected", "C13": "C10.conf-change-applied"}.get(pid)
    events = {}
    rel = 0
    for sid, a in r["act"].items():
        hit = False
        for k, v in a.items():
            if k.startswith(pid + ".") or k == relevant_key:
                events[k] = events.get(k, 0) + v
                hit = True
        if pid in ("C14", "C18", "C19"):
            hit = True  # every call is made under recover() / touches the storage / is run twice
        if pid == "C15":
            hit = r["heal"].get(sid, (0, 0, 0))[0] > 0
        rel += 1 if hit else 0
    out = {"evaluations": r["ops"], "nontrivial": rel, "samples": [], "mismatches": [], "violations": [], "known": [], "notes": [], "per_tag": {}}
    if r["errors"]:
        out["mismatches"].append({"key": "harness", "model": "", "impl": r["errors"][:1500], "kind": "run"})
    known = load_known()
    # monitors
    seen_known = set()
    for v in r["viol"]:
        if v["prop"] != pid:
            continue
        sch = r["sched"].get(v["sched"], {})
        if v["class"] != "-" and (pid, v["class"]) in known:
            fid, what = known[(pid, v["class"])]
            if fid not in seen_known:
                seen_known.add(fid)
                out["known"].append("%s %s" % (fid, what))
            continue
        out["violations"].append(("monitor", {"what": v["what"], "class": v["class"], "seq": v["seq"], "schedule_id": v["sched"],
                                              "schedule": "cfg-line + ops below; replay with bin/check %s --replay <this file>" % pid,
                                              "cfg": sch.get("cfg", ""), "ops": sch.get("ops", "")}))
    # correspondence on the projection
    drift = 0
    for kv in r["mism"]:
        if pid in props_of_mismatch(kv):
            sch = r["sched"].get(kv.get("sched"), {})
            kv = dict(kv)
            kv["cfg"] = sch.get("cfg", "")
            kv["ops"] = sch.get("ops", "")
            out["mismatches"].append(kv)
        else:
            drift += 1
    out["notes"].append("model drift outside this property's projection: %d mismatching keys" % drift)
    out["per_tag"] = {"cluster_schedules": r["scheds"], "cluster_ops_compared": r["ops"], "observable_keys_compared": r["keys"],
                      "op_kinds": r["kinds"], "known_finding_taints": len(r["taint"]),
                      "monitor_events": events, "distinct_op_role_msg_result_tuples": len(r["cov"])}
    if pid == "C15":
        runs = sum(h[0] for h in r["heal"].values())
        ok = sum(h[1] for h in r["heal"].values())
        rounds = sorted(h[2] for h in r["heal"].values() if h[1])
        out["per_tag"]["fault_free_suffixes"] = {"run": runs, "converged": ok,
                                                 "documented_two_voter_exception": r.get("excepted", 0),
                                                 "undecided_long_elections": r.get("undecided", 0),
                                                 "ticks_to_converge_median": rounds[len(rounds) // 2] if rounds else 0,
                                                 "ticks_to_converge_max": rounds[-1] if rounds else 0}
    cov = sorted(r["cov"].items(), key=lambda x: -x[1])
    out["samples"] = ["op/role/msgtype/result x count: " + ", ".join("%s x%d" % c for c in cov[:12])]
    for sid, sch in list(r["sched"].items())[:2]:
        out["samples"].append("schedule %s: %s ; %s ..." % (sid, sch.get("cfg", ""), ";".join(sch.get("ops", "").split(";")[:25])))
    return out


def replay(pid, body):
    """re-run a stored schedule (cfg + ops) on the current tree"""
    first = body.get("first", {})
    cands = [first] + body.get("others", []) + body.get("first_mismatches", [])
    sched = None
    for c in cands:
        if isinstance(c, dict) and c.get("cfg") and c.get("ops") is not None:
            sched = c
            break
    if not sched:
        V.log("replay file holds no schedule")
        return 1
    tmp = os.path.join(V.BUILD, "replay.sched")
    with open(tmp, "w") as f:
        f.write(sched["cfg"] + "\n" + sched["ops"].replace(";", "\n") + "\n")
    mon = os.path.join(V.BUILD, "replay.mon")
    rc, out = V.sh("set -o pipefail; %s/bin/cluster replay %s %s | %s/ocaml/driver trace" % (V.BUILD, tmp, mon, V.BUILD), env=V.GOENV, timeout=1800)
    bad = [l for l in out.splitlines() if l.startswith("MISMATCH")]
    vio = [l for l in open(mon).read().splitlines() if l.startswith("V ") and (" %s " % pid) in l]
    for l in (bad + vio)[:20]:
        V.log(l[:600])
    if bad or vio:
        V.log("VIOLATION property=%s replay=%s" % (pid, "(replayed)"))
        return 1
    V.log("replay: no longer reproduces")
    return 0
