(* pure_more.ml: evaluators for the pure streams CC (confchange), IF (tracker.Inflights) and
   ST (MemoryStorage): the same operation sequence the Go harness ran on the implementation is
   run on the extracted model and rendered in the same text form. *)
open Model
open Conv
open Trace

let split_plus s = if s = "" then [] else String.split_on_char '+' s

(* ---------- CC ---------- *)

let parse_changes (s : string) : cc_single list =
  if s = "_" || s = "" then []
  else
    List.map
      (fun w ->
        match String.split_on_char '.' w with
        | [ t; id ] ->
          { ccs_type = (match t with "0" -> CCAddNode | "1" -> CCRemoveNode | "2" -> CCUpdateNode | "3" -> CCAddLearnerNode | _ -> CCUnknown);
            ccs_node = ns id }
        | _ -> failwith "bad change")
      (String.split_on_char ',' s)

let prs_s (p : (n * progress) list) : string =
  let p = List.sort (fun (a, _) (b, _) -> compare (int_of_n a) (int_of_n b)) p in
  list_or ","
    (List.map
       (fun (id, pr) ->
         Printf.sprintf "%s:%s:%s:%s:%s" (sn id) (b2s pr.pr_is_learner) (sn pr.pr_match) (sn pr.pr_next) (b2s pr.pr_recent_active))
       p)

let fresh_tracker () = make_tracker (n_of_int 4) N0

let eval_cc (ops : string) : string =
  let t = ref (fresh_tracker ()) in
  let one (w : string) : string =
    let r =
      match w.[0] with
      | 'L' -> changer_leave_joint !t
      | 'S' ->
        (match String.split_on_char ':' (String.sub w 1 (String.length w - 1)) with
         | [ li; ch ] -> changer_simple !t (ns li) (parse_changes ch)
         | _ -> failwith "bad S")
      | 'E' ->
        (match String.split_on_char ':' (String.sub w 1 (String.length w - 1)) with
         | [ li; auto; ch ] -> changer_enter_joint !t (ns li) (auto = "1") (parse_changes ch)
         | _ -> failwith "bad E")
      | 'R' ->
        let body = String.sub w 1 (String.length w - 1) in
        let i = String.index body ':' in
        let li = String.sub body 0 i and cs = String.sub body (i + 1) (String.length body - i - 1) in
        t := fresh_tracker ();
        cc_restore !t (ns li) (parse_confstate cs)
      | _ -> failwith "bad op"
    in
    match r with
    | Inl (c, p) ->
      t := t_with_config_progress !t c p;
      config_s c ^ "/" ^ prs_s p
    | Inr _ -> "ERR"
  in
  String.concat "+" (List.map one (split_plus ops))

(* ---------- IF ---------- *)

let eval_if (size : string) (maxb : string) (ops : string) : string =
  let fresh () = new_inflights (ns size) (ns maxb) in
  let i = ref (fresh ()) in
  let out = ref [] in
  (try
     List.iter
       (fun w ->
         (match w.[0] with
          | 'A' ->
            (match String.split_on_char '.' (String.sub w 1 (String.length w - 1)) with
             | [ a; b ] ->
               (match infl_add !i (ns a) (ns b) with
                | Ok i' -> i := i'
                | Panic _ -> out := "PANIC" :: !out; raise Exit)
             | _ -> failwith "bad A")
          | 'F' -> i := infl_free_le !i (ns (String.sub w 1 (String.length w - 1)))
          | _ -> i := fresh ());
         out := Printf.sprintf "%s.%s" (sn (infl_count !i)) (b2s (infl_full !i)) :: !out)
       (split_plus ops)
   with Exit -> ());
  String.concat "+" (List.rev !out)

(* ---------- ST ---------- *)

let st_err = function
  | ENone -> "ok" | ErrCompacted -> "compacted" | ErrUnavailable -> "unavailable" | ErrSnapOutOfDate -> "snapoutofdate" | _ -> "err"

let one_voter : confstate =
  { cs_voters = [ n_of_int 1 ]; cs_learners = []; cs_voters_outgoing = []; cs_learners_next = []; cs_auto_leave = false }

let eval_st (ops : string) : string =
  let s = ref new_memstorage in
  let out = ref [] in
  let rest w = String.sub w 1 (String.length w - 1) in
  (try
     List.iter
       (fun w ->
         let r =
           match w.[0] with
           | 'A' ->
             (match ms_append !s (parse_entries (rest w)) with
              | Ok s' -> s := s'; "ok"
              | Panic _ -> out := "PANIC" :: !out; raise Exit)
           | 'C' ->
             (match ms_compact !s (ns (rest w)) with
              | Ok (s', e) -> s := s'; st_err e
              | Panic _ -> out := "PANIC" :: !out; raise Exit)
           | 'S' ->
             (match ms_create_snapshot !s (ns (rest w)) (Some one_voter) [] with
              | Ok ((s', _), e) -> s := s'; st_err e
              | Panic _ -> out := "PANIC" :: !out; raise Exit)
           | 'P' ->
             (match String.split_on_char '.' (rest w) with
              | [ a; b ] ->
                let s', e = ms_apply_snapshot !s { s_index = ns a; s_term = ns b; s_conf = one_voter; s_data = [] } in
                s := s'; st_err e
              | _ -> failwith "bad P")
           | 'E' ->
             (match String.split_on_char '.' (rest w) with
              | [ a; b; c ] ->
                (match ms_entries !s (ns a) (ns b) (ns c) with
                 | Ok (es, e) -> st_err e ^ "=" ^ entries_s es
                 | Panic _ -> out := "PANIC" :: !out; raise Exit)
              | _ -> failwith "bad E")
           | 'T' ->
             let t, e = ms_term !s (ns (rest w)) in
             Printf.sprintf "%s=%s" (st_err e) (sn t)
           | _ -> failwith "bad op"
         in
         let sn0 = ms_get_snapshot !s in
         out := Printf.sprintf "%s@%s.%s.%s.%s" r (sn (ms_first_index !s)) (sn (ms_last_index !s)) (sn sn0.s_index) (sn sn0.s_term) :: !out)
       (split_plus ops)
   with Exit -> ());
  String.concat "+" (List.rev !out)

(* ---------- CD: decoding of configuration-change payloads ---------- *)

let cct_int = function CCAddNode -> "0" | CCRemoveNode -> "1" | CCUpdateNode -> "2" | CCAddLearnerNode -> "3" | CCUnknown -> "?"

let eval_cd (typ : string) (hex : string) : string =
  let e = { e_term = N0; e_index = N0; e_type = (if typ = "V" then EntryConfChangeV2 else EntryConfChange);
            e_has_type = true; e_data = bytes_of_hex hex; e_has_data = hex <> "-"; e_leave = false } in
  match decode_cc e with
  | None -> "ERR"
  | Some cc ->
    let tr = match cc.cc_transition_ with TransAuto -> "0" | TransJointImplicit -> "1" | TransJointExplicit -> "2" in
    let chs = list_or "," (List.map (fun c -> cct_int c.ccs_type ^ "." ^ sn c.ccs_node) cc.cc_changes) in
    tr ^ ";" ^ chs

let eval (t : string) (f : string array) : string * string * bool =
  match t with
  | "CD" -> (eval_cd f.(1) f.(2), f.(3), true)
  | "CC" -> (eval_cc f.(1), f.(2), true)
  | "IF" -> (eval_if f.(1) f.(2) f.(3), f.(4), true)
  | "ST" -> (eval_st f.(1), f.(2), true)
  | _ -> failwith ("unknown tag " ^ t)
