(* pure_more.ml: evaluators for the remaining pure streams (filled in per component). *)
let eval (t : string) (_f : string array) : string * string * bool = failwith ("unknown tag " ^ t)
