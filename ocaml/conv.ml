(* conv.ml: conversions between the driver's text format and the extracted inductive
   number types (N, positive, nat).  Hand-written, part of the trusted base of the tie. *)
open Model

let rec pos_of_int64 (x : int64) : positive =
  (* x <> 0, interpreted as unsigned 64 bit *)
  if Int64.equal x 1L then XH
  else
    let hi = Int64.shift_right_logical x 1 in
    if Int64.equal (Int64.logand x 1L) 1L then XI (pos_of_int64 hi) else XO (pos_of_int64 hi)

let n_of_u64 (x : int64) : n = if Int64.equal x 0L then N0 else Npos (pos_of_int64 x)

(* decimal string, unsigned, up to 2^64-1 *)
let n_of_string (s : string) : n = n_of_u64 (Int64.of_string ("0u" ^ s))
let n_of_int (i : int) : n = n_of_u64 (Int64.of_int i)

(* positive -> (value mod 2^64, number of bits) *)
let rec pos_bits (p : positive) : int =
  match p with XH -> 1 | XO q | XI q -> 1 + pos_bits q

let rec pos_to_int64 (p : positive) : int64 =
  match p with
  | XH -> 1L
  | XO q -> Int64.shift_left (pos_to_int64 q) 1
  | XI q -> Int64.logor (Int64.shift_left (pos_to_int64 q) 1) 1L

(* string of an N; values of 65 bits or more print as BIG<bits> *)
let string_of_n (x : n) : string =
  match x with
  | N0 -> "0"
  | Npos p ->
    let b = pos_bits p in
    if b > 64 then Printf.sprintf "BIG%d" b else Printf.sprintf "%Lu" (pos_to_int64 p)

let int_of_n (x : n) : int =
  match x with
  | N0 -> 0
  | Npos p -> if pos_bits p > 62 then failwith "int_of_n: too big" else Int64.to_int (pos_to_int64 p)

let rec nat_of_int (i : int) : nat = if i <= 0 then O else S (nat_of_int (i - 1))
let rec int_of_nat (x : nat) : int = match x with O -> 0 | S y -> 1 + int_of_nat y

let split_on (c : char) (s : string) : string list =
  if s = "" then [] else String.split_on_char c s

let words (s : string) : string list = List.filter (fun w -> w <> "") (split_on ' ' s)

let n_list (s : string) : n list = List.map n_of_string (words s)

(* "k:v k:v" *)
let pairs (s : string) : (string * string) list =
  List.map
    (fun w ->
      match String.index_opt w ':' with
      | Some i -> (String.sub w 0 i, String.sub w (i + 1) (String.length w - i - 1))
      | None -> failwith ("bad pair " ^ w))
    (words s)

let string_of_n_list (l : n list) : string = String.concat " " (List.map string_of_n l)

(* hex byte strings; "-" is the empty string *)
let bytes_of_hex (s : string) : n list =
  if s = "-" || s = "" || s = "e" then []
  else
    let len = String.length s / 2 in
    List.init len (fun i -> n_of_int (int_of_string ("0x" ^ String.sub s (2 * i) 2)))
