(* driver.ml: correspondence driver.  Reads case lines produced by the Go harness (input
   and the implementation's result), evaluates the extracted Coq model on the same input
   and reports every difference.

     driver pure < cases        one case per line, '|' separated fields, tag first

   Output: MISMATCH lines, then one SUMMARY line per tag, then TOTAL. *)
open Model
open Conv

type stat = { mutable cases : int; mutable mism : int; mutable nontrivial : int }

let stats : (string, stat) Hashtbl.t = Hashtbl.create 16
let seen : (string, unit) Hashtbl.t = Hashtbl.create 100000
let samples : (string, string list) Hashtbl.t = Hashtbl.create 16
let max_report = 20

let stat tag =
  match Hashtbl.find_opt stats tag with
  | Some s -> s
  | None ->
    let s = { cases = 0; mism = 0; nontrivial = 0 } in
    Hashtbl.add stats tag s;
    s

let vr_str = function VotePending -> "P" | VoteLost -> "L" | VoteWon -> "W"

let acks_of s = List.map (fun (k, v) -> (n_of_string k, n_of_string v)) (pairs s)
let votes_of s = List.map (fun (k, v) -> (n_of_string k, v = "1")) (pairs s)

(* returns (model result, impl result, nontrivial) *)
let eval_pure (f : string array) : string * string * bool =
  match f.(0) with
  | "MC" ->
    let vs = n_list f.(1) in
    (string_of_n (majority_committed vs (acks_of f.(2))), f.(3), vs <> [])
  | "JC" ->
    let c0 = n_list f.(1) and c1 = n_list f.(2) in
    (string_of_n (joint_committed c0 c1 (acks_of f.(3))), f.(4), c0 <> [] || c1 <> [])
  | "MV" ->
    let vs = n_list f.(1) in
    (vr_str (majority_vote vs (votes_of f.(2))), f.(3), vs <> [])
  | "JV" ->
    let c0 = n_list f.(1) and c1 = n_list f.(2) in
    (vr_str (joint_vote c0 c1 (votes_of f.(3))), f.(4), c0 <> [] || c1 <> [])
  | t -> Pure_more.eval t f

let run_pure () =
  let lineno = ref 0 in
  (try
     while true do
       let line = input_line stdin in
       incr lineno;
       if String.length line > 8 && String.sub line 0 8 = "MONITOR " then print_endline line
       else if line <> "" && line.[0] <> '#' then begin
         let f = Array.of_list (String.split_on_char '|' line) in
         let tag = f.(0) in
         let st = stat tag in
         st.cases <- st.cases + 1;
         let model, impl, nontriv =
           try eval_pure f with e -> ("EXN:" ^ Printexc.to_string e, f.(Array.length f - 1), true)
         in
         if nontriv && not (Hashtbl.mem seen line) then begin
           Hashtbl.add seen line ();
           st.nontrivial <- st.nontrivial + 1;
           let l = try Hashtbl.find samples tag with Not_found -> [] in
           if List.length l < 3 && st.nontrivial mod 97 = 1 then Hashtbl.replace samples tag (line :: l)
         end;
         if model <> impl then begin
           st.mism <- st.mism + 1;
           if st.mism <= max_report then
             Printf.printf "MISMATCH tag=%s line=%d model=%s impl=%s case=%s\n" tag !lineno model impl line
         end
       end
     done
   with End_of_file -> ());
  let tc = ref 0 and tm = ref 0 and tn = ref 0 in
  Hashtbl.iter
    (fun tag st ->
      Printf.printf "SUMMARY tag=%s cases=%d mismatches=%d distinct_nontrivial=%d\n" tag st.cases st.mism
        st.nontrivial;
      tc := !tc + st.cases;
      tm := !tm + st.mism;
      tn := !tn + st.nontrivial)
    stats;
  Hashtbl.iter (fun tag l -> List.iter (fun s -> Printf.printf "SAMPLE tag=%s case=%s\n" tag s) l) samples;
  Printf.printf "TOTAL cases=%d mismatches=%d distinct_nontrivial=%d\n" !tc !tm !tn

let () =
  match Array.to_list Sys.argv with
  | _ :: "pure" :: _ -> run_pure ()
  | _ :: "trace" :: _ -> Trace.run_trace ()
  | _ ->
    prerr_endline "usage: driver pure < cases";
    exit 2
