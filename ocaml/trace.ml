(* trace.ml: replays the open-loop per-node trace written by the Go cluster harness on the
   extracted Coq model (node_step) and compares the observations key by key. *)
open Model
open Conv

(* ---------- printing model values in the harness' text format ---------- *)

let hex_of_bytes (b : n list) : string =
  if b = [] then "-" else String.concat "" (List.map (fun x -> Printf.sprintf "%02x" (int_of_n x)) b)

let type_letter = function EntryNormal -> "N" | EntryConfChange -> "C" | EntryConfChangeV2 -> "V"
let b2s b = if b then "1" else "0"
let sn = string_of_n

let entry_s (e : entry) : string =
  Printf.sprintf "%s/%s/%s/%s/%s/%s" (sn e.e_term) (sn e.e_index) (type_letter e.e_type) (b2s e.e_has_type)
    (if e.e_data = [] && e.e_has_data then "e" else hex_of_bytes e.e_data) (b2s e.e_leave)

let list_or sep l = if l = [] then "_" else String.concat sep l
let entries_s es = list_or "," (List.map entry_s es)
let ids_s ids = String.concat "." (List.map sn ids)

let confstate_s (c : confstate) : string =
  Printf.sprintf "%s;%s;%s;%s;%s" (ids_s c.cs_voters) (ids_s c.cs_learners) (ids_s c.cs_voters_outgoing)
    (ids_s c.cs_learners_next) (b2s c.cs_auto_leave)

let snapshot_s (s : snapshot) : string =
  Printf.sprintf "%s~%s~%s~%s" (sn s.s_index) (sn s.s_term) (confstate_s s.s_conf) (hex_of_bytes s.s_data)

let snap_opt_s = function None -> "_" | Some s -> snapshot_s s

let msg_s (m : message) : string =
  Printf.sprintf "%s:%s:%s:%s:%s:%s:%s:%s:%s:%s:%s:%s:%s" (sn (msg_type_num m.m_type)) (sn m.m_to) (sn m.m_from)
    (sn m.m_term) (sn m.m_logterm) (sn m.m_index) (sn m.m_commit) (sn m.m_vote) (b2s m.m_reject) (sn m.m_rejecthint)
    (hex_of_bytes m.m_context) (snap_opt_s m.m_snapshot) (entries_s m.m_entries)

let msgs_s ms = list_or "|" (List.map msg_s ms)
let hs_s (h : hardstate) = Printf.sprintf "%s.%s.%s" (sn h.hs_term) (sn h.hs_vote) (sn h.hs_commit)
let hs_opt_s = function None -> "_" | Some h -> hs_s h

let state_letter = function
  | StateFollower -> "F" | StateCandidate -> "C" | StateLeader -> "L" | StatePreCandidate -> "P"

let pr_letter = function StateProbe -> "P" | StateReplicate -> "R" | StateSnapshot -> "S"

let err_s = function
  | ENone -> "ok" | ErrCompacted -> "err:Compacted" | ErrUnavailable -> "err:Unavailable"
  | ErrSnapOutOfDate -> "err:SnapOutOfDate" | ErrProposalDropped -> "err:ProposalDropped"
  | ErrStepLocalMsg -> "err:StepLocalMsg" | ErrStepPeerNotFound -> "err:StepPeerNotFound"
  | ErrOther -> "err:Other"

let rss_s (l : readstate list) =
  list_or "," (List.map (fun r -> Printf.sprintf "%s@%s" (sn r.rs_index) (hex_of_bytes r.rs_ctx)) l)

let config_s (c : config) : string =
  Printf.sprintf "%s;%s;%s;%s;%s" (ids_s c.c_voters) (ids_s c.c_learners) (ids_s c.c_outgoing)
    (ids_s c.c_learners_next) (b2s c.c_auto_leave)

let progress_s (id : n) (p : progress) : string =
  let i = p.pr_inflights in
  let w = infl_window i in
  Printf.sprintf "%s:%s:%s:%s:%s:%s:%s:%s:%s:%s:%s:%s:%s:%s:%s" (sn id) (sn p.pr_match) (sn p.pr_next) (pr_letter p.pr_state_)
    (sn p.pr_pending_snapshot) (b2s p.pr_recent_active) (b2s p.pr_paused) (sn p.pr_sent_commit) (b2s p.pr_is_learner)
    (sn i.in_count) (sn i.in_bytes) (b2s (infl_full i))
    (list_or "," (List.map (fun (a, b) -> Printf.sprintf "%s/%s" (sn a) (sn b)) w))
    (sn i.in_size) (sn i.in_maxbytes)

(* key/value observation of the model *)
let state_kvs (rn : rawnode) : (string * string) list =
  let r = rn.rn_raft in
  let l = r.r_log in
  let u = l.l_unstable in
  let ro = r.r_read_only in
  [ ("term", sn r.r_term); ("vote", sn r.r_vote); ("lead", sn r.r_lead); ("state", state_letter r.r_state);
    ("xfer", sn r.r_lead_transferee); ("ee", sn r.r_election_elapsed); ("he", sn r.r_heartbeat_elapsed);
    ("ret", sn r.r_randomized_election_timeout); ("isl", b2s r.r_is_learner); ("pci", sn r.r_pending_conf_index);
    ("usz", sn r.r_uncommitted_size); ("com", sn l.l_committed); ("apg", sn l.l_applying); ("apd", sn l.l_applied);
    ("asz", sn l.l_applying_size); ("apz", b2s l.l_applying_paused); ("uo", sn u.u_offset);
    ("uoip", sn u.u_offset_in_progress); ("uents", entries_s u.u_entries); ("usnap", snap_opt_s u.u_snapshot);
    ("usip", b2s u.u_snapshot_in_progress); ("cfg", config_s r.r_trk.t_config);
    ("prs", list_or "|" (List.map (fun (id, p) -> progress_s id p) r.r_trk.t_progress));
    ("tmif", sn r.r_trk.t_max_inflight); ("tmib", sn r.r_trk.t_max_inflight_bytes);
    ("votes", list_or "," (List.map (fun (id, v) -> Printf.sprintf "%s:%s" (sn id) (b2s v)) r.r_trk.t_votes));
    ("roacks", list_or "," (List.map (fun (id, v) -> Printf.sprintf "%s:%s" (sn id) (sn v)) ro.ro_acks));
    ("rounc", list_or "|" (List.map (fun (m, i) -> Printf.sprintf "%s@%s" (sn i) (msg_s m)) ro.ro_unconfirmed));
    ("roconf", sn ro.ro_confirmed); ("msgs", msgs_s r.r_msgs); ("maa", msgs_s r.r_msgs_after_append);
    ("soa", msgs_s rn.rn_steps_on_advance); ("pri", msgs_s r.r_pending_read_index); ("rss", rss_s r.r_read_states);
    ("phs", hs_s rn.rn_prev_hard);
    ("pss", Printf.sprintf "%s.%s" (sn rn.rn_prev_soft.ss_lead) (state_letter rn.rn_prev_soft.ss_state)) ]

let storage_kvs (s : memstorage) : (string * string) list =
  [ ("st.hs", hs_opt_s s.ms_hardstate); ("st.snap", snapshot_s s.ms_snapshot); ("st.di", sn s.ms_dummy_index);
    ("st.dt", sn s.ms_dummy_term); ("st.ents", entries_s s.ms_ents) ]

let ready_kvs (rd : ready) : (string * string) list =
  let app =
    match rd.rd_append with
    | None -> "_"
    | Some a ->
      Printf.sprintf "%s^%s^%s^%s" (entries_s a.sa_entries) (hs_opt_s a.sa_hs) (snap_opt_s a.sa_snapshot)
        (msgs_s a.sa_responses)
  in
  let apply =
    match rd.rd_apply with
    | None -> "_"
    | Some a -> Printf.sprintf "%s^%s" (entries_s a.sap_entries) (msgs_s [ a.sap_response ])
  in
  [ ("rd.ss", match rd.rd_soft with None -> "_" | Some s -> Printf.sprintf "%s.%s" (sn s.ss_lead) (state_letter s.ss_state));
    ("rd.hs", hs_opt_s rd.rd_hard); ("rd.rs", rss_s rd.rd_read_states); ("rd.ents", entries_s rd.rd_entries);
    ("rd.snap", snap_opt_s rd.rd_snapshot); ("rd.cents", entries_s rd.rd_committed); ("rd.msgs", msgs_s rd.rd_msgs);
    ("rd.sync", b2s rd.rd_must_sync); ("rd.app", app); ("rd.apply", apply) ]

(* ---------- parsing the harness' text format ---------- *)

let split c s = String.split_on_char c s
let ns = n_of_string

let parse_entry (s : string) : entry =
  match split '/' s with
  | [ t; i; ty; h; d; l ] ->
    { e_term = ns t; e_index = ns i;
      e_type = (match ty with "C" -> EntryConfChange | "V" -> EntryConfChangeV2 | _ -> EntryNormal);
      e_has_type = h = "1"; e_data = (if d = "e" then [] else bytes_of_hex d); e_has_data = d <> "-"; e_leave = l = "1" }
  | _ -> failwith ("bad entry " ^ s)

let parse_entries s = if s = "_" || s = "" then [] else List.map parse_entry (split ',' s)
let parse_ids s = if s = "" then [] else List.map ns (split '.' s)

let parse_confstate s : confstate =
  match split ';' s with
  | [ v; l; o; n; a ] ->
    { cs_voters = parse_ids v; cs_learners = parse_ids l; cs_voters_outgoing = parse_ids o;
      cs_learners_next = parse_ids n; cs_auto_leave = a = "1" }
  | _ -> failwith ("bad confstate " ^ s)

let parse_snapshot s : snapshot option =
  if s = "_" then None
  else
    match split '~' s with
    | [ i; t; c; d ] -> Some { s_index = ns i; s_term = ns t; s_conf = parse_confstate c; s_data = bytes_of_hex d }
    | _ -> failwith ("bad snapshot " ^ s)

let msg_type_of_int (i : int) : msg_type =
  match i with
  | 0 -> MsgHup | 1 -> MsgBeat | 2 -> MsgProp | 3 -> MsgApp | 4 -> MsgAppResp | 5 -> MsgVote | 6 -> MsgVoteResp
  | 7 -> MsgSnap | 8 -> MsgHeartbeat | 9 -> MsgHeartbeatResp | 10 -> MsgUnreachable | 11 -> MsgSnapStatus
  | 12 -> MsgCheckQuorum | 13 -> MsgTransferLeader | 14 -> MsgTimeoutNow | 15 -> MsgReadIndex
  | 16 -> MsgReadIndexResp | 17 -> MsgPreVote | 18 -> MsgPreVoteResp | 19 -> MsgStorageAppend
  | 20 -> MsgStorageAppendResp | 21 -> MsgStorageApply | 22 -> MsgStorageApplyResp | 23 -> MsgForgetLeader
  | _ -> failwith "bad message type"

let parse_msg (s : string) : message =
  match split ':' s with
  | [ ty; to_; from; term; lt; idx; com; vote; rej; hint; ctx; snap; ents ] ->
    { m_type = msg_type_of_int (int_of_string ty); m_to = ns to_; m_from = ns from; m_term = ns term; m_logterm = ns lt;
      m_index = ns idx; m_entries = parse_entries ents; m_commit = ns com; m_vote = ns vote;
      m_snapshot = parse_snapshot snap; m_reject = rej = "1"; m_rejecthint = ns hint; m_context = bytes_of_hex ctx }
  | _ -> failwith ("bad message " ^ s)

let parse_hs s : hardstate =
  match split '.' s with
  | [ t; v; c ] -> { hs_term = ns t; hs_vote = ns v; hs_commit = ns c }
  | _ -> failwith ("bad hardstate " ^ s)

let kv_of_words (ws : string list) : (string * string) list =
  List.filter_map
    (fun w -> match String.index_opt w '=' with
      | Some i -> Some (String.sub w 0 i, String.sub w (i + 1) (String.length w - i - 1))
      | None -> None)
    ws

let get kv k = try List.assoc k kv with Not_found -> failwith ("missing arg " ^ k)
let getb kv k = get kv k = "1"

let parse_cc (s : string) : confchange_v2 =
  match split ';' s with
  | [ tr; chs ] ->
    let trans = match tr with "1" -> TransJointImplicit | "2" -> TransJointExplicit | _ -> TransAuto in
    let changes =
      if chs = "_" then []
      else
        List.map
          (fun w -> match split '.' w with
            | [ t; id ] ->
              { ccs_type = (match t with "0" -> CCAddNode | "1" -> CCRemoveNode | "2" -> CCUpdateNode | "3" -> CCAddLearnerNode | _ -> CCUnknown);
                ccs_node = ns id }
            | _ -> failwith "bad change")
          (split ',' chs)
    in
    { cc_transition_ = trans; cc_changes = changes }
  | _ -> failwith ("bad cc " ^ s)

let parse_input (kind : string) (kv : (string * string) list) : ninput =
  match kind with
  | "new" ->
    INew
      { cfg_id = ns (get kv "id"); cfg_election_tick = ns (get kv "et"); cfg_heartbeat_tick = ns (get kv "hb");
        cfg_applied = ns (get kv "applied"); cfg_async = getb kv "async"; cfg_max_size_per_msg = ns (get kv "msz");
        cfg_max_committed_size = ns (get kv "mcs"); cfg_max_uncommitted = ns (get kv "mus");
        cfg_max_inflight_msgs = ns (get kv "mif"); cfg_max_inflight_bytes = ns (get kv "mib");
        cfg_check_quorum = getb kv "cq"; cfg_pre_vote = getb kv "pv";
        cfg_read_only = (if getb kv "ro" then ReadOnlyLeaseBased else ReadOnlySafe);
        cfg_disable_forwarding = getb kv "dpf"; cfg_disable_cc_validation = getb kv "dcv";
        cfg_step_down_on_removal = getb kv "sdr" }
  | "stop" -> IStop
  | "tick" -> ITick
  | "tickq" -> ITickQuiesced
  | "campaign" -> ICampaign
  | "propose" -> IPropose (bytes_of_hex (get kv "data"))
  | "proposecc" -> IProposeCC (parse_entry (get kv "e"))
  | "applycc" -> IApplyCC (parse_cc (get kv "cc"))
  | "step" -> IStep (parse_msg (get kv "m"))
  | "ready" -> IReady
  | "hasready" -> IHasReady
  | "advance" -> IAdvance
  | "unreach" -> IReportUnreachable (ns (get kv "id"))
  | "snapstatus" -> IReportSnapshot (ns (get kv "id"), getb kv "fail")
  | "transfer" -> ITransferLeader (ns (get kv "id"))
  | "forget" -> IForgetLeader
  | "readindex" -> IReadIndex (bytes_of_hex (get kv "ctx"))
  | "stappend" -> IStAppend (parse_entries (get kv "ents"))
  | "sths" -> IStSetHardState (parse_hs (get kv "hs"))
  | "stsnap" -> (match parse_snapshot (get kv "snap") with Some s -> IStApplySnapshot s | None -> failwith "stsnap _")
  | "stcreate" ->
    let cs = get kv "cs" in
    IStCreateSnapshot (ns (get kv "i"), (if cs = "_" then None else Some (parse_confstate cs)), bytes_of_hex (get kv "data"))
  | "stcompact" -> IStCompact (ns (get kv "i"))
  | k -> failwith ("unknown op kind " ^ k)

(* ---------- replay ---------- *)

let is_storage_kind k = List.mem k [ "stappend"; "sths"; "stsnap"; "stcreate"; "stcompact" ]

let trunc s = if String.length s > 400 then String.sub s 0 400 ^ "..." else s

let nodes : (string, nstate) Hashtbl.t = Hashtbl.create 8
let diverged : (string, unit) Hashtbl.t = Hashtbl.create 8
let kinds : (string, int) Hashtbl.t = Hashtbl.create 32
let cov : (string, int) Hashtbl.t = Hashtbl.create 256
let bump t k = Hashtbl.replace t k (1 + try Hashtbl.find t k with Not_found -> 0)

let run_trace () =
  let sched = ref "" in
  let scheds = ref 0 and ops = ref 0 and keys = ref 0 and mism = ref 0 and mism_ops = ref 0 in
  let pending : (string * string * string * (string * string) list) option ref = ref None in
  (try
     while true do
       let line = input_line stdin in
       if line <> "" then
         match line.[0] with
         | 'S' ->
           incr scheds;
           Hashtbl.reset nodes;
           Hashtbl.reset diverged;
           sched := (match split ' ' line with _ :: id :: _ -> id | _ -> "?")
         | 'I' -> (
           match split ' ' line with
           | _ :: seq :: node :: kind :: rest -> pending := Some (seq, node, kind, kv_of_words rest)
           | _ -> ())
         | 'O' -> (
           match !pending with
           | None -> ()
           | Some (seq, node, kind, kv) ->
             pending := None;
             if not (Hashtbl.mem diverged node) then begin
               incr ops;
               bump kinds kind;
               let okv = kv_of_words (split ' ' line) in
               let st = try Hashtbl.find nodes node with Not_found -> init_node in
               let role = match st.n_rn with None -> "-" | Some rn -> state_letter rn.rn_raft.r_state in
               let draws = (let d = get kv "d" in if d = "" then [] else List.map ns (split ',' d)) in
               let report key mv iv =
                 incr mism;
                 Printf.printf "MISMATCH sched=%s seq=%s node=%s kind=%s key=%s model=%s impl=%s\n" !sched seq node kind key
                   (trunc mv) (trunc iv)
               in
               let impl_res = try List.assoc "res" okv with Not_found -> "?" in
               let mkind =
                 if kind = "step" then (try List.nth (split ':' (get kv "m")) 0 with _ -> "") else ""
               in
               bump cov (Printf.sprintf "%s/%s/%s/%s" kind role mkind
                           (if String.length impl_res >= 5 && String.sub impl_res 0 5 = "panic" then "panic" else impl_res));
               (match (try node_step st (parse_input kind kv) draws with e -> failwith ("model exception: " ^ Printexc.to_string e)) with
                | Panic _site ->
                  if not (String.length impl_res >= 5 && String.sub impl_res 0 5 = "panic") then begin
                    incr mism_ops;
                    report "res" "panic" impl_res;
                    Hashtbl.replace diverged node ()
                  end
                | Ok (st', out) ->
                  Hashtbl.replace nodes node st';
                  let mkv =
                    (match out with
                     | ONone -> [ ("res", "ok") ]
                     | OErr e -> [ ("res", err_s e) ]
                     | OBool b -> [ ("res", "ok"); ("b", b2s b) ]
                     | OReady rd -> ("res", "ok") :: ready_kvs rd
                     | OConfState cs -> [ ("res", "ok"); ("cs", confstate_s cs) ]
                     | OSnapshot (s, e) -> [ ("res", err_s e); ("snap", snap_opt_s s) ]
                     | ONotRunning -> [ ("res", "notrunning") ])
                    @ (match st'.n_rn with
                       | Some rn when kind <> "stop" && not (is_storage_kind kind) ->
                         ("draws", string_of_int (List.length rn.rn_raft.r_draws)) :: state_kvs rn
                       | _ -> [])
                    @ (if is_storage_kind kind || kind = "new" || kind = "stop" then storage_kvs st'.n_st else [])
                  in
                  let bad = ref false in
                  List.iter
                    (fun (k, mv) ->
                       let iv = if k = "draws" then "0" else (try List.assoc k okv with Not_found -> "<absent>") in
                       incr keys;
                       if mv <> iv then begin bad := true; report k mv iv end)
                    mkv;
                  if !bad then begin incr mism_ops; Hashtbl.replace diverged node () end)
             end)
         | _ -> ()
     done
   with End_of_file -> ());
  Hashtbl.iter (fun k v -> Printf.printf "KIND %s %d\n" k v) kinds;
  Hashtbl.iter (fun k v -> Printf.printf "COV %s %d\n" k v) cov;
  Printf.printf "TRACE scheds=%d ops=%d keys=%d mismatching_ops=%d mismatches=%d distinct=%d\n" !scheds !ops !keys !mism_ops
    !mism (Hashtbl.length cov)
