#!/bin/bash
# re-evaluate every seeded change against the current checks (about an hour; patches /repo
# temporarily, so nothing else may use /repo or edit /verif/{harness,lib,coq,ocaml} meanwhile)
cd /verif
for d in seeded/*/; do
  n=$(basename $d)
  echo "== $n"
  python3 tools/seed_eval.py $n - > /tmp/seed_eval_$n.log 2>&1
  python3 - "$n" <<'PY'
import json,sys
m=json.load(open("/verif/seeded/%s/meta.json"%sys.argv[1]))["verification"]
f=m.get("checks_fired",{})
print("   suite:", m.get("suite_with_patch","?")[:40], "| replay:", " ".join(k for k,v in f.items() if v["kind"]!="no-failing-input-found"), "| nfi:", " ".join(k for k,v in f.items() if v["kind"]=="no-failing-input-found"))
PY
done
git -C /repo status --porcelain
