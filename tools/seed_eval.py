#!/usr/bin/env python3
"""Evaluate a seeded change against the checks.

usage: seed_eval.py <name> <srcdir-with-_out> [--checks C01,C02,...]
       seed_eval.py <name> -     re-evaluate /verif/seeded/<name> as it is

1. copy <srcdir>/_out/{patch.diff,seeded_demo_test.go,meta.json} to /verif/seeded/<name>/
2. confirm in a scratch worktree (outside /repo and /verif): the demo passes without the
   patch, fails with it, and the existing suite passes with it
3. apply the patch to /repo, run the quick checks, record which report a violation, undo
"""
import json
import os
import shutil
import subprocess
import sys

ENV = dict(os.environ, GOFLAGS="-mod=mod", GOPROXY="off", GOSUMDB="off", GOTOOLCHAIN="local")


def sh(cmd, cwd=None, timeout=3600):
    p = subprocess.run(cmd, shell=True, cwd=cwd, env=ENV, stdout=subprocess.PIPE, stderr=subprocess.STDOUT, timeout=timeout, executable="/bin/bash")
    return p.returncode, p.stdout.decode("utf-8", "replace")


def main():
    name, src = sys.argv[1], sys.argv[2]
    checks = None
    if "--checks" in sys.argv:
        checks = sys.argv[sys.argv.index("--checks") + 1].split(",")
    out = os.path.join(src, "_out")
    dst = os.path.join("/verif/seeded", name)
    os.makedirs(dst, exist_ok=True)
    for f in ("patch.diff", "seeded_demo_test.go", "meta.json"):
        if src != "-" and os.path.exists(os.path.join(out, f)):
            shutil.copy(os.path.join(out, f), os.path.join(dst, f))
    meta = {}
    try:
        meta = json.load(open(os.path.join(dst, "meta.json")))
    except Exception:
        pass
    # ---- 2. confirm
    wt = "/tmp/seedchk-" + name
    sh("git -C /repo worktree remove --force %s" % wt)
    rc, o = sh("git -C /repo worktree add -q %s HEAD" % wt)
    res = {}
    try:
        shutil.copy(os.path.join(dst, "seeded_demo_test.go"), os.path.join(wt, "seeded_demo_test.go"))
        rc, o = sh("go1.26.8 test -vet=off -count=1 -run TestSeededDemo . 2>&1 | tail -15", cwd=wt)
        res["demo_without_patch"] = "pass" if "ok " in o and "FAIL" not in o else "FAIL: " + o[-600:]
        rc, o = sh("git apply %s" % os.path.join(dst, "patch.diff"), cwd=wt)
        res["patch_applies"] = rc == 0
        rc, o = sh("go1.26.8 test -vet=off -count=1 -run TestSeededDemo . 2>&1 | tail -15", cwd=wt)
        res["demo_with_patch"] = "fails (as required)" if "FAIL" in o else "UNEXPECTED PASS: " + o[-300:]
        res["demo_failure_excerpt"] = o[-700:]
        # rafttest has wall-clock tests (TestBasicProgress, TestPause, TestRestart) that fail now and
        # then on the unmodified tree too when the machine is loaded: a failing run is repeated
        flaky = []
        for attempt in range(4):
            rc, o = sh("go1.26.8 test -vet=off -count=1 -skip TestSeededDemo ./... 2>&1 | grep -E '^(--- FAIL|FAIL|ok|panic)' | tail -12", cwd=wt)
            if "FAIL" not in o and "panic" not in o and o.count("ok ") >= 6:
                break
            flaky.append(" ".join(o.split())[:300])
        ok_suite = "FAIL" not in o and "panic" not in o and o.count("ok ") >= 6
        res["suite_with_patch"] = ("pass" + (" (after %d repeated run(s); earlier: %s)" % (len(flaky), flaky[0]) if flaky else "")) if ok_suite else "FAIL: " + o[-600:]
    finally:
        sh("git -C /repo worktree remove --force %s" % wt)
    if "--confirm-only" in sys.argv:
        old = meta.get("verification", {})
        res["checks_fired"] = old.get("checks_fired", {})
        meta["verification"] = res
        json.dump(meta, open(os.path.join(dst, "meta.json"), "w"), indent=1)
        print(json.dumps({k: v for k, v in res.items() if k != "checks_fired"}, indent=1))
        return 0
    # ---- 3. checks
    rc, o = sh("git -C /repo status --porcelain")
    if o.strip():
        print("refusing: /repo has uncommitted changes:\n" + o)
        return 2
    rc, o = sh("git -C /repo apply %s" % os.path.join(dst, "patch.diff"))
    fired = {}
    try:
        ids = checks or ["C%02d" % i for i in range(1, 21)]
        for pid in ids:
            rc, o = sh("cd /verif && bin/check %s --tier quick" % pid, timeout=3600)
            vl = [l for l in o.splitlines() if l.startswith("VIOLATION")]
            if rc != 0 or vl:
                kind = "no-failing-input-found" if vl and vl[0].endswith("no-failing-input-found") else "violation with replay"
                detail = ""
                try:
                    rp = vl[0].split("replay=")[1].split()[0]
                    b = json.load(open(rp))
                    first = b.get("first") or (b.get("first_mismatches") or [{}])[0]
                    detail = (first.get("what") or ("%s key=%s" % (first.get("kind"), first.get("key"))))[:300]
                except Exception:
                    pass
                fired[pid] = {"kind": kind, "detail": detail}
    finally:
        sh("git -C /repo checkout -- .")
    res["checks_fired"] = fired
    meta["verification"] = res
    json.dump(meta, open(os.path.join(dst, "meta.json"), "w"), indent=1)
    print(json.dumps(res, indent=1))
    return 0


if __name__ == "__main__":
    sys.exit(main())
