#!/usr/bin/env python3
"""Print the markdown table 'which checks catch which seeded changes' from seeded/*/meta.json."""
import glob, json, os
ROOT = os.path.dirname(os.path.dirname(os.path.abspath(__file__)))
rows = []
for f in sorted(glob.glob(os.path.join(ROOT, "seeded", "*", "meta.json"))):
    name = os.path.basename(os.path.dirname(f))
    d = json.load(open(f))
    v = d.get("verification", {})
    cf = v.get("checks_fired", {})
    tgt = d.get("property", name[:3])
    rep = sorted(k for k, x in cf.items() if x["kind"].startswith("violation"))
    nfi = sorted(k for k, x in cf.items() if not x["kind"].startswith("violation"))
    t = cf.get(tgt)
    how = "MISSED" if t is None else ("replay: " + t["detail"][:110] if t["kind"].startswith("violation") else "correspondence (%s), no-failing-input-found" % t["detail"])
    summ = (d.get("summary") or "").replace("\n", " ").replace("|", "/")
    rows.append("| `%s` | %s | %s | %s | %s | %s |" % (name, tgt, summ[:160], how.replace("|", "/"), " ".join(rep) or "-", " ".join(nfi) or "-"))
print("| seeded change | target | what it changes | how the target property's check reports it | checks with a concrete replay | checks with no-failing-input-found |")
print("|---|---|---|---|---|---|")
print("\n".join(rows))
