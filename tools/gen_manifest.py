#!/usr/bin/env python3
"""Regenerate the per-check level/technique fields of MANIFEST.json from lib/proptable.py
(the commands, hooks and engines are kept as they are)."""
import json, os, sys
ROOT = os.path.dirname(os.path.dirname(os.path.abspath(__file__)))
sys.path.insert(0, os.path.join(ROOT, "lib"))
import proptable

path = os.path.join(ROOT, "MANIFEST.json")
m = json.load(open(path))
for c in m["checks"]:
    p = proptable.PROPS[c["property_id"]]
    c["level_claimed"]["category"] = p["level"]
    c["level_claimed"]["text"] = p["explanation"]
    if "technique" in p:
        c["technique"] = p["technique"]
    base = c["level_note"].split(" Assumptions: ")[0]
    c["level_note"] = base + " Assumptions: " + "; ".join(p["assumptions"])
hooks = m["hooks"]
hooks["source_commits"] = [l.split()[0] for l in open(os.path.join(ROOT, "hooks_commits.txt")) if l.strip() and not l.startswith("#")]
json.dump(m, open(path, "w"), indent=1)
print("MANIFEST.json regenerated for", len(m["checks"]), "checks")
