#!/usr/bin/env python3
# Emit "set_<field>" definitions for a Coq record: usage gen_setters.py Ctor rec f1 f2 ...
import sys
ctor, rec, fields = sys.argv[1], sys.argv[2], sys.argv[3:]
for f in fields:
    args = " ".join("x" if g == f else "(%s r)" % g for g in fields)
    print("Definition set_%s (r : %s) x : %s := %s %s." % (f, rec, rec, ctor, args))
