(* NodeProps.v: lifts the per-function results (RaftMono, RaftRouting) to the RawNode API and
   to arbitrary input sequences of one node (node_step), including restart from storage. *)
From Coq Require Import List NArith Bool Lia.
From RaftV Require Import Base Types Quorum Progress Tracker Storage Log Raft RawNode Tactics
     RaftMono RaftRouting.
Import ListNotations.
Open Scope N_scope.

Definition nl (m : message) : Prop := from_leader (m_type m) = false.

Lemma promise_nl m : is_promise m -> nl m.
Proof. unfold is_promise, nl, promise_type, from_leader. destruct (m_type m); congruence. Qed.

Lemma nl_wf m : nl m -> wf_msg m.
Proof. unfold nl, wf_msg. congruence. Qed.

(* invariant of a RawNode: everything queued for local stepping is not a leader message *)
Definition inv_rn (rn : rawnode) : Prop :=
  Forall nl (rn_steps_on_advance rn) /\ Forall is_promise (r_msgs_after_append (rn_raft rn)).

Lemma ext_maa r r' : ext r r' -> Forall is_promise (r_msgs_after_append r) -> Forall is_promise (r_msgs_after_append r').
Proof.
  intros (_ & _ & (l & E & F)) H. rewrite E. apply Forall_app. split; assumption.
Qed.

Section WithStorage.
Variable st : memstorage.

Lemma storage_append_resp_nl r snap m : storage_append_resp st r snap = Ok m -> nl m.
Proof. unfold storage_append_resp. intros H. inv_ok; reflexivity. Qed.

Lemma filter_to_self_nl id l : Forall is_promise l -> Forall nl (filter (fun m => N.eqb (m_to m) id) l).
Proof.
  intros H. apply Forall_forall. intros x Hx. apply filter_In in Hx. destruct Hx as [Hx _].
  apply promise_nl. rewrite Forall_forall in H. apply H. exact Hx.
Qed.

Lemma accept_ready_props rn rd rn' :
  inv_rn rn -> accept_ready st rn rd = Ok rn' ->
  inv_rn rn' /\ same_hs (rn_raft rn) (rn_raft rn').
Proof.
  unfold accept_ready, inv_rn. intros [IS IM] H. cbv zeta in H.
  set (r1 := match rd_read_states rd with [] => rn_raft rn | _ :: _ => set_r_read_states (rn_raft rn) [] end) in *.
  assert (M1 : r_msgs_after_append r1 = r_msgs_after_append (rn_raft rn)) by (subst r1; destruct (rd_read_states rd); reflexivity).
  assert (S1 : same_hs (rn_raft rn) r1) by (subst r1; destruct (rd_read_states rd); unfold same_hs; cbn; auto).
  match type of H with bind ?x _ = _ => destruct x as [steps|] eqn:ES; cbn [bind] in H; [|discriminate] end.
  assert (NS : Forall nl steps).
  { destruct (rn_async rn); [inversion ES; subst; exact IS|].
    destruct (rn_steps_on_advance rn); [|discriminate].
    match type of ES with bind ?x _ = _ => destruct x as [s2|] eqn:E2; cbn [bind] in ES; [|discriminate] end.
    inversion ES; subst; clear ES.
    apply Forall_app; split; [apply filter_to_self_nl; rewrite M1; exact IM|].
    apply Forall_app; split.
    - destruct (need_storage_append_resp r1 (rd_snapshot rd)).
      + match type of E2 with bind ?x _ = _ => destruct x as [m|] eqn:E3; cbn [bind] in E2; [|discriminate] end.
        inversion E2; subst. constructor; [|constructor]. eapply storage_append_resp_nl; eassumption.
      + inversion E2; constructor.
    - destruct (rd_committed rd); repeat constructor. }
  match type of H with bind ?x _ = _ => destruct x as [r2|] eqn:ER; cbn [bind] in H; [|discriminate] end.
  inversion H; subst; clear H. cbn.
  assert (X : r_msgs_after_append r2 = [] /\ same_hs r1 r2).
  { destruct (last_opt (rd_committed rd)).
    - match type of ER with bind ?x _ = _ => destruct x as [l|] eqn:EL; cbn [bind] in ER; [|discriminate] end.
      inversion ER; subst. apply l_accept_applying_committed in EL. cbn in EL.
      split; [reflexivity|]. unfold same_hs; cbn. rewrite EL. auto.
    - inversion ER; subst. split; [reflexivity|]. unfold same_hs; cbn. auto. }
  destruct X as [X1 X2]. split; [split; [exact NS|rewrite X1; constructor]|].
  eapply same_hs_trans; eassumption.
Qed.

Lemma step_all_props ms : forall r r',
  Forall nl ms -> step_all st r ms = Ok r' -> mono r r' /\ ext r r'.
Proof.
  induction ms as [|m ms IH]; intros r r' F H; cbn in H.
  - inversion H; subst. split; [apply mono_refl|apply ext_refl].
  - inversion F as [|? ? Fm Fms]; subst.
    destruct (step st r m) as [[r1 e1]|] eqn:ES; cbn [bind] in H; [|discriminate]. cbn [fst] in H.
    destruct (IH _ _ Fms H) as [M X].
    split.
    + eapply mono_trans; [eapply step_mono; [apply nl_wf; exact Fm|exact ES]|exact M].
    + eapply ext_trans; [eapply step_ext; exact ES|exact X].
Qed.

Lemma rn_advance_props rn rn' :
  inv_rn rn -> rn_advance st rn = Ok rn' ->
  inv_rn rn' /\ mono (rn_raft rn) (rn_raft rn').
Proof.
  unfold rn_advance, inv_rn. intros [IS IM] H.
  destruct (rn_async rn); [discriminate|].
  destruct (step_all st (rn_raft rn) (rn_steps_on_advance rn)) as [r|] eqn:E; cbn [bind] in H; [|discriminate].
  inversion H; subst; clear H. cbn. destruct (step_all_props _ _ _ IS E) as [M X].
  split; [split; [constructor|eapply ext_maa; eassumption]|exact M].
Qed.

(* any call that is a raft.Step with a well-formed message *)
Lemma raft_step_props rn m rn' e :
  inv_rn rn -> wf_msg m -> rn_raft_step st rn m = Ok (rn', e) ->
  inv_rn rn' /\ mono (rn_raft rn) (rn_raft rn').
Proof.
  unfold rn_raft_step, inv_rn. intros [IS IM] W H.
  destruct (step st (rn_raft rn) m) as [[r e1]|] eqn:E; cbn [bind] in H; [|discriminate].
  inversion H; subst; clear H. cbn.
  split; [split; [exact IS|eapply ext_maa; [eapply step_ext; exact E|exact IM]]|eapply step_mono; eassumption].
Qed.

Lemma rn_step_props rn m rn' e :
  inv_rn rn -> wf_msg m -> rn_step st rn m = Ok (rn', e) ->
  inv_rn rn' /\ mono (rn_raft rn) (rn_raft rn').
Proof.
  unfold rn_step. intros I W H.
  destruct (_ && _); [inversion H; subst; split; [exact I|apply mono_refl]|].
  destruct (_ && _); [inversion H; subst; split; [exact I|apply mono_refl]|].
  eapply raft_step_props; eassumption.
Qed.

Lemma rn_tick_props rn rn' :
  inv_rn rn -> rn_tick st rn = Ok rn' -> inv_rn rn' /\ mono (rn_raft rn) (rn_raft rn').
Proof.
  unfold rn_tick, inv_rn. intros [IS IM] H.
  destruct (tick st (rn_raft rn)) as [r|] eqn:E; cbn [bind] in H; [|discriminate].
  inversion H; subst; clear H. cbn.
  split; [split; [exact IS|eapply ext_maa; [eapply tick_ext; exact E|exact IM]]|eapply tick_mono; exact E].
Qed.

Lemma rn_apply_conf_change_props rn cc rn' cs :
  inv_rn rn -> rn_apply_conf_change st rn cc = Ok (rn', cs) ->
  inv_rn rn' /\ mono (rn_raft rn) (rn_raft rn').
Proof.
  unfold rn_apply_conf_change, inv_rn. intros [IS IM] H.
  destruct (apply_conf_change_raft st (rn_raft rn) cc) as [[r c]|] eqn:E; cbn [bind] in H; [|discriminate].
  inversion H; subst; clear H. cbn.
  split; [split; [exact IS|eapply ext_maa; [eapply apply_conf_change_raft_ext; exact E|exact IM]]
         |eapply apply_conf_change_raft_mono; exact E].
Qed.

Lemma rn_ready_props rn rn' rd :
  inv_rn rn -> rn_ready st rn = Ok (rn', rd) ->
  inv_rn rn' /\ same_hs (rn_raft rn) (rn_raft rn') /\
  (forall h, rd_hard rd = Some h -> h = hard_state (rn_raft rn)).
Proof.
  unfold rn_ready. intros I H.
  destruct (ready_without_accept st rn) as [rd0|] eqn:E; cbn [bind] in H; [|discriminate].
  destruct (accept_ready st rn rd0) as [rn0|] eqn:EA; cbn [bind] in H; [|discriminate].
  inversion H; subst; clear H.
  destruct (accept_ready_props _ _ _ I EA) as [I' S]. split; [exact I'|]. split; [exact S|].
  intros h Hh. unfold ready_without_accept in E. cbv zeta in E.
  destruct (l_next_committed_ents st (r_log (rn_raft rn)) (negb (rn_async rn))); cbn [bind] in E; [|discriminate].
  destruct (rn_async rn).
  - match type of E with bind ?x _ = _ => destruct x; cbn [bind] in E; [|discriminate] end.
    inversion E; subst; clear E. cbn in Hh. destruct (hs_eqb _ _); [discriminate|]. inversion Hh. reflexivity.
  - inversion E; subst; clear E. cbn in Hh. destruct (hs_eqb _ _); [discriminate|]. inversion Hh. reflexivity.
Qed.

End WithStorage.

(* ---------- node_step ---------- *)

Definition wf_input (i : ninput) : Prop :=
  match i with IStep m => wf_msg m | _ => True end.

(* inputs that keep the incarnation: everything but start and stop *)
Definition same_incarnation (i : ninput) : bool :=
  match i with INew _ | IStop => false | _ => true end.

Definition node_hs (n : nstate) : option hardstate :=
  match n_rn n with Some rn => Some (hard_state (rn_raft rn)) | None => None end.

Definition inv_node (n : nstate) : Prop :=
  match n_rn n with Some rn => inv_rn rn | None => True end.

Lemma with_draws_inv rn d : inv_rn rn -> inv_rn (with_draws rn d).
Proof. unfold inv_rn, with_draws. cbn. auto. Qed.
Lemma with_draws_hs rn d : hard_state (rn_raft (with_draws rn d)) = hard_state (rn_raft rn).
Proof. reflexivity. Qed.

Theorem node_step_mono n i d n' out rn :
  n_rn n = Some rn -> inv_rn rn -> same_incarnation i = true -> wf_input i ->
  node_step n i d = Ok (n', out) ->
  exists rn', n_rn n' = Some rn' /\ inv_rn rn' /\
              hs_le (hard_state (rn_raft rn)) (hard_state (rn_raft rn')).
Proof.
  intros Hrn I SI W H. unfold node_step in H. rewrite Hrn in H.
  pose proof (with_draws_inv rn d I) as I0.
  set (rn0 := with_draws rn d) in *.
  assert (HS0 : hard_state (rn_raft rn0) = hard_state (rn_raft rn)) by reflexivity.
  destruct i; try discriminate SI; cbn [wf_input] in W.
  all: try (match type of H with bind ?x _ = _ => destruct x as [y|] eqn:E; cbn [bind] in H; [|discriminate] end).
  all: try (match type of y with (_ * _)%type => destruct y as [y1 y2] end).
  all: try (match type of y with ((_ * _) * _)%type => destruct y as [[y1 y2] y3] end).
  all: try (match type of H with (let '(_, _) := ?x in _) = _ => destruct x end).
  all: inversion H; subst; clear H; cbn [n_rn fst snd].
  all: try (unfold rn_campaign, rn_propose, rn_propose_cc, rn_report_unreachable, rn_report_snapshot,
            rn_transfer_leader, rn_forget_leader, rn_read_index in E).
  all: first
    [ (* storage writes leave the RawNode alone *)
      solve [eexists; split; [eassumption|]; split; [exact I|apply hs_le_refl]]
    | destruct (rn_tick_props _ _ _ I0 E) as [I' M];
      eexists; split; [reflexivity|]; split; [exact I'|]; rewrite <- HS0; exact M
    | inversion E; subst; eexists; split; [reflexivity|]; split; [apply I0|]; rewrite <- HS0; apply hs_le_refl
    | match type of E with rn_raft_step _ _ ?m = _ =>
        assert (Wm : wf_msg m) by (apply nl_wf; reflexivity);
        destruct (raft_step_props _ _ _ _ _ I0 Wm E) as [I' M] end;
      eexists; split; [reflexivity|]; split; [exact I'|]; rewrite <- HS0; exact M
    | destruct (rn_apply_conf_change_props _ _ _ _ _ I0 E) as [I' M];
      eexists; split; [reflexivity|]; split; [exact I'|]; rewrite <- HS0; exact M
    | destruct (rn_step_props _ _ _ _ _ I0 W E) as [I' M];
      eexists; split; [reflexivity|]; split; [exact I'|]; rewrite <- HS0; exact M
    | destruct (rn_ready_props _ _ _ _ I0 E) as [I' [S _]];
      eexists; split; [reflexivity|]; split; [exact I'|]; rewrite <- HS0; apply same_hs_mono; exact S
    | eexists; split; [reflexivity|]; split; [apply I0|]; rewrite <- HS0; apply hs_le_refl
    | destruct (rn_advance_props _ _ _ I0 E) as [I' M];
      eexists; split; [reflexivity|]; split; [exact I'|]; rewrite <- HS0; exact M
    ].
Qed.

(* every node-local history within one incarnation *)
Theorem node_run_mono ins : forall n n' rn,
  n_rn n = Some rn -> inv_rn rn ->
  Forall (fun id => same_incarnation (fst id) = true /\ wf_input (fst id)) ins ->
  node_run n ins = Ok n' ->
  exists rn', n_rn n' = Some rn' /\ inv_rn rn' /\
              hs_le (hard_state (rn_raft rn)) (hard_state (rn_raft rn')).
Proof.
  induction ins as [|[i d] ins IH]; intros n n' rn Hrn I F H; cbn in H.
  - inversion H; subst. exists rn. split; [exact Hrn|]. split; [exact I|apply hs_le_refl].
  - inversion F as [|? ? [SI W] F']; subst. cbn in SI, W.
    destruct (node_step n i d) as [[n1 o1]|] eqn:E; cbn [bind] in H; [|discriminate]. cbn [fst] in H.
    destruct (node_step_mono _ _ _ _ _ _ Hrn I SI W E) as (rn1 & H1 & I1 & L1).
    destruct (IH _ _ _ H1 I1 F' H) as (rn2 & H2 & I2 & L2).
    exists rn2. split; [exact H2|]. split; [exact I2|]. eapply hs_le_trans; eassumption.
Qed.

(* ---------- restart ---------- *)

Lemma switch_to_config_follower st r cfg pm r' cs :
  r_state r = StateFollower -> switch_to_config st r cfg pm = Ok (r', cs) ->
  same_hs r r' /\ r_state r' = StateFollower /\ r_msgs_after_append r' = r_msgs_after_append r.
Proof.
  unfold switch_to_config. intros S H. cbv zeta in H. cbn [r_state set_r_is_learner set_r_trk] in H.
  rewrite S in H. cbn in H. rewrite andb_false_r in H. cbn in H.
  inversion H; subst. repeat split; cbn; auto.
Qed.

Lemma load_state_hs st r h r' :
  load_state st r h = Ok r' ->
  hard_state r' = h /\ r_state r' = r_state r /\ r_msgs_after_append r' = r_msgs_after_append r.
Proof.
  unfold load_state. intros H. destruct (_ || _); [discriminate|]. inversion H; subst.
  unfold hard_state; cbn. destruct h; auto.
Qed.

(* A new incarnation starts from exactly the hard state found in storage (and from term 0,
   no vote, commit = the storage's compaction point, when storage has none). *)
Theorem new_rawnode_hs st c d rn :
  new_rawnode st c d = Ok rn ->
  inv_rn rn /\
  match ms_hardstate st with
  | Some h => if is_empty_hs h
              then hard_state (rn_raft rn) = mkHS 0 0 (ms_first_index st - 1)
              else hard_state (rn_raft rn) = h
  | None => hard_state (rn_raft rn) = mkHS 0 0 (ms_first_index st - 1)
  end.
Proof.
  unfold new_rawnode, new_raft. intros H.
  destruct (validate c) as [[[mu mc] mb]|]; [|discriminate]. cbv zeta in H.
  destruct (ms_initial_state st) as [hs cs] eqn:EI. unfold ms_initial_state in EI. inversion EI; subst; clear EI.
  match type of H with bind (bind ?x _) _ = _ => destruct x as [[lt li]|] eqn:EL; cbn [bind] in H; [|discriminate] end.
  destruct (cc_restore _ _ _) as [[cfg pm]|]; [|discriminate].
  match type of H with bind (bind ?x _) _ = _ => destruct x as [[r1 cs1]|] eqn:ES; cbn [bind] in H; [|discriminate] end.
  destruct (negb (confstate_equiv _ _)); [discriminate|]. cbn [fst] in H.
  apply switch_to_config_follower in ES; [|reflexivity]. destruct ES as (S1 & F1 & A1). cbn in A1.
  match type of H with bind (bind ?x _) _ = _ => destruct x as [r2|] eqn:E2; cbn [bind] in H; [|discriminate] end.
  match type of H with bind (bind ?x _) _ = _ => destruct x as [r3|] eqn:E3; cbn [bind] in H; [|discriminate] end.
  match type of H with bind ?x _ = _ => destruct x as [r4|] eqn:E4; cbn [bind] in H; [|discriminate] end.
  inversion H; subst; clear H. unfold inv_rn. cbn.
  (* r3: applied set, hard state as r2 *)
  assert (H3 : hard_state r3 = hard_state r2 /\ r_msgs_after_append r3 = r_msgs_after_append r2).
  { destruct (0 <? cfg_applied c).
    - destruct (l_applied_to _ _ _) eqn:EA; cbn [bind] in E3; [|discriminate]. inversion E3; subst.
      apply l_applied_to_committed in EA. unfold hard_state; cbn. rewrite EA. auto.
    - inversion E3; subst. auto. }
  destruct H3 as [H3 A3].
  pose proof (become_follower_ext _ _ _ _ _ E4) as X4.
  assert (Hle : r_term r3 <= r_term r3) by lia.
  destruct (become_follower_mono _ _ _ _ _ Hle E4) as (_ & T4 & V4 & C4).
  assert (H4 : hard_state r4 = hard_state r3).
  { unfold hard_state. rewrite T4, (V4 eq_refl), C4. reflexivity. }
  assert (M0 : r_msgs_after_append r1 = []) by (rewrite A1; reflexivity).
  assert (HS1 : hard_state r1 = mkHS 0 0 (ms_first_index st - 1)).
  { destruct S1 as (T & Vv & C). cbn in T, Vv, C. unfold hard_state. rewrite T, Vv, C. reflexivity. }
  split.
  - split; [constructor|]. eapply ext_maa; [exact X4|]. rewrite A3.
    destruct (ms_hardstate st) as [h|].
    + destruct (is_empty_hs h); [inversion E2; subst; rewrite M0; constructor|].
      apply load_state_hs in E2. destruct E2 as (_ & _ & A2). rewrite A2, M0. constructor.
    + inversion E2; subst. rewrite M0. constructor.
  - rewrite H4, H3. destruct (ms_hardstate st) as [h|].
    + destruct (is_empty_hs h); [inversion E2; subst; exact HS1|].
      apply load_state_hs in E2. apply E2.
    + inversion E2; subst. exact HS1.
Qed.
