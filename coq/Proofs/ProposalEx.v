(* ProposalEx.v: a concrete leader (the one of StreamEx.v, after its empty entry is committed) that
   meets the hypotheses of the proposal theorems: its log is well formed and a proposal with payload
   [7] extends its logical log by exactly one entry (term 1, index 3, payload [7]). *)
From Coq Require Import List NArith Bool Lia.
From RaftV Require Import Base Types Quorum Progress Tracker Storage Log Raft RawNode Tactics
     LogProofs AppendRefine ProposalProofs StreamEx.
Import ListNotations.
Open Scope N_scope.

Definition px_st : memstorage := Eval vm_compute in match n4 with Ok n => n_st n | _ => new_memstorage end.
Definition px_r : option raft :=
  Eval vm_compute in match n4 with Ok n => match n_rn n with Some rn => Some (rn_raft rn) | None => None end | _ => None end.
Definition px_m : message :=
  set_entries (set_from (msg0 MsgProp) 1) [mkEntry 0 0 EntryNormal false [7] true false].

Example proposal_nonvacuous :
  exists st r m r' e,
    m_type m = MsgProp /\ m_term m = 0 /\ l_wf st (r_log r) /\ r_state r = StateLeader /\
    step st r m = Ok (r', e) /\ e = ENone /\
    lview st (r_log r') =
      extended (lview st (r_log r)) [mkEntry 1 3 EntryNormal false [7] true false].
Proof.
  destruct px_r as [r|] eqn:ER; [|discriminate ER]. unfold px_r in ER. inversion ER as [ER']. clear ER.
  destruct (step px_st r px_m) as [[r' e]|] eqn:ES; [|rewrite <- ER' in ES; vm_compute in ES; discriminate ES].
  exists px_st, r, px_m, r', e.
  split; [reflexivity|]. split; [reflexivity|].
  split.
  { rewrite <- ER'. unfold l_wf, ms_wf, a_wf, u_wf. cbn. repeat split; try lia; try (intros _; reflexivity). }
  split; [rewrite <- ER'; reflexivity|].
  split; [exact ES|].
  rewrite <- ER' in ES. vm_compute in ES. inversion ES; subst r' e. split; [reflexivity|].
  rewrite <- ER'. vm_compute. reflexivity.
Qed.
