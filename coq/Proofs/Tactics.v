(* Tactics.v: proof automation shared by the proofs over the node model. *)
From Coq Require Import List NArith Bool Lia.
From RaftV Require Import Base Types.

(* break an equation "monadic program = Ok x" into its successful branches *)
Ltac inv_ok_step :=
  match goal with
  | H : Ok _ = Ok _ |- _ => inversion H; subst; clear H
  | H : Panic _ = Ok _ |- _ => discriminate H
  | H : inl _ = inl _ |- _ => inversion H; subst; clear H
  | H : inr _ = inl _ |- _ => discriminate H
  | H : inl _ = inr _ |- _ => discriminate H
  | H : Some _ = Some _ |- _ => inversion H; subst; clear H
  | H : None = Some _ |- _ => discriminate H
  | H : Some _ = None |- _ => discriminate H
  | H : (_, _) = (_, _) |- _ => inversion H; subst; clear H
  | H : bind ?x _ = Ok _ |- _ =>
      let E := fresh "E" in destruct x eqn:E; cbn [bind] in H; [|discriminate H]
  | H : (let '(_, _) := ?x in _) = _ |- _ =>
      let E := fresh "E" in destruct x eqn:E
  | H : (if ?c then _ else _) = _ |- _ =>
      let E := fresh "E" in destruct c eqn:E
  | H : (match ?x with _ => _ end) = _ |- _ =>
      let E := fresh "E" in destruct x eqn:E
  end.

Ltac inv_ok := repeat inv_ok_step.

(* boolean facts to Prop *)
Ltac bool_to_prop :=
  repeat match goal with
  | H : (_ && _) = true |- _ => apply andb_true_iff in H; destruct H
  | H : (_ || _) = false |- _ => apply orb_false_iff in H; destruct H
  | H : (_ || _) = true |- _ => apply orb_true_iff in H; destruct H
  | H : (_ && _) = false |- _ => apply andb_false_iff in H; destruct H
  | H : negb _ = true |- _ => apply negb_true_iff in H
  | H : negb _ = false |- _ => apply negb_false_iff in H
  | H : N.eqb _ _ = true |- _ => apply N.eqb_eq in H
  | H : N.eqb _ _ = false |- _ => apply N.eqb_neq in H
  | H : N.ltb _ _ = true |- _ => apply N.ltb_lt in H
  | H : N.ltb _ _ = false |- _ => apply N.ltb_ge in H
  | H : N.leb _ _ = true |- _ => apply N.leb_le in H
  | H : N.leb _ _ = false |- _ => apply N.leb_gt in H
  end.
