(* RaftMono.v: the hard state of a node (term, vote, commit) only moves forward under every
   function of the node model, for every input.  Basis of C07 and of the local halves of
   C02 (one vote per term) and C06/C09 (commit never decreases). *)
From Coq Require Import List NArith Bool Lia.
From RaftV Require Import Base Types Quorum Progress Tracker Storage Log Raft RawNode Tactics.
Import ListNotations.
Open Scope N_scope.

Definition hs_le (a b : hardstate) : Prop :=
  hs_term a <= hs_term b /\ hs_commit a <= hs_commit b /\
  (hs_term a = hs_term b -> hs_vote a = 0 \/ hs_vote b = hs_vote a).

Lemma hs_le_refl a : hs_le a a.
Proof. unfold hs_le. repeat split; lia. Qed.

Lemma hs_le_trans a b c : hs_le a b -> hs_le b c -> hs_le a c.
Proof.
  unfold hs_le. intros (T1 & C1 & V1) (T2 & C2 & V2). repeat split; lia.
Qed.

Definition mono (r r' : raft) : Prop := hs_le (hard_state r) (hard_state r').

Lemma mono_refl r : mono r r.
Proof. apply hs_le_refl. Qed.
Lemma mono_trans a b c : mono a b -> mono b c -> mono a c.
Proof. apply hs_le_trans. Qed.

(* the three components are untouched *)
Definition same_hs (r r' : raft) : Prop :=
  r_term r' = r_term r /\ r_vote r' = r_vote r /\ l_committed (r_log r') = l_committed (r_log r).

Lemma same_hs_refl r : same_hs r r.
Proof. unfold same_hs; auto. Qed.
Lemma same_hs_trans a b c : same_hs a b -> same_hs b c -> same_hs a c.
Proof. unfold same_hs. intuition congruence. Qed.
Lemma same_hs_mono r r' : same_hs r r' -> mono r r'.
Proof.
  unfold same_hs, mono, hs_le, hard_state. cbn. intros (T & Vv & C). rewrite T, Vv, C.
  repeat split; lia.
Qed.

Ltac same_hs_done := unfold same_hs; cbn; repeat split; congruence || reflexivity.

Lemma send_same r m r' : send r m = Ok r' -> same_hs r r'.
Proof. unfold send. intros H. inv_ok; same_hs_done. Qed.

Lemma put_progress_same r id p : same_hs r (put_progress r id p).
Proof. same_hs_done. Qed.

Section WithStorage.
Variable st : memstorage.

Lemma maybe_send_snapshot_same r to pr r' b :
  maybe_send_snapshot st r to pr = Ok (r', b) -> same_hs r r'.
Proof.
  unfold maybe_send_snapshot. intros H. inv_ok; try apply same_hs_refl.
  apply send_same in E1. eapply same_hs_trans; [|exact E1]. apply put_progress_same.
Qed.

Lemma maybe_send_append_same r to sie r' b :
  maybe_send_append st r to sie = Ok (r', b) -> same_hs r r'.
Proof.
  unfold maybe_send_append. intros H. inv_ok; try apply same_hs_refl;
    try (eapply maybe_send_snapshot_same; eassumption).
  all: match goal with
       | S : send _ _ = Ok _ |- _ => apply send_same in S;
           eapply same_hs_trans; [exact S|apply put_progress_same]
       end.
Qed.

Lemma send_append_same r to r' : send_append st r to = Ok r' -> same_hs r r'.
Proof.
  unfold send_append. intros H. inv_ok.
  match goal with E : maybe_send_append _ _ _ _ = Ok ?x |- _ => destruct x; cbn end.
  eapply maybe_send_append_same; eassumption.
Qed.

Lemma send_heartbeat_same r to ctx r' : send_heartbeat r to ctx = Ok r' -> same_hs r r'.
Proof.
  unfold send_heartbeat. intros H. inv_ok. apply send_same in E0.
  eapply same_hs_trans; [exact E0|apply put_progress_same].
Qed.

Lemma visit_others_same (f : raft -> N -> res raft) :
  (forall r id r', f r id = Ok r' -> same_hs r r') ->
  forall ids r r', r_id r = r_id r -> visit_others f r ids = Ok r' -> same_hs r r'.
Proof.
  intros Hf ids. induction ids as [|id ids IH]; intros r r' _ H; cbn in H.
  - inv_ok. apply same_hs_refl.
  - destruct (N.eqb id (r_id r)); [apply IH; auto|].
    inv_ok. eapply same_hs_trans; [eapply Hf; eassumption|apply IH; auto].
Qed.

Lemma bcast_append_same r r' : bcast_append st r = Ok r' -> same_hs r r'.
Proof.
  unfold bcast_append. apply visit_others_same; [|reflexivity].
  intros; eapply send_append_same; eassumption.
Qed.

Lemma bcast_heartbeat_same r r' : bcast_heartbeat r = Ok r' -> same_hs r r'.
Proof.
  unfold bcast_heartbeat, bcast_heartbeat_with_ctx. apply visit_others_same; [|reflexivity].
  intros; eapply send_heartbeat_same; eassumption.
Qed.

(* ---------- the log: commit only grows ---------- *)

Lemma l_commit_to_ge l c l' : l_commit_to st l c = Ok l' -> l_committed l <= l_committed l'.
Proof. unfold l_commit_to. intros H. inv_ok; cbn; bool_to_prop; lia. Qed.

Lemma l_append_committed l es l' : l_append st l es = Ok l' -> l_committed l' = l_committed l.
Proof. unfold l_append. intros H. inv_ok; reflexivity. Qed.

Ltac fwd_log :=
  repeat match goal with
  | H : l_commit_to _ _ _ = Ok _ |- _ => apply l_commit_to_ge in H
  | H : l_append _ _ _ = Ok _ |- _ => apply l_append_committed in H
  end.

Lemma l_maybe_append_ge l pi pt es c l' o :
  l_maybe_append st l pi pt es c = Ok (l', o) -> l_committed l <= l_committed l'.
Proof. unfold l_maybe_append. intros H. inv_ok; fwd_log; lia. Qed.

Lemma l_maybe_commit_ge l t i l' b :
  l_maybe_commit st l t i = Ok (l', b) -> l_committed l <= l_committed l'.
Proof. unfold l_maybe_commit. intros H. inv_ok; fwd_log; lia. Qed.

Lemma l_applied_to_committed l i s l' : l_applied_to l i s = Ok l' -> l_committed l' = l_committed l.
Proof. unfold l_applied_to. intros H. inv_ok. reflexivity. Qed.

Lemma l_accept_applying_committed l i s a l' :
  l_accept_applying l i s a = Ok l' -> l_committed l' = l_committed l.
Proof. unfold l_accept_applying. intros H. inv_ok. reflexivity. Qed.

(* ---------- raft functions ---------- *)

(* same term and vote, commit may grow *)
Definition commit_up (r r' : raft) : Prop :=
  r_term r' = r_term r /\ r_vote r' = r_vote r /\ l_committed (r_log r) <= l_committed (r_log r').

Lemma commit_up_mono r r' : commit_up r r' -> mono r r'.
Proof.
  unfold commit_up, mono, hs_le, hard_state. cbn. intros (T & Vv & C). rewrite T, Vv.
  repeat split; lia.
Qed.
Lemma same_commit_up r r' : same_hs r r' -> commit_up r r'.
Proof. unfold same_hs, commit_up. intros (T & Vv & C). rewrite C. repeat split; auto; lia. Qed.
Lemma commit_up_trans a b c : commit_up a b -> commit_up b c -> commit_up a c.
Proof. unfold commit_up. intros (T1 & V1 & C1) (T2 & V2 & C2). repeat split; try congruence; lia. Qed.
Lemma commit_up_refl a : commit_up a a.
Proof. apply same_commit_up, same_hs_refl. Qed.

(* turn every successful call in the context into its summary *)
Ltac fwd :=
  repeat match goal with
  | H : send _ _ = Ok _ |- _ => apply send_same in H
  | H : maybe_send_snapshot _ _ _ _ = Ok _ |- _ => apply maybe_send_snapshot_same in H
  | H : maybe_send_append _ _ _ _ = Ok (_, _) |- _ => apply maybe_send_append_same in H
  | H : maybe_send_append _ _ _ _ = Ok ?p |- _ => destruct p
  | H : send_append _ _ _ = Ok _ |- _ => apply send_append_same in H
  | H : send_heartbeat _ _ _ = Ok _ |- _ => apply send_heartbeat_same in H
  | H : bcast_append _ _ = Ok _ |- _ => apply bcast_append_same in H
  | H : bcast_heartbeat _ = Ok _ |- _ => apply bcast_heartbeat_same in H
  | H : l_commit_to _ _ _ = Ok _ |- _ => apply l_commit_to_ge in H
  | H : l_append _ _ _ = Ok _ |- _ => apply l_append_committed in H
  | H : l_maybe_append _ _ _ _ _ _ = Ok (_, _) |- _ => apply l_maybe_append_ge in H
  | H : l_maybe_commit _ _ _ _ = Ok (_, _) |- _ => apply l_maybe_commit_ge in H
  | H : l_maybe_commit _ _ _ _ = Ok ?p |- _ => destruct p
  | H : l_applied_to _ _ _ = Ok _ |- _ => apply l_applied_to_committed in H
  | H : l_accept_applying _ _ _ _ = Ok _ |- _ => apply l_accept_applying_committed in H
  end.

(* close goals about term / vote / commit from the summaries *)
Ltac hs_solve :=
  unfold mono, commit_up, same_hs, hs_le, hard_state in *; cbn in *;
  repeat match goal with H : _ /\ _ |- _ => destruct H end;
  repeat match goal with H : r_term _ = _ |- _ => rewrite H in * end;
  repeat match goal with H : r_vote _ = _ |- _ => rewrite H in * end;
  repeat match goal with H : l_committed _ = _ |- _ => rewrite H in * end;
  cbn in *; repeat split; try congruence; try lia.

Lemma maybe_commit_up r r' b : maybe_commit st r = Ok (r', b) -> commit_up r r'.
Proof. unfold maybe_commit. intros H. inv_ok. fwd. cbn. hs_solve. Qed.

Lemma reset_randomized_same r r' : reset_randomized r = Ok r' -> same_hs r r'.
Proof. unfold reset_randomized. intros H. inv_ok. same_hs_done. Qed.

(* reset to a term that is not lower *)
Lemma reset_mono r term r' :
  r_term r <= term -> reset st r term = Ok r' ->
  mono r r' /\ r_term r' = term /\ l_committed (r_log r') = l_committed (r_log r) /\
  (r_term r = term -> r_vote r' = r_vote r).
Proof.
  unfold reset. intros Hle H. destruct (negb (N.eqb (r_term r) term)) eqn:ET; inv_ok;
  match goal with E : reset_randomized _ = Ok _ |- _ => apply reset_randomized_same in E end;
  bool_to_prop; hs_solve.
Qed.

Lemma increase_uncommitted_same r es r' b : increase_uncommitted_size r es = (r', b) -> same_hs r r'.
Proof. unfold increase_uncommitted_size. intros H. inv_ok; same_hs_done. Qed.

Lemma reduce_uncommitted_same r s : same_hs r (reduce_uncommitted_size r s).
Proof. unfold reduce_uncommitted_size. destruct (_ <? _); same_hs_done. Qed.

Lemma append_entry_same r es r' b : append_entry st r es = Ok (r', b) -> same_hs r r'.
Proof.
  unfold append_entry. intros H.
  destruct (increase_uncommitted_size r (stamp (r_term r) (last_index st r + 1) es)) as [r1 ok] eqn:EI.
  apply increase_uncommitted_same in EI. inv_ok; fwd; hs_solve.
Qed.

Lemma become_follower_mono r term lead r' :
  r_term r <= term -> become_follower st r term lead = Ok r' ->
  mono r r' /\ r_term r' = term /\ (r_term r = term -> r_vote r' = r_vote r) /\
  l_committed (r_log r') = l_committed (r_log r).
Proof.
  unfold become_follower. intros Hle H. inv_ok.
  match goal with E : reset _ _ _ = Ok _ |- _ => destruct (reset_mono _ _ _ Hle E) as (M & T & C & Vv) end.
  hs_solve.
Qed.

Lemma become_candidate_mono r r' : become_candidate st r = Ok r' -> mono r r'.
Proof.
  unfold become_candidate. intros H. inv_ok.
  assert (Hle : r_term r <= r_term r + 1) by lia.
  match goal with E : reset _ _ _ = Ok _ |- _ => destruct (reset_mono _ _ _ Hle E) as (M & T & C & Vv) end.
  hs_solve.
Qed.

Lemma become_pre_candidate_same r r' : become_pre_candidate r = Ok r' -> same_hs r r'.
Proof. unfold become_pre_candidate. intros H. inv_ok. same_hs_done. Qed.

Lemma become_leader_mono r r' : become_leader st r = Ok r' -> mono r r'.
Proof.
  unfold become_leader. intros H. inv_ok.
  assert (Hle : r_term r <= r_term r) by lia.
  match goal with E : reset _ _ _ = Ok _ |- _ => destruct (reset_mono _ _ _ Hle E) as (M & T & C & Vv) end.
  match goal with E : append_entry _ _ _ = Ok ?p |- _ => destruct p; apply append_entry_same in E end.
  hs_solve.
Qed.

Lemma campaign_send_same ids : forall r vm term lt li ctx r',
  campaign_send r ids vm term lt li ctx = Ok r' -> same_hs r r'.
Proof.
  induction ids as [|id ids IH]; intros r vm term lt li ctx r' H; cbn in H.
  - inv_ok. apply same_hs_refl.
  - inv_ok; (eapply same_hs_trans; [eapply send_same; eassumption|eapply IH; eassumption]).
Qed.

Lemma campaign_mono r t r' : campaign st r t = Ok r' -> mono r r'.
Proof.
  unfold campaign. intros H. inv_ok;
  repeat match goal with
  | E : become_pre_candidate _ = Ok _ |- _ => apply become_pre_candidate_same in E
  | E : become_candidate _ _ = Ok _ |- _ => apply become_candidate_mono in E
  | E : campaign_send _ _ _ _ _ _ _ = Ok _ |- _ => apply campaign_send_same in E
  end.
  all: first [ eapply mono_trans; [eassumption|apply same_hs_mono; eassumption]
             | apply same_hs_mono; eapply same_hs_trans; eassumption ].
Qed.

Lemma hup_mono r t r' : hup st r t = Ok r' -> mono r r'.
Proof.
  unfold hup. intros H. inv_ok; try apply mono_refl. eapply campaign_mono; eassumption.
Qed.

Lemma poll_same r id v r' res : poll r id v = (r', res) -> same_hs r r'.
Proof. unfold poll. intros H. inv_ok. same_hs_done. Qed.

Lemma handle_append_entries_up r m r' : handle_append_entries st r m = Ok r' -> commit_up r r'.
Proof. unfold handle_append_entries. intros H. inv_ok; fwd; hs_solve. Qed.

Lemma handle_heartbeat_up r m r' : handle_heartbeat st r m = Ok r' -> commit_up r r'.
Proof. unfold handle_heartbeat. intros H. inv_ok; fwd; hs_solve. Qed.

Lemma visit_maybe_send_same ids : forall r r', visit_maybe_send st r ids = Ok r' -> same_hs r r'.
Proof.
  induction ids as [|id ids IH]; intros r r' H; cbn in H.
  - inv_ok. apply same_hs_refl.
  - destruct (N.eqb id (r_id r)); [apply IH; exact H|].
    inv_ok. fwd. eapply same_hs_trans; [eassumption|apply IH; eassumption].
Qed.

Lemma switch_to_config_mono r cfg pm r' cs :
  switch_to_config st r cfg pm = Ok (r', cs) -> mono r r'.
Proof.
  unfold switch_to_config. intros H. inv_ok.
  all: repeat match goal with
       | E : become_follower _ _ _ _ = Ok _ |- _ =>
           apply become_follower_mono in E; [destruct E as (M & T & Vv & C)|cbn; lia]
       | E : maybe_commit _ _ = Ok (_, _) |- _ => apply maybe_commit_up in E
       | E : maybe_commit _ _ = Ok ?p |- _ => destruct p
       | E : visit_maybe_send _ _ _ = Ok _ |- _ => apply visit_maybe_send_same in E
       end; fwd.
  all: try (destruct (negb (smem _ _) && _)).
  all: hs_solve.
Qed.


Ltac fwd2 :=
  fwd;
  repeat match goal with
  | E : become_follower _ _ _ _ = Ok _ |- _ =>
      apply become_follower_mono in E; [destruct E as (? & ? & ? & ?)|cbn; lia]
  | E : become_candidate _ _ = Ok _ |- _ => apply become_candidate_mono in E
  | E : become_pre_candidate _ = Ok _ |- _ => apply become_pre_candidate_same in E
  | E : become_leader _ _ = Ok _ |- _ => apply become_leader_mono in E
  | E : maybe_commit _ _ = Ok (_, _) |- _ => apply maybe_commit_up in E
  | E : maybe_commit _ _ = Ok ?p |- _ => destruct p
  | E : visit_maybe_send _ _ _ = Ok _ |- _ => apply visit_maybe_send_same in E
  | E : switch_to_config _ _ _ _ = Ok (_, _) |- _ => apply switch_to_config_mono in E
  | E : switch_to_config _ _ _ _ = Ok ?p |- _ => destruct p
  | E : campaign _ _ _ = Ok _ |- _ => apply campaign_mono in E
  | E : hup _ _ _ = Ok _ |- _ => apply hup_mono in E
  | E : handle_append_entries _ _ _ = Ok _ |- _ => apply handle_append_entries_up in E
  | E : handle_heartbeat _ _ _ = Ok _ |- _ => apply handle_heartbeat_up in E
  | E : append_entry _ _ _ = Ok (_, _) |- _ => apply append_entry_same in E
  | E : append_entry _ _ _ = Ok ?p |- _ => destruct p
  | E : poll _ _ _ = (_, _) |- _ => apply poll_same in E
  end.

Lemma restore_mono r s r' b : restore st r s = Ok (r', b) -> mono r r'.
Proof.
  (* the real restore makes the commit index jump to the snapshot index, which is above it *)
  unfold restore. intros H. inv_ok; fwd2; bool_to_prop; hs_solve.
Qed.

Lemma handle_snapshot_mono r m r' : handle_snapshot st r m = Ok r' -> mono r r'.
Proof.
  unfold handle_snapshot. intros H. inv_ok;
  match goal with E : restore _ _ _ = Ok _ |- _ => apply restore_mono in E end; fwd;
  (eapply mono_trans; [eassumption|apply same_hs_mono; assumption]).
Qed.

Lemma apply_conf_change_raft_mono r cc r' cs :
  apply_conf_change_raft st r cc = Ok (r', cs) -> mono r r'.
Proof. unfold apply_conf_change_raft. intros H. inv_ok. fwd2. assumption. Qed.

Lemma respond_read_index_same r req i r' : respond_read_index r req i = Ok r' -> same_hs r r'.
Proof.
  unfold respond_read_index, response_to_read_index_req. intros H. inv_ok; fwd; hs_solve.
Qed.

Lemma ro_recv_ack_ok ro from ctx ro' : ro_recv_ack ro from ctx = Ok ro' -> True.
Proof. trivial. Qed.

Lemma send_msg_read_index_response_same r m r' :
  send_msg_read_index_response r m = Ok r' -> same_hs r r'.
Proof.
  unfold send_msg_read_index_response. intros H.
  destruct (_ && is_singleton _); [eapply respond_read_index_same; eassumption|].
  inv_ok; fwd.
  - eapply same_hs_trans; [|eassumption]. same_hs_done.
  - eapply respond_read_index_same; eassumption.
Qed.

Lemma send_read_index_responses_same ms : forall r r',
  send_read_index_responses r ms = Ok r' -> same_hs r r'.
Proof.
  induction ms as [|m ms IH]; intros r r' H; cbn in H; inv_ok.
  - apply same_hs_refl.
  - eapply same_hs_trans; [eapply send_msg_read_index_response_same; eassumption|eapply IH; eassumption].
Qed.

Lemma release_pending_read_index_same r r' : release_pending_read_index st r = Ok r' -> same_hs r r'.
Proof.
  unfold release_pending_read_index. intros H. inv_ok; try apply same_hs_refl.
  match goal with E : send_read_index_responses _ _ = Ok _ |- _ => apply send_read_index_responses_same in E end.
  eapply same_hs_trans; [|eassumption]. same_hs_done.
Qed.

Lemma send_timeout_now_same r to r' : send_timeout_now r to = Ok r' -> same_hs r r'.
Proof. unfold send_timeout_now. apply send_same. Qed.

Lemma send_append_loop_same fuel : forall r to r', send_append_loop st fuel r to = Ok r' -> same_hs r r'.
Proof.
  induction fuel as [|f IH]; intros r to r' H; cbn in H; inv_ok; fwd.
  - eapply same_hs_trans; [eassumption|eapply IH; eassumption].
  - assumption.
Qed.

Lemma respond_reads_same rss : forall r r', respond_reads r rss = Ok r' -> same_hs r r'.
Proof.
  induction rss as [|[req idx] rss IH]; intros r r' H; cbn in H; inv_ok.
  - apply same_hs_refl.
  - eapply same_hs_trans; [eapply respond_read_index_same; eassumption|eapply IH; eassumption].
Qed.

Lemma prop_gate_same es : forall r li i r' es', prop_gate r li i es = (r', es') -> same_hs r r'.
Proof.
  induction es as [|e es IH]; intros r li i r' es' H; cbn in H.
  - inv_ok. apply same_hs_refl.
  - repeat match goal with
    | H : (if ?c then _ else _) = _ |- _ => destruct c
    | H : (let '(_, _) := ?x in _) = _ |- _ => let E := fresh "E" in destruct x eqn:E; apply IH in E
    end; inv_ok; assumption.
Qed.

Lemma clear_recent_active_same r : same_hs r (clear_recent_active r).
Proof. same_hs_done. Qed.

Ltac fwd3 :=
  fwd2;
  repeat match goal with
  | E : restore _ _ _ = Ok (_, _) |- _ => apply restore_mono in E
  | E : handle_snapshot _ _ _ = Ok _ |- _ => apply handle_snapshot_mono in E
  | E : respond_read_index _ _ _ = Ok _ |- _ => apply respond_read_index_same in E
  | E : send_msg_read_index_response _ _ = Ok _ |- _ => apply send_msg_read_index_response_same in E
  | E : release_pending_read_index _ _ = Ok _ |- _ => apply release_pending_read_index_same in E
  | E : send_timeout_now _ _ = Ok _ |- _ => apply send_timeout_now_same in E
  | E : send_append_loop _ _ _ _ = Ok _ |- _ => apply send_append_loop_same in E
  | E : respond_reads _ _ = Ok _ |- _ => apply respond_reads_same in E
  | E : prop_gate _ _ _ _ = (_, _) |- _ => apply prop_gate_same in E
  | E : bcast_heartbeat _ = Ok _ |- _ => apply bcast_heartbeat_same in E
  end.

Ltac split_ifs :=
  repeat match goal with
  | |- context [if ?c then _ else _] => destruct c
  | H : context [if ?c then _ else _] |- _ => destruct c
  end.

Lemma step_leader_mono r m r' e : step_leader st r m = Ok (r', e) -> mono r r'.
Proof.
  unfold step_leader. intros H.
  inv_ok; fwd3; try solve [hs_solve]; split_ifs; hs_solve.
Qed.


(* Messages that only a leader sends.  raft stamps them with its (non-zero) term in send;
   a term of 0 marks a local message and bypasses the term check at the top of Step, so a
   forged MsgApp with term 0 would reset a candidate's term to 0.  Messages that were sent by
   a raft node satisfy [wf_msg]. *)
Definition from_leader (t : msg_type) : bool :=
  match t with MsgApp | MsgHeartbeat | MsgSnap => true | _ => false end.
Definition wf_msg (m : message) : Prop := from_leader (m_type m) = true -> m_term m <> 0.

Ltac use_wf :=
  repeat match goal with
  | Hm : from_leader _ = false \/ _ |- _ =>
      cbn in Hm; destruct Hm as [Hm|Hm]; [try discriminate Hm|]
  end.

Lemma step_candidate_mono r m r' e :
  (from_leader (m_type m) = false \/ r_term r <= m_term m) ->
  step_candidate st r m = Ok (r', e) -> mono r r'.
Proof.
  unfold step_candidate. intros Hm H.
  inv_ok; use_wf; fwd3; try solve [hs_solve]; split_ifs; hs_solve.
Qed.

Lemma step_follower_mono r m r' e : step_follower st r m = Ok (r', e) -> mono r r'.
Proof.
  unfold step_follower. intros H.
  inv_ok; fwd3; try solve [hs_solve]; split_ifs; hs_solve.
Qed.

(* the nested call carries only the leave-joint proposal, which is not a leader message *)
Lemma wf_leave_joint_prop : wf_msg leave_joint_prop.
Proof. unfold wf_msg. cbn. discriminate. Qed.

Section StepGen.
Variable step_rec : raft -> message -> res (raft * err).
Hypothesis step_rec_mono : forall r m r' e, wf_msg m -> step_rec r m = Ok (r', e) -> mono r r'.

Lemma applied_to_mono r i s r' : applied_to step_rec r i s = Ok r' -> mono r r'.
Proof.
  unfold applied_to. intros H. inv_ok; fwd.
  - match goal with E : step_rec _ _ = Ok ?p |- _ => destruct p; apply step_rec_mono in E; [|apply wf_leave_joint_prop] end.
    cbn in *. eapply mono_trans; [|eassumption]. hs_solve.
  - hs_solve.
Qed.

Lemma applied_snap_mono r s r' : applied_snap step_rec r s = Ok r' -> mono r r'.
Proof.
  unfold applied_snap. intros H. apply applied_to_mono in H.
  eapply mono_trans; [|exact H]. unfold l_stable_snap_to, l_with_unstable. hs_solve.
Qed.

Ltac fwd4 :=
  fwd3;
  repeat match goal with
  | E : applied_to _ _ _ _ = Ok _ |- _ => apply applied_to_mono in E
  | E : applied_snap _ _ _ = Ok _ |- _ => apply applied_snap_mono in E
  | E : step_leader _ _ _ = Ok (_, _) |- _ => apply step_leader_mono in E
  | E : step_follower _ _ _ = Ok (_, _) |- _ => apply step_follower_mono in E
  | E : l_is_up_to_date _ _ _ _ = Ok _ |- _ => clear E
  end.

Lemma step_preamble_spec r m r1 c :
  wf_msg m -> step_preamble st step_rec r m = Ok (r1, c) ->
  mono r r1 /\ (c = true -> from_leader (m_type m) = true -> r_term r1 = m_term m).
Proof.
  unfold step_preamble, wf_msg. intros Hwf H.
  destruct (N.eqb (m_term m) 0) eqn:E0.
  { inv_ok. bool_to_prop. split; [apply mono_refl|]. intros _ F. exfalso. apply (Hwf F). assumption. }
  destruct (N.ltb (r_term r) (m_term m)) eqn:E1.
  { bool_to_prop.
    inv_ok; fwd4; split; try solve [hs_solve]; try apply mono_refl; try discriminate;
      intros _ F; cbn in F; try discriminate F; try assumption. }
  destruct (N.ltb (m_term m) (r_term r)) eqn:E2.
  { inv_ok; fwd4; split; try solve [hs_solve]; try apply mono_refl; discriminate. }
  inv_ok. bool_to_prop. split; [apply mono_refl|]. intros _ _. lia.
Qed.

Lemma step_transfer_leader_mono r m r' e :
  m_type m = MsgTransferLeader ->
  step_transfer_leader st step_rec r m = Ok (r', e) -> mono r r'.
Proof.
  unfold step_transfer_leader. intros T H.
  match type of H with bind ?x _ = _ => destruct x as [[r1 e1]|] eqn:E1; cbn [bind] in H; [|discriminate] end.
  assert (M1 : mono r r1).
  { destruct (r_state r).
    - apply step_follower_mono in E1. exact E1.
    - eapply step_candidate_mono; [|exact E1]. rewrite T. left. reflexivity.
    - apply step_leader_mono in E1. exact E1.
    - eapply step_candidate_mono; [|exact E1]. rewrite T. left. reflexivity. }
  destruct (state_type_eqb (r_state r) StateLeader && self_transfer_aborts r m).
  - cbn [fst snd] in H.
    match type of H with bind ?x _ = _ => destruct x as [r2|] eqn:E2; cbn [bind] in H; [|discriminate] end.
    inversion H; subst. apply applied_to_mono in E2. eapply mono_trans; eassumption.
  - inversion H; subst. exact M1.
Qed.

Lemma step_dispatch_mono r m r' e :
  (from_leader (m_type m) = false \/ r_term r <= m_term m) ->
  step_dispatch st step_rec r m = Ok (r', e) -> mono r r'.
Proof.
  unfold step_dispatch. intros Hm H.
  inv_ok;
    try (match goal with
         | E : step_transfer_leader _ _ _ _ = Ok _, T : m_type _ = _ |- _ =>
             eapply step_transfer_leader_mono; [exact T|exact E]
         end);
    try (match goal with
         | E : step_candidate _ _ _ = Ok _, T : m_type _ = _ |- _ =>
             eapply step_candidate_mono; [|exact E]; rewrite T; exact Hm
         end);
    fwd4; bool_to_prop; unfold NoneId in *; try solve [hs_solve]; split_ifs; try solve [hs_solve].
  eapply mono_trans; [eassumption|apply same_hs_mono, reduce_uncommitted_same].
Qed.

Lemma step_gen_mono r m r' e : wf_msg m -> step_gen st step_rec r m = Ok (r', e) -> mono r r'.
Proof.
  unfold step_gen. intros Hwf H. inv_ok.
  - match goal with E : step_preamble _ _ _ _ = Ok _ |- _ => apply step_preamble_spec in E; [destruct E as [M _]|assumption] end.
    exact M.
  - match goal with E : step_preamble _ _ _ _ = Ok _ |- _ => apply step_preamble_spec in E; [destruct E as [M T]|assumption] end.
    eapply mono_trans; [exact M|]. eapply step_dispatch_mono; [|eassumption].
    destruct b; [|discriminate]. destruct (from_leader (m_type m)) eqn:F; [right|left; reflexivity].
    rewrite (T eq_refl eq_refl). lia.
Qed.

End StepGen.

Lemma step_leaf_mono r m r' e : step_leaf r m = Ok (r', e) -> mono r r'.
Proof. unfold step_leaf. discriminate. Qed.

Lemma step_inner_mono r m r' e : wf_msg m -> step_inner st r m = Ok (r', e) -> mono r r'.
Proof. unfold step_inner. apply step_gen_mono. intros ? ? ? ? _. apply step_leaf_mono. Qed.

(* Every message a raft node can have sent, of any type, term and content, moves the hard
   state of the receiver forward only. *)
Theorem step_mono r m r' e : wf_msg m -> step st r m = Ok (r', e) -> mono r r'.
Proof. unfold step. apply step_gen_mono. exact step_inner_mono. Qed.

Lemma wf_msg0 t : from_leader t = false -> forall id, wf_msg (set_from (msg0 t) id).
Proof. intros F id. unfold wf_msg. cbn. rewrite F. discriminate. Qed.

Lemma step_local_mono r t r' e :
  from_leader t = false -> step st r (set_from (msg0 t) (r_id r)) = Ok (r', e) -> mono r r'.
Proof. intros F H. eapply step_mono; [|exact H]. apply wf_msg0. exact F. Qed.

Lemma tick_election_mono r r' : tick_election st r = Ok r' -> mono r r'.
Proof.
  unfold tick_election. intros H.
  destruct (promotable (set_r_election_elapsed r (r_election_elapsed r + 1)) && _) eqn:E.
  - destruct (step st _ _) as [[r1 e1]|] eqn:ES; cbn [bind] in H; [|discriminate].
    inversion H; subst; clear H. cbn [fst].
    change (r_id (set_r_election_elapsed (set_r_election_elapsed r (r_election_elapsed r + 1)) 0))
      with (r_id (set_r_election_elapsed (set_r_election_elapsed r (r_election_elapsed r + 1)) 0)) in ES.
    apply (step_local_mono _ MsgHup _ _ eq_refl) in ES.
    eapply mono_trans; [|exact ES]. apply same_hs_mono. same_hs_done.
  - inversion H; subst. apply same_hs_mono. same_hs_done.
Qed.

Lemma tick_heartbeat_mono r r' : tick_heartbeat st r = Ok r' -> mono r r'.
Proof.
  unfold tick_heartbeat. intros H.
  set (r0 := set_r_election_elapsed (set_r_heartbeat_elapsed r (r_heartbeat_elapsed r + 1))
                                    (r_election_elapsed (set_r_heartbeat_elapsed r (r_heartbeat_elapsed r + 1)) + 1)) in *.
  assert (M0 : mono r r0) by (apply same_hs_mono; subst r0; same_hs_done).
  match type of H with bind ?x _ = _ => destruct x as [r1|] eqn:E1; cbn [bind] in H; [|discriminate] end.
  assert (M1 : mono r0 r1).
  { destruct (r_election_timeout r0 <=? r_election_elapsed r0); [|inversion E1; apply mono_refl].
    match type of E1 with bind ?x _ = _ => destruct x as [r2|] eqn:E2; cbn [bind] in E1; [|discriminate] end.
    assert (M2 : mono r0 r2).
    { destruct (r_check_quorum (set_r_election_elapsed r0 0)).
      - destruct (step st _ _) as [[r3 e3]|] eqn:ES; cbn [bind] in E2; [|discriminate].
        inversion E2; subst; clear E2. cbn [fst].
        apply (step_local_mono _ MsgCheckQuorum _ _ eq_refl) in ES.
        eapply mono_trans; [|exact ES]. apply same_hs_mono. same_hs_done.
      - inversion E2; subst. apply same_hs_mono. same_hs_done. }
    eapply mono_trans; [exact M2|].
    destruct (state_type_eqb (r_state r2) StateLeader && _).
    - unfold applied_to_top in E1. apply (applied_to_mono _ step_inner_mono) in E1.
      eapply mono_trans; [|exact E1]. apply same_hs_mono. same_hs_done.
    - inversion E1; subst. apply mono_refl. }
  assert (M : mono r r1) by exact (mono_trans _ _ _ M0 M1).
  destruct (negb (state_type_eqb (r_state r1) StateLeader)); [inversion H; subst; exact M|].
  destruct (r_heartbeat_timeout r1 <=? r_heartbeat_elapsed r1); [|inversion H; subst; exact M].
  cbv beta zeta in H.
  match type of H with bind ?x _ = _ => destruct x as [[r3 e3]|] eqn:ES end; cbn [bind] in H; [|discriminate].
  inversion H; subst; clear H. cbn [fst].
  apply (step_local_mono _ MsgBeat _ _ eq_refl) in ES.
  eapply mono_trans; [exact M|]. eapply mono_trans; [|exact ES]. apply same_hs_mono. same_hs_done.
Qed.

Lemma tick_mono r r' : tick st r = Ok r' -> mono r r'.
Proof.
  unfold tick. destruct (r_state r); first [apply tick_election_mono | apply tick_heartbeat_mono].
Qed.

End WithStorage.
