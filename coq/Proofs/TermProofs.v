(* TermProofs.v: every message a node emits carries a term that is not below the term the node
   had when the call began (clause d of C07: a node never votes, leads or acknowledges in a term
   lower than its hard state), for every function of the node model and every input.  Messages
   that raft sends without a term (a forwarded proposal or read request) are the only exception.
   Together with RaftMono (the term never decreases) and NodeProps (a restart continues from the
   persisted hard state) this says that nothing a node emits after a restart carries a term
   below the last persisted one.  Same skeleton as RaftRouting.v. *)
From Coq Require Import List NArith Bool Lia.
From RaftV Require Import Base Types Quorum Progress Tracker Storage Log Raft RawNode Tactics RaftMono.
Import ListNotations.
Open Scope N_scope.

Section WithT.
Variable T : N.

(* the term of an emitted message is at least T, or the message is one of the two kinds that
   travel without a term *)
Definition tok (m : message) : Prop :=
  T <= m_term m \/ (m_term m = 0 /\ (m_type m = MsgProp \/ m_type m = MsgReadIndex)).

(* from a state whose term is at least T: the term stays at least T and both queues only grow,
   by messages that satisfy [tok] *)
Definition tex (r r' : raft) : Prop :=
  T <= r_term r ->
  T <= r_term r' /\
  (exists l, r_msgs r' = r_msgs r ++ l /\ Forall tok l) /\
  (exists l, r_msgs_after_append r' = r_msgs_after_append r ++ l /\ Forall tok l).

Lemma tex_refl r : tex r r.
Proof.
  unfold tex. intros H. split; [exact H|]. split; exists []; rewrite app_nil_r; auto.
Qed.

Lemma tex_trans a b c : tex a b -> tex b c -> tex a c.
Proof.
  unfold tex. intros H1 H2 HT. destruct (H1 HT) as (T1 & (l1 & M1 & F1) & (k1 & A1 & G1)).
  destruct (H2 T1) as (T2 & (l2 & M2 & F2) & (k2 & A2 & G2)).
  split; [exact T2|]. split.
  - exists (l1 ++ l2). rewrite M2, M1, app_assoc. split; [reflexivity|]. apply Forall_app; auto.
  - exists (k1 ++ k2). rewrite A2, A1, app_assoc. split; [reflexivity|]. apply Forall_app; auto.
Qed.

(* updates that touch neither queue nor the term *)
Lemma tex_frame r r' :
  r_term r' = r_term r -> r_msgs r' = r_msgs r -> r_msgs_after_append r' = r_msgs_after_append r ->
  tex r r'.
Proof.
  intros S M A HT. rewrite S. split; [exact HT|]. split; exists []; rewrite app_nil_r; auto.
Qed.

Ltac frame := apply tex_frame; reflexivity.

(* send: a message of the vote family carries the term it is given, every other message the
   sender's current term (or none) *)
Lemma send_tex r m r' :
  (T <= r_term r -> is_vote_family (m_type m) = true -> m_term m = 0 \/ T <= m_term m) ->
  send r m = Ok r' -> tex r r'.
Proof.
  unfold send. intros HV H HT.
  set (m1 := if N.eqb (m_from m) NoneId then set_from m (r_id r) else m) in *.
  assert (TY : m_type m1 = m_type m) by (subst m1; destruct (N.eqb _ _); reflexivity).
  assert (TM : m_term m1 = m_term m) by (subst m1; destruct (N.eqb _ _); reflexivity).
  match type of H with bind ?x _ = _ => destruct x as [m2|] eqn:E2; cbn [bind] in H; [|discriminate] end.
  assert (OK2 : tok m2 /\ m_type m2 = m_type m).
  { rewrite TY in E2. destruct (is_vote_family (m_type m)) eqn:VF.
    - rewrite TM in E2. destruct (N.eqb (m_term m) 0) eqn:E0; [discriminate|]. inversion E2; subst m2.
      split; [|exact TY]. left. rewrite TM. apply N.eqb_neq in E0. destruct (HV HT eq_refl); [congruence|assumption].
    - rewrite TM in E2. destruct (negb (N.eqb (m_term m) 0)) eqn:E0; [discriminate|].
      apply negb_false_iff, N.eqb_eq in E0.
      destruct (m_type m) eqn:TT; inversion E2; subst m2; (split; [|first [exact TY | cbn; exact TY]]);
        first [ left; cbn; exact HT | right; split; [rewrite TM; exact E0|rewrite TY; auto] ]. }
  destruct OK2 as [OK2 TY2].
  destruct (m_type m2) eqn:T2; try (destruct (N.eqb (m_to m2) (r_id r)); [discriminate|]);
    inversion H; subst r'; cbn; (split; [exact HT|]); split;
    first [ exists []; rewrite app_nil_r; split; [reflexivity|constructor]
          | eexists; split; [reflexivity|]; constructor; [exact OK2|constructor] ].
Qed.

(* the same for a message that is not of the vote family *)
Lemma send_plain_tex r m r' : is_vote_family (m_type m) = false -> send r m = Ok r' -> tex r r'.
Proof. intros NV. apply send_tex. intros _. rewrite NV. discriminate. Qed.

Ltac chain :=
  first [ eassumption
        | apply tex_refl
        | frame
        | eapply tex_trans; [eassumption|chain] ].


(* side condition of a send whose message type is known: not of the vote family *)
Ltac novote :=
  cbn; repeat match goal with H : m_type _ = _ |- _ => rewrite H end; reflexivity.

Ltac send_fwd :=
  repeat match goal with
  | H : send _ _ = Ok _ |- _ => apply send_plain_tex in H; [|novote]
  end.

Section WithStorage.
Variable st : memstorage.

Lemma maybe_send_snapshot_tex r to pr r' b :
  maybe_send_snapshot st r to pr = Ok (r', b) -> tex r r'.
Proof.
  unfold maybe_send_snapshot. intros H. inv_ok; try apply tex_refl. send_fwd. chain.
Qed.

Lemma maybe_send_append_tex r to sie r' b :
  maybe_send_append st r to sie = Ok (r', b) -> tex r r'.
Proof.
  unfold maybe_send_append. intros H.
  inv_ok; try apply tex_refl; try (eapply maybe_send_snapshot_tex; eassumption).
  all: send_fwd; chain.
Qed.

Lemma send_append_tex r to r' : send_append st r to = Ok r' -> tex r r'.
Proof.
  unfold send_append. intros H. inv_ok.
  match goal with E : maybe_send_append _ _ _ _ = Ok ?x |- _ => destruct x; cbn end.
  eapply maybe_send_append_tex; eassumption.
Qed.

Lemma send_heartbeat_tex r to ctx r' : send_heartbeat r to ctx = Ok r' -> tex r r'.
Proof. unfold send_heartbeat. intros H. inv_ok. send_fwd. chain. Qed.

Lemma visit_others_tex (f : raft -> N -> res raft) :
  (forall r id r', f r id = Ok r' -> tex r r') ->
  forall ids r r', visit_others f r ids = Ok r' -> tex r r'.
Proof.
  intros Hf ids. induction ids as [|id ids IH]; intros r r' H; cbn in H.
  - inv_ok. apply tex_refl.
  - destruct (N.eqb id (r_id r)); [apply IH; auto|].
    inv_ok. eapply tex_trans; [eapply Hf; eassumption|apply IH; auto].
Qed.

Lemma bcast_append_tex r r' : bcast_append st r = Ok r' -> tex r r'.
Proof. unfold bcast_append. apply visit_others_tex. intros; eapply send_append_tex; eassumption. Qed.

Lemma bcast_heartbeat_tex r r' : bcast_heartbeat r = Ok r' -> tex r r'.
Proof.
  unfold bcast_heartbeat, bcast_heartbeat_with_ctx. apply visit_others_tex.
  intros; eapply send_heartbeat_tex; eassumption.
Qed.

Lemma maybe_commit_tex r r' b : maybe_commit st r = Ok (r', b) -> tex r r'.
Proof. unfold maybe_commit. intros H. inv_ok. frame. Qed.

Lemma reset_randomized_tex r r' : reset_randomized r = Ok r' -> tex r r'.
Proof. unfold reset_randomized. intros H. inv_ok. frame. Qed.

(* reset to a term that is not below T *)
Lemma reset_tex r term r' : (T <= r_term r -> T <= term) -> reset st r term = Ok r' -> tex r r'.
Proof.
  unfold reset. intros HT H HR.
  assert (R : T <= r_term r' /\ r_msgs r' = r_msgs r /\ r_msgs_after_append r' = r_msgs_after_append r).
  { destruct (negb (N.eqb (r_term r) term)) eqn:ET; inv_ok;
    match goal with E : reset_randomized _ = Ok _ |- _ => unfold reset_randomized in E end; inv_ok; cbn;
    bool_to_prop; repeat split; auto; try lia. }
  destruct R as (R1 & R2 & R3). split; [exact R1|]. rewrite R2, R3.
  split; exists []; rewrite app_nil_r; auto.
Qed.

Lemma increase_uncommitted_tex r es r' b : increase_uncommitted_size r es = (r', b) -> tex r r'.
Proof. unfold increase_uncommitted_size. intros H. inv_ok; frame. Qed.

Lemma reduce_uncommitted_tex r s : tex r (reduce_uncommitted_size r s).
Proof. unfold reduce_uncommitted_size. destruct (_ <? _); frame. Qed.

Lemma append_entry_tex r es r' b : append_entry st r es = Ok (r', b) -> tex r r'.
Proof.
  unfold append_entry. intros H.
  destruct (increase_uncommitted_size r (stamp (r_term r) (last_index st r + 1) es)) as [r1 ok] eqn:EI.
  apply increase_uncommitted_tex in EI. inv_ok; [exact EI|]. send_fwd. chain.
Qed.

Lemma become_follower_tex r term lead r' :
  (T <= r_term r -> T <= term) -> become_follower st r term lead = Ok r' -> tex r r'.
Proof.
  unfold become_follower. intros HT H. inv_ok.
  match goal with E : reset _ _ _ = Ok _ |- _ => apply reset_tex in E; [|exact HT] end. chain.
Qed.

Lemma become_candidate_tex r r' : become_candidate st r = Ok r' -> tex r r'.
Proof.
  unfold become_candidate. intros H. inv_ok.
  match goal with E : reset _ _ _ = Ok _ |- _ => apply reset_tex in E; [|lia] end. chain.
Qed.

Lemma become_pre_candidate_tex r r' : become_pre_candidate r = Ok r' -> tex r r'.
Proof. unfold become_pre_candidate. intros H. inv_ok. frame. Qed.

Lemma become_leader_tex r r' : become_leader st r = Ok r' -> tex r r'.
Proof.
  unfold become_leader. intros H. inv_ok.
  match goal with E : reset _ _ _ = Ok _ |- _ => apply reset_tex in E; [|auto] end.
  match goal with E : append_entry _ _ _ = Ok ?p |- _ => destruct p; apply append_entry_tex in E end.
  cbn in *. chain.
Qed.

(* the vote requests of a campaign carry the campaign's term *)
Lemma campaign_send_tex ids : forall r vm term lt li ctx r',
  T <= term -> campaign_send r ids vm term lt li ctx = Ok r' -> tex r r'.
Proof.
  induction ids as [|id ids IH]; intros r vm term lt li ctx r' HT H; cbn in H.
  - inv_ok. apply tex_refl.
  - inv_ok; (eapply tex_trans; [|eapply IH; eassumption]);
    match goal with E : send _ _ = Ok _ |- _ => apply send_tex in E; [exact E|cbn; auto] end.
Qed.


Lemma campaign_tex r t r' : campaign st r t = Ok r' -> tex r r'.
Proof.
  unfold campaign. intros H HT.
  match type of H with bind ?x _ = _ => destruct x as [[[r1 vm] term]|] eqn:E1; cbn [bind] in H; [|discriminate] end.
  assert (X : tex r r1 /\ (T <= r_term r1 -> T <= term)).
  { destruct t.
    - destruct (become_pre_candidate r) as [r2|] eqn:E2; cbn [bind] in E1; [|discriminate].
      inversion E1; subst. split; [eapply become_pre_candidate_tex; eassumption|lia].
    - destruct (become_candidate st r) as [r2|] eqn:E2; cbn [bind] in E1; [|discriminate].
      inversion E1; subst. split; [eapply become_candidate_tex; eassumption|auto].
    - destruct (become_candidate st r) as [r2|] eqn:E2; cbn [bind] in E1; [|discriminate].
      inversion E1; subst. split; [eapply become_candidate_tex; eassumption|auto]. }
  destruct X as [X1 X2]. destruct (X1 HT) as (T1 & M1 & A1).
  destruct (l_last_entry_id st (r_log r1)) as [last|]; cbn [bind] in H; [|discriminate].
  apply campaign_send_tex in H; [|exact (X2 T1)].
  exact (tex_trans _ _ _ X1 H HT).
Qed.

Lemma hup_tex r t r' : hup st r t = Ok r' -> tex r r'.
Proof. unfold hup. intros H. inv_ok; try apply tex_refl. eapply campaign_tex; eassumption. Qed.

Lemma poll_tex r id v r' res : poll r id v = (r', res) -> tex r r'.
Proof. unfold poll. intros H. inv_ok. frame. Qed.

Ltac fwd :=
  send_fwd;
  repeat match goal with
  | H : maybe_send_snapshot _ _ _ _ = Ok _ |- _ => apply maybe_send_snapshot_tex in H
  | H : maybe_send_append _ _ _ _ = Ok (_, _) |- _ => apply maybe_send_append_tex in H
  | H : maybe_send_append _ _ _ _ = Ok ?p |- _ => is_var p; destruct p
  | H : send_append _ _ _ = Ok _ |- _ => apply send_append_tex in H
  | H : send_heartbeat _ _ _ = Ok _ |- _ => apply send_heartbeat_tex in H
  | H : bcast_append _ _ = Ok _ |- _ => apply bcast_append_tex in H
  | H : bcast_heartbeat _ = Ok _ |- _ => apply bcast_heartbeat_tex in H
  | E : become_candidate _ _ = Ok _ |- _ => apply become_candidate_tex in E
  | E : become_pre_candidate _ = Ok _ |- _ => apply become_pre_candidate_tex in E
  | E : become_leader _ _ = Ok _ |- _ => apply become_leader_tex in E
  | E : maybe_commit _ _ = Ok (_, _) |- _ => apply maybe_commit_tex in E
  | E : maybe_commit _ _ = Ok ?p |- _ => is_var p; destruct p
  | E : campaign _ _ _ = Ok _ |- _ => apply campaign_tex in E
  | E : hup _ _ _ = Ok _ |- _ => apply hup_tex in E
  | E : append_entry _ _ _ = Ok (_, _) |- _ => apply append_entry_tex in E
  | E : append_entry _ _ _ = Ok ?p |- _ => is_var p; destruct p
  | E : poll _ _ _ = (_, _) |- _ => apply poll_tex in E
  end; cbn [fst snd] in *.

(* becomeFollower at the own term, or at a term known to be at least T *)
Ltac bf_same :=
  repeat match goal with
  | E : become_follower _ ?r (r_term ?r) _ = Ok _ |- _ => apply become_follower_tex in E; [|auto]
  | E : become_follower _ ?r (r_term ?r + 1) _ = Ok _ |- _ => apply become_follower_tex in E; [|lia]
  end.

Lemma handle_append_entries_tex r m r' : handle_append_entries st r m = Ok r' -> tex r r'.
Proof. unfold handle_append_entries. intros H. inv_ok; fwd; chain. Qed.

Lemma handle_heartbeat_tex r m r' : handle_heartbeat st r m = Ok r' -> tex r r'.
Proof. unfold handle_heartbeat. intros H. inv_ok; fwd; chain. Qed.

Lemma visit_maybe_send_tex ids : forall r r', visit_maybe_send st r ids = Ok r' -> tex r r'.
Proof.
  induction ids as [|id ids IH]; intros r r' H; cbn in H.
  - inv_ok. apply tex_refl.
  - destruct (N.eqb id (r_id r)); [apply IH; exact H|].
    inv_ok. fwd. eapply tex_trans; [eassumption|apply IH; eassumption].
Qed.

Lemma switch_to_config_tex r cfg pm r' cs : switch_to_config st r cfg pm = Ok (r', cs) -> tex r r'.
Proof.
  unfold switch_to_config. intros H. inv_ok; bf_same; fwd;
  repeat match goal with
  | E : visit_maybe_send _ _ _ = Ok _ |- _ => apply visit_maybe_send_tex in E
  end; try (destruct (negb (smem _ _) && _)); chain.
Qed.

Lemma restore_tex r s r' b : restore st r s = Ok (r', b) -> tex r r'.
Proof.
  unfold restore. intros H. inv_ok; bf_same; fwd;
  repeat match goal with
  | E : switch_to_config _ _ _ _ = Ok ?p |- _ => is_var p; destruct p
  | E : switch_to_config _ _ _ _ = Ok (_, _) |- _ => apply switch_to_config_tex in E
  end; cbn [fst snd] in *; chain.
Qed.

Lemma handle_snapshot_tex r m r' : handle_snapshot st r m = Ok r' -> tex r r'.
Proof.
  unfold handle_snapshot. intros H. inv_ok;
  match goal with E : restore _ _ _ = Ok _ |- _ => apply restore_tex in E end; fwd; chain.
Qed.

Lemma apply_conf_change_raft_tex r cc r' cs : apply_conf_change_raft st r cc = Ok (r', cs) -> tex r r'.
Proof.
  unfold apply_conf_change_raft. intros H. inv_ok. eapply switch_to_config_tex; eassumption.
Qed.

Lemma respond_read_index_tex r req i r' : respond_read_index r req i = Ok r' -> tex r r'.
Proof.
  unfold respond_read_index, response_to_read_index_req. intros H.
  destruct (_ || _).
  - destruct (m_entries req); [discriminate|]. cbn [bind fst snd] in H. inversion H; subst. frame.
  - cbn [bind fst snd] in H. apply send_plain_tex in H; [exact H|reflexivity].
Qed.

Lemma send_msg_read_index_response_tex r m r' : send_msg_read_index_response r m = Ok r' -> tex r r'.
Proof.
  unfold send_msg_read_index_response. intros H.
  destruct (_ && is_singleton _); [eapply respond_read_index_tex; eassumption|].
  inv_ok; fwd.
  - eapply tex_trans; [|eassumption]. frame.
  - eapply respond_read_index_tex; eassumption.
Qed.

Lemma send_read_index_responses_tex ms : forall r r', send_read_index_responses r ms = Ok r' -> tex r r'.
Proof.
  induction ms as [|m ms IH]; intros r r' H; cbn in H; inv_ok.
  - apply tex_refl.
  - eapply tex_trans; [eapply send_msg_read_index_response_tex; eassumption|eapply IH; eassumption].
Qed.

Lemma release_pending_read_index_tex r r' : release_pending_read_index st r = Ok r' -> tex r r'.
Proof.
  unfold release_pending_read_index. intros H. inv_ok; try apply tex_refl.
  match goal with E : send_read_index_responses _ _ = Ok _ |- _ => apply send_read_index_responses_tex in E end.
  chain.
Qed.

Lemma send_timeout_now_tex r to r' : send_timeout_now r to = Ok r' -> tex r r'.
Proof. unfold send_timeout_now. apply send_plain_tex. reflexivity. Qed.

Lemma send_append_loop_tex fuel : forall r to r', send_append_loop st fuel r to = Ok r' -> tex r r'.
Proof.
  induction fuel as [|f IH]; intros r to r' H; cbn in H; inv_ok; fwd.
  - eapply tex_trans; [eassumption|eapply IH; eassumption].
  - assumption.
Qed.

Lemma respond_reads_tex rss : forall r r', respond_reads r rss = Ok r' -> tex r r'.
Proof.
  induction rss as [|[req idx] rss IH]; intros r r' H; cbn in H; inv_ok.
  - apply tex_refl.
  - eapply tex_trans; [eapply respond_read_index_tex; eassumption|eapply IH; eassumption].
Qed.

Lemma prop_gate_tex es : forall r li i r' es', prop_gate r li i es = (r', es') -> tex r r'.
Proof.
  induction es as [|e es IH]; intros r li i r' es' H; cbn in H.
  - inv_ok. apply tex_refl.
  - repeat match goal with
    | H : (if ?c then _ else _) = _ |- _ => destruct c
    | H : (let '(_, _) := ?x in _) = _ |- _ => let E := fresh "E" in destruct x eqn:E; apply IH in E
    end; inv_ok; chain.
Qed.

Lemma clear_recent_active_tex r : tex r (clear_recent_active r).
Proof. frame. Qed.

Ltac fwd3 :=
  bf_same; fwd;
  repeat match goal with
  | E : visit_maybe_send _ _ _ = Ok _ |- _ => apply visit_maybe_send_tex in E
  | E : switch_to_config _ _ _ _ = Ok (_, _) |- _ => apply switch_to_config_tex in E
  | E : switch_to_config _ _ _ _ = Ok ?p |- _ => is_var p; destruct p
  | E : handle_append_entries _ _ _ = Ok _ |- _ => apply handle_append_entries_tex in E
  | E : handle_heartbeat _ _ _ = Ok _ |- _ => apply handle_heartbeat_tex in E
  | E : restore _ _ _ = Ok (_, _) |- _ => apply restore_tex in E
  | E : handle_snapshot _ _ _ = Ok _ |- _ => apply handle_snapshot_tex in E
  | E : respond_read_index _ _ _ = Ok _ |- _ => apply respond_read_index_tex in E
  | E : send_msg_read_index_response _ _ = Ok _ |- _ => apply send_msg_read_index_response_tex in E
  | E : release_pending_read_index _ _ = Ok _ |- _ => apply release_pending_read_index_tex in E
  | E : send_timeout_now _ _ = Ok _ |- _ => apply send_timeout_now_tex in E
  | E : send_append_loop _ _ _ _ = Ok _ |- _ => apply send_append_loop_tex in E
  | E : respond_reads _ _ = Ok _ |- _ => apply respond_reads_tex in E
  | E : prop_gate _ _ _ _ = (_, _) |- _ => apply prop_gate_tex in E
  end; cbn [fst snd] in *.

Ltac split_ifs :=
  repeat match goal with
  | |- context [if ?c then _ else _] => destruct c
  | H : context [if ?c then _ else _] |- _ => destruct c
  end.

Lemma step_leader_tex r m r' e : step_leader st r m = Ok (r', e) -> tex r r'.
Proof.
  unfold step_leader. intros H. inv_ok; fwd3; try solve [chain]; split_ifs; try solve [chain].
  all: match goal with
       | E6 : tex (set_r_read_only ?x ?ro) ?r2 |- tex _ ?r2 =>
           assert (X : tex x r2) by (eapply tex_trans; [|exact E6]; frame)
       end.
  all: first [ exact X
             | match goal with E1 : tex _ ?a, X : tex ?a _ |- _ => exact (tex_trans _ _ _ E1 X) end ].
Qed.


Lemma step_candidate_tex r m r' e :
  (from_leader (m_type m) = true -> T <= r_term r -> T <= m_term m) ->
  step_candidate st r m = Ok (r', e) -> tex r r'.
Proof.
  unfold step_candidate. intros HM H.
  inv_ok;
    repeat match goal with
    | E : become_follower _ ?r (m_term _) _ = Ok _ |- _ =>
        apply become_follower_tex in E; [|apply HM; reflexivity]
    end;
    fwd3; try solve [chain]; split_ifs; chain.
Qed.

Lemma step_follower_tex r m r' e : step_follower st r m = Ok (r', e) -> tex r r'.
Proof.
  unfold step_follower. intros H. inv_ok; fwd3; try solve [chain]; split_ifs; chain.
Qed.

Section StepGen.
Variable step_rec : raft -> message -> res (raft * err).
Hypothesis step_rec_tex : forall r r' e, step_rec r leave_joint_prop = Ok (r', e) -> tex r r'.

Lemma applied_to_tex r i s r' : applied_to step_rec r i s = Ok r' -> tex r r'.
Proof.
  unfold applied_to. intros H. inv_ok.
  - match goal with E : step_rec _ _ = Ok ?p |- _ => destruct p; apply step_rec_tex in E end.
    cbn in *. chain.
  - frame.
Qed.

Lemma applied_snap_tex r s r' : applied_snap step_rec r s = Ok r' -> tex r r'.
Proof. unfold applied_snap. intros H. apply applied_to_tex in H. chain. Qed.

Lemma step_role_tex r m x :
  (from_leader (m_type m) = true -> T <= r_term r -> T <= m_term m) ->
  match r_state r with
  | StateFollower => step_follower st r m
  | StateCandidate | StatePreCandidate => step_candidate st r m
  | StateLeader => step_leader st r m
  end = Ok x -> tex r (fst x).
Proof.
  intros HM. destruct x as [r1 e1]. cbn [fst]. destruct (r_state r); intros H.
  - eapply step_follower_tex; eassumption.
  - eapply step_candidate_tex; eassumption.
  - eapply step_leader_tex; eassumption.
  - eapply step_candidate_tex; eassumption.
Qed.

Lemma step_transfer_leader_tex r m r' e :
  m_type m = MsgTransferLeader -> step_transfer_leader st step_rec r m = Ok (r', e) -> tex r r'.
Proof.
  unfold step_transfer_leader. intros TY H.
  match type of H with bind ?y _ = _ => destruct y as [x|] eqn:E1; cbn [bind] in H; [|discriminate] end.
  apply step_role_tex in E1; [|rewrite TY; discriminate].
  destruct (state_type_eqb (r_state r) StateLeader && self_transfer_aborts r m).
  - match type of H with bind ?y _ = _ => destruct y as [r2|] eqn:E2; cbn [bind] in H; [|discriminate] end.
    inversion H; subst. apply applied_to_tex in E2. eapply tex_trans; eassumption.
  - inversion H; subst. exact E1.
Qed.

(* the type switch of Step, for a message whose term is none or at least T *)
Lemma step_dispatch_tex r m r' e :
  wf_msg m -> (m_term m = 0 \/ T <= m_term m) ->
  step_dispatch st step_rec r m = Ok (r', e) -> tex r r'.
Proof.
  intros WF D H.
  assert (HM : from_leader (m_type m) = true -> T <= r_term r -> T <= m_term m).
  { intros F _. destruct D as [D|D]; [exfalso; exact (WF F D)|exact D]. }
  unfold step_dispatch in H.
  destruct (m_type m) eqn:TY;
    try (rewrite <- TY in HM; apply (step_role_tex r m (r', e) HM) in H; exact H).
  - (* MsgHup *) inv_ok. fwd3. chain.
  - (* MsgVote *)
    destruct (l_is_up_to_date _ _ _ _); cbn [bind] in H; [|discriminate].
    destruct (_ && _).
    + match type of H with bind ?y _ = _ => destruct y as [r1|] eqn:E1; cbn [bind] in H; [|discriminate] end.
      inversion H; subst. apply send_tex in E1; [|cbn; auto].
      eapply tex_trans; [exact E1|]. frame.
    + match type of H with bind ?y _ = _ => destruct y as [r1|] eqn:E1; cbn [bind] in H; [|discriminate] end.
      inversion H; subst. apply send_tex in E1; [exact E1|cbn; auto].
  - (* MsgTransferLeader *) eapply step_transfer_leader_tex; eassumption.
  - (* MsgPreVote *)
    destruct (l_is_up_to_date _ _ _ _); cbn [bind] in H; [|discriminate].
    destruct (_ && _).
    + match type of H with bind ?y _ = _ => destruct y as [r1|] eqn:E1; cbn [bind] in H; [|discriminate] end.
      inversion H; subst. apply send_tex in E1; [exact E1|cbn; auto].
    + match type of H with bind ?y _ = _ => destruct y as [r1|] eqn:E1; cbn [bind] in H; [|discriminate] end.
      inversion H; subst. apply send_tex in E1; [exact E1|cbn; auto].
  - (* MsgStorageAppendResp *)
    destruct (m_snapshot m).
    + match type of H with bind ?y _ = _ => destruct y as [r1|] eqn:E1; cbn [bind] in H; [|discriminate] end.
      inversion H; subst. apply applied_snap_tex in E1. eapply tex_trans; [|exact E1].
      destruct (negb _); frame.
    + inversion H; subst. destruct (negb _); frame.
  - (* MsgStorageApplyResp *)
    destruct (last_opt (m_entries m)).
    + match type of H with bind ?y _ = _ => destruct y as [r1|] eqn:E1; cbn [bind] in H; [|discriminate] end.
      inversion H; subst. apply applied_to_tex in E1.
      eapply tex_trans; [exact E1|apply reduce_uncommitted_tex].
    + inversion H; subst. apply tex_refl.
Qed.

Lemma step_gen_tex r m r' e : wf_msg m -> step_gen st step_rec r m = Ok (r', e) -> tex r r'.
Proof.
  intros WF H HT. unfold step_gen in H.
  destruct (step_preamble st step_rec r m) as [[r1 c]|] eqn:EP; cbn [bind] in H; [|discriminate].
  unfold step_preamble in EP.
  destruct (N.eqb (m_term m) 0) eqn:E0.
  { inversion EP; subst. cbn [negb] in H. apply N.eqb_eq in E0.
    exact (step_dispatch_tex _ _ _ _ WF (or_introl E0) H HT). }
  destruct (r_term r <? m_term m) eqn:E1.
  { apply N.ltb_lt in E1.
    assert (D : m_term m = 0 \/ T <= m_term m) by (right; lia).
    assert (BF : forall l r2, become_follower st r (m_term m) l = Ok r2 -> tex r r2).
    { intros l r2 EB. eapply become_follower_tex; [|exact EB]. intros _. lia. }
    destruct (_ && _ && _).
    { inversion EP; subst. cbn [negb] in H. inversion H; subst. exact (tex_refl _ HT). }
    destruct (m_type m) eqn:TY;
      try (destruct (become_follower st r (m_term m) _) as [r2|] eqn:EB; cbn [bind] in EP; [|discriminate];
           inversion EP; subst; cbn [negb] in H;
           exact (tex_trans _ _ _ (BF _ _ EB) (step_dispatch_tex _ _ _ _ WF D H) HT)).
    - inversion EP; subst. cbn [negb] in H. exact (step_dispatch_tex _ _ _ _ WF D H HT).
    - destruct (negb (m_reject m)).
      + inversion EP; subst. cbn [negb] in H. exact (step_dispatch_tex _ _ _ _ WF D H HT).
      + destruct (become_follower st r (m_term m) NoneId) as [r2|] eqn:EB; cbn [bind] in EP; [|discriminate].
        inversion EP; subst. cbn [negb] in H.
        exact (tex_trans _ _ _ (BF _ _ EB) (step_dispatch_tex _ _ _ _ WF D H) HT). }
  destruct (m_term m <? r_term r) eqn:E2.
  { destruct (m_type m) eqn:TY; try (inversion EP; subst; cbn [negb] in H; inversion H; subst; exact (tex_refl _ HT)).
    - destruct (_ || _).
      + destruct (send r _) as [r2|] eqn:ES; cbn [bind] in EP; [|discriminate].
        inversion EP; subst. cbn [negb] in H. inversion H; subst.
        apply send_plain_tex in ES; [exact (ES HT)|reflexivity].
      + inversion EP; subst. cbn [negb] in H. inversion H; subst. exact (tex_refl _ HT).
    - destruct (_ || _).
      + destruct (send r _) as [r2|] eqn:ES; cbn [bind] in EP; [|discriminate].
        inversion EP; subst. cbn [negb] in H. inversion H; subst.
        apply send_plain_tex in ES; [exact (ES HT)|reflexivity].
      + inversion EP; subst. cbn [negb] in H. inversion H; subst. exact (tex_refl _ HT).
    - destruct (send r _) as [r2|] eqn:ES; cbn [bind] in EP; [|discriminate].
      inversion EP; subst. cbn [negb] in H. inversion H; subst.
      apply send_tex in ES; [exact (ES HT)|cbn; auto].
    - destruct (m_snapshot m) as [sn|].
      + destruct (applied_snap step_rec r sn) as [r2|] eqn:EA; cbn [bind] in EP; [|discriminate].
        inversion EP; subst. cbn [negb] in H. inversion H; subst. exact (applied_snap_tex _ _ _ EA HT).
      + inversion EP; subst. cbn [negb] in H. inversion H; subst. exact (tex_refl _ HT). }
  inversion EP; subst. cbn [negb] in H.
  apply N.ltb_ge in E1. apply N.ltb_ge in E2.
  assert (D : m_term m = 0 \/ T <= m_term m) by (right; lia).
  exact (step_dispatch_tex _ _ _ _ WF D H HT).
Qed.
End StepGen.

Lemma step_inner_tex r r' e : step_inner st r leave_joint_prop = Ok (r', e) -> tex r r'.
Proof.
  unfold step_inner. apply step_gen_tex.
  - unfold step_leaf. discriminate.
  - unfold wf_msg. cbn. discriminate.
Qed.

(* Every message a node steps: whatever it emits carries no term or a term that is not below the
   term the node had before. *)
Theorem step_tex r m r' e : wf_msg m -> step st r m = Ok (r', e) -> tex r r'.
Proof. unfold step. apply step_gen_tex. exact step_inner_tex. Qed.

Lemma local_wf t id : from_leader t = false -> wf_msg (set_from (msg0 t) id).
Proof. intros F. unfold wf_msg. cbn. rewrite F. discriminate. Qed.

Lemma tick_election_tex r r' : tick_election st r = Ok r' -> tex r r'.
Proof.
  unfold tick_election. intros H.
  destruct (promotable _ && _).
  - match type of H with bind ?x _ = _ => destruct x as [[r1 e1]|] eqn:ES end; cbn [bind] in H; [|discriminate].
    inversion H; subst; clear H. cbn [fst]. apply step_tex in ES; [|apply local_wf; reflexivity]. chain.
  - inversion H; subst. frame.
Qed.

Lemma tick_heartbeat_tex r r' : tick_heartbeat st r = Ok r' -> tex r r'.
Proof.
  unfold tick_heartbeat. intros H. cbv beta zeta in H.
  match type of H with bind ?x _ = _ => destruct x as [r1|] eqn:E1; cbn [bind] in H; [|discriminate] end.
  assert (M1 : tex r r1).
  { destruct (_ <=? _) in E1; [|inversion E1; frame].
    match type of E1 with bind ?x _ = _ => destruct x as [r2|] eqn:E2; cbn [bind] in E1; [|discriminate] end.
    assert (M2 : tex r r2).
    { destruct (r_check_quorum _) in E2.
      - match type of E2 with bind ?x _ = _ => destruct x as [[r3 e3]|] eqn:ES end; cbn [bind] in E2; [|discriminate].
        inversion E2; subst; clear E2. cbn [fst]. apply step_tex in ES; [|apply local_wf; reflexivity]. chain.
      - inversion E2; subst. frame. }
    destruct (state_type_eqb (r_state r2) StateLeader && _).
    - unfold applied_to_top in E1. apply (applied_to_tex _ step_inner_tex) in E1. chain.
    - inversion E1; subst. chain. }
  destruct (negb (state_type_eqb (r_state r1) StateLeader)); [inversion H; subst; exact M1|].
  destruct (r_heartbeat_timeout r1 <=? r_heartbeat_elapsed r1); [|inversion H; subst; exact M1].
  match type of H with bind ?x _ = _ => destruct x as [[r3 e3]|] eqn:ES end; cbn [bind] in H; [|discriminate].
  inversion H; subst; clear H. cbn [fst]. apply step_tex in ES; [|apply local_wf; reflexivity]. chain.
Qed.

Theorem tick_tex r r' : tick st r = Ok r' -> tex r r'.
Proof. unfold tick. destruct (r_state r); first [apply tick_election_tex | apply tick_heartbeat_tex]. Qed.

End WithStorage.
End WithT.

(* ---------- the RawNode API and node histories ---------- *)
From RaftV Require Import RaftRouting NodeProps.

(* the node's term is at least T and everything queued for sending satisfies [tok T] *)
Definition tinv (T : N) (rn : rawnode) : Prop :=
  T <= r_term (rn_raft rn) /\
  Forall (tok T) (r_msgs (rn_raft rn)) /\ Forall (tok T) (r_msgs_after_append (rn_raft rn)).

Lemma tex_tinv T rn r' :
  tex T (rn_raft rn) r' -> tinv T rn -> tinv T (rn_with_raft rn r').
Proof.
  intros X (HT & M & A). destruct (X HT) as (T1 & (l & ML & FL) & (k & AK & FK)).
  unfold tinv. cbn. split; [exact T1|]. rewrite ML, AK. split; apply Forall_app; auto.
Qed.

Section NodeLevel.
Variable T : N.
Variable st : memstorage.

Lemma rn_step_tinv rn m rn' e :
  wf_msg m -> rn_step st rn m = Ok (rn', e) -> tinv T rn -> tinv T rn'.
Proof.
  unfold rn_step. intros WF H I.
  destruct (is_local_msg _ && _); [inversion H; subst; exact I|].
  destruct (is_response_msg _ && _ && _); [inversion H; subst; exact I|].
  destruct (step st (rn_raft rn) m) as [[r1 e1]|] eqn:ES; cbn [bind] in H; [|discriminate].
  inversion H; subst; clear H. cbn [fst]. apply (step_tex T) in ES; [|exact WF]. apply tex_tinv; assumption.
Qed.

Lemma rn_raft_step_tinv rn m rn' e :
  wf_msg m -> rn_raft_step st rn m = Ok (rn', e) -> tinv T rn -> tinv T rn'.
Proof.
  unfold rn_raft_step. intros WF H I.
  destruct (step st (rn_raft rn) m) as [[r1 e1]|] eqn:ES; cbn [bind] in H; [|discriminate].
  inversion H; subst; clear H. cbn [fst]. apply (step_tex T) in ES; [|exact WF]. apply tex_tinv; assumption.
Qed.

Lemma rn_tick_tinv rn rn' : rn_tick st rn = Ok rn' -> tinv T rn -> tinv T rn'.
Proof.
  unfold rn_tick. intros H I.
  destruct (tick st (rn_raft rn)) as [r1|] eqn:ET; cbn [bind] in H; [|discriminate].
  inversion H; subst; clear H. apply (tick_tex T) in ET. apply tex_tinv; assumption.
Qed.

Lemma rn_apply_conf_change_tinv rn cc rn' cs :
  rn_apply_conf_change st rn cc = Ok (rn', cs) -> tinv T rn -> tinv T rn'.
Proof.
  unfold rn_apply_conf_change. intros H I.
  destruct (apply_conf_change_raft st (rn_raft rn) cc) as [[r1 c1]|] eqn:EA; cbn [bind] in H; [|discriminate].
  inversion H; subst; clear H. cbn [fst]. apply (apply_conf_change_raft_tex T) in EA. apply tex_tinv; assumption.
Qed.

Lemma step_all_tinv ms : forall r r',
  Forall wf_msg ms -> step_all st r ms = Ok r' -> tex T r r'.
Proof.
  induction ms as [|m ms IH]; intros r r' W H; cbn in H.
  - inversion H; subst. apply tex_refl.
  - inversion W as [|? ? W1 W2]; subst.
    destruct (step st r m) as [[r1 e1]|] eqn:ES; cbn [bind] in H; [|discriminate]. cbn [fst] in H.
    eapply tex_trans; [eapply step_tex; eassumption|apply IH; assumption].
Qed.

Lemma rn_advance_tinv rn rn' :
  inv_rn rn -> rn_advance st rn = Ok rn' -> tinv T rn -> tinv T rn'.
Proof.
  unfold rn_advance, inv_rn. intros [IS _] H I.
  destruct (rn_async rn); [discriminate|].
  destruct (step_all st (rn_raft rn) (rn_steps_on_advance rn)) as [r1|] eqn:ES; cbn [bind] in H; [|discriminate].
  inversion H; subst; clear H.
  apply step_all_tinv in ES; [|eapply Forall_impl; [|exact IS]; intros a; apply nl_wf].
  destruct I as (HT & M & A). destruct (ES HT) as (T1 & (l & ML & FL) & (k & AK & FK)).
  unfold tinv. cbn. split; [exact T1|]. rewrite ML, AK. split; apply Forall_app; auto.
Qed.

(* a Ready: everything it hands to the transport, and every response it attaches to the storage
   write, satisfies [tok T]; afterwards the queues are empty *)
Lemma rn_ready_tinv rn rn' rd :
  rn_ready st rn = Ok (rn', rd) -> tinv T rn ->
  tinv T rn' /\ Forall (tok T) (rd_msgs rd) /\
  (forall sa, rd_append rd = Some sa -> Forall (tok T) (sa_responses sa)).
Proof.
  unfold rn_ready. intros H (HT & M & A).
  destruct (ready_without_accept st rn) as [rd0|] eqn:ER; cbn [bind] in H; [|discriminate].
  destruct (accept_ready st rn rd0) as [rn1|] eqn:EA; cbn [bind] in H; [|discriminate].
  inversion H; subst; clear H.
  split; [|split].
  - (* accept_ready empties both queues and keeps the term *)
    unfold accept_ready in EA. cbv zeta in EA.
    match type of EA with bind ?x _ = _ => destruct x as [steps|]; cbn [bind] in EA; [|discriminate] end.
    match type of EA with bind ?x _ = _ => destruct x as [r2|] eqn:E2; cbn [bind] in EA; [|discriminate] end.
    inversion EA; subst; clear EA. unfold tinv. cbn [rn_raft].
    assert (Q : r_term r2 = r_term (rn_raft rn) /\ r_msgs r2 = [] /\ r_msgs_after_append r2 = []).
    { destruct (last_opt (rd_committed rd)).
      - match type of E2 with bind ?x _ = _ => destruct x as [l|]; cbn [bind] in E2; [|discriminate] end.
        inversion E2; subst. cbn. destruct (rd_read_states rd); auto.
      - inversion E2; subst. cbn. destruct (rd_read_states rd); auto. }
    destruct Q as (Q1 & Q2 & Q3). rewrite Q1, Q2, Q3. auto.
  - unfold ready_without_accept in ER. cbv zeta in ER.
    match type of ER with bind ?x _ = _ => destruct x as [cents|]; cbn [bind] in ER; [|discriminate] end.
    destruct (rn_async rn).
    + match type of ER with bind ?x _ = _ => destruct x as [sa|]; cbn [bind] in ER; [|discriminate] end.
      inversion ER; subst. exact M.
    + inversion ER; subst. cbn. apply Forall_app. split; [exact M|].
      apply Forall_forall. intros x Hx. apply filter_In in Hx. destruct Hx as [Hx _].
      rewrite Forall_forall in A. apply A. exact Hx.
  - intros sa HS. unfold ready_without_accept in ER. cbv zeta in ER.
    match type of ER with bind ?x _ = _ => destruct x as [cents|]; cbn [bind] in ER; [|discriminate] end.
    destruct (rn_async rn).
    + match type of ER with bind ?x _ = _ => destruct x as [sa0|] eqn:ES; cbn [bind] in ER; [|discriminate] end.
      inversion ER; subst; clear ER. cbn in HS. subst sa0.
      destruct (_ || _ || _ || _); [|discriminate].
      match type of ES with bind ?x _ = _ => destruct x as [resps|] eqn:E3; cbn [bind] in ES; [|discriminate] end.
      inversion ES; subst; clear ES. cbn.
      destruct (need_storage_append_resp _ _).
      * match type of E3 with bind ?x _ = _ => destruct x as [m0|] eqn:E4; cbn [bind] in E3; [|discriminate] end.
        inversion E3; subst. apply Forall_app. split; [exact A|].
        constructor; [|constructor]. unfold storage_append_resp in E4.
        match type of E4 with bind ?x _ = _ => destruct x as [idt|]; cbn [bind] in E4; [|discriminate] end.
        inversion E4; subst. left. cbn. exact HT.
      * inversion E3; subst. exact A.
    + inversion ER; subst. discriminate HS.
Qed.

End NodeLevel.

(* every input of one incarnation keeps the invariant, and what a Ready hands out satisfies it *)
Theorem node_step_term T n i d n' out rn :
  n_rn n = Some rn -> inv_rn rn -> tinv T rn -> same_incarnation i = true -> wf_input i ->
  node_step n i d = Ok (n', out) ->
  exists rn', n_rn n' = Some rn' /\ inv_rn rn' /\ tinv T rn' /\
    (forall rd, out = OReady rd ->
       Forall (tok T) (rd_msgs rd) /\
       (forall sa, rd_append rd = Some sa -> Forall (tok T) (sa_responses sa))).
Proof.
  intros Hrn I TI SI W H.
  destruct (node_step_mono _ _ _ _ _ _ Hrn I SI W H) as (rn1 & H1 & I1 & _).
  exists rn1. split; [exact H1|]. split; [exact I1|].
  unfold node_step in H. rewrite Hrn in H.
  set (rn0 := with_draws rn d) in *.
  assert (TI0 : tinv T rn0) by exact TI.
  assert (I0 : inv_rn rn0) by (apply with_draws_inv; exact I).
  destruct i; try discriminate SI; cbn [wf_input] in W.
  all: try (match type of H with bind ?x _ = _ => destruct x as [y|] eqn:E; cbn [bind] in H; [|discriminate] end).
  all: try (match type of y with (_ * _)%type => destruct y as [y1 y2] end).
  all: try (match type of y with ((_ * _) * _)%type => destruct y as [[y1 y2] y3] end).
  all: try (match type of H with (let '(_, _) := ?x in _) = _ => destruct x end).
  all: inversion H; subst; clear H; cbn [n_rn fst snd] in H1.
  all: try (rewrite Hrn in H1).
  all: inversion H1; subst rn1; clear H1.
  all: try (unfold rn_campaign, rn_propose, rn_propose_cc, rn_report_unreachable, rn_report_snapshot,
            rn_transfer_leader, rn_forget_leader, rn_read_index in E).
  all: first
    [ solve [split; [exact TI|intros rd0 Hrd; discriminate Hrd]]
    | solve [split; [eapply rn_tick_tinv; eassumption|intros rd0 Hrd; discriminate Hrd]]
    | solve [inversion E; subst; split; [exact TI0|intros rd0 Hrd; discriminate Hrd]]
    | solve [split; [eapply rn_raft_step_tinv; [|eassumption|exact TI0]; apply nl_wf; reflexivity|intros rd0 Hrd; discriminate Hrd]]
    | solve [split; [eapply rn_apply_conf_change_tinv; eassumption|intros rd0 Hrd; discriminate Hrd]]
    | solve [split; [eapply rn_step_tinv; eassumption|intros rd0 Hrd; discriminate Hrd]]
    | solve [destruct (rn_ready_tinv T _ _ _ _ E TI0) as (A1 & A2 & A3);
             split; [exact A1|intros rd0 Hrd; inversion Hrd; subst; split; assumption]]
    | solve [split; [exact TI0|intros rd0 Hrd; discriminate Hrd]]
    | solve [split; [eapply rn_advance_tinv; eassumption|intros rd0 Hrd; discriminate Hrd]]
    ].
Qed.

Theorem node_run_term T ins : forall n n' rn,
  n_rn n = Some rn -> inv_rn rn -> tinv T rn ->
  Forall (fun id => same_incarnation (fst id) = true /\ wf_input (fst id)) ins ->
  node_run n ins = Ok n' ->
  exists rn', n_rn n' = Some rn' /\ inv_rn rn' /\ tinv T rn'.
Proof.
  induction ins as [|[i d] ins IH]; intros n n' rn Hrn I TI F H; cbn in H.
  - inversion H; subst. exists rn. auto.
  - inversion F as [|? ? [SI W] F']; subst. cbn in SI, W.
    destruct (node_step n i d) as [[n1 o1]|] eqn:E; cbn [bind] in H; [|discriminate]. cbn [fst] in H.
    destruct (node_step_term T _ _ _ _ _ _ Hrn I TI SI W E) as (rn1 & H1 & I1 & T1 & _).
    eapply IH; eassumption.
Qed.

(* ---------- restart ---------- *)

Lemma reset_queues st r term r' :
  reset st r term = Ok r' -> r_msgs r' = r_msgs r /\ r_msgs_after_append r' = r_msgs_after_append r.
Proof.
  unfold reset. intros H.
  destruct (negb (N.eqb (r_term r) term)); inv_ok;
  match goal with E : reset_randomized _ = Ok _ |- _ => unfold reset_randomized in E end; inv_ok; cbn; auto.
Qed.

(* a new incarnation starts with nothing queued, so it satisfies the invariant for its own term,
   which is the term of the persisted hard state (C07_restart) *)
Theorem new_rawnode_tinv st c d rn :
  new_rawnode st c d = Ok rn -> tinv (r_term (rn_raft rn)) rn.
Proof.
  unfold new_rawnode, new_raft. intros H.
  destruct (validate c) as [[[mu mc] mb]|]; [|discriminate]. cbv zeta in H.
  destruct (ms_initial_state st) as [hs cs].
  match type of H with bind (bind ?x _) _ = _ => destruct x as [[lt li]|] eqn:EL; cbn [bind] in H; [|discriminate] end.
  destruct (cc_restore _ _ _) as [[cfg pm]|]; [|discriminate].
  match type of H with bind (bind ?x _) _ = _ => destruct x as [[r1 cs1]|] eqn:ES; cbn [bind] in H; [|discriminate] end.
  destruct (negb (confstate_equiv _ _)); [discriminate|]. cbn [fst] in H.
  assert (Q1 : r_msgs r1 = [] /\ r_msgs_after_append r1 = []).
  { unfold switch_to_config in ES. cbv zeta in ES. cbn [r_state set_r_is_learner set_r_trk] in ES.
    cbn in ES. rewrite andb_false_r in ES. cbn in ES. inversion ES; subst. cbn. auto. }
  match type of H with bind (bind ?x _) _ = _ => destruct x as [r2|] eqn:E2; cbn [bind] in H; [|discriminate] end.
  assert (Q2 : r_msgs r2 = [] /\ r_msgs_after_append r2 = []).
  { destruct hs as [h|]; [|inversion E2; subst; exact Q1].
    destruct (is_empty_hs h); [inversion E2; subst; exact Q1|].
    unfold load_state in E2. destruct (_ || _); [discriminate|]. inversion E2; subst. cbn. exact Q1. }
  match type of H with bind (bind ?x _) _ = _ => destruct x as [r3|] eqn:E3; cbn [bind] in H; [|discriminate] end.
  assert (Q3 : r_msgs r3 = [] /\ r_msgs_after_append r3 = []).
  { destruct (0 <? cfg_applied c).
    - destruct (l_applied_to _ _ _); cbn [bind] in E3; [|discriminate]. inversion E3; subst. cbn. exact Q2.
    - inversion E3; subst. exact Q2. }
  match type of H with bind ?x _ = _ => destruct x as [r4|] eqn:E4; cbn [bind] in H; [|discriminate] end.
  inversion H; subst; clear H. unfold tinv. cbn [rn_raft].
  unfold become_follower in E4. destruct (reset st r3 (r_term r3)) as [r5|] eqn:E5; cbn [bind] in E4; [|discriminate].
  inversion E4; subst. cbn. apply reset_queues in E5. destruct E5 as [A B]. destruct Q3 as [C D].
  rewrite A, B, C, D. split; [lia|]. split; constructor.
Qed.
