(* CheckQuorumEx.v: a concrete leader that meets the hypotheses of check_quorum_steps_down
   (Proofs/CheckQuorumProofs.v): node 1 of three voters is elected with CheckQuorum on (election
   timeout 10) and then only ticks; after 20 ticks it has stepped down. *)
From Coq Require Import List NArith Bool Lia.
From RaftV Require Import Base Types Quorum Progress Tracker Storage Log Raft RawNode Tactics
     RaftMono QuorumProofs CheckQuorumProofs.
Import ListNotations.
Open Scope N_scope.

Definition cq_cfg : rconfig :=
  mkCfg 1 10 1 0 false 1000 0 0 256 0 true false ReadOnlySafe false false false.

Definition cq_boot : list (ninput * list N) :=
  [ (IStApplySnapshot (mkSnapshot 1 1 (mkConfState [1; 2; 3] [] [] [] false) []), []);
    (INew cq_cfg, [3]);
    (ICampaign, [4]);
    (IReady, []);
    (IStSetHardState (mkHS 1 1 1), []);
    (IAdvance, [5]);
    (IStep (mkMsg MsgVoteResp 1 2 1 0 0 [] 0 0 None false 0 []), [6]) ].

Definition cq_node : res nstate := Eval vm_compute in node_run init_node cq_boot.

Definition cq_st : memstorage :=
  Eval vm_compute in match cq_node with Ok n => n_st n | _ => new_memstorage end.

Definition cq_leader : option raft :=
  Eval vm_compute in match cq_node with
                     | Ok n => match n_rn n with Some rn => Some (set_r_draws (rn_raft rn) [3; 3; 3]) | None => None end
                     | _ => None end.

Definition cq_ops : list lop := repeat LTick 20.

Definition cq_final : option (state_type * N) :=
  Eval vm_compute in
    match cq_leader with
    | Some r => match lrun cq_st r cq_ops with Ok rf => Some (r_state rf, r_term rf) | _ => None end
    | None => None
    end.

(* alone, node 1 is not a quorum of {1, 2, 3} *)
Lemma cq_no_quorum r : r_id r = 1 -> t_config (r_trk r) = mkConfig [1; 2; 3] [] false [] [] -> no_quorum r [].
Proof.
  intros ID CF votes HV W. rewrite CF in W. cbn [c_voters c_outgoing] in W.
  apply joint_vote_spec in W. destruct W as [[W|W] _]; [discriminate|].
  unfold yes_majority, count_yes in W. cbn [filter length] in W.
  assert (N2 : match alookup votes 2 with Some true => true | _ => false end = false).
  { destruct (alookup votes 2) as [[|]|] eqn:E; try reflexivity. destruct (HV _ E) as [X|[]]. rewrite ID in X. discriminate. }
  assert (N3 : match alookup votes 3 with Some true => true | _ => false end = false).
  { destruct (alookup votes 3) as [[|]|] eqn:E; try reflexivity. destruct (HV _ E) as [X|[]]. rewrite ID in X. discriminate. }
  rewrite N2, N3 in W. destruct (match alookup votes 1 with Some true => true | _ => false end); cbn in W; lia.
Qed.

(* the theorem applies to this leader and this sequence of 20 ticks, and the run does end with the
   node a follower of the same term *)
Example check_quorum_nonvacuous :
  exists st r ops rf,
    r_state r = StateLeader /\ r_check_quorum r = true /\ r_lead r <> NoneId /\
    1 <= r_election_timeout r /\ no_quorum r [] /\ ops_ok r [] ops /\
    lrun st r ops = Ok rf /\ 2 * r_election_timeout r <= ticks ops /\
    r_state rf = StateFollower /\ left_term st r ops.
Proof.
  destruct cq_leader as [r|] eqn:ER; [|discriminate ER].
  unfold cq_leader in ER. inversion ER as [ER']. clear ER.
  destruct (lrun cq_st r cq_ops) as [rf|] eqn:EL; [|rewrite <- ER' in EL; vm_compute in EL; discriminate EL].
  assert (SF : r_state rf = StateFollower).
  { rewrite <- ER' in EL. vm_compute in EL. inversion EL. reflexivity. }
  assert (H1 : r_state r = StateLeader) by (rewrite <- ER'; reflexivity).
  assert (H2 : r_check_quorum r = true) by (rewrite <- ER'; reflexivity).
  assert (H3 : r_lead r <> NoneId) by (rewrite <- ER'; cbn; discriminate).
  assert (H4 : 1 <= r_election_timeout r) by (rewrite <- ER'; cbn; lia).
  assert (H5 : no_quorum r []) by (apply cq_no_quorum; rewrite <- ER'; reflexivity).
  assert (H6 : ops_ok r [] cq_ops) by (unfold ops_ok, cq_ops; cbn; repeat constructor).
  assert (H7 : 2 * r_election_timeout r <= ticks cq_ops) by (rewrite <- ER'; vm_compute; discriminate).
  exists cq_st, r, cq_ops, rf. repeat split; try assumption.
  eapply check_quorum_steps_down; eassumption.
Qed.

(* Without the exclusion of leadership-transfer requests the statement is false of the model (and
   of the code: corpus/f13_transfer_postpones_checkquorum.sched replays it on real RawNodes): the
   same cut-off leader is asked to transfer leadership to node 2, then five ticks later to node 3,
   and so on; every accepted request restarts its election timer, the check never fires, and after
   30 ticks (three election timeouts) it still leads its term.  Finding F13. *)
Definition xfer (to : N) : lop := LStep (set_from (msg0 MsgTransferLeader) to).
Definition cq_ops_xfer : list lop :=
  let five := repeat LTick 5 in
  (xfer 2 :: five) ++ (xfer 3 :: five) ++ (xfer 2 :: five) ++ (xfer 3 :: five) ++ (xfer 2 :: five) ++ (xfer 3 :: five).

Example check_quorum_unrestricted_refuted :
  exists st r ops rf,
    r_state r = StateLeader /\ r_check_quorum r = true /\ r_lead r <> NoneId /\
    1 <= r_election_timeout r /\ no_quorum r [] /\
    Forall (fun o => match o with LTick => True | LStep m => marks m = false end) ops /\
    lrun st r ops = Ok rf /\ 2 * r_election_timeout r <= ticks ops /\
    ~ left_term st r ops.
Proof.
  destruct cq_leader as [r|] eqn:ER; [|discriminate ER].
  unfold cq_leader in ER. inversion ER as [ER']. clear ER.
  destruct (lrun cq_st r cq_ops_xfer) as [rf|] eqn:EL; [|rewrite <- ER' in EL; vm_compute in EL; discriminate EL].
  exists cq_st, r, cq_ops_xfer, rf.
  split; [rewrite <- ER'; reflexivity|].
  split; [rewrite <- ER'; reflexivity|].
  split; [rewrite <- ER'; cbn; discriminate|].
  split; [rewrite <- ER'; cbn; lia|].
  split; [apply cq_no_quorum; rewrite <- ER'; reflexivity|].
  split; [unfold cq_ops_xfer; cbn; repeat constructor|].
  split; [exact EL|].
  split; [rewrite <- ER'; vm_compute; discriminate|].
  apply stays_not_left. rewrite <- ER'. vm_compute. reflexivity.
Qed.
