(* TickProofs.v: the tick of a leader that gives up a leadership transfer (F7 repair). *)
From Coq Require Import List NArith Bool Lia.
From RaftV Require Import Base Types Quorum Progress Tracker Storage Log Raft RawNode Tactics.
Import ListNotations.
Open Scope N_scope.

Local Arguments step_inner : simpl never.
Local Arguments step : simpl never.
Local Arguments l_applied_to : simpl never.

Section WithStorage.
Variable st : memstorage.

(* the F7 repair: in an auto-leave joint configuration whose changes are all applied, the tick that
   gives up a pending leadership transfer (election timeout) goes on to step the proposal that
   leaves the joint configuration, on the state in which the transfer is already aborted *)
Theorem transfer_abort_retries_auto_leave r r' :
  r_state r = StateLeader -> r_check_quorum r = false ->
  c_auto_leave (t_config (r_trk r)) = true -> r_pending_conf_index r <= l_applied (r_log r) ->
  r_lead_transferee r <> NoneId ->
  r_election_timeout r <= r_election_elapsed r + 1 ->
  tick_heartbeat st r = Ok r' ->
  let r0 := set_r_lead_transferee
              (set_r_election_elapsed (set_r_election_elapsed (set_r_heartbeat_elapsed r (r_heartbeat_elapsed r + 1))
                                                              (r_election_elapsed r + 1)) 0) NoneId in
  exists l x,
    l_applied_to (r_log r0) (l_applied (r_log r0)) 0 = Ok l /\
    step_inner st (set_r_log r0 l) leave_joint_prop = Ok x /\
    r_lead_transferee (set_r_log r0 l) = NoneId.
Proof.
  intros S CQ AL PC XF E H. unfold tick_heartbeat in H. cbv zeta in H. cbn in H. rewrite CQ in H.
  apply N.leb_le in E. rewrite E in H. cbn in H. rewrite S in H. cbn in H.
  assert (X : negb (N.eqb (r_lead_transferee r) NoneId) = true) by (apply negb_true_iff, N.eqb_neq; exact XF).
  rewrite X in H. cbn in H.
  unfold applied_to_top, applied_to in H. cbn in H.
  rewrite (N.max_id (l_applied (r_log r))) in H.
  destruct (l_applied_to (r_log r) (l_applied (r_log r)) 0) as [l|] eqn:LA; cbn [bind] in H; [|discriminate].
  cbn in H. rewrite AL, S in H. cbn in H.
  assert (PL : (r_pending_conf_index r <=? l_applied (r_log r)) = true) by (apply N.leb_le; exact PC).
  rewrite PL in H. cbn in H.
  match type of H with bind (bind ?y _) _ = _ => destruct y as [x|] eqn:SX; cbn [bind] in H; [|discriminate] end.
  exists l, x. cbn. split; [exact LA|]. split; [exact SX|reflexivity].
Qed.

End WithStorage.

(* ---------- the election timer of a node that is not leader (C15) ---------- *)
Section Election.
Variable st : memstorage.

Local Arguments step : simpl never.

(* a tick before the randomized timeout only advances the timer *)
Theorem tick_election_counts r r' :
  r_state r <> StateLeader -> r_election_elapsed r + 1 < r_randomized_election_timeout r ->
  tick st r = Ok r' -> r' = set_r_election_elapsed r (r_election_elapsed r + 1).
Proof.
  intros NL LT H. unfold tick in H.
  assert (TE : tick_election st r = Ok r') by (destruct (r_state r); try exact H; congruence).
  unfold tick_election in TE. cbn [r_randomized_election_timeout r_election_elapsed set_r_election_elapsed] in TE.
  apply N.leb_gt in LT. rewrite LT in TE. rewrite andb_false_r in TE. inversion TE. reflexivity.
Qed.

Lemma campaign_state r t r' :
  campaign st r t = Ok r' ->
  r_state r' = match t with CampaignPreElection => StatePreCandidate | _ => StateCandidate end.
Proof.
  unfold campaign. intros H.
  match type of H with bind ?x _ = _ => destruct x as [[[r1 vm] term]|] eqn:E1; cbn [bind] in H; [|discriminate] end.
  assert (S1 : r_state r1 = match t with CampaignPreElection => StatePreCandidate | _ => StateCandidate end).
  { destruct t.
    - unfold become_pre_candidate in E1. destruct (state_type_eqb _ _); [discriminate|]. cbn [bind] in E1. inversion E1; reflexivity.
    - destruct (become_candidate st r) as [r2|] eqn:E2; cbn [bind] in E1; [|discriminate]. inversion E1; subst.
      unfold become_candidate in E2. destruct (state_type_eqb _ _); [discriminate|].
      destruct (reset st r (r_term r + 1)); cbn [bind] in E2; [|discriminate]. inversion E2; reflexivity.
    - destruct (become_candidate st r) as [r2|] eqn:E2; cbn [bind] in E1; [|discriminate]. inversion E1; subst.
      unfold become_candidate in E2. destruct (state_type_eqb _ _); [discriminate|].
      destruct (reset st r (r_term r + 1)); cbn [bind] in E2; [|discriminate]. inversion E2; reflexivity. }
  destruct (l_last_entry_id st (r_log r1)) as [last|]; cbn [bind] in H; [|discriminate].
  rewrite <- S1. clear S1 E1. revert H.
  generalize (voter_ids (t_config (r_trk r1))) as ids.
  intros ids. revert r1.
  induction ids as [|id ids IH]; intros r1 H; cbn in H.
  - inversion H; reflexivity.
  - match type of H with bind ?x _ = _ => destruct x as [r2|] eqn:E2; cbn [bind] in H; [|discriminate] end.
    apply IH in H. rewrite H.
    destruct (N.eqb id (r_id r1)); unfold send in E2; inv_ok; reflexivity.
Qed.

(* when the randomized election timeout runs out, a node that may campaign (a voter with no
   snapshot pending and no committed configuration change waiting to be applied) does: it is a
   pre-candidate (PreVote) or a candidate afterwards *)
Theorem election_timeout_fires r r' :
  r_state r <> StateLeader ->
  r_randomized_election_timeout r <= r_election_elapsed r + 1 ->
  promotable r = true -> has_unapplied_conf_changes st r = Ok false ->
  tick st r = Ok r' ->
  r_state r' = if r_pre_vote r then StatePreCandidate else StateCandidate.
Proof.
  intros NL LE PR HU H. unfold tick in H.
  assert (TE : tick_election st r = Ok r') by (destruct (r_state r); try exact H; congruence).
  clear H. unfold tick_election in TE.
  set (r0 := set_r_election_elapsed r (r_election_elapsed r + 1)) in *.
  assert (P0 : promotable r0 = true) by exact PR.
  rewrite P0 in TE. apply N.leb_le in LE.
  change (r_randomized_election_timeout r0 <=? r_election_elapsed r0) with
         (r_randomized_election_timeout r <=? r_election_elapsed r + 1) in TE.
  rewrite LE in TE. cbn [andb] in TE.
  match type of TE with bind ?x _ = _ => destruct x as [[r2 e2]|] eqn:ES; cbn [bind] in TE; [|discriminate] end.
  inversion TE; subst; clear TE. cbn [fst].
  unfold step, step_gen, step_preamble in ES. cbn [m_term set_from msg0 N.eqb bind negb] in ES.
  unfold step_dispatch in ES. cbn [m_type set_from msg0] in ES.
  set (r1 := set_r_election_elapsed r0 0) in *.
  match type of ES with bind ?x _ = _ => destruct x as [r3|] eqn:EH; cbn [bind] in ES; [|discriminate] end.
  inversion ES; subst; clear ES.
  unfold hup in EH.
  assert (S1 : state_type_eqb (r_state r1) StateLeader = false).
  { change (r_state r1) with (r_state r). destruct (r_state r); try reflexivity. congruence. }
  rewrite S1 in EH.
  change (promotable r1) with (promotable r) in EH. rewrite PR in EH. cbn [negb] in EH.
  change (has_unapplied_conf_changes st r1) with (has_unapplied_conf_changes st r) in EH.
  rewrite HU in EH. cbn [bind] in EH.
  apply campaign_state in EH. rewrite EH.
  change (r_pre_vote r1) with (r_pre_vote r). destruct (r_pre_vote r); reflexivity.
Qed.

(* a node that cannot campaign (a learner, a node outside the configuration, a node with a snapshot
   pending) never restarts its election timer by itself: every tick only advances it, so the
   CheckQuorum lease of a leader it no longer hears from runs out *)
Theorem nonpromotable_timer_counts r r' :
  r_state r <> StateLeader -> promotable r = false ->
  tick st r = Ok r' -> r' = set_r_election_elapsed r (r_election_elapsed r + 1).
Proof.
  intros NL NP H. unfold tick in H.
  assert (TE : tick_election st r = Ok r') by (destruct (r_state r); try exact H; congruence).
  unfold tick_election in TE.
  change (promotable (set_r_election_elapsed r (r_election_elapsed r + 1))) with (promotable r) in TE.
  rewrite NP in TE. cbn [andb] in TE. inversion TE. reflexivity.
Qed.

End Election.
