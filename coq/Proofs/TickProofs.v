(* TickProofs.v: the tick of a leader that gives up a leadership transfer (F7 repair). *)
From Coq Require Import List NArith Bool Lia.
From RaftV Require Import Base Types Quorum Progress Tracker Storage Log Raft RawNode Tactics.
Import ListNotations.
Open Scope N_scope.

Local Arguments step_inner : simpl never.
Local Arguments step : simpl never.
Local Arguments l_applied_to : simpl never.

Section WithStorage.
Variable st : memstorage.

(* the F7 repair: in an auto-leave joint configuration whose changes are all applied, the tick that
   gives up a pending leadership transfer (election timeout) goes on to step the proposal that
   leaves the joint configuration, on the state in which the transfer is already aborted *)
Theorem transfer_abort_retries_auto_leave r r' :
  r_state r = StateLeader -> r_check_quorum r = false ->
  c_auto_leave (t_config (r_trk r)) = true -> r_pending_conf_index r <= l_applied (r_log r) ->
  r_lead_transferee r <> NoneId ->
  r_election_timeout r <= r_election_elapsed r + 1 ->
  tick_heartbeat st r = Ok r' ->
  let r0 := set_r_lead_transferee
              (set_r_election_elapsed (set_r_election_elapsed (set_r_heartbeat_elapsed r (r_heartbeat_elapsed r + 1))
                                                              (r_election_elapsed r + 1)) 0) NoneId in
  exists l x,
    l_applied_to (r_log r0) (l_applied (r_log r0)) 0 = Ok l /\
    step_inner st (set_r_log r0 l) leave_joint_prop = Ok x /\
    r_lead_transferee (set_r_log r0 l) = NoneId.
Proof.
  intros S CQ AL PC XF E H. unfold tick_heartbeat in H. cbv zeta in H. cbn in H. rewrite CQ in H.
  apply N.leb_le in E. rewrite E in H. cbn in H. rewrite S in H. cbn in H.
  assert (X : negb (N.eqb (r_lead_transferee r) NoneId) = true) by (apply negb_true_iff, N.eqb_neq; exact XF).
  rewrite X in H. cbn in H.
  unfold applied_to_top, applied_to in H. cbn in H.
  rewrite (N.max_id (l_applied (r_log r))) in H.
  destruct (l_applied_to (r_log r) (l_applied (r_log r)) 0) as [l|] eqn:LA; cbn [bind] in H; [|discriminate].
  cbn in H. rewrite AL, S in H. cbn in H.
  assert (PL : (r_pending_conf_index r <=? l_applied (r_log r)) = true) by (apply N.leb_le; exact PC).
  rewrite PL in H. cbn in H.
  match type of H with bind (bind ?y _) _ = _ => destruct y as [x|] eqn:SX; cbn [bind] in H; [|discriminate] end.
  exists l, x. cbn. split; [exact LA|]. split; [exact SX|reflexivity].
Qed.

End WithStorage.
