(* RestoreRefine.v: an accepted snapshot leaves the node with exactly the snapshot's index, term and
   membership as its new log base. *)
From Coq Require Import List NArith Bool Lia Arith.
From RaftV Require Import Base Types Quorum Progress Tracker Storage Log Raft Tactics LogProofs AppendRefine.
Import ListNotations.
Open Scope N_scope.

Theorem restore_installs_snapshot st r s r' :
  restore st r s = Ok (r', true) ->
  r_log r' = l_restore (r_log r) s /\
  lview st (r_log r') = mkAbs (s_index s) (s_term s) [] /\
  l_committed (r_log r') = s_index s /\
  confstate_equiv (s_conf s) (conf_state (t_config (r_trk r'))) = true /\
  r_state r' = StateFollower.
Proof.
  unfold restore. intros H.
  destruct (s_index s <=? l_committed (r_log r)); [discriminate|].
  destruct (state_type_eqb (r_state r) StateFollower) eqn:SF; cbn [negb] in H.
  2:{ destruct (become_follower st r (r_term r + 1) NoneId); cbn [bind] in H; discriminate. }
  destruct (negb _); [discriminate|].
  destruct (l_match_term st (r_log r) (s_index s) (s_term s)).
  { destruct (l_commit_to st (r_log r) (s_index s)); cbn [bind] in H; discriminate. }
  cbv zeta in H.
  match type of H with match ?x with _ => _ end = _ => destruct x as [[cfg pm]|] eqn:CR; [|discriminate] end.
  match type of H with bind ?x _ = _ => destruct x as [[r2 cs2]|] eqn:SW; cbn [bind] in H; [|discriminate] end.
  cbn [fst snd] in H.
  destruct (confstate_equiv (s_conf s) cs2) eqn:CE; [|discriminate]. inversion H; subst r2; clear H.
  assert (ST : r_state r = StateFollower) by (destruct (r_state r); cbn in SF; congruence).
  unfold switch_to_config in SW. cbv zeta in SW. cbn [r_state set_r_is_learner set_r_trk set_r_log] in SW.
  rewrite ST in SW. cbn in SW. rewrite andb_false_r in SW. cbn in SW. inversion SW; subst; clear SW.
  cbn. repeat split; auto.
Qed.

Print Assumptions restore_installs_snapshot.
