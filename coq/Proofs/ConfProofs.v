(* ConfProofs.v: the configuration algebra keeps its invariants (C13). *)
From Coq Require Import List NArith Bool Lia.
From RaftV Require Import Base Types Quorum Progress Tracker Tactics.
Import ListNotations.
Open Scope N_scope.

Lemma smem_In s k : smem s k = true <-> In k s.
Proof.
  induction s as [|x s IH]; cbn; [split; [discriminate|tauto]|].
  destruct (N.eqb_spec k x); [split; auto|]. rewrite IH. split; [auto|]. intros [H|H]; [congruence|exact H].
Qed.

Lemma sinsert_In s k x : In x (sinsert s k) <-> x = k \/ In x s.
Proof.
  induction s as [|y s IH]; cbn; [intuition auto|].
  destruct (N.eqb_spec k y); [subst; cbn; intuition auto|].
  destruct (N.ltb k y); cbn; [intuition auto|]. rewrite IH. intuition auto.
Qed.

Lemma fold_sinsert_In l : forall acc x, In x (fold_left sinsert l acc) <-> In x acc \/ In x l.
Proof.
  induction l as [|y l IH]; intros acc x; cbn; [tauto|]. rewrite IH, sinsert_In. intuition auto.
Qed.

Lemma joint_ids_In c0 c1 x : In x (joint_ids c0 c1) <-> In x c0 \/ In x c1.
Proof. unfold joint_ids, sunion. rewrite !fold_sinsert_In. cbn. tauto. Qed.

(* the invariants of C13 as a proposition *)
Definition cfg_wf (c : config) (p : progress_map) : Prop :=
  (forall id, In id (c_voters c) \/ In id (c_outgoing c) \/ In id (c_learners c) \/ In id (c_learners_next c) ->
              amem p id = true) /\
  (forall id, In id (c_learners_next c) ->
              In id (c_outgoing c) /\ exists pr, alookup p id = Some pr /\ pr_is_learner pr = false) /\
  (forall id, In id (c_learners c) ->
              ~ In id (c_outgoing c) /\ ~ In id (c_voters c) /\
              exists pr, alookup p id = Some pr /\ pr_is_learner pr = true) /\
  (c_outgoing c = [] -> c_learners_next c = [] /\ c_auto_leave c = false).

Lemma nlen_zero {A} (l : list A) : N.eqb (nlen l) 0 = true <-> l = [].
Proof.
  unfold nlen. destruct l; [cbn; tauto|]. split; [|discriminate]. intros H. apply N.eqb_eq in H. cbn [length] in H. lia.
Qed.

(* checkInvariants accepts exactly well-formed configurations (soundness direction) *)
Theorem check_invariants_sound c p : check_invariants c p = true -> cfg_wf c p.
Proof.
  unfold check_invariants, cfg_wf. intros H.
  apply andb_true_iff in H. destruct H as [H C6].
  apply andb_true_iff in H. destruct H as [H C5].
  apply andb_true_iff in H. destruct H as [H C4].
  apply andb_true_iff in H. destruct H as [H C3].
  apply andb_true_iff in H. destruct H as [C1 C2].
  rewrite forallb_forall in C1, C2, C3, C4, C5. unfold has_progress in *.
  split; [|split; [|split]].
  - intros id Hid. destruct Hid as [Hid|[Hid|[Hid|Hid]]]; auto.
    + apply C1. unfold voter_ids. apply joint_ids_In. auto.
    + apply C1. unfold voter_ids. apply joint_ids_In. auto.
  - intros id Hid. specialize (C4 _ Hid). apply andb_true_iff in C4. destruct C4 as [A B]. split.
    + apply smem_In. exact A.
    + destruct (alookup p id) as [pr|]; [|discriminate]. exists pr. split; [reflexivity|].
      apply negb_true_iff. exact B.
  - intros id Hid. specialize (C5 _ Hid). apply andb_true_iff in C5. destruct C5 as [A B].
    apply andb_true_iff in A. destruct A as [A1 A2]. apply negb_true_iff in A1, A2. repeat split.
    + intros I. apply smem_In in I. congruence.
    + intros I. apply smem_In in I. congruence.
    + destruct (alookup p id) as [pr|]; [|discriminate]. exists pr. split; [reflexivity|exact B].
  - intros E. unfold joint in C6. rewrite E in C6. cbn in C6. apply andb_true_iff in C6. destruct C6 as [A B].
    split; [apply nlen_zero; exact A|apply negb_true_iff; exact B].
Qed.

Lemma check_and_return_ok c p c' p' : check_and_return c p = inl (c', p') -> c' = c /\ p' = p /\ check_invariants c p = true.
Proof. unfold check_and_return. destruct (check_invariants c p); intros H; inversion H; auto. Qed.

(* apply keeps at least one incoming voter *)
Lemma cc_apply_keeps_voter mi mb li ccs : forall c p c' p',
  cc_apply mi mb li c p ccs = inl (c', p') -> c_voters c' <> [].
Proof.
  induction ccs as [|cc ccs IH]; intros c p c' p' H; cbn in H.
  - destruct (N.eqb (nlen (c_voters c)) 0) eqn:Z; [discriminate|]. inversion H; subst.
    intros E. rewrite E in Z. cbn in Z. discriminate.
  - destruct (N.eqb (ccs_node cc) 0); [eapply IH; exact H|].
    destruct (ccs_type cc); try discriminate;
      repeat match type of H with (let '(_, _) := ?x in _) = _ => destruct x end; eapply IH; exact H.
Qed.

(* Every accepted Simple / EnterJoint / LeaveJoint change yields a configuration that
   satisfies the invariants and keeps an incoming voter; Simple changes the incoming voter
   set by at most one element. *)
Theorem changer_simple_ok t li ccs c p :
  changer_simple t li ccs = inl (c, p) ->
  cfg_wf c p /\ c_voters c <> [] /\ symdiff (c_voters (t_config t)) (c_voters c) <= 1 /\
  cfg_wf (cfg_clone (t_config t)) (t_progress t).
Proof.
  unfold changer_simple. intros H.
  destruct (check_and_return (cfg_clone (t_config t)) (t_progress t)) as [[c0 p0]|] eqn:E0; [|discriminate].
  apply check_and_return_ok in E0. destruct E0 as (-> & -> & I0).
  destruct (joint _); [discriminate|].
  destruct (cc_apply _ _ _ _ _ _) as [[c2 p2]|] eqn:EA; [|discriminate].
  destruct (1 <? symdiff _ _) eqn:SD; [discriminate|].
  apply check_and_return_ok in H. destruct H as (-> & -> & I2).
  split; [apply check_invariants_sound; assumption|].
  split; [eapply cc_apply_keeps_voter; exact EA|].
  split; [apply N.ltb_ge in SD; exact SD|apply check_invariants_sound; assumption].
Qed.

Theorem changer_enter_joint_ok t li al ccs c p :
  changer_enter_joint t li al ccs = inl (c, p) ->
  cfg_wf c p /\ c_voters c <> [] /\ c_outgoing c = c_voters (t_config t) /\ c_outgoing c <> [] /\
  c_auto_leave c = al.
Proof.
  unfold changer_enter_joint. intros H.
  destruct (check_and_return (cfg_clone (t_config t)) (t_progress t)) as [[c0 p0]|] eqn:E0; [|discriminate].
  apply check_and_return_ok in E0. destruct E0 as (-> & -> & I0).
  destruct (joint _); [discriminate|].
  destruct (N.eqb (nlen (c_voters (cfg_clone (t_config t)))) 0) eqn:Z; [discriminate|].
  destruct (cc_apply _ _ _ _ _ _) as [[c2 p2]|] eqn:EA; [|discriminate].
  apply check_and_return_ok in H. destruct H as (-> & -> & I2).
  assert (OUT : forall ccs c p c' p', cc_apply (t_max_inflight t) (t_max_inflight_bytes t) li c p ccs = inl (c', p') -> c_outgoing c' = c_outgoing c).
  { clear. induction ccs as [|cc ccs IH]; intros c p c' p' H; cbn in H.
    - destruct (N.eqb _ 0); [discriminate|]. inversion H; reflexivity.
    - destruct (N.eqb (ccs_node cc) 0); [eapply IH; exact H|].
      destruct (ccs_type cc); try discriminate.
      + unfold make_voter in H. destruct (alookup p (ccs_node cc)); cbn in H; apply IH in H; rewrite H;
          unfold init_progress; reflexivity.
      + unfold cc_remove in H. destruct (negb _); [apply IH in H; exact H|].
        destruct (smem _ _); apply IH in H; rewrite H; reflexivity.
      + eapply IH; exact H.
      + unfold make_learner in H. destruct (alookup p (ccs_node cc)) as [pr|]; cbn in H.
        * destruct (pr_is_learner pr); [apply IH in H; exact H|].
          unfold cc_remove in H. destruct (negb _); cbn in H.
          -- destruct (smem _ _); apply IH in H; rewrite H; reflexivity.
          -- destruct (smem (c_outgoing c) (ccs_node cc)) eqn:SM; cbn in H; rewrite ?SM in H; cbn in H;
               apply IH in H; rewrite H; reflexivity.
        * apply IH in H. rewrite H. reflexivity. }
  apply OUT in EA as EO. cbn in EO.
  split; [apply check_invariants_sound; assumption|]. cbn.
  split; [eapply cc_apply_keeps_voter; exact EA|].
  split; [exact EO|]. split; [|reflexivity].
  rewrite EO. intros E. cbn in Z. rewrite E in Z. cbn in Z. discriminate.
Qed.

Theorem changer_leave_joint_ok t c p :
  changer_leave_joint t = inl (c, p) ->
  cfg_wf c p /\ c_voters c = c_voters (t_config t) /\ c_outgoing c = [] /\ c_learners_next c = [] /\
  c_auto_leave c = false /\ c_outgoing (t_config t) <> [].
Proof.
  unfold changer_leave_joint. intros H.
  destruct (check_and_return (cfg_clone (t_config t)) (t_progress t)) as [[c0 p0]|] eqn:E0; [|discriminate].
  apply check_and_return_ok in E0. destruct E0 as (-> & -> & I0).
  destruct (negb (joint _)) eqn:J; [discriminate|].
  apply check_and_return_ok in H. destruct H as (-> & -> & I2).
  split; [apply check_invariants_sound; assumption|]. cbn.
  repeat (split; [reflexivity|]).
  apply negb_false_iff in J. unfold joint in J. cbn in J. intros E. rewrite E in J. cbn in J. discriminate.
Qed.


(* confchange.Restore: whatever it accepts is a well-formed configuration with a voter, joint
   exactly when the ConfState names outgoing voters (the set-level round-trip is decided by the
   tie: closure of the configuration graph in the pure stream) *)

Lemma cc_apply_outgoing mi mb li : forall ccs c p c' p',
  cc_apply mi mb li c p ccs = inl (c', p') -> c_outgoing c' = c_outgoing c.
Proof.
  induction ccs as [|cc ccs IH]; intros c p c' p' H; cbn in H.
  - destruct (N.eqb _ 0); [discriminate|]. inversion H; reflexivity.
  - destruct (N.eqb (ccs_node cc) 0); [eapply IH; exact H|].
    destruct (ccs_type cc); try discriminate.
    + unfold make_voter in H. destruct (alookup p (ccs_node cc)); cbn in H; apply IH in H; rewrite H;
        unfold init_progress; reflexivity.
    + unfold cc_remove in H. destruct (negb _); [apply IH in H; exact H|].
      destruct (smem _ _); apply IH in H; rewrite H; reflexivity.
    + eapply IH; exact H.
    + unfold make_learner in H. destruct (alookup p (ccs_node cc)) as [pr|]; cbn in H.
      * destruct (pr_is_learner pr); [apply IH in H; exact H|].
        unfold cc_remove in H. destruct (negb _); cbn in H.
        -- destruct (smem _ _); apply IH in H; rewrite H; reflexivity.
        -- destruct (smem (c_outgoing c) (ccs_node cc)) eqn:SM; cbn in H; rewrite ?SM in H; cbn in H;
             apply IH in H; rewrite H; reflexivity.
      * apply IH in H. rewrite H. reflexivity.
Qed.

Lemma changer_simple_nonjoint t li ccs c p :
  changer_simple t li ccs = inl (c, p) -> c_outgoing c = [].
Proof.
  unfold changer_simple. intros H.
  destruct (check_and_return (cfg_clone (t_config t)) (t_progress t)) as [[c0 p0]|] eqn:E0; [|discriminate].
  apply check_and_return_ok in E0. destruct E0 as (-> & -> & I0).
  destruct (joint _) eqn:J; [discriminate|].
  destruct (cc_apply _ _ _ _ _ _) as [[c2 p2]|] eqn:EA; [|discriminate].
  destruct (1 <? symdiff _ _) eqn:SD; [discriminate|].
  apply check_and_return_ok in H. destruct H as (-> & -> & I2).
  apply cc_apply_outgoing in EA. rewrite EA.
  unfold joint in J. apply negb_false_iff in J. apply nlen_zero in J. exact J.
Qed.

Lemma chain_simple_ok li : forall ccs t t',
  chain_simple t li ccs = inl t' -> ccs <> [] ->
  cfg_wf (t_config t') (t_progress t') /\ c_voters (t_config t') <> [] /\ c_outgoing (t_config t') = [].
Proof.
  induction ccs as [|cc rest IH]; intros t t' H NE; [congruence|].
  cbn [chain_simple] in H.
  destruct (changer_simple t li [cc]) as [[c p]|e] eqn:E; [|discriminate].
  destruct rest as [|cc2 rest2].
  - cbn in H. inversion H; subst. cbn. apply changer_simple_nonjoint in E as NJ. apply changer_simple_ok in E. tauto.
  - eapply IH; [exact H|discriminate].
Qed.

Theorem restore_ok t li cs c p :
  cc_restore t li cs = inl (c, p) -> cs_voters cs <> [] ->
  cfg_wf c p /\ c_voters c <> [] /\
  (cs_voters_outgoing cs <> [] -> c_outgoing c <> [] /\ c_auto_leave c = cs_auto_leave cs) /\
  (cs_voters_outgoing cs = [] -> c_outgoing c = [] /\ c_learners_next c = [] /\ c_auto_leave c = false).
Proof.
  unfold cc_restore, to_cc_single. intros H NV.
  destruct (cs_voters_outgoing cs) as [|o os] eqn:EO; cbn [map app] in H.
  - destruct (chain_simple t li _) as [t'|e] eqn:EC; [|discriminate]. inversion H; subst.
    apply chain_simple_ok in EC.
    + destruct EC as (W & V & NJ). split; [exact W|]. split; [exact V|]. split; [congruence|].
      intros _. split; [exact NJ|]. destruct W as (_ & _ & _ & W4). apply W4 in NJ. tauto.
    + destruct (cs_voters cs); [congruence|discriminate].
  - destruct (chain_simple t li _) as [t'|e] eqn:EC; [|discriminate].
    apply changer_enter_joint_ok in H. destruct H as (W & V & O & ON & AL).
    split; [exact W|]. split; [exact V|]. split; [intros _; split; assumption|congruence].
Qed.

(* non-vacuity: a joint ConfState with a demoted voter restores from the empty tracker, the
   result satisfies checkInvariants and serializes back to an equivalent ConfState *)
Example restore_ok_somewhere :
  match cc_restore (make_tracker 4 0) 10 (mkConfState [1;2;3] [4] [1;2;5] [5] true) with
  | inl (c, p) => confstate_equiv (conf_state c) (mkConfState [1;2;3] [4] [1;2;5] [5] true) && check_invariants c p
  | inr _ => false
  end = true.
Proof. vm_compute. reflexivity. Qed.

Lemma add_voter_simple t li id c p :
  changer_simple t li [mkCCS CCAddNode id] = inl (c, p) ->
  forall x, In x (c_voters c) <-> (x = id /\ id <> 0) \/ In x (c_voters (t_config t)).
Proof.
  unfold changer_simple. intros H x.
  destruct (check_and_return (cfg_clone (t_config t)) (t_progress t)) as [[c0 p0]|] eqn:E0; [|discriminate].
  apply check_and_return_ok in E0. destruct E0 as (-> & -> & I0).
  destruct (joint _) eqn:J; [discriminate|].
  destruct (cc_apply _ _ _ _ _ _) as [[c2 p2]|] eqn:EA; [|discriminate].
  destruct (1 <? symdiff _ _) eqn:SD; [discriminate|].
  apply check_and_return_ok in H. destruct H as (-> & -> & I2).
  cbn [cc_apply ccs_node ccs_type] in EA.
  destruct (N.eqb_spec id 0) as [Z|NZ].
  - destruct (N.eqb _ 0); [discriminate|]. inversion EA; subst. cbn. intuition congruence.
  - unfold make_voter in EA. destruct (alookup (t_progress t) id); unfold init_progress in EA; cbn in EA;
      (destruct (N.eqb _ 0); [discriminate|]); inversion EA; subst; cbn; rewrite sinsert_In; intuition auto.
Qed.

Lemma chain_add_voters li : forall ids t t',
  chain_simple t li (map (mkCCS CCAddNode) ids) = inl t' ->
  forall x, In x (c_voters (t_config t')) <-> (In x ids /\ x <> 0) \/ In x (c_voters (t_config t)).
Proof.
  induction ids as [|id ids IH]; intros t t' H x; cbn [map chain_simple] in H.
  - inversion H; subst. cbn. tauto.
  - destruct (changer_simple t li [mkCCS CCAddNode id]) as [[c p]|e] eqn:E; [|discriminate].
    apply IH with (x := x) in H. rewrite H. cbn [t_with_config_progress t_config].
    rewrite (add_voter_simple _ _ _ _ _ E x). cbn [In]. intuition (subst; auto).
Qed.

(* Restore of a joint ConfState: the outgoing half of the result is the ConfState's
   VotersOutgoing (as a set, ids 0 skipped) on top of the voters the tracker started with *)
Theorem restore_outgoing t li cs c p :
  cc_restore t li cs = inl (c, p) -> cs_voters_outgoing cs <> [] ->
  forall x, In x (c_outgoing c) <-> (In x (cs_voters_outgoing cs) /\ x <> 0) \/ In x (c_voters (t_config t)).
Proof.
  unfold cc_restore, to_cc_single. intros H NO x.
  destruct (map (mkCCS CCAddNode) (cs_voters_outgoing cs)) as [|o os] eqn:EO.
  { destruct (cs_voters_outgoing cs); [congruence|discriminate]. }
  rewrite <- EO in H.
  destruct (chain_simple t li _) as [t'|e] eqn:EC; [|discriminate].
  apply changer_enter_joint_ok in H. destruct H as (_ & _ & O & _).
  rewrite O. eapply chain_add_voters; exact EC.
Qed.

Corollary restore_outgoing_fresh mi mb li cs c p :
  cc_restore (make_tracker mi mb) li cs = inl (c, p) -> cs_voters_outgoing cs <> [] ->
  forall x, In x (c_outgoing c) <-> In x (cs_voters_outgoing cs) /\ x <> 0.
Proof.
  intros H NO x. rewrite (restore_outgoing _ _ _ _ _ H NO x). cbn. tauto.
Qed.

Lemma sremove_In s k x : In x (sremove s k) <-> In x s /\ x <> k.
Proof.
  induction s as [|y s IH]; cbn; [tauto|].
  destruct (N.eqb_spec k y); cbn; rewrite IH; intuition congruence.
Qed.

Lemma make_learner_voters mi mb li c p id c' p' :
  make_learner mi mb li c p id = (c', p') ->
  forall x, (In x (c_voters c') -> In x (c_voters c)) /\ (x <> id -> In x (c_voters c) -> In x (c_voters c')).
Proof.
  unfold make_learner, init_progress, cc_remove. intros H x.
  destruct (alookup p id) as [pr|]; [|inversion H; subst; cbn; tauto].
  destruct (pr_is_learner pr); [inversion H; subst; tauto|].
  destruct (negb (has_progress p id)).
  - destruct (smem (c_outgoing c) id); inversion H; subst; cbn; tauto.
  - destruct (smem (c_outgoing c) id) eqn:SM; cbn in H; rewrite ?SM in H; cbn in H;
      inversion H; subst; cbn; rewrite sremove_In; tauto.
Qed.

Lemma add_learner_simple t li id c p :
  changer_simple t li [mkCCS CCAddLearnerNode id] = inl (c, p) ->
  forall x, (In x (c_voters c) -> In x (c_voters (t_config t))) /\
            (x <> id -> In x (c_voters (t_config t)) -> In x (c_voters c)).
Proof.
  unfold changer_simple. intros H x.
  destruct (check_and_return (cfg_clone (t_config t)) (t_progress t)) as [[c0 p0]|] eqn:E0; [|discriminate].
  apply check_and_return_ok in E0. destruct E0 as (-> & -> & I0).
  destruct (joint _) eqn:J; [discriminate|].
  destruct (cc_apply _ _ _ _ _ _) as [[c2 p2]|] eqn:EA; [|discriminate].
  destruct (1 <? symdiff _ _) eqn:SD; [discriminate|].
  apply check_and_return_ok in H. destruct H as (-> & -> & I2).
  cbn [cc_apply ccs_node ccs_type] in EA.
  destruct (N.eqb id 0).
  - destruct (N.eqb _ 0); [discriminate|]. inversion EA; subst. cbn. tauto.
  - destruct (make_learner _ _ _ _ _ _) as [c1 p1] eqn:ML.
    destruct (N.eqb _ 0); [discriminate|]. inversion EA; subst.
    apply make_learner_voters with (x := x) in ML. cbn in ML. exact ML.
Qed.

Lemma chain_add_learners li : forall ids t t',
  chain_simple t li (map (mkCCS CCAddLearnerNode) ids) = inl t' ->
  forall x, (In x (c_voters (t_config t')) -> In x (c_voters (t_config t))) /\
            (~ In x ids -> In x (c_voters (t_config t)) -> In x (c_voters (t_config t'))).
Proof.
  induction ids as [|id ids IH]; intros t t' H x; cbn [map chain_simple] in H.
  - inversion H; subst. tauto.
  - destruct (changer_simple t li [mkCCS CCAddLearnerNode id]) as [[c p]|e] eqn:E; [|discriminate].
    apply IH with (x := x) in H. cbn [t_with_config_progress t_config] in H.
    pose proof (add_learner_simple _ _ _ _ _ E x) as A. cbn [In]. intuition auto.
Qed.

Lemma chain_simple_app li : forall a b t t',
  chain_simple t li (a ++ b) = inl t' -> exists tm, chain_simple t li a = inl tm /\ chain_simple tm li b = inl t'.
Proof.
  induction a as [|cc a IH]; intros b t t' H; cbn [app chain_simple] in *.
  - exists t. auto.
  - destruct (changer_simple t li [cc]) as [[c p]|e]; [|discriminate]. apply IH. exact H.
Qed.

(* Restore of a non-joint ConfState into a fresh tracker: the voter set of the result is the
   ConfState's Voters (id 0 skipped), provided no voter is also listed as a learner *)
Theorem restore_voters_fresh mi mb li cs c p :
  cc_restore (make_tracker mi mb) li cs = inl (c, p) -> cs_voters_outgoing cs = [] ->
  (forall x, In x (cs_voters cs) -> ~ In x (cs_learners cs) /\ ~ In x (cs_learners_next cs)) ->
  forall x, In x (c_voters c) <-> In x (cs_voters cs) /\ x <> 0.
Proof.
  unfold cc_restore, to_cc_single. intros H NO D x. rewrite NO in H. cbn [map app] in H.
  destruct (chain_simple _ li _) as [t'|e] eqn:EC; [|discriminate]. inversion H; subst. clear H.
  apply chain_simple_app in EC. destruct EC as (t1 & E1 & EC).
  apply chain_simple_app in EC. destruct EC as (t2 & E2 & E3).
  pose proof (chain_add_voters _ _ _ _ E1 x) as V1. cbn in V1.
  pose proof (chain_add_learners _ _ _ _ E2 x) as V2.
  pose proof (chain_add_learners _ _ _ _ E3 x) as V3.
  specialize (D x). tauto.
Qed.

Example restore_voters_fresh_somewhere :
  match cc_restore (make_tracker 4 0) 10 (mkConfState [1;2;3] [4] [] [] false) with
  | inl (c, p) => list_eqb N.eqb (c_voters c) [1;2;3] && list_eqb N.eqb (c_learners c) [4]
  | inr _ => false
  end = true.
Proof. vm_compute. reflexivity. Qed.

Section Segs.
Variables mi mb li : N.
Variable rest : list cc_single.

Lemma seg_remove : forall ids c p,
  (forall id, In id ids -> id <> 0 -> smem (c_outgoing c) id = true /\ has_progress p id = true) ->
  exists c1, cc_apply mi mb li c p (map (mkCCS CCRemoveNode) ids ++ rest) = cc_apply mi mb li c1 p rest /\
    c_outgoing c1 = c_outgoing c /\
    (forall x, In x (c_voters c1) -> In x (c_voters c) /\ (In x ids -> x = 0)).
Proof.
  induction ids as [|id ids IH]; intros c p HP.
  - exists c. cbn. intuition auto.
  - cbn [map app cc_apply ccs_node ccs_type].
    destruct (N.eqb_spec id 0) as [Z|NZ].
    + destruct (IH c p) as (c1 & E & O & V); [intros i Hi; apply HP; right; exact Hi|].
      exists c1. split; [exact E|]. split; [exact O|].
      intros x Hx. destruct (V x Hx) as [A B]. split; [exact A|]. intros [->|Hi]; auto.
    + destruct (HP id (or_introl eq_refl) NZ) as [SM HPi].
      unfold cc_remove. rewrite HPi, SM. cbn [negb].
      match goal with |- context [cc_apply mi mb li ?c' p _] => destruct (IH c' p) as (c1 & E & O & V) end.
      { cbn. intros i Hi Hn. apply HP; [right; exact Hi|exact Hn]. }
      exists c1. split; [exact E|]. split; [rewrite O; reflexivity|].
      intros x Hx. destruct (V x Hx) as [A B]. cbn in A. apply sremove_In in A. destruct A as [A NE].
      split; [exact A|]. intros [->|Hi]; [congruence|auto].
Qed.

Lemma seg_add : forall ids c p,
  exists c1 p1, cc_apply mi mb li c p (map (mkCCS CCAddNode) ids ++ rest) = cc_apply mi mb li c1 p1 rest /\
    (forall x, In x (c_voters c1) <-> (In x ids /\ x <> 0) \/ In x (c_voters c)).
Proof.
  induction ids as [|id ids IH]; intros c p.
  - exists c, p. cbn. intuition auto.
  - cbn [map app cc_apply ccs_node ccs_type].
    destruct (N.eqb_spec id 0) as [Z|NZ].
    + destruct (IH c p) as (c1 & p1 & E & V). exists c1, p1. split; [exact E|].
      intros x. rewrite V. cbn [In]. intuition (subst; auto). congruence.
    + destruct (make_voter mi mb li c p id) as [c' p'] eqn:MV.
      destruct (IH c' p') as (c1 & p1 & E & V). exists c1, p1. split; [exact E|].
      intros x. rewrite V.
      assert (VV : forall y, In y (c_voters c') <-> y = id \/ In y (c_voters c)).
      { intros y. unfold make_voter, init_progress in MV. destruct (alookup p id); inversion MV; subst; cbn;
          rewrite sinsert_In; tauto. }
      rewrite VV. cbn [In]. intuition (subst; auto).
Qed.

Lemma seg_learner : forall ids c p,
  exists c1 p1, cc_apply mi mb li c p (map (mkCCS CCAddLearnerNode) ids ++ rest) = cc_apply mi mb li c1 p1 rest /\
    (forall x, (In x (c_voters c1) -> In x (c_voters c)) /\ (~ In x ids -> In x (c_voters c) -> In x (c_voters c1))).
Proof.
  induction ids as [|id ids IH]; intros c p.
  - exists c, p. cbn. intuition auto.
  - cbn [map app cc_apply ccs_node ccs_type].
    destruct (N.eqb_spec id 0) as [Z|NZ].
    + destruct (IH c p) as (c1 & p1 & E & V). exists c1, p1. split; [exact E|].
      intros x. destruct (V x) as [A B]. cbn [In]. intuition auto.
    + destruct (make_learner mi mb li c p id) as [c' p'] eqn:ML.
      destruct (IH c' p') as (c1 & p1 & E & V). exists c1, p1. split; [exact E|].
      intros x. destruct (V x) as [A B]. destruct (make_learner_voters _ _ _ _ _ _ _ _ ML x) as [C D].
      cbn [In]. intuition auto.
Qed.
End Segs.

(* Restore of a joint ConfState into a fresh tracker: the incoming voter set of the result is
   the ConfState's Voters (id 0 skipped), provided no voter is also listed as a learner *)
Theorem restore_voters_joint_fresh mi mb li cs c p :
  cc_restore (make_tracker mi mb) li cs = inl (c, p) -> cs_voters_outgoing cs <> [] ->
  (forall x, In x (cs_voters cs) -> ~ In x (cs_learners cs) /\ ~ In x (cs_learners_next cs)) ->
  forall x, In x (c_voters c) <-> In x (cs_voters cs) /\ x <> 0.
Proof.
  unfold cc_restore, to_cc_single. intros H NO D x.
  destruct (map (mkCCS CCAddNode) (cs_voters_outgoing cs)) as [|o os] eqn:EO.
  { destruct (cs_voters_outgoing cs); [congruence|discriminate]. }
  rewrite <- EO in H. clear EO o os.
  destruct (chain_simple _ li _) as [t'|e] eqn:EC; [|discriminate].
  pose proof (chain_add_voters _ _ _ _ EC) as VO. cbn in VO.
  unfold changer_enter_joint in H.
  destruct (check_and_return (cfg_clone (t_config t')) (t_progress t')) as [[c0 p0]|] eqn:E0; [|discriminate].
  apply check_and_return_ok in E0. destruct E0 as (-> & -> & I0).
  destruct (joint _); [discriminate|].
  destruct (N.eqb (nlen _) 0); [discriminate|].
  set (c1 := cfg_with_outgoing _ _) in H.
  assert (HP : forall id, In id (cs_voters_outgoing cs) -> id <> 0 ->
            smem (c_outgoing c1) id = true /\ has_progress (t_progress t') id = true).
  { intros id Hi Hn. assert (IV : In id (c_voters (t_config t'))) by (apply VO; left; auto).
    split; [apply smem_In; exact IV|].
    unfold check_invariants in I0. repeat (apply andb_true_iff in I0; destruct I0 as [I0 _]).
    rewrite forallb_forall in I0. apply I0. unfold voter_ids. apply joint_ids_In. left. exact IV. }
  destruct (seg_remove (t_max_inflight t') (t_max_inflight_bytes t') li
              (map (mkCCS CCAddNode) (cs_voters cs) ++ map (mkCCS CCAddLearnerNode) (cs_learners cs) ++
               map (mkCCS CCAddLearnerNode) (cs_learners_next cs))
              _ c1 (t_progress t') HP) as (c2 & E2 & _ & V2).
  rewrite E2 in H. clear E2.
  destruct (seg_add (t_max_inflight t') (t_max_inflight_bytes t') li
              (map (mkCCS CCAddLearnerNode) (cs_learners cs) ++ map (mkCCS CCAddLearnerNode) (cs_learners_next cs))
              (cs_voters cs) c2 (t_progress t')) as (c3 & p3 & E3 & V3).
  rewrite E3 in H. clear E3.
  destruct (seg_learner (t_max_inflight t') (t_max_inflight_bytes t') li
              (map (mkCCS CCAddLearnerNode) (cs_learners_next cs)) (cs_learners cs) c3 p3) as (c4 & p4 & E4 & V4).
  rewrite E4 in H. clear E4.
  rewrite <- (app_nil_r (map (mkCCS CCAddLearnerNode) (cs_learners_next cs))) in H.
  destruct (seg_learner (t_max_inflight t') (t_max_inflight_bytes t') li [] (cs_learners_next cs) c4 p4) as (c5 & p5 & E5 & V5).
  rewrite E5 in H. clear E5.
  cbn [cc_apply] in H. destruct (N.eqb (nlen (c_voters c5)) 0); [discriminate|].
  apply check_and_return_ok in H. destruct H as (-> & -> & _).
  cbn [cfg_with_auto_leave c_voters].
  assert (Z2 : ~ In x (c_voters c2)).
  { intros I. destruct (V2 x I) as [A B]. subst c1. cbn in A. apply VO in A. destruct A as [[A NZ]|[]]. auto. }
  specialize (D x). specialize (V3 x). specialize (V4 x). specialize (V5 x). tauto.
Qed.

Example restore_voters_joint_somewhere :
  match cc_restore (make_tracker 4 0) 10 (mkConfState [1;2;3] [4] [1;2;5] [5] true) with
  | inl (c, p) => list_eqb N.eqb (c_voters c) [1;2;3] && list_eqb N.eqb (c_outgoing c) [1;2;5]
  | inr _ => false
  end = true.
Proof. vm_compute. reflexivity. Qed.

Lemma alookup_ainsert {A} (m : list (N * A)) k v k' :
  alookup (ainsert m k v) k' = if N.eqb k' k then Some v else alookup m k'.
Proof.
  induction m as [|[a b] m IH]; cbn.
  - destruct (N.eqb k' k); reflexivity.
  - destruct (N.eqb_spec k a) as [->|NE]; cbn.
    + destruct (N.eqb k' a); reflexivity.
    + destruct (N.ltb k a); cbn.
      * destruct (N.eqb_spec k' k); reflexivity.
      * rewrite IH. destruct (N.eqb_spec k' a) as [->|]; [|reflexivity].
        destruct (N.eqb_spec a k); [congruence|reflexivity].
Qed.

Lemma alookup_aremove {A} (m : list (N * A)) k k' :
  alookup (aremove m k) k' = if N.eqb k' k then None else alookup m k'.
Proof.
  induction m as [|[a b] m IH]; cbn.
  - destruct (N.eqb k' k); reflexivity.
  - destruct (N.eqb_spec k a) as [->|NE]; cbn.
    + rewrite IH. destruct (N.eqb_spec k' a); reflexivity.
    + rewrite IH. destruct (N.eqb_spec k' a) as [->|]; [|reflexivity].
      destruct (N.eqb_spec a k); [congruence|reflexivity].
Qed.

(* the learner marks of the progress map and the learner set agree; learners are not
   outgoing voters; outgoing voters keep their progress *)
Definition linv (c : config) (p : progress_map) : Prop :=
  (forall id pr, alookup p id = Some pr -> pr_is_learner pr = true -> In id (c_learners c)) /\
  (forall id, In id (c_learners c) -> exists pr, alookup p id = Some pr /\ pr_is_learner pr = true) /\
  (forall id, In id (c_learners c) -> smem (c_outgoing c) id = false) /\
  (forall id, smem (c_outgoing c) id = true -> amem p id = true).

Ltac lk := repeat (rewrite alookup_ainsert in * || rewrite alookup_aremove in *).

Lemma make_voter_linv mi mb li c p id c' p' :
  linv c p -> make_voter mi mb li c p id = (c', p') ->
  linv c' p' /\ c_outgoing c' = c_outgoing c /\ (forall x, In x (c_learners c') -> In x (c_learners c)) /\
  (forall x, x <> id -> In x (c_learners c) -> In x (c_learners c')).
Proof.
  intros (A & B & C & D) H. unfold make_voter, init_progress in H.
  destruct (alookup p id) as [pr|] eqn:E; inversion H; subst; clear H; unfold linv; cbn.
  - split; [|split; [reflexivity|split; intros x; rewrite ?sremove_In; tauto]].
    split; [|split; [|split]].
    + intros i q L F. rewrite sremove_In. lk. destruct (N.eqb_spec i id); [inversion L; subst; cbn in F; discriminate|].
      split; [eapply A; eauto|assumption].
    + intros i I. apply sremove_In in I. destruct I as [I NE]. lk. destruct (N.eqb_spec i id); [congruence|]. apply B; exact I.
    + intros i I. apply sremove_In in I. apply C. tauto.
    + intros i S. unfold amem. lk. destruct (N.eqb i id); [reflexivity|]. apply D. exact S.
  - split; [|split; [reflexivity|split; intros x; tauto]].
    split; [|split; [|split]].
    + intros i q L F. lk. destruct (N.eqb_spec i id); [inversion L; subst; cbn in F; discriminate|]. eapply A; eauto.
    + intros i I. lk. destruct (N.eqb_spec i id) as [->|]; [|apply B; exact I].
      destruct (B _ I) as (q & Q & _). congruence.
    + exact C.
    + intros i S. unfold amem. lk. destruct (N.eqb i id); [reflexivity|]. apply D. exact S.
Qed.

Lemma cc_remove_linv c p id c' p' :
  linv c p -> cc_remove c p id = (c', p') ->
  linv c' p' /\ c_outgoing c' = c_outgoing c /\ (forall x, In x (c_learners c') -> In x (c_learners c)) /\
  (forall x, x <> id -> In x (c_learners c) -> In x (c_learners c')).
Proof.
  intros (A & B & C & D) H. unfold cc_remove in H.
  destruct (negb (has_progress p id)).
  { inversion H; subst. unfold linv. tauto. }
  destruct (smem (c_outgoing c) id) eqn:SM; inversion H; subst; clear H; unfold linv; cbn.
  - split; [|split; [reflexivity|split; intros x; rewrite ?sremove_In; tauto]].
    split; [|split; [|split]].
    + intros i q L F. rewrite sremove_In. split; [eapply A; eauto|].
      intros ->. specialize (A _ _ L F). apply C in A. congruence.
    + intros i I. apply sremove_In in I. apply B. tauto.
    + intros i I. apply sremove_In in I. apply C. tauto.
    + exact D.
  - split; [|split; [reflexivity|split; intros x; rewrite ?sremove_In; tauto]].
    split; [|split; [|split]].
    + intros i q L F. lk. rewrite sremove_In. destruct (N.eqb_spec i id); [discriminate|]. split; [eapply A; eauto|assumption].
    + intros i I. apply sremove_In in I. destruct I as [I NE]. lk. destruct (N.eqb_spec i id); [congruence|]. apply B; exact I.
    + intros i I. apply sremove_In in I. apply C. tauto.
    + intros i S. unfold amem. lk. destruct (N.eqb_spec i id) as [->|]; [congruence|]. apply D. exact S.
Qed.

Lemma make_learner_linv mi mb li c p id c' p' :
  linv c p -> make_learner mi mb li c p id = (c', p') ->
  linv c' p' /\ c_outgoing c' = c_outgoing c /\
  (forall x, In x (c_learners c') -> x = id \/ In x (c_learners c)) /\
  (forall x, x <> id -> In x (c_learners c) -> In x (c_learners c')) /\
  (smem (c_outgoing c) id = false -> In id (c_learners c')).
Proof.
  intros (A & B & C & D) H. unfold make_learner, init_progress in H.
  destruct (alookup p id) as [pr|] eqn:E.
  2:{ inversion H; subst; clear H; unfold linv; cbn.
      split; [|split; [reflexivity|repeat split; intros; rewrite ?sinsert_In in *; tauto]].
      split; [|split; [|split]].
      - intros i q L F. lk. rewrite sinsert_In. destruct (N.eqb_spec i id); [tauto|]. right. eapply A; eauto.
      - intros i I. lk. destruct (N.eqb_spec i id); [eexists; split; [reflexivity|reflexivity]|].
        apply sinsert_In in I. destruct I as [I|I]; [congruence|]. apply B; exact I.
      - intros i I. apply sinsert_In in I. destruct I as [->|I]; [|apply C; exact I].
        destruct (smem (c_outgoing c) id) eqn:SM; [|reflexivity]. apply D in SM. unfold amem in SM. rewrite E in SM. discriminate.
      - intros i S. unfold amem. lk. destruct (N.eqb i id); [reflexivity|]. apply D. exact S. }
  destruct (pr_is_learner pr) eqn:PL.
  { inversion H; subst. unfold linv. repeat split; try tauto. intros _. eapply A; eauto. }
  unfold cc_remove in H. assert (HP : has_progress p id = true) by (unfold has_progress, amem; rewrite E; reflexivity).
  rewrite HP in H. cbn [negb] in H.
  destruct (smem (c_outgoing c) id) eqn:SM; cbn in H; rewrite SM in H; inversion H; subst; clear H; unfold linv; cbn.
  - split; [|split; [reflexivity|repeat split; intros; rewrite ?sremove_In in *; try tauto; discriminate]].
    split; [|split; [|split]].
    + intros i q L F. lk. rewrite sremove_In. destruct (N.eqb_spec i id); [inversion L; subst; congruence|]. split; [eapply A; eauto|assumption].
    + intros i I. apply sremove_In in I. destruct I as [I NE]. lk. destruct (N.eqb_spec i id); [congruence|]. apply B; exact I.
    + intros i I. apply sremove_In in I. apply C. tauto.
    + intros i S. unfold amem. lk. destruct (N.eqb i id); [reflexivity|]. apply D. exact S.
  - split; [|split; [reflexivity|repeat split; intros; rewrite ?sinsert_In, ?sremove_In in *; tauto]].
    split; [|split; [|split]].
    + intros i q L F. lk. rewrite sinsert_In, sremove_In. destruct (N.eqb_spec i id); [tauto|]. right. split; [eapply A; eauto|assumption].
    + intros i I. lk. destruct (N.eqb_spec i id); [eexists; split; reflexivity|].
      apply sinsert_In in I. destruct I as [I|I]; [congruence|]. apply sremove_In in I. apply B. tauto.
    + intros i I. apply sinsert_In in I. destruct I as [->|I]; [exact SM|]. apply sremove_In in I. apply C. tauto.
    + intros i S. unfold amem. lk. destruct (N.eqb_spec i id) as [->|]; [reflexivity|]. apply D. exact S.
Qed.

Lemma simple_add_linv t li id c p :
  linv (t_config t) (t_progress t) ->
  changer_simple t li [mkCCS CCAddNode id] = inl (c, p) ->
  linv c p /\ (forall x, In x (c_learners c) -> In x (c_learners (t_config t))).
Proof.
  unfold changer_simple. intros LI H.
  destruct (check_and_return (cfg_clone (t_config t)) (t_progress t)) as [[c0 p0]|] eqn:E0; [|discriminate].
  apply check_and_return_ok in E0. destruct E0 as (-> & -> & I0).
  destruct (joint _) eqn:J; [discriminate|].
  destruct (cc_apply _ _ _ _ _ _) as [[c2 p2]|] eqn:EA; [|discriminate].
  destruct (1 <? symdiff _ _) eqn:SD; [discriminate|].
  apply check_and_return_ok in H. destruct H as (-> & -> & I2).
  cbn [cc_apply ccs_node ccs_type] in EA.
  destruct (N.eqb id 0).
  - destruct (N.eqb _ 0); [discriminate|]. inversion EA; subst. split; [exact LI|cbn; tauto].
  - destruct (make_voter _ _ _ _ _ _) as [c1 p1] eqn:MV.
    destruct (N.eqb _ 0); [discriminate|]. inversion EA; subst.
    eapply make_voter_linv in MV; [|exact LI]. cbn in MV. tauto.
Qed.

Lemma simple_learner_linv t li id c p :
  linv (t_config t) (t_progress t) ->
  changer_simple t li [mkCCS CCAddLearnerNode id] = inl (c, p) ->
  linv c p /\ (forall x, In x (c_learners c) <-> (x = id /\ id <> 0) \/ In x (c_learners (t_config t))).
Proof.
  unfold changer_simple. intros LI H.
  destruct (check_and_return (cfg_clone (t_config t)) (t_progress t)) as [[c0 p0]|] eqn:E0; [|discriminate].
  apply check_and_return_ok in E0. destruct E0 as (-> & -> & I0).
  destruct (joint _) eqn:J; [discriminate|].
  destruct (cc_apply _ _ _ _ _ _) as [[c2 p2]|] eqn:EA; [|discriminate].
  destruct (1 <? symdiff _ _) eqn:SD; [discriminate|].
  apply check_and_return_ok in H. destruct H as (-> & -> & I2).
  cbn [cc_apply ccs_node ccs_type] in EA.
  destruct (N.eqb_spec id 0) as [Z|NZ].
  - destruct (N.eqb _ 0); [discriminate|]. inversion EA; subst. split; [exact LI|cbn; intros x; tauto].
  - destruct (make_learner _ _ _ _ _ _) as [c1 p1] eqn:ML.
    destruct (N.eqb _ 0); [discriminate|]. inversion EA; subst.
    eapply make_learner_linv in ML; [|exact LI]. cbn in ML. destruct ML as (L1 & _ & M1 & M2 & M3).
    split; [exact L1|]. intros x.
    assert (SO : smem (c_outgoing (t_config t)) id = false).
    { unfold joint in J. cbn in J. apply negb_false_iff, nlen_zero in J. rewrite J. reflexivity. }
    specialize (M3 SO). split.
    + intros I. apply M1 in I. tauto.
    + intros [[-> _]|I]; [exact M3|]. destruct (N.eq_dec x id) as [->|NE]; [exact M3|apply M2; assumption].
Qed.

Lemma chain_add_linv li : forall ids t t',
  linv (t_config t) (t_progress t) ->
  chain_simple t li (map (mkCCS CCAddNode) ids) = inl t' ->
  linv (t_config t') (t_progress t') /\ (forall x, In x (c_learners (t_config t')) -> In x (c_learners (t_config t))).
Proof.
  induction ids as [|id ids IH]; intros t t' LI H; cbn [map chain_simple] in H.
  - inversion H; subst. tauto.
  - destruct (changer_simple t li [mkCCS CCAddNode id]) as [[c p]|e] eqn:E; [|discriminate].
    apply simple_add_linv in E; [|exact LI]. destruct E as [L1 S1].
    apply IH in H; [|exact L1]. cbn [t_with_config_progress t_config] in H. destruct H as [L2 S2].
    split; [exact L2|]. intros x I. auto.
Qed.

Lemma chain_learner_linv li : forall ids t t',
  linv (t_config t) (t_progress t) ->
  chain_simple t li (map (mkCCS CCAddLearnerNode) ids) = inl t' ->
  linv (t_config t') (t_progress t') /\
  (forall x, In x (c_learners (t_config t')) <-> (In x ids /\ x <> 0) \/ In x (c_learners (t_config t))).
Proof.
  induction ids as [|id ids IH]; intros t t' LI H; cbn [map chain_simple] in H.
  - inversion H; subst. split; [exact LI|]. cbn. tauto.
  - destruct (changer_simple t li [mkCCS CCAddLearnerNode id]) as [[c p]|e] eqn:E; [|discriminate].
    apply simple_learner_linv in E; [|exact LI]. destruct E as [L1 S1].
    apply IH in H; [|exact L1]. cbn [t_with_config_progress t_config] in H. destruct H as [L2 S2].
    split; [exact L2|]. intros x. rewrite S2, S1. cbn [In]. intuition (subst; auto).
Qed.

(* Restore of a non-joint ConfState into a fresh tracker: the learner set of the result is
   the ConfState's Learners together with its LearnersNext (id 0 skipped) *)
Theorem restore_learners_fresh mi mb li cs c p :
  cc_restore (make_tracker mi mb) li cs = inl (c, p) -> cs_voters_outgoing cs = [] ->
  forall x, In x (c_learners c) <-> (In x (cs_learners cs) \/ In x (cs_learners_next cs)) /\ x <> 0.
Proof.
  unfold cc_restore, to_cc_single. intros H NO x. rewrite NO in H. cbn [map app] in H.
  destruct (chain_simple _ li _) as [t'|e] eqn:EC; [|discriminate]. inversion H; subst. clear H.
  apply chain_simple_app in EC. destruct EC as (t1 & E1 & EC).
  apply chain_simple_app in EC. destruct EC as (t2 & E2 & E3).
  assert (L0 : linv (t_config (make_tracker mi mb)) (t_progress (make_tracker mi mb))).
  { unfold linv. cbn. repeat split; intros; try contradiction; discriminate. }
  apply chain_add_linv in E1; [|exact L0]. destruct E1 as [L1 S1].
  apply chain_learner_linv in E2; [|exact L1]. destruct E2 as [L2 S2].
  apply chain_learner_linv in E3; [|exact L2]. destruct E3 as [L3 S3].
  rewrite S3, S2. specialize (S1 x). cbn in S1. tauto.
Qed.

Lemma make_voter_ln mi mb li c p id c' p' :
  make_voter mi mb li c p id = (c', p') -> forall x, In x (c_learners_next c') -> In x (c_learners_next c).
Proof.
  unfold make_voter, init_progress. intros H x. destruct (alookup p id); inversion H; subst; cbn; rewrite ?sremove_In; tauto.
Qed.

Lemma cc_remove_ln c p id c' p' :
  cc_remove c p id = (c', p') -> forall x, In x (c_learners_next c') -> In x (c_learners_next c).
Proof.
  unfold cc_remove. intros H x. destruct (negb _); [inversion H; subst; tauto|].
  destruct (smem _ _); inversion H; subst; cbn; rewrite sremove_In; tauto.
Qed.

Definition einv (c : config) : Prop := forall x, In x (c_learners_next c) -> smem (c_outgoing c) x = true.

Lemma make_learner_sets mi mb li c p id c' p' :
  linv c p -> einv c -> make_learner mi mb li c p id = (c', p') ->
  einv c' /\
  (forall x, In x (c_learners c') <-> (x = id /\ smem (c_outgoing c) id = false) \/ In x (c_learners c)) /\
  (forall x, In x (c_learners_next c') <-> (x = id /\ smem (c_outgoing c) id = true) \/ In x (c_learners_next c)).
Proof.
  intros (A & B & C & D) EI H. unfold make_learner, init_progress in H.
  destruct (alookup p id) as [pr|] eqn:E.
  2:{ assert (SO : smem (c_outgoing c) id = false).
      { destruct (smem (c_outgoing c) id) eqn:SM; [|reflexivity]. apply D in SM. unfold amem in SM. rewrite E in SM. discriminate. }
      inversion H; subst; clear H; unfold einv; cbn. rewrite SO.
      split; [exact EI|]. split; intros x; rewrite ?sinsert_In; intuition congruence. }
  destruct (pr_is_learner pr) eqn:PL.
  { inversion H; subst. pose proof (A _ _ E PL) as IL. pose proof (C _ IL) as SO. rewrite SO.
    split; [exact EI|]. split; intros x; intuition (subst; auto); congruence. }
  assert (NL : ~ In id (c_learners c)).
  { intros I. destruct (B _ I) as (q & Q & F). congruence. }
  unfold cc_remove in H. assert (HP : has_progress p id = true) by (unfold has_progress, amem; rewrite E; reflexivity).
  rewrite HP in H. cbn [negb] in H.
  destruct (smem (c_outgoing c) id) eqn:SM; cbn in H; rewrite SM in H; inversion H; subst; clear H; unfold einv; cbn.
  - split; [intros x I; apply sinsert_In in I; destruct I as [->|I]; [exact SM|apply sremove_In in I; apply EI; tauto]|].
    split; intros x; rewrite ?sinsert_In, ?sremove_In.
    + split; [tauto|]. intros [[_ F]|I]; [discriminate|]. split; [exact I|]. intros ->. auto.
    + destruct (N.eq_dec x id); intuition auto.
  - assert (NN : ~ In id (c_learners_next c)) by (intros I; apply EI in I; congruence).
    split; [intros x I; apply sremove_In in I; apply EI; tauto|].
    split; intros x; rewrite ?sinsert_In, ?sremove_In.
    + destruct (N.eq_dec x id); intuition auto.
    + split; [tauto|]. intros [[_ F]|I]; [discriminate|]. split; [exact I|]. intros ->. auto.
Qed.

Section SegsL.
Variables mi mb li : N.
Variable rest : list cc_single.

Lemma seg_remove_l : forall ids c p, linv c p -> einv c ->
  exists c1 p1, cc_apply mi mb li c p (map (mkCCS CCRemoveNode) ids ++ rest) = cc_apply mi mb li c1 p1 rest /\
    linv c1 p1 /\ einv c1 /\ c_outgoing c1 = c_outgoing c /\
    (forall x, In x (c_learners c1) -> In x (c_learners c)) /\
    (forall x, In x (c_learners_next c1) -> In x (c_learners_next c)).
Proof.
  induction ids as [|id ids IH]; intros c p LI EI.
  - exists c, p. cbn. intuition auto.
  - cbn [map app cc_apply ccs_node ccs_type]. destruct (N.eqb id 0); [apply IH; assumption|].
    destruct (cc_remove c p id) as [c' p'] eqn:R.
    pose proof (cc_remove_ln _ _ _ _ _ R) as LN.
    apply cc_remove_linv in R; [|exact LI]. destruct R as (L1 & O1 & S1 & _).
    destruct (IH c' p' L1) as (c1 & p1 & E & L2 & E2 & O2 & S2 & N2).
    { intros x I. rewrite O1. apply EI. apply LN. exact I. }
    exists c1, p1. split; [exact E|]. split; [exact L2|]. split; [exact E2|]. split; [congruence|]. split; auto.
Qed.

Lemma seg_add_l : forall ids c p, linv c p -> einv c ->
  exists c1 p1, cc_apply mi mb li c p (map (mkCCS CCAddNode) ids ++ rest) = cc_apply mi mb li c1 p1 rest /\
    linv c1 p1 /\ einv c1 /\ c_outgoing c1 = c_outgoing c /\
    (forall x, In x (c_learners c1) -> In x (c_learners c)) /\
    (forall x, In x (c_learners_next c1) -> In x (c_learners_next c)).
Proof.
  induction ids as [|id ids IH]; intros c p LI EI.
  - exists c, p. cbn. intuition auto.
  - cbn [map app cc_apply ccs_node ccs_type]. destruct (N.eqb id 0); [apply IH; assumption|].
    destruct (make_voter mi mb li c p id) as [c' p'] eqn:R.
    pose proof (make_voter_ln _ _ _ _ _ _ _ _ R) as LN.
    apply make_voter_linv in R; [|exact LI]. destruct R as (L1 & O1 & S1 & _).
    destruct (IH c' p' L1) as (c1 & p1 & E & L2 & E2 & O2 & S2 & N2).
    { intros x I. rewrite O1. apply EI. apply LN. exact I. }
    exists c1, p1. split; [exact E|]. split; [exact L2|]. split; [exact E2|]. split; [congruence|]. split; auto.
Qed.

Lemma seg_learner_l : forall ids c p, linv c p -> einv c ->
  exists c1 p1, cc_apply mi mb li c p (map (mkCCS CCAddLearnerNode) ids ++ rest) = cc_apply mi mb li c1 p1 rest /\
    linv c1 p1 /\ einv c1 /\ c_outgoing c1 = c_outgoing c /\
    (forall x, In x (c_learners c1) <-> (In x ids /\ x <> 0 /\ smem (c_outgoing c) x = false) \/ In x (c_learners c)) /\
    (forall x, In x (c_learners_next c1) <-> (In x ids /\ x <> 0 /\ smem (c_outgoing c) x = true) \/ In x (c_learners_next c)).
Proof.
  induction ids as [|id ids IH]; intros c p LI EI.
  - exists c, p. cbn. intuition auto.
  - cbn [map app cc_apply ccs_node ccs_type]. destruct (N.eqb_spec id 0) as [Z|NZ].
    + destruct (IH c p LI EI) as (c1 & p1 & E & L2 & E2 & O2 & S2 & N2).
      exists c1, p1. split; [exact E|]. split; [exact L2|]. split; [exact E2|]. split; [exact O2|].
      split; intros x; rewrite ?S2, ?N2; cbn [In]; intuition (subst; auto); congruence.
    + destruct (make_learner mi mb li c p id) as [c' p'] eqn:R.
      pose proof (make_learner_sets _ _ _ _ _ _ _ _ LI EI R) as (E1 & SL & SN).
      apply make_learner_linv in R; [|exact LI]. destruct R as (L1 & O1 & _).
      destruct (IH c' p' L1 E1) as (c1 & p1 & E & L2 & E2 & O2 & S2 & N2).
      exists c1, p1. split; [exact E|]. split; [exact L2|]. split; [exact E2|]. split; [congruence|].
      split; intros x; rewrite ?S2, ?N2, ?SL, ?SN, ?O1; cbn [In]; intuition (subst; auto).
Qed.
End SegsL.

(* Restore of a joint ConfState into a fresh tracker: the ids named as Learners or
   LearnersNext become learners when they are not outgoing voters and staged learners when
   they are (id 0 skipped) *)
Theorem restore_learners_joint_fresh mi mb li cs c p :
  cc_restore (make_tracker mi mb) li cs = inl (c, p) -> cs_voters_outgoing cs <> [] ->
  forall x,
    (In x (c_learners c) <->
       (In x (cs_learners cs) \/ In x (cs_learners_next cs)) /\ x <> 0 /\ ~ In x (cs_voters_outgoing cs)) /\
    (In x (c_learners_next c) <->
       (In x (cs_learners cs) \/ In x (cs_learners_next cs)) /\ x <> 0 /\ In x (cs_voters_outgoing cs)).
Proof.
  unfold cc_restore, to_cc_single. intros H NO x.
  destruct (map (mkCCS CCAddNode) (cs_voters_outgoing cs)) as [|o os] eqn:EO.
  { destruct (cs_voters_outgoing cs); [congruence|discriminate]. }
  rewrite <- EO in H. clear EO o os.
  destruct (chain_simple _ li _) as [t'|e] eqn:EC; [|discriminate].
  pose proof (chain_add_voters _ _ _ _ EC) as VO. cbn in VO.
  assert (L0 : linv (t_config (make_tracker mi mb)) (t_progress (make_tracker mi mb))).
  { unfold linv. cbn. repeat split; intros; try contradiction; discriminate. }
  apply chain_add_linv in EC; [|exact L0]. destruct EC as [(A & B & C & D) S1]. cbn in S1.
  unfold changer_enter_joint in H.
  destruct (check_and_return (cfg_clone (t_config t')) (t_progress t')) as [[c0 p0]|] eqn:E0; [|discriminate].
  apply check_and_return_ok in E0. destruct E0 as (-> & -> & I0).
  destruct (joint _) eqn:J; [discriminate|].
  destruct (N.eqb (nlen _) 0); [discriminate|].
  set (c1 := cfg_with_outgoing _ _) in H.
  assert (LN0 : c_learners_next (t_config t') = []).
  { apply check_invariants_sound in I0. destruct I0 as (_ & _ & _ & W4). cbn in W4.
    unfold joint in J. cbn in J. apply negb_false_iff, nlen_zero in J. apply W4 in J. tauto. }
  assert (LI1 : linv c1 (t_progress t')).
  { subst c1. unfold linv. cbn. split; [exact A|]. split; [exact B|]. split; [intros id I; apply S1 in I; contradiction|].
    intros id S. apply smem_In in S.
    unfold check_invariants in I0. repeat (apply andb_true_iff in I0; destruct I0 as [I0 _]).
    rewrite forallb_forall in I0. apply I0. unfold voter_ids. apply joint_ids_In. left. exact S. }
  assert (EI1 : einv c1).
  { subst c1. unfold einv. cbn. rewrite LN0. intros y []. }
  assert (SO : forall y, smem (c_outgoing c1) y = true <-> In y (cs_voters_outgoing cs) /\ y <> 0).
  { intros y. subst c1. cbn. rewrite smem_In, VO. tauto. }
  assert (L1e : forall y, ~ In y (c_learners c1)) by (intros y I; subst c1; cbn in I; apply S1 in I; exact I).
  assert (N1e : forall y, ~ In y (c_learners_next c1)) by (intros y I; subst c1; cbn in I; rewrite LN0 in I; exact I).
  destruct (seg_remove_l (t_max_inflight t') (t_max_inflight_bytes t') li
              (map (mkCCS CCAddNode) (cs_voters cs) ++ map (mkCCS CCAddLearnerNode) (cs_learners cs) ++
               map (mkCCS CCAddLearnerNode) (cs_learners_next cs))
              (cs_voters_outgoing cs) c1 (t_progress t') LI1 EI1) as (c2 & p2 & E2 & LI2 & EI2 & O2 & SL2 & SN2).
  rewrite E2 in H. clear E2.
  destruct (seg_add_l (t_max_inflight t') (t_max_inflight_bytes t') li
              (map (mkCCS CCAddLearnerNode) (cs_learners cs) ++ map (mkCCS CCAddLearnerNode) (cs_learners_next cs))
              (cs_voters cs) c2 p2 LI2 EI2) as (c3 & p3 & E3 & LI3 & EI3 & O3 & SL3 & SN3).
  rewrite E3 in H. clear E3.
  destruct (seg_learner_l (t_max_inflight t') (t_max_inflight_bytes t') li
              (map (mkCCS CCAddLearnerNode) (cs_learners_next cs)) (cs_learners cs) c3 p3 LI3 EI3)
    as (c4 & p4 & E4 & LI4 & EI4 & O4 & SL4 & SN4).
  rewrite E4 in H. clear E4.
  rewrite <- (app_nil_r (map (mkCCS CCAddLearnerNode) (cs_learners_next cs))) in H.
  destruct (seg_learner_l (t_max_inflight t') (t_max_inflight_bytes t') li [] (cs_learners_next cs) c4 p4 LI4 EI4)
    as (c5 & p5 & E5 & LI5 & EI5 & O5 & SL5 & SN5).
  rewrite E5 in H. clear E5.
  cbn [cc_apply] in H. destruct (N.eqb (nlen (c_voters c5)) 0); [discriminate|].
  apply check_and_return_ok in H. destruct H as (-> & -> & _).
  cbn [cfg_with_auto_leave c_learners c_learners_next].
  rewrite SL5, SN5, SL4, SN4, O4, O3, O2.
  assert (L3e : ~ In x (c_learners c3)) by (intros I; apply SL3, SL2 in I; exact (L1e _ I)).
  assert (N3e : ~ In x (c_learners_next c3)) by (intros I; apply SN3, SN2 in I; exact (N1e _ I)).
  pose proof (SO x) as SOx.
  destruct (smem (c_outgoing c1) x) eqn:SM.
  - assert (IO : In x (cs_voters_outgoing cs) /\ x <> 0) by (apply SOx; reflexivity).
    split; split; intro G; intuition (try discriminate; auto).
  - assert (NIO : ~ (In x (cs_voters_outgoing cs) /\ x <> 0)) by (intros G; apply SOx in G; discriminate).
    split; split; intro G; intuition (try discriminate; auto).
Qed.

Example restore_learners_joint_somewhere :
  match cc_restore (make_tracker 4 0) 10 (mkConfState [1;2;3] [4] [1;2;5] [5] true) with
  | inl (c, p) => list_eqb N.eqb (c_learners c) [4] && list_eqb N.eqb (c_learners_next c) [5]
  | inr _ => false
  end = true.
Proof. vm_compute. reflexivity. Qed.

(* ---- only members have a progress record (the "non-members none" clause of C13, which
   checkInvariants itself does not test) ---- *)

(* only members have a progress record *)
Definition pinv (c : config) (p : progress_map) : Prop :=
  forall id, amem p id = true ->
    In id (c_voters c) \/ In id (c_outgoing c) \/ In id (c_learners c) \/ In id (c_learners_next c).

Lemma amem_ainsert {A} (m : list (N * A)) k v k' : amem (ainsert m k v) k' = (N.eqb k' k || amem m k').
Proof. unfold amem. rewrite alookup_ainsert. destruct (N.eqb k' k); reflexivity. Qed.

Lemma amem_aremove {A} (m : list (N * A)) k k' : amem (aremove m k) k' = (negb (N.eqb k' k) && amem m k').
Proof. unfold amem. rewrite alookup_aremove. destruct (N.eqb k' k); reflexivity. Qed.

Tactic Notation "pinv_case" ident(i) constr(id) :=
  rewrite ?amem_ainsert, ?amem_aremove in *;
  destruct (N.eqb_spec i id) as [?|?]; [subst i|]; cbn [orb andb negb] in *;
  rewrite ?sinsert_In, ?sremove_In.

Lemma make_voter_pinv mi mb li c p id c' p' :
  pinv c p -> make_voter mi mb li c p id = (c', p') -> pinv c' p'.
Proof.
  intros PI H. unfold make_voter, init_progress in H.
  destruct (alookup p id); inversion H; subst; clear H; unfold pinv; intros i AM; cbn; pinv_case i id; try tauto;
    apply PI in AM; tauto.
Qed.

Lemma cc_remove_pinv c p id c' p' :
  pinv c p -> cc_remove c p id = (c', p') -> pinv c' p'.
Proof.
  intros PI H. unfold cc_remove in H.
  destruct (negb _); [inversion H; subst; exact PI|].
  destruct (smem (c_outgoing c) id) eqn:SM; inversion H; subst; clear H; unfold pinv; intros i AM; cbn; pinv_case i id;
    try discriminate; try (apply smem_In in SM; tauto); apply PI in AM; tauto.
Qed.

Lemma make_learner_pinv mi mb li c p id c' p' :
  pinv c p -> make_learner mi mb li c p id = (c', p') -> pinv c' p'.
Proof.
  intros PI H. unfold make_learner, init_progress in H.
  destruct (alookup p id) as [pr|] eqn:E.
  2:{ inversion H; subst; clear H; unfold pinv; intros i AM; cbn; pinv_case i id; try tauto; apply PI in AM; tauto. }
  destruct (pr_is_learner pr); [inversion H; subst; exact PI|].
  unfold cc_remove in H. assert (HP : has_progress p id = true) by (unfold has_progress, amem; rewrite E; reflexivity).
  rewrite HP in H. cbn [negb] in H.
  destruct (smem (c_outgoing c) id) eqn:SM; cbn in H; rewrite SM in H; inversion H; subst; clear H;
    unfold pinv; intros i AM; cbn; pinv_case i id; try tauto; apply PI in AM; tauto.
Qed.

Lemma cc_apply_pinv mi mb li : forall ccs c p c' p',
  pinv c p -> cc_apply mi mb li c p ccs = inl (c', p') -> pinv c' p'.
Proof.
  induction ccs as [|cc ccs IH]; intros c p c' p' PI H; cbn [cc_apply] in H.
  - destruct (N.eqb _ 0); [discriminate|]. inversion H; subst. exact PI.
  - destruct (N.eqb (ccs_node cc) 0); [eapply IH; eauto|].
    destruct (ccs_type cc); try discriminate.
    + destruct (make_voter _ _ _ _ _ _) as [c1 p1] eqn:R. eapply IH; [|exact H]. eapply make_voter_pinv; eauto.
    + destruct (cc_remove _ _ _) as [c1 p1] eqn:R. eapply IH; [|exact H]. eapply cc_remove_pinv; eauto.
    + eapply IH; eauto.
    + destruct (make_learner _ _ _ _ _ _) as [c1 p1] eqn:R. eapply IH; [|exact H]. eapply make_learner_pinv; eauto.
Qed.

Theorem changer_simple_pinv t li ccs c p :
  pinv (t_config t) (t_progress t) -> changer_simple t li ccs = inl (c, p) -> pinv c p.
Proof.
  unfold changer_simple. intros PI H.
  destruct (check_and_return (cfg_clone (t_config t)) (t_progress t)) as [[c0 p0]|] eqn:E0; [|discriminate].
  apply check_and_return_ok in E0. destruct E0 as (-> & -> & I0).
  destruct (joint _); [discriminate|].
  destruct (cc_apply _ _ _ _ _ _) as [[c2 p2]|] eqn:EA; [|discriminate].
  destruct (1 <? symdiff _ _); [discriminate|].
  apply check_and_return_ok in H. destruct H as (-> & -> & _).
  eapply cc_apply_pinv; [|exact EA]. exact PI.
Qed.

Theorem changer_enter_joint_pinv t li al ccs c p :
  pinv (t_config t) (t_progress t) -> changer_enter_joint t li al ccs = inl (c, p) -> pinv c p.
Proof.
  unfold changer_enter_joint. intros PI H.
  destruct (check_and_return (cfg_clone (t_config t)) (t_progress t)) as [[c0 p0]|] eqn:E0; [|discriminate].
  apply check_and_return_ok in E0. destruct E0 as (-> & -> & I0).
  destruct (joint _) eqn:J; [discriminate|].
  destruct (N.eqb (nlen _) 0); [discriminate|].
  destruct (cc_apply _ _ _ _ _ _) as [[c2 p2]|] eqn:EA; [|discriminate].
  apply check_and_return_ok in H. destruct H as (-> & -> & _).
  apply cc_apply_pinv in EA.
  - intros i AM. apply EA in AM. cbn. exact AM.
  - intros i AM. apply PI in AM. cbn. unfold joint in J. cbn in J. apply negb_false_iff, nlen_zero in J.
    rewrite J in AM. cbn in AM. tauto.
Qed.

Lemma fold_mark_amem (f : progress -> progress) : forall l (p : progress_map) i,
  amem (fold_left (fun p id => match alookup p id with Some pr => ainsert p id (f pr) | None => p end) l p) i = amem p i.
Proof.
  induction l as [|id l IH]; intros p i; cbn [fold_left]; [reflexivity|]. rewrite IH.
  destruct (alookup p id) as [pr|] eqn:E; [|reflexivity]. rewrite amem_ainsert.
  destruct (N.eqb_spec i id) as [->|]; [|reflexivity]. unfold amem. rewrite E. reflexivity.
Qed.

Lemma fold_drop_amem (cond : N -> bool) : forall l (p : progress_map) i,
  amem (fold_left (fun p id => if cond id then aremove p id else p) l p) i = true ->
  amem p i = true /\ (In i l -> cond i = false).
Proof.
  induction l as [|id l IH]; intros p i H; cbn [fold_left] in H; [split; [exact H|intros []]|].
  apply IH in H. destruct H as [H1 H2]. destruct (cond id) eqn:CD.
  - rewrite amem_aremove in H1. apply andb_true_iff in H1. destruct H1 as [NE AM]. split; [exact AM|].
    intros [->|I]; [rewrite N.eqb_refl in NE; discriminate|auto].
  - split; [exact H1|]. intros [->|I]; auto.
Qed.

Theorem changer_leave_joint_pinv t c p :
  pinv (t_config t) (t_progress t) -> changer_leave_joint t = inl (c, p) -> pinv c p.
Proof.
  unfold changer_leave_joint. intros PI H.
  destruct (check_and_return (cfg_clone (t_config t)) (t_progress t)) as [[c0 p0]|] eqn:E0; [|discriminate].
  apply check_and_return_ok in E0. destruct E0 as (-> & -> & I0).
  destruct (negb (joint _)); [discriminate|].
  apply check_and_return_ok in H. destruct H as (-> & -> & _).
  unfold pinv. intros i AM. cbn in *.
  apply fold_drop_amem in AM. destruct AM as [AM CD].
  rewrite (fold_mark_amem (fun pr => pr_with_is_learner pr true)) in AM.
  apply PI in AM. rewrite fold_sinsert_In.
  destruct AM as [V|[O|[L|LN]]]; [tauto| |tauto|tauto].
  specialize (CD O). apply andb_false_iff in CD. destruct CD as [CD|CD]; apply negb_false_iff, smem_In in CD.
  - tauto.
  - apply fold_sinsert_In in CD. tauto.
Qed.

(* non-vacuity and strength: the empty tracker satisfies pinv, so every configuration reached
   from it by accepted changes does *)
Lemma pinv_fresh mi mb : pinv (t_config (make_tracker mi mb)) (t_progress (make_tracker mi mb)).
Proof. unfold pinv. cbn. intros id H. discriminate. Qed.
