(* ProposalProofs.v: what a proposal does to the log of the node that receives it (C20).
   At a leader an accepted MsgProp extends the logical log at its end by exactly the proposal's
   entries, in order, stamped with the leader's term and consecutive indexes, type and payload
   untouched, except that a configuration change the gate refuses is replaced by an empty normal
   entry; a proposal reported as dropped leaves the log exactly as it was, at a leader, a candidate
   and a follower alike (a follower forwards or drops, C20_follower_forwards_or_drops).  The only
   entry a node adds on its own when it becomes leader is one empty entry. *)
From Coq Require Import List NArith Bool Lia.
From RaftV Require Import Base Types Quorum Progress Tracker Storage Log Raft RawNode Tactics
     LogProofs AppendRefine.
Import ListNotations.
Open Scope N_scope.

(* the log is left alone *)
Definition same_log (r r' : raft) : Prop := r_log r' = r_log r.

Lemma same_log_refl r : same_log r r.
Proof. reflexivity. Qed.
Lemma same_log_trans a b c : same_log a b -> same_log b c -> same_log a c.
Proof. unfold same_log. congruence. Qed.

Lemma send_log r m r' : send r m = Ok r' -> same_log r r'.
Proof. unfold send. intros H. inv_ok; reflexivity. Qed.

Section WithStorage.
Variable st : memstorage.

Lemma maybe_send_snapshot_log r to pr r' b : maybe_send_snapshot st r to pr = Ok (r', b) -> same_log r r'.
Proof.
  unfold maybe_send_snapshot. intros H. inv_ok; try reflexivity.
  match goal with E : send _ _ = Ok _ |- _ => apply send_log in E; exact E end.
Qed.

Lemma maybe_send_append_log r to sie r' b : maybe_send_append st r to sie = Ok (r', b) -> same_log r r'.
Proof.
  unfold maybe_send_append. intros H.
  inv_ok; try reflexivity; try (eapply maybe_send_snapshot_log; eassumption).
  all: match goal with E : send _ _ = Ok _ |- _ => apply send_log in E; exact E end.
Qed.

Lemma send_append_log r to r' : send_append st r to = Ok r' -> same_log r r'.
Proof.
  unfold send_append. intros H.
  destruct (maybe_send_append st r to true) as [[r1 b]|] eqn:E; cbn [bind] in H; [|discriminate].
  inversion H; subst. eapply maybe_send_append_log; eassumption.
Qed.

Lemma visit_others_log (f : raft -> N -> res raft) :
  (forall r id r', f r id = Ok r' -> same_log r r') ->
  forall ids r r', visit_others f r ids = Ok r' -> same_log r r'.
Proof.
  intros Hf ids. induction ids as [|id ids IH]; intros r r' H; cbn in H.
  - inversion H. reflexivity.
  - destruct (N.eqb id (r_id r)); [apply IH; exact H|].
    destruct (f r id) as [r1|] eqn:E; cbn [bind] in H; [|discriminate].
    eapply same_log_trans; [eapply Hf; exact E|apply IH; exact H].
Qed.

Lemma bcast_append_log r r' : bcast_append st r = Ok r' -> same_log r r'.
Proof. unfold bcast_append. apply visit_others_log. intros; eapply send_append_log; eassumption. Qed.

(* ---------- the gate ---------- *)

(* what the gate may do to one entry: keep it, or replace a configuration change by an empty
   normal entry *)
Definition neutral : entry := mkEntry 0 0 EntryNormal true [] false false.
Definition gated (e e' : entry) : Prop := e' = e \/ (is_cc_type (e_type e) = true /\ e' = neutral).

Lemma prop_gate_shape es : forall r li i r' es',
  prop_gate r li i es = (r', es') -> same_log r r' /\ r_term r' = r_term r /\ Forall2 gated es es'.
Proof.
  induction es as [|e es IH]; intros r li i r' es' H; cbn in H.
  - inversion H; subst. repeat split. constructor.
  - destruct (is_cc_type (e_type e)) eqn:CC.
    + destruct (_ && negb (r_disable_cc_validation r)).
      * destruct (prop_gate r li (i + 1) es) as [r1 es1] eqn:E. apply IH in E. destruct E as (L & TT & F).
        inversion H; subst. repeat split; try assumption. constructor; [|exact F]. right. auto.
      * destruct (prop_gate (set_r_pending_conf_index r (li + i + 1)) li (i + 1) es) as [r1 es1] eqn:E.
        apply IH in E. destruct E as (L & TT & F). inversion H; subst.
        repeat split; try assumption. constructor; [|exact F]. left. reflexivity.
    + destruct (prop_gate r li (i + 1) es) as [r1 es1] eqn:E. apply IH in E. destruct E as (L & TT & F).
      inversion H; subst. repeat split; try assumption. constructor; [|exact F]. left. reflexivity.
Qed.

(* ---------- appendEntry ---------- *)

Lemma stamp_contig term es : forall next, contig next (stamp term next es).
Proof.
  induction es as [|e es IH]; intros next; cbn; [exact I|]. split; [reflexivity|apply IH].
Qed.

(* the logical log extended at its end *)
Definition extended (a : abslog) (es : list entry) : abslog :=
  mkAbs (a_base a) (a_base_term a) (a_ents a ++ es).

Theorem append_entry_view r es r' ok :
  l_wf st (r_log r) -> es <> [] ->
  append_entry st r es = Ok (r', ok) ->
  if ok
  then l_wf st (r_log r') /\ r_term r' = r_term r /\
       lview st (r_log r') = extended (lview st (r_log r)) (stamp (r_term r) (last_index st r + 1) es)
  else r' = r.
Proof.
  intros W NE H. unfold append_entry, increase_uncommitted_size in H.
  destruct (_ && _ && _).
  - cbn in H. inversion H; subst. reflexivity.
  - cbn [negb] in H. cbv iota beta in H.
    match type of H with bind ?x _ = _ => destruct x as [l|] eqn:EL; cbn [bind] in H; [|discriminate] end.
    match type of H with bind ?x _ = _ => destruct x as [r1|] eqn:E1; cbn [bind] in H; [|discriminate] end.
    inversion H; subst; clear H.
    assert (L1 : r_log r' = l /\ r_term r' = r_term r).
    { unfold send in E1. inv_ok; cbn; auto. }
    destruct L1 as [L1 T1]. rewrite L1. cbn [r_log set_r_uncommitted_size] in EL.
    destruct es as [|e0 es0]; [congruence|].
    cbn [stamp] in EL.
    set (ents := mkEntry (r_term r) (last_index st r + 1) (e_type e0) (e_has_type e0) (e_data e0) (e_has_data e0) (e_leave e0)
                 :: stamp (r_term r) (last_index st r + 1 + 1) es0) in *.
    assert (C : contig (last_index st r + 1) ents).
    { subst ents. cbn. split; [reflexivity|apply stamp_contig]. }
    assert (LI : last_index st r + 1 = a_last (lview st (r_log r)) + 1).
    { unfold last_index. rewrite (lview_last _ _ W). reflexivity. }
    destruct (l_append_end_view st (r_log r) ents l _ _ W eq_refl C LI EL) as [W' V].
    split; [exact W'|]. split; [exact T1|]. rewrite V. reflexivity.
Qed.

(* ---------- a proposal at a leader ---------- *)

Theorem leader_propose r m r' e :
  m_type m = MsgProp -> l_wf st (r_log r) ->
  step_leader st r m = Ok (r', e) ->
  (e = ErrProposalDropped /\ same_log r r') \/
  (e = ENone /\ l_wf st (r_log r') /\
   exists es', Forall2 gated (m_entries m) es' /\
     lview st (r_log r') = extended (lview st (r_log r)) (stamp (r_term r) (last_index st r + 1) es')).
Proof.
  intros TY W H. unfold step_leader in H. rewrite TY in H.
  destruct (m_entries m) as [|e0 es] eqn:EM; [discriminate|].
  destruct (get_progress r (r_id r)); [|inversion H; subst; left; split; reflexivity].
  destruct (negb _); [inversion H; subst; left; split; reflexivity|].
  destruct (prop_gate r (last_index st r) 0 (e0 :: es)) as [r1 es1] eqn:EG.
  apply prop_gate_shape in EG. destruct EG as (L1 & T1 & F).
  destruct (append_entry st r1 es1) as [[r2 ok]|] eqn:EA; cbn [bind] in H; [|discriminate].
  cbn [fst snd] in H.
  assert (NE : es1 <> []) by (inversion F; subst; discriminate).
  assert (W1 : l_wf st (r_log r1)) by (rewrite L1; exact W).
  pose proof (append_entry_view _ _ _ _ W1 NE EA) as V.
  destruct ok; cbn [negb] in H.
  - destruct (bcast_append st r2) as [r3|] eqn:EB; cbn [bind] in H; [|discriminate].
    inversion H; subst; clear H. apply bcast_append_log in EB. right.
    destruct V as (W2 & T2 & V2). rewrite EB. split; [reflexivity|]. split; [exact W2|].
    exists es1. split; [exact F|]. rewrite V2. unfold last_index. rewrite L1, T1. reflexivity.
  - inversion H; subst r' e; clear H. left. split; [reflexivity|]. rewrite V. exact L1.
Qed.

(* a candidate drops, a follower forwards or drops: neither touches its log *)
Lemma candidate_propose r m r' e :
  m_type m = MsgProp -> step_candidate st r m = Ok (r', e) -> e = ErrProposalDropped /\ r' = r.
Proof. unfold step_candidate. intros TY H. rewrite TY in H. inversion H. auto. Qed.

Lemma follower_propose r m r' e :
  m_type m = MsgProp -> step_follower st r m = Ok (r', e) -> same_log r r'.
Proof.
  unfold step_follower. intros TY H. rewrite TY in H.
  destruct (N.eqb (r_lead r) NoneId); [inversion H; reflexivity|].
  destruct (r_disable_proposal_forwarding r); [inversion H; reflexivity|].
  destruct (send r _) as [r1|] eqn:E; cbn [bind] in H; [|discriminate].
  inversion H; subst. apply send_log in E. exact E.
Qed.

(* Propose / ProposeConfChange through Step, in any role: the log is extended by the gated, stamped
   entries of the proposal, or left exactly as it was *)
Theorem step_propose r m r' e :
  m_type m = MsgProp -> m_term m = 0 -> l_wf st (r_log r) ->
  step st r m = Ok (r', e) ->
  same_log r r' \/
  (r_state r = StateLeader /\ e = ENone /\ l_wf st (r_log r') /\
   exists es', Forall2 gated (m_entries m) es' /\
     lview st (r_log r') = extended (lview st (r_log r)) (stamp (r_term r) (last_index st r + 1) es')).
Proof.
  intros TY TZ W H. unfold step, step_gen, step_preamble in H.
  rewrite TZ in H. cbn [N.eqb bind negb] in H.
  unfold step_dispatch in H. rewrite TY in H.
  destruct (r_state r) eqn:SR.
  - left. eapply follower_propose; eassumption.
  - left. apply candidate_propose in H; [|exact TY]. destruct H as [_ H]. subst. reflexivity.
  - destruct (leader_propose _ _ _ _ TY W H) as [[_ L]|(E & W' & X)]; [left; exact L|right; auto].
  - left. apply candidate_propose in H; [|exact TY]. destruct H as [_ H]. subst. reflexivity.
Qed.


(* ---------- the entry of a new leadership ---------- *)

Lemma reset_log r term r' : reset st r term = Ok r' -> r_log r' = r_log r /\ r_term r' = term.
Proof.
  unfold reset. intros H.
  destruct (negb (N.eqb (r_term r) term)) eqn:ET; inv_ok;
  match goal with E : reset_randomized _ = Ok _ |- _ => unfold reset_randomized in E end; inv_ok; cbn; split; auto.
  bool_to_prop. assumption.
Qed.

(* becoming leader adds exactly one entry of its own to the log: an empty normal entry of the new
   leader's term right after the last index *)
Theorem become_leader_view r r' :
  l_wf st (r_log r) -> become_leader st r = Ok r' ->
  l_wf st (r_log r') /\
  lview st (r_log r') =
    extended (lview st (r_log r)) [mkEntry (r_term r) (last_index st r + 1) EntryNormal false [] false false].
Proof.
  intros W H. unfold become_leader in H.
  destruct (state_type_eqb (r_state r) StateFollower); [discriminate|].
  destruct (reset st r (r_term r)) as [r1|] eqn:ER; cbn [bind] in H; [|discriminate].
  apply reset_log in ER. destruct ER as [L1 T1].
  destruct (get_progress _ _) as [pr|]; [|discriminate].
  match type of H with bind ?x _ = _ => destruct x as [[r2 ok]|] eqn:EA; cbn [bind] in H; [|discriminate] end.
  cbn [fst snd] in H. destruct ok; [|discriminate]. inversion H; subst r2; clear H.
  match type of EA with append_entry st ?rx _ = _ => set (rX := rx) in * end.
  assert (LX : r_log rX = r_log r) by (rewrite <- L1; reflexivity).
  assert (TX : r_term rX = r_term r) by (rewrite <- T1; reflexivity).
  apply append_entry_view in EA; [|rewrite LX; exact W|discriminate].
  destruct EA as (W' & _ & V). split; [exact W'|]. rewrite V.
  unfold last_index. rewrite LX, TX. reflexivity.
Qed.

End WithStorage.

(* ---------- the follower's commit index (C06) ---------- *)

Lemma l_commit_to_max st l c l' :
  l_commit_to st l c = Ok l' -> l_committed l' = N.max (l_committed l) c.
Proof.
  unfold l_commit_to. intros H. destruct (l_committed l <? c) eqn:E.
  - destruct (_ <? _) in H; [discriminate|]. inversion H; subst. cbn. apply N.ltb_lt in E. lia.
  - inversion H; subst. apply N.ltb_ge in E. lia.
Qed.

(* an accepted MsgApp moves the follower's commit index to min(leader's commit, end of the matched
   prefix) and no further: never beyond what the leader says is committed, never beyond the part of
   the log that the message proved equal to the leader's *)
Theorem follower_commit_clamped st l pi pt ents c l' last :
  l_maybe_append st l pi pt ents c = Ok (l', Some last) ->
  last = pi + nlen ents /\
  l_committed l' = N.max (l_committed l) (N.min c (pi + nlen ents)).
Proof.
  unfold l_maybe_append. intros H.
  destruct (negb _); [discriminate|].
  match type of H with bind ?x _ = _ => destruct x as [l1|] eqn:E1; cbn [bind] in H; [|discriminate] end.
  match type of H with bind ?x _ = _ => destruct x as [l2|] eqn:E2; cbn [bind] in H; [|discriminate] end.
  inversion H; subst; clear H. split; [reflexivity|].
  apply l_commit_to_max in E2. rewrite E2. f_equal.
  destruct (N.eqb _ 0); [inversion E1; reflexivity|].
  destruct (_ <=? _); [discriminate|]. destruct (_ <? _); [discriminate|].
  unfold l_append in E1. inv_ok; reflexivity.
Qed.

(* ---------- the snapshot a leader sends (C09) ---------- *)

(* maybeSendSnapshot sends exactly the snapshot the log can offer: the one waiting in the unstable
   log if there is one, otherwise the storage's latest snapshot (which the application created from
   its applied, hence committed, state) *)
Theorem snapshot_sent_is_the_logs st r to pr r' :
  maybe_send_snapshot st r to pr = Ok (r', true) ->
  exists m, r_msgs r' = r_msgs r ++ [m] /\ m_type m = MsgSnap /\ m_to m = to /\
            m_snapshot m = Some (l_snapshot st (r_log r)) /\
            l_snapshot st (r_log r) = match u_snapshot (l_unstable (r_log r)) with
                                      | Some s => s
                                      | None => ms_get_snapshot st
                                      end.
Proof.
  unfold maybe_send_snapshot. intros H.
  destruct (negb (pr_recent_active pr)); [discriminate|].
  destruct (N.eqb _ 0); [discriminate|].
  match type of H with bind ?x _ = _ => destruct x as [r1|] eqn:E1; cbn [bind] in H; [|discriminate] end.
  inversion H; subst; clear H.
  unfold send in E1. cbn [m_from m_type m_term is_vote_family N.eqb NoneId negb bind set_from set_term m_to] in E1.
  destruct (N.eqb to (r_id (put_progress r to (pr_become_snapshot pr (s_index (l_snapshot st (r_log r))))))); [discriminate|].
  inversion E1; subst; clear E1. cbn.
  eexists. split; [reflexivity|]. repeat split.
Qed.
