(* CheckQuorumProofs.v: the CheckQuorum step-down of a leader (C17), over arbitrary sequences of
   ticks and messages.
   The leader marks a peer as recently active only when it steps a MsgAppResp or a
   MsgHeartbeatResp from that peer; every election timeout it checks that the peers so marked
   (and itself) form a quorum of every voter set, steps down if they do not, and clears the marks.
   Consequently a leader that does not hear from a quorum is no longer leader of its term after at
   most two election timeouts of ticks.  A leadership transfer request restarts the election
   timer (raft.go: "Transfer leadership should be finished in one electionTimeout"), so the
   window is counted from the last such request. *)
From Coq Require Import List NArith Bool Lia.
From RaftV Require Import Base Types Quorum Progress Tracker Storage Log Raft RawNode Tactics RaftMono.
Import ListNotations.
Open Scope N_scope.

(* every progress entry marked recently active belongs to S *)
Definition act_in (S : N -> Prop) (r : raft) : Prop :=
  Forall (fun kv => pr_recent_active (snd kv) = true -> S (fst kv)) (t_progress (r_trk r)).

Lemma act_in_weaken (S S' : N -> Prop) r : (forall i, S i -> S' i) -> act_in S r -> act_in S' r.
Proof. unfold act_in. intros HS H. eapply Forall_impl; [|exact H]. cbn. intros a Ha A. auto. Qed.

Lemma alookup_in {A} (l : list (N * A)) k v : alookup l k = Some v -> In (k, v) l.
Proof.
  induction l as [|[k' v'] l IH]; cbn; [discriminate|].
  destruct (N.eqb k k') eqn:E.
  - intros H. inversion H; subst. apply N.eqb_eq in E. subst. left. reflexivity.
  - intros H. right. apply IH. exact H.
Qed.

Lemma forall_ainsert {A} (P : N * A -> Prop) l k v : Forall P l -> P (k, v) -> Forall P (ainsert l k v).
Proof.
  induction l as [|[k' v'] l IH]; cbn; intros F Pk.
  - constructor; [exact Pk|constructor].
  - inversion F as [|? ? F1 F2]; subst.
    destruct (N.eqb k k'); [constructor; assumption|].
    destruct (N.ltb k k'); [constructor; [exact Pk|constructor; assumption]|].
    constructor; [exact F1|apply IH; assumption].
Qed.

Lemma act_in_lookup S r id pr :
  act_in S r -> get_progress r id = Some pr -> pr_recent_active pr = true -> S id.
Proof.
  unfold act_in, get_progress. intros F L A. apply alookup_in in L.
  rewrite Forall_forall in F. apply (F _ L). exact A.
Qed.

Lemma put_progress_act S r id p :
  act_in S r -> (pr_recent_active p = true -> S id) -> act_in S (put_progress r id p).
Proof. unfold act_in, put_progress. cbn. intros F H. apply forall_ainsert; assumption. Qed.

(* the bookkeeping of a leadership that CheckQuorum depends on *)
Definition lstate (r : raft) :=
  (r_id r, r_term r, r_state r, r_vote r, r_lead r, r_election_elapsed r, r_election_timeout r,
   r_check_quorum r, t_config (r_trk r)).

(* [lk X r r']: the bookkeeping is kept and no peer outside X is newly marked active *)
Definition lk (X : N -> Prop) (r r' : raft) : Prop :=
  lstate r' = lstate r /\ forall S, act_in S r -> act_in (fun i => S i \/ X i) r'.

Definition nobody : N -> Prop := fun _ => False.

Lemma lk_refl X r : lk X r r.
Proof. split; [reflexivity|]. intros S H. eapply act_in_weaken; [|exact H]. auto. Qed.

Lemma lk_trans X a b c : lk X a b -> lk X b c -> lk X a c.
Proof.
  intros [L1 A1] [L2 A2]. split; [congruence|]. intros S H.
  eapply act_in_weaken; [|apply A2, A1, H]. cbn. tauto.
Qed.

Lemma lk_weaken (X Y : N -> Prop) r r' : (forall i, X i -> Y i) -> lk X r r' -> lk Y r r'.
Proof.
  intros XY [L A]. split; [exact L|]. intros S H. eapply act_in_weaken; [|apply A, H]. cbn. intros i [Hi|Hi]; auto.
Qed.

(* an update that leaves the tracker alone *)
Lemma lk_same_trk X r r' : lstate r' = lstate r -> t_progress (r_trk r') = t_progress (r_trk r) -> lk X r r'.
Proof.
  intros L P. split; [exact L|]. intros S H. unfold act_in in *. rewrite P.
  eapply Forall_impl; [|exact H]. cbn. auto.
Qed.

Ltac lk_id := apply lk_same_trk; reflexivity.

Lemma send_lk X r m r' : send r m = Ok r' -> lk X r r'.
Proof. unfold send. intros H. inv_ok; lk_id. Qed.

(* replacing the progress of [id] by one that is not more active than the old one *)
Lemma put_progress_lk X r id pr p :
  get_progress r id = Some pr -> (pr_recent_active p = true -> pr_recent_active pr = true) ->
  lk X r (put_progress r id p).
Proof.
  intros L A. split; [reflexivity|]. intros S H. apply put_progress_act.
  - eapply act_in_weaken; [|exact H]. auto.
  - intros Ap. left. eapply act_in_lookup; eauto.
Qed.

(* ... or the progress of a peer in X, whatever it is *)
Lemma put_progress_lk_x (X : N -> Prop) r id p : X id -> lk X r (put_progress r id p).
Proof.
  intros Hx. split; [reflexivity|]. intros S H. apply put_progress_act.
  - eapply act_in_weaken; [|exact H]. auto.
  - intros _. right. exact Hx.
Qed.

Lemma ra_set_sent_commit p c : pr_recent_active (pr_set_sent_commit p c) = pr_recent_active p.
Proof. reflexivity. Qed.
Lemma ra_become_snapshot p i : pr_recent_active (pr_become_snapshot p i) = pr_recent_active p.
Proof. reflexivity. Qed.
Lemma ra_sent_entries p n b p' : pr_sent_entries p n b = Ok p' -> pr_recent_active p' = pr_recent_active p.
Proof.
  unfold pr_sent_entries. intros H. destruct (pr_state_ p); [| |discriminate].
  - destruct (0 <? n); inversion H; reflexivity.
  - destruct (0 <? n).
    + destruct (infl_add _ _ _); cbn [bind] in H; [|discriminate]. inversion H; reflexivity.
    + cbn [bind] in H. inversion H; reflexivity.
Qed.

Section WithStorage.
Variable st : memstorage.

Lemma get_progress_lstate r r' id :
  t_progress (r_trk r') = t_progress (r_trk r) -> get_progress r' id = get_progress r id.
Proof. unfold get_progress. intros H. rewrite H. reflexivity. Qed.

Lemma maybe_send_snapshot_lk X r to pr r' b :
  get_progress r to = Some pr ->
  maybe_send_snapshot st r to pr = Ok (r', b) -> lk X r r'.
Proof.
  unfold maybe_send_snapshot. intros L H.
  destruct (negb (pr_recent_active pr)); [inversion H; apply lk_refl|].
  destruct (N.eqb _ 0); [discriminate|].
  match type of H with bind ?x _ = _ => destruct x as [r1|] eqn:E1; cbn [bind] in H; [|discriminate] end.
  inversion H; subst; clear H. apply (send_lk X) in E1.
  eapply lk_trans; [|exact E1]. eapply put_progress_lk; [exact L|]. rewrite ra_become_snapshot. auto.
Qed.

Lemma maybe_send_append_lk X r to sie r' b :
  maybe_send_append st r to sie = Ok (r', b) -> lk X r r'.
Proof.
  unfold maybe_send_append. intros H.
  destruct (get_progress r to) as [pr|] eqn:L; [|discriminate].
  destruct (pr_is_paused pr); [inversion H; apply lk_refl|].
  destruct (l_term st (r_log r) (pr_prev (pr_next pr))) as [pt [| | | | | | |]] eqn:ET;
    try (eapply maybe_send_snapshot_lk; eassumption).
  match type of H with bind ?x _ = _ => destruct x as [[ents e]|] eqn:EE; cbn [bind] in H; [|discriminate] end.
  destruct (N.eqb (nlen ents) 0 && negb sie); [inversion H; apply lk_refl|].
  destruct e; try (eapply maybe_send_snapshot_lk; eassumption).
  match type of H with bind ?x _ = _ => destruct x as [r1|] eqn:E1; cbn [bind] in H; [|discriminate] end.
  match type of H with bind ?x _ = _ => destruct x as [p1|] eqn:E2; cbn [bind] in H; [|discriminate] end.
  inversion H; subst; clear H.
  pose proof (send_lk X _ _ _ E1) as K1. eapply lk_trans; [exact K1|].
  assert (L1 : get_progress r1 to = Some pr).
  { rewrite <- L. apply get_progress_lstate. unfold send in E1. inv_ok; reflexivity. }
  eapply put_progress_lk; [exact L1|]. rewrite ra_set_sent_commit, (ra_sent_entries _ _ _ _ E2). auto.
Qed.

Lemma send_append_lk X r to r' : send_append st r to = Ok r' -> lk X r r'.
Proof.
  unfold send_append. intros H.
  destruct (maybe_send_append st r to true) as [[r1 b]|] eqn:E; cbn [bind] in H; [|discriminate].
  inversion H; subst. eapply maybe_send_append_lk; eassumption.
Qed.

Lemma send_heartbeat_lk X r to ctx r' : send_heartbeat r to ctx = Ok r' -> lk X r r'.
Proof.
  unfold send_heartbeat. intros H.
  destruct (get_progress r to) as [pr|] eqn:L; [|discriminate].
  match type of H with bind ?x _ = _ => destruct x as [r1|] eqn:E1; cbn [bind] in H; [|discriminate] end.
  inversion H; subst; clear H.
  pose proof (send_lk X _ _ _ E1) as K1. eapply lk_trans; [exact K1|].
  assert (L1 : get_progress r1 to = Some pr).
  { rewrite <- L. apply get_progress_lstate. unfold send in E1. inv_ok; reflexivity. }
  eapply put_progress_lk; [exact L1|]. rewrite ra_set_sent_commit. auto.
Qed.

Lemma visit_others_lk X (f : raft -> N -> res raft) :
  (forall r id r', f r id = Ok r' -> lk X r r') ->
  forall ids r r', visit_others f r ids = Ok r' -> lk X r r'.
Proof.
  intros Hf ids. induction ids as [|id ids IH]; intros r r' H; cbn in H.
  - inversion H. apply lk_refl.
  - destruct (N.eqb id (r_id r)); [apply IH; exact H|].
    destruct (f r id) as [r1|] eqn:E; cbn [bind] in H; [|discriminate].
    eapply lk_trans; [eapply Hf; exact E|apply IH; exact H].
Qed.

Lemma bcast_append_lk X r r' : bcast_append st r = Ok r' -> lk X r r'.
Proof. unfold bcast_append. apply visit_others_lk. intros; eapply send_append_lk; eassumption. Qed.

Lemma bcast_heartbeat_ctx_lk X r ctx r' : bcast_heartbeat_with_ctx r ctx = Ok r' -> lk X r r'.
Proof. unfold bcast_heartbeat_with_ctx. apply visit_others_lk. intros; eapply send_heartbeat_lk; eassumption. Qed.

Lemma bcast_heartbeat_lk X r r' : bcast_heartbeat r = Ok r' -> lk X r r'.
Proof. unfold bcast_heartbeat. apply bcast_heartbeat_ctx_lk. Qed.

Lemma maybe_commit_lk X r r' b : maybe_commit st r = Ok (r', b) -> lk X r r'.
Proof.
  unfold maybe_commit. intros H.
  destruct (l_maybe_commit _ _ _ _) as [[l c]|]; cbn [bind] in H; [|discriminate].
  inversion H; subst. lk_id.
Qed.

Lemma append_entry_lk X r es r' b : append_entry st r es = Ok (r', b) -> lk X r r'.
Proof.
  unfold append_entry, increase_uncommitted_size. intros H.
  destruct (_ && _ && _).
  - cbn in H. inversion H; subst. apply lk_refl.
  - cbn [negb] in H. cbv iota beta in H.
    match type of H with bind ?x _ = _ => destruct x as [l|]; cbn [bind] in H; [|discriminate] end.
    match type of H with bind ?x _ = _ => destruct x as [r1|] eqn:E1; cbn [bind] in H; [|discriminate] end.
    inversion H; subst. apply (send_lk X) in E1. eapply lk_trans; [|exact E1]. lk_id.
Qed.

Lemma prop_gate_lk X es : forall r li i r' es', prop_gate r li i es = (r', es') -> lk X r r'.
Proof.
  induction es as [|e es IH]; intros r li i r' es' H; cbn in H.
  - inversion H. apply lk_refl.
  - destruct (is_cc_type (e_type e)).
    + destruct (_ && negb (r_disable_cc_validation r)).
      * destruct (prop_gate r li (i + 1) es) as [r1 es1] eqn:E. apply IH in E. inversion H; subst. exact E.
      * destruct (prop_gate (set_r_pending_conf_index r (li + i + 1)) li (i + 1) es) as [r1 es1] eqn:E.
        apply IH in E. inversion H; subst. eapply lk_trans; [|exact E]. lk_id.
    + destruct (prop_gate r li (i + 1) es) as [r1 es1] eqn:E. apply IH in E. inversion H; subst. exact E.
Qed.

Lemma respond_read_index_lk X r req i r' : respond_read_index r req i = Ok r' -> lk X r r'.
Proof.
  unfold respond_read_index, response_to_read_index_req. intros H.
  destruct (_ || _).
  - destruct (m_entries req); [discriminate|]. cbn [bind fst snd] in H. inversion H; subst. lk_id.
  - cbn [bind fst snd] in H. eapply send_lk; eassumption.
Qed.

Lemma send_msg_read_index_response_lk X r m r' :
  send_msg_read_index_response r m = Ok r' -> lk X r r'.
Proof.
  unfold send_msg_read_index_response. intros H.
  destruct (_ && is_singleton _); [eapply respond_read_index_lk; eassumption|].
  destruct (ro_option (r_read_only r)).
  - destruct (ro_recv_ack _ _ _) as [ro|]; cbn [bind] in H; [|discriminate].
    apply (bcast_heartbeat_lk X) in H. eapply lk_trans; [|exact H]. lk_id.
  - eapply respond_read_index_lk; eassumption.
Qed.

Lemma send_read_index_responses_lk X ms : forall r r',
  send_read_index_responses r ms = Ok r' -> lk X r r'.
Proof.
  induction ms as [|m ms IH]; intros r r' H; cbn in H.
  - inversion H. apply lk_refl.
  - destruct (send_msg_read_index_response r m) as [r1|] eqn:E; cbn [bind] in H; [|discriminate].
    eapply lk_trans; [eapply send_msg_read_index_response_lk; exact E|apply IH; exact H].
Qed.

Lemma release_pending_read_index_lk X r r' : release_pending_read_index st r = Ok r' -> lk X r r'.
Proof.
  unfold release_pending_read_index. intros H.
  destruct (r_pending_read_index r); [inversion H; apply lk_refl|].
  destruct (negb _); [inversion H; apply lk_refl|].
  apply (send_read_index_responses_lk X) in H. eapply lk_trans; [|exact H]. lk_id.
Qed.

Lemma send_timeout_now_lk X r to r' : send_timeout_now r to = Ok r' -> lk X r r'.
Proof. unfold send_timeout_now. apply send_lk. Qed.

Lemma send_append_loop_lk X fuel : forall r to r', send_append_loop st fuel r to = Ok r' -> lk X r r'.
Proof.
  induction fuel as [|f IH]; intros r to r' H; cbn in H; [discriminate|].
  destruct (maybe_send_append st r to false) as [[r1 b]|] eqn:E; cbn [bind] in H; [|discriminate].
  apply (maybe_send_append_lk X) in E. cbn [fst snd] in H. destruct b.
  - eapply lk_trans; [exact E|eapply IH; exact H].
  - inversion H; subst. exact E.
Qed.

Lemma respond_reads_lk X rss : forall r r', respond_reads r rss = Ok r' -> lk X r r'.
Proof.
  induction rss as [|[req idx] rss IH]; intros r r' H; cbn in H.
  - inversion H. apply lk_refl.
  - destruct (respond_read_index r req idx) as [r1|] eqn:E; cbn [bind] in H; [|discriminate].
    eapply lk_trans; [eapply respond_read_index_lk; exact E|apply IH; exact H].
Qed.

(* clearing the marks: nobody but the leader itself is marked afterwards *)
Lemma clear_recent_active_act r : act_in (fun i => i = r_id r) (clear_recent_active r).
Proof.
  unfold act_in, clear_recent_active. cbn. apply Forall_forall. intros [k p] Hin.
  apply in_map_iff in Hin. destruct Hin as ([k0 p0] & E & _). cbn in E.
  destruct (N.eqb k0 (r_id r)) eqn:EK.
  - inversion E; subst. cbn. intros _. apply N.eqb_eq. exact EK.
  - inversion E; subst. cbn. discriminate.
Qed.

Lemma clear_recent_active_lstate r : lstate (clear_recent_active r) = lstate r.
Proof. reflexivity. Qed.


(* ---------- stepLeader ---------- *)

(* the messages by which a leader hears from a peer *)
Definition marks (m : message) : bool :=
  match m_type m with MsgAppResp | MsgHeartbeatResp => true | _ => false end.
Definition heard (m : message) : N -> Prop := fun i => marks m = true /\ i = m_from m.

Lemma ra_become_probe p : pr_recent_active (pr_become_probe p) = pr_recent_active p.
Proof. unfold pr_become_probe. destruct (pr_state_eqb _ _); reflexivity. Qed.

Ltac lk_put HX :=
  match goal with
  | |- lk _ ?r ?r => apply lk_refl
  | |- lk _ ?r (put_progress ?r' _ _) =>
      eapply (lk_trans _ _ r'); [lk_put HX | apply put_progress_lk_x; exact HX]
  | |- lk _ ?r (?f ?r' _) => eapply (lk_trans _ _ r'); [lk_put HX | lk_id]
  end.

Ltac lk_chain HX :=
  first [ solve [lk_put HX] | eapply lk_trans; [|eassumption]; lk_chain HX ].

Ltac lkf X :=
  repeat match goal with
  | H : send _ _ = Ok _ |- _ => apply (send_lk X) in H
  | H : send_append _ _ _ = Ok _ |- _ => apply (send_append_lk X) in H
  | H : maybe_send_append _ _ _ _ = Ok (_, _) |- _ => apply (maybe_send_append_lk X) in H
  | H : bcast_append _ _ = Ok _ |- _ => apply (bcast_append_lk X) in H
  | H : bcast_heartbeat _ = Ok _ |- _ => apply (bcast_heartbeat_lk X) in H
  | H : maybe_commit _ _ = Ok (_, _) |- _ => apply (maybe_commit_lk X) in H
  | H : release_pending_read_index _ _ = Ok _ |- _ => apply (release_pending_read_index_lk X) in H
  | H : send_append_loop _ _ _ _ = Ok _ |- _ => apply (send_append_loop_lk X) in H
  | H : send_timeout_now _ _ = Ok _ |- _ => apply (send_timeout_now_lk X) in H
  | H : respond_reads _ _ = Ok _ |- _ => apply (respond_reads_lk X) in H
  | H : append_entry _ _ _ = Ok (_, _) |- _ => apply (append_entry_lk X) in H
  | H : prop_gate _ _ _ _ = (_, _) |- _ => apply (prop_gate_lk X) in H
  | H : send_msg_read_index_response _ _ = Ok _ |- _ => apply (send_msg_read_index_response_lk X) in H
  end.

Lemma step_leader_lk r m r' e :
  m_type m <> MsgTransferLeader -> m_type m <> MsgCheckQuorum ->
  step_leader st r m = Ok (r', e) -> lk (heard m) r r'.
Proof.
  intros NT NC H. unfold step_leader in H.
  destruct (m_type m) eqn:T; try congruence.
  all: try (destruct (get_progress r (m_from m)) as [pr|] eqn:L; [|inversion H; apply lk_refl]).
  all: try (inversion H; subst; apply lk_refl).
  - (* MsgBeat *) inv_ok. lkf (heard m). assumption.
  - (* MsgProp *)
    destruct (m_entries m) as [|e0 es]; [discriminate|].
    destruct (get_progress r (r_id r)); [|inversion H; apply lk_refl].
    destruct (negb _); [inversion H; apply lk_refl|].
    destruct (prop_gate r (last_index st r) 0 (e0 :: es)) as [r1 es1] eqn:EG.
    destruct (append_entry st r1 es1) as [[r2 ok]|] eqn:EA; cbn [bind] in H; [|discriminate].
    cbn [fst snd] in H. lkf (heard m). destruct (negb ok).
    + inversion H; subst. eapply lk_trans; eassumption.
    + destruct (bcast_append st r2) as [r3|] eqn:EB; cbn [bind] in H; [|discriminate].
      inversion H; subst. lkf (heard m). eapply lk_trans; [eassumption|]. eapply lk_trans; eassumption.
  - (* MsgAppResp *)
    assert (HX : heard m (m_from m)) by (unfold heard, marks; rewrite T; auto).
    inv_ok; lkf (heard m); lk_chain HX.
  - (* MsgHeartbeatResp *)
    assert (HX : heard m (m_from m)) by (unfold heard, marks; rewrite T; auto).
    inv_ok; lkf (heard m); lk_chain HX.
  - (* MsgUnreachable *)
    inversion H; subst. eapply put_progress_lk; [exact L|].
    destruct (pr_state_eqb _ _); [rewrite ra_become_probe|]; auto.
  - (* MsgSnapStatus *)
    destruct (negb (pr_state_eqb _ _)); [inversion H; apply lk_refl|].
    inversion H; subst. eapply put_progress_lk; [exact L|].
    destruct (negb (m_reject m)); unfold pr_with_paused; cbn [pr_recent_active]; rewrite ra_become_probe; auto.
  - (* MsgReadIndex *)
    destruct (negb _).
    + inversion H; subst. lk_id.
    + inv_ok. lkf (heard m). assumption.
Qed.


(* the periodic check itself *)
Lemma become_follower_state r t l r' : become_follower st r t l = Ok r' -> r_state r' = StateFollower.
Proof.
  unfold become_follower. intros H.
  destruct (reset st r t) as [r1|]; cbn [bind] in H; [|discriminate]. inversion H; reflexivity.
Qed.

Lemma step_leader_check_quorum r m r' e :
  m_type m = MsgCheckQuorum -> step_leader st r m = Ok (r', e) ->
  (quorum_active (r_trk r) = false -> r_state r' = StateFollower) /\
  (quorum_active (r_trk r) = true -> lstate r' = lstate r /\ act_in (fun i => i = r_id r) r').
Proof.
  intros T H. unfold step_leader in H. rewrite T in H.
  destruct (quorum_active (r_trk r)); cbn [negb] in H.
  - cbn [bind] in H. inversion H; subst. split; [discriminate|]. intros _.
    split; [apply clear_recent_active_lstate|apply clear_recent_active_act].
  - destruct (become_follower st r (r_term r) NoneId) as [r1|] eqn:E; cbn [bind] in H; [|discriminate].
    inversion H; subst. split; [|discriminate]. intros _.
    apply become_follower_state in E. exact E.
Qed.

(* the nested Step of appliedTo carries the leave-joint proposal only *)
Lemma step_inner_leave_lk X r r' e :
  r_state r = StateLeader -> step_inner st r leave_joint_prop = Ok (r', e) -> lk X r r'.
Proof.
  intros SL H. unfold step_inner, step_gen, step_preamble in H. cbn [m_term leave_joint_prop N.eqb bind negb] in H.
  unfold step_dispatch in H. cbn [m_type leave_joint_prop] in H. rewrite SL in H.
  apply step_leader_lk in H; [|cbn; discriminate|cbn; discriminate].
  eapply lk_weaken; [|exact H]. unfold heard, marks. cbn. intros i [F _]. discriminate.
Qed.

Lemma applied_to_lk X r i s r' : applied_to (step_inner st) r i s = Ok r' -> lk X r r'.
Proof.
  unfold applied_to. intros H.
  destruct (l_applied_to _ _ _) as [l|]; cbn [bind] in H; [|discriminate].
  destruct (c_auto_leave _ && _ && state_type_eqb (r_state (set_r_log r l)) StateLeader) eqn:EC.
  - destruct (step_inner st (set_r_log r l) leave_joint_prop) as [[r2 e2]|] eqn:ES; cbn [bind] in H; [|discriminate].
    inversion H; subst. cbn [fst].
    apply andb_true_iff in EC. destruct EC as [_ EC].
    assert (SL : r_state (set_r_log r l) = StateLeader).
    { destruct (r_state (set_r_log r l)); try discriminate EC; reflexivity. }
    apply (step_inner_leave_lk X) in ES; [|exact SL]. eapply lk_trans; [|exact ES]. lk_id.
  - inversion H; subst. lk_id.
Qed.

Lemma applied_snap_lk X r s r' : applied_snap (step_inner st) r s = Ok r' -> lk X r r'.
Proof.
  unfold applied_snap. intros H. apply (applied_to_lk X) in H. eapply lk_trans; [|exact H]. lk_id.
Qed.

(* messages the theorem is about: anything a peer or a local thread can deliver, except the two
   local requests that restart the timer or are the check itself, and a vote request that claims to
   come from the candidate the leader voted for (itself) *)
Definition admissible (r : raft) (m : message) : Prop :=
  wf_msg m /\ m_type m <> MsgTransferLeader /\ m_type m <> MsgCheckQuorum /\
  (m_type m = MsgVote -> m_from m <> r_vote r).

Lemma step_same_term_is_dispatch r m :
  m_term m <> 0 -> r_term r = m_term m ->
  step st r m = step_dispatch st (step_inner st) r m.
Proof.
  intros NZ ET. unfold step, step_gen, step_preamble.
  apply N.eqb_neq in NZ. rewrite NZ. rewrite ET, N.ltb_irrefl. cbn [bind negb]. reflexivity.
Qed.

(* dispatch at a leader *)
Lemma step_dispatch_leader_lk r m r' e :
  r_state r = StateLeader -> r_lead r <> NoneId -> admissible r m ->
  step_dispatch st (step_inner st) r m = Ok (r', e) -> lk (heard m) r r'.
Proof.
  intros SL LD (WF & NT & NC & NV) H. unfold step_dispatch in H.
  destruct (m_type m) eqn:T; try congruence;
    try (rewrite SL in H; apply step_leader_lk in H; [exact H|rewrite T; discriminate|rewrite T; discriminate]).
  - (* MsgHup *)
    unfold hup in H. rewrite SL in H. cbn in H. inversion H; subst. apply lk_refl.
  - (* MsgVote *)
    specialize (NV eq_refl).
    assert (CV : N.eqb (r_vote r) (m_from m) || (N.eqb (r_vote r) NoneId && N.eqb (r_lead r) NoneId) || (false && (r_term r <? m_term m)) = false).
    { apply N.eqb_neq in LD. rewrite LD. rewrite andb_false_r. cbn [andb].
      rewrite !orb_false_r. apply N.eqb_neq. congruence. }
    rewrite CV in H. cbn [andb] in H.
    destruct (l_is_up_to_date _ _ _ _); cbn [bind] in H; [|discriminate].
    destruct (send r _) as [r1|] eqn:E1; cbn [bind] in H; [|discriminate].
    inversion H; subst. eapply send_lk; eassumption.
  - (* MsgPreVote *)
    destruct (l_is_up_to_date _ _ _ _); cbn [bind] in H; [|discriminate].
    destruct (_ && _).
    + destruct (send r _) as [r1|] eqn:E1; cbn [bind] in H; [|discriminate].
      inversion H; subst. eapply send_lk; eassumption.
    + destruct (send r _) as [r1|] eqn:E1; cbn [bind] in H; [|discriminate].
      inversion H; subst. eapply send_lk; eassumption.
  - (* MsgStorageAppendResp *)
    destruct (m_snapshot m) as [sn|].
    + match type of H with bind ?x _ = _ => destruct x as [r1|] eqn:E1; cbn [bind] in H; [|discriminate] end.
      inversion H; subst. apply (applied_snap_lk (heard m)) in E1.
      eapply lk_trans; [|exact E1]. destruct (negb _); [lk_id|apply lk_refl].
    + inversion H; subst. destruct (negb _); [lk_id|apply lk_refl].
  - (* MsgStorageApplyResp *)
    destruct (last_opt (m_entries m)).
    + match type of H with bind ?x _ = _ => destruct x as [r1|] eqn:E1; cbn [bind] in H; [|discriminate] end.
      inversion H; subst. apply (applied_to_lk (heard m)) in E1.
      eapply lk_trans; [exact E1|]. unfold reduce_uncommitted_size. destruct (_ <? _); lk_id.
    + inversion H; subst. apply lk_refl.
Qed.

(* Step at a leader: if the node is still leader of the same term afterwards, its bookkeeping is
   kept and the only peer newly marked active is the sender of a MsgAppResp / MsgHeartbeatResp *)
Theorem step_leader_frame r m r' e :
  r_state r = StateLeader -> r_lead r <> NoneId -> admissible r m ->
  step st r m = Ok (r', e) ->
  r_state r' = StateLeader -> r_term r' = r_term r -> lk (heard m) r r'.
Proof.
  intros SL LD AD H SL' TT. pose proof AD as (WF & NT & NC & NV).
  unfold step, step_gen in H.
  destruct (step_preamble st (step_inner st) r m) as [[r1 c]|] eqn:EP; cbn [bind] in H; [|discriminate].
  unfold step_preamble in EP.
  destruct (N.eqb (m_term m) 0) eqn:E0.
  { inversion EP; subst. cbn [negb] in H. eapply step_dispatch_leader_lk; eassumption. }
  apply N.eqb_neq in E0.
  destruct (r_term r <? m_term m) eqn:E1.
  { apply N.ltb_lt in E1.
    (* a higher term: either ignored, or a pre-vote that changes nothing, or the node follows *)
    assert (FOLLOW : forall l r2, become_follower st r (m_term m) l = Ok r2 ->
                                  step_dispatch st (step_inner st) r2 m = Ok (r', e) -> False).
    { intros l r2 EB ED.
      destruct (become_follower_mono st _ _ _ _ (N.lt_le_incl _ _ E1) EB) as (_ & T2 & _).
      rewrite <- (step_same_term_is_dispatch r2 m E0 T2) in ED.
      apply (step_mono st _ _ _ _ WF) in ED. destruct ED as (TL & _). cbn in TL. lia. }
    destruct (_ && _ && _).
    { inversion EP; subst. cbn [negb] in H. inversion H; subst. apply lk_refl. }
    destruct (m_type m) eqn:T;
      try (destruct (become_follower st r (m_term m) _) as [r2|] eqn:EB; cbn [bind] in EP; [|discriminate];
           inversion EP; subst; cbn [negb] in H; exfalso; eapply FOLLOW; eassumption).
    - (* MsgPreVote *) inversion EP; subst. cbn [negb] in H.
      eapply step_dispatch_leader_lk; try eassumption.
    - (* MsgPreVoteResp *)
      destruct (negb (m_reject m)).
      + inversion EP; subst. cbn [negb] in H. eapply step_dispatch_leader_lk; try eassumption.
      + destruct (become_follower st r (m_term m) NoneId) as [r2|] eqn:EB; cbn [bind] in EP; [|discriminate].
        inversion EP; subst. cbn [negb] in H. exfalso. eapply FOLLOW; eassumption. }
  destruct (m_term m <? r_term r) eqn:E2.
  { (* a lower term: answered or ignored *)
    destruct (m_type m) eqn:T; try (inversion EP; subst; cbn [negb] in H; inversion H; subst; apply lk_refl).
    - destruct (_ || _).
      + destruct (send r _) as [r2|] eqn:ES; cbn [bind] in EP; [|discriminate].
        inversion EP; subst. cbn [negb] in H. inversion H; subst. eapply send_lk; eassumption.
      + inversion EP; subst. cbn [negb] in H. inversion H; subst. apply lk_refl.
    - destruct (_ || _).
      + destruct (send r _) as [r2|] eqn:ES; cbn [bind] in EP; [|discriminate].
        inversion EP; subst. cbn [negb] in H. inversion H; subst. eapply send_lk; eassumption.
      + inversion EP; subst. cbn [negb] in H. inversion H; subst. apply lk_refl.
    - destruct (send r _) as [r2|] eqn:ES; cbn [bind] in EP; [|discriminate].
      inversion EP; subst. cbn [negb] in H. inversion H; subst. eapply send_lk; eassumption.
    - destruct (m_snapshot m) as [sn|].
      + destruct (applied_snap (step_inner st) r sn) as [r2|] eqn:EA; cbn [bind] in EP; [|discriminate].
        inversion EP; subst. cbn [negb] in H. inversion H; subst. eapply applied_snap_lk; eassumption.
      + inversion EP; subst. cbn [negb] in H. inversion H; subst. apply lk_refl. }
  inversion EP; subst. cbn [negb] in H. eapply step_dispatch_leader_lk; eassumption.
Qed.


(* ---------- ticks ---------- *)

Definition cq_msg (r : raft) : message := set_from (msg0 MsgCheckQuorum) (r_id r).
Definition beat_msg (r : raft) : message := set_from (msg0 MsgBeat) (r_id r).

Lemma step_check_quorum r r' e :
  r_state r = StateLeader -> step st r (cq_msg r) = Ok (r', e) ->
  (quorum_active (r_trk r) = false -> r_state r' = StateFollower) /\
  (quorum_active (r_trk r) = true -> lstate r' = lstate r /\ act_in (fun i => i = r_id r) r').
Proof.
  intros SL H. unfold step, step_gen, step_preamble in H.
  cbn [m_term cq_msg set_from msg0 N.eqb bind negb] in H.
  unfold step_dispatch in H. cbn [m_type cq_msg set_from msg0] in H. rewrite SL in H.
  eapply step_leader_check_quorum; [|exact H]. reflexivity.
Qed.

Lemma beat_admissible r : admissible r (beat_msg r).
Proof.
  unfold admissible, wf_msg, beat_msg. cbn. repeat split; try discriminate.
Qed.

(* the bookkeeping without the election timer *)
Definition lstate0 (r : raft) := lstate (set_r_election_elapsed r 0).

Lemma lstate_lstate0 r r' : lstate r' = lstate r -> lstate0 r' = lstate0 r /\ r_election_elapsed r' = r_election_elapsed r.
Proof. unfold lstate0, lstate. cbn. intros H. inversion H. split; congruence. Qed.

Definition still (r0 r : raft) : Prop := r_state r = StateLeader /\ r_term r = r_term r0.

Lemma lstate0_still r r' : lstate0 r' = lstate0 r -> r_state r = StateLeader -> still r r'.
Proof. unfold lstate0, lstate, still. cbn. intros H SL. inversion H. split; congruence. Qed.

(* one tick of a leader with CheckQuorum that is still leader of its term afterwards: either the
   election timer advanced by one and nobody was newly marked, or the check fired: the marked peers
   formed a quorum, the timer restarted and only the leader itself is marked *)
Theorem tick_leader r r' :
  r_state r = StateLeader -> r_check_quorum r = true -> r_lead r <> NoneId ->
  tick st r = Ok r' -> r_state r' = StateLeader -> r_term r' = r_term r ->
  lstate0 r' = lstate0 r /\
  if r_election_timeout r <=? r_election_elapsed r + 1
  then quorum_active (r_trk r) = true /\ r_election_elapsed r' = 0 /\ act_in (fun i => i = r_id r) r'
  else r_election_elapsed r' = r_election_elapsed r + 1 /\ forall S, act_in S r -> act_in S r'.
Proof.
  intros SL CQ LD H SL' TT. unfold tick in H. rewrite SL in H. unfold tick_heartbeat in H.
  set (r0 := set_r_election_elapsed (set_r_heartbeat_elapsed r (r_heartbeat_elapsed r + 1))
                                    (r_election_elapsed (set_r_heartbeat_elapsed r (r_heartbeat_elapsed r + 1)) + 1)) in *.
  match type of H with bind ?x _ = _ => destruct x as [r1|] eqn:E1; cbn [bind] in H; [|discriminate] end.
  (* the heartbeat part: from r1 to r' *)
  assert (BEAT : r_state r1 = StateLeader -> r_lead r1 <> NoneId -> r_term r1 = r_term r -> lk nobody r1 r').
  { intros S1 L1 T1. rewrite S1 in H. cbn [state_type_eqb negb] in H.
    destruct (r_heartbeat_timeout r1 <=? r_heartbeat_elapsed r1); [|inversion H; subst; apply lk_refl].
    cbv beta zeta in H.
    match type of H with bind ?x _ = _ => destruct x as [[r3 e3]|] eqn:ES; cbn [bind] in H; [|discriminate] end.
    inversion H; subst; clear H. cbn [fst].
    change (set_from (msg0 MsgBeat) (r_id (set_r_heartbeat_elapsed r1 0))) with (beat_msg (set_r_heartbeat_elapsed r1 0)) in ES.
    apply step_leader_frame in ES; [|exact S1|exact L1|apply beat_admissible|exact SL'|cbn; congruence].
    eapply lk_trans; [|eapply lk_weaken; [|exact ES]].
    - lk_id.
    - unfold heard, marks. cbn. intros i [F _]. discriminate. }
  assert (NL1 : r_state r1 <> StateLeader -> False).
  { intros N1. destruct (r_state r1) eqn:S1; try congruence; cbn [state_type_eqb negb] in H; inversion H; subst; congruence. }
  change (r_election_timeout r0) with (r_election_timeout r) in E1.
  change (r_election_elapsed r0) with (r_election_elapsed r + 1) in E1.
  destruct (r_election_timeout r <=? r_election_elapsed r + 1) eqn:ET.
  - (* the check fires *)
    change (r_check_quorum (set_r_election_elapsed r0 0)) with (r_check_quorum r) in E1. rewrite CQ in E1.
    match type of E1 with bind (bind ?x _) _ = _ => destruct x as [[r2 e2]|] eqn:ES; cbn [bind] in E1; [|discriminate] end.
    cbn [fst] in E1.
    change (set_from (msg0 MsgCheckQuorum) (r_id (set_r_election_elapsed r0 0))) with (cq_msg (set_r_election_elapsed r0 0)) in ES.
    apply step_check_quorum in ES; [|exact SL]. destruct ES as [QF QT].
    change (r_trk (set_r_election_elapsed r0 0)) with (r_trk r) in QF, QT.
    destruct (quorum_active (r_trk r)) eqn:QA.
    + destruct (QT eq_refl) as [L2 A2]. clear QF QT.
      change (r_id (set_r_election_elapsed r0 0)) with (r_id r) in A2.
      assert (S2 : r_state r2 = StateLeader) by (unfold lstate in L2; cbn in L2; inversion L2; congruence).
      assert (K12 : lk nobody r2 r1).
      { rewrite S2 in E1. cbn [state_type_eqb andb] in E1.
        destruct (negb (N.eqb (r_lead_transferee r2) NoneId)).
        - unfold applied_to_top in E1. apply (applied_to_lk nobody) in E1. eapply lk_trans; [|exact E1]. lk_id.
        - inversion E1; subst. apply lk_refl. }
      destruct K12 as [L12 A12].
      assert (S1 : r_state r1 = StateLeader) by (unfold lstate in L12; inversion L12; congruence).
      assert (L1 : r_lead r1 <> NoneId).
      { unfold lstate in L12, L2. cbn in L2. inversion L12. inversion L2. congruence. }
      assert (T1 : r_term r1 = r_term r).
      { unfold lstate in L12, L2. cbn in L2. inversion L12. inversion L2. congruence. }
      destruct (BEAT S1 L1 T1) as [LB AB].
      split; [|split; [reflexivity|split]].
      * unfold lstate0, lstate in *. cbn in *. inversion LB. inversion L12. inversion L2. congruence.
      * unfold lstate in *. cbn in L2. inversion LB. inversion L12. inversion L2. congruence.
      * eapply act_in_weaken; [|apply AB, A12, A2]. cbn. unfold nobody. tauto.
    + exfalso. apply NL1. specialize (QF eq_refl).
      rewrite QF in E1. cbn [state_type_eqb andb] in E1. inversion E1; subst. congruence.
  - (* the timer advances *)
    inversion E1; subst r1.
    assert (S0 : r_state r0 = StateLeader) by exact SL.
    destruct (BEAT S0 LD eq_refl) as [LB AB].
    split; [|split].
    + unfold lstate0, lstate in *. cbn in *. inversion LB. congruence.
    + unfold lstate in LB. cbn in LB. inversion LB. congruence.
    + intros S HS. eapply act_in_weaken; [|apply AB; exact HS]. cbn. unfold nobody. tauto.
Qed.


(* ---------- sequences of ticks and messages ---------- *)

Inductive lop := LTick | LStep (m : message).

Definition lop_step (r : raft) (o : lop) : res raft :=
  match o with
  | LTick => tick st r
  | LStep m => do x <- step st r m; Ok (fst x)
  end.

Fixpoint lrun (r : raft) (ops : list lop) : res raft :=
  match ops with
  | [] => Ok r
  | o :: rest => do r1 <- lop_step r o; lrun r1 rest
  end.

Fixpoint ticks (ops : list lop) : N :=
  match ops with
  | [] => 0
  | LTick :: rest => 1 + ticks rest
  | LStep _ :: rest => ticks rest
  end.

(* the peers in H together with the leader are not a quorum: the decision function of C12 does not
   say Won for any vote assignment in which only they said yes *)
Definition no_quorum (r : raft) (H : list N) : Prop :=
  forall votes, (forall id, alookup votes id = Some true -> id = r_id r \/ In id H) ->
  joint_vote (c_voters (t_config (r_trk r))) (c_outgoing (t_config (r_trk r))) votes <> VoteWon.

Lemma quorum_active_votes S r :
  act_in S r -> quorum_active (r_trk r) = true ->
  exists votes, (forall id, alookup votes id = Some true -> S id) /\
    joint_vote (c_voters (t_config (r_trk r))) (c_outgoing (t_config (r_trk r))) votes = VoteWon.
Proof.
  unfold quorum_active, act_in. intros A Q.
  set (votes := map (fun kv => (fst kv, pr_recent_active (snd kv)))
                    (filter (fun kv => negb (pr_is_learner (snd kv))) (t_progress (r_trk r)))) in *.
  exists votes. split.
  - intros id L. apply alookup_in in L. apply in_map_iff in L. destruct L as ([k p] & E & Hin).
    cbn in E. inversion E; subst. apply filter_In in Hin. destruct Hin as [Hin _].
    rewrite Forall_forall in A. apply (A _ Hin). cbn. assumption.
  - destruct (joint_vote _ _ votes); try discriminate Q. reflexivity.
Qed.

(* ticks still needed before the next check *)
Definition to_check (r : raft) : N :=
  if r_election_timeout r <=? r_election_elapsed r + 1 then 1
  else r_election_timeout r - r_election_elapsed r.

Lemma to_check_le r : 1 <= r_election_timeout r -> to_check r <= r_election_timeout r.
Proof. unfold to_check. intros H. destruct (_ <=? _) eqn:E; [lia|]. apply N.leb_gt in E. lia. Qed.

Definition left_term (r0 : raft) (ops : list lop) : Prop :=
  exists ops1 ops2 rm, ops = ops1 ++ ops2 /\ lrun r0 ops1 = Ok rm /\ ~ still r0 rm.

Lemma still_dec r0 r : still r0 r \/ ~ still r0 r.
Proof.
  unfold still. destruct (r_state r); try (right; intros [A _]; discriminate).
  destruct (N.eq_dec (r_term r) (r_term r0)); [left; auto|right; tauto].
Qed.

Section Window.
Variable r0 : raft.
Variable H : list N.
Hypothesis NQ : no_quorum r0 H.
Hypothesis ET1 : 1 <= r_election_timeout r0.

(* the state of the window: bookkeeping as at its start *)
Definition inwin (r : raft) : Prop :=
  lstate0 r = lstate0 r0 /\ r_state r = StateLeader /\ r_check_quorum r = true /\ r_lead r <> NoneId.

Definition ops_ok (ops : list lop) : Prop :=
  Forall (fun o => match o with
                   | LTick => True
                   | LStep m => admissible r0 m /\ (marks m = true -> In (m_from m) H)
                   end) ops.

Lemma inwin_facts r : inwin r ->
  r_id r = r_id r0 /\ r_term r = r_term r0 /\ r_vote r = r_vote r0 /\
  r_election_timeout r = r_election_timeout r0 /\ t_config (r_trk r) = t_config (r_trk r0).
Proof. unfold inwin, lstate0, lstate. cbn. intros (L & _). inversion L. repeat split; congruence. Qed.

Lemma admissible_transfer r m : inwin r -> admissible r0 m -> admissible r m.
Proof.
  intros W (A & B & C & D). destruct (inwin_facts _ W) as (_ & _ & V & _).
  unfold admissible. rewrite V. auto.
Qed.

(* one operation inside the window: the node leaves its term, or stays in the window *)
Lemma lop_step_inwin r o r1 :
  inwin r -> lop_step r o = Ok r1 ->
  match o with LTick => True | LStep m => admissible r0 m /\ (marks m = true -> In (m_from m) H) end ->
  ~ still r0 r1 \/
  (inwin r1 /\
   match o with
   | LStep _ => r_election_elapsed r1 = r_election_elapsed r /\
                forall S : N -> Prop, (forall i, In i H -> S i) -> act_in S r -> act_in S r1
   | LTick =>
       if r_election_timeout r <=? r_election_elapsed r + 1
       then quorum_active (r_trk r) = true /\ r_election_elapsed r1 = 0 /\ act_in (fun i => i = r_id r0) r1
       else r_election_elapsed r1 = r_election_elapsed r + 1 /\ forall S : N -> Prop, act_in S r -> act_in S r1
   end).
Proof.
  intros W HS OK. destruct (still_dec r0 r1) as [ST|NS]; [right|left; exact NS].
  destruct ST as [S1 T1]. pose proof W as (L & SL & CQ & LD).
  destruct (inwin_facts _ W) as (ID & TM & VT & ETO & CF).
  destruct o as [|m]; cbn [lop_step] in HS.
  - assert (TT : r_term r1 = r_term r) by congruence.
    destruct (tick_leader _ _ SL CQ LD HS S1 TT) as [L1 REST].
    split.
    + unfold inwin. split; [congruence|]. split; [exact S1|].
      unfold lstate0, lstate in L1. cbn in L1. inversion L1. split; congruence.
    + destruct (_ <=? _); [|exact REST]. rewrite ID in REST. exact REST.
  - destruct OK as [AD MK].
    destruct (step st r m) as [[r2 e2]|] eqn:ES; cbn [bind] in HS; [|discriminate].
    inversion HS; subst r2; clear HS.
    assert (TT : r_term r1 = r_term r) by congruence.
    pose proof (step_leader_frame _ _ _ _ SL LD (admissible_transfer _ _ W AD) ES S1 TT) as [L1 A1].
    destruct (lstate_lstate0 _ _ L1) as [L10 EE].
    split.
    + unfold inwin. split; [congruence|]. split; [exact S1|].
      unfold lstate in L1. inversion L1. split; congruence.
    + split; [exact EE|]. intros S SH AS. eapply act_in_weaken; [|apply A1; exact AS].
      cbn. intros i [Hi|[Mk Hi]]; [exact Hi|]. subst i. apply SH, MK, Mk.
Qed.

(* after the first check inside the window: everybody marked is the leader or in H; the next check
   ends the leadership *)
Lemma window_phase_b : forall ops r rf,
  inwin r -> act_in (fun i => i = r_id r0 \/ In i H) r ->
  ops_ok ops -> lrun r ops = Ok rf -> to_check r <= ticks ops ->
  exists ops1 ops2 rm, ops = ops1 ++ ops2 /\ lrun r ops1 = Ok rm /\ ~ still r0 rm.
Proof.
  induction ops as [|o ops IH]; intros r rf W A OK R TK.
  - cbn in TK. unfold to_check in TK. destruct (_ <=? _) eqn:E; [lia|]. apply N.leb_gt in E. lia.
  - cbn [lrun] in R. destruct (lop_step r o) as [r1|] eqn:E1; cbn [bind] in R; [|discriminate].
    inversion OK as [|? ? O1 O2]; subst.
    destruct (lop_step_inwin _ _ _ W E1 O1) as [NS|[W1 REST]].
    + exists [o], ops, r1. split; [reflexivity|]. split; [cbn; rewrite E1; reflexivity|exact NS].
    + assert (NEXT : act_in (fun i => i = r_id r0 \/ In i H) r1 /\ to_check r1 <= ticks ops).
      { destruct o as [|m].
        - destruct (r_election_timeout r <=? r_election_elapsed r + 1) eqn:EF.
          + (* the check fired although only the leader and H are marked *)
            exfalso. destruct REST as (QA & _).
            destruct (quorum_active_votes _ _ A QA) as (votes & VS & VW).
            destruct (inwin_facts _ W) as (_ & _ & _ & _ & CF). rewrite CF in VW.
            exact (NQ votes VS VW).
          + destruct REST as [EE AA]. split; [apply AA; exact A|].
            cbn [ticks] in TK. unfold to_check in *. rewrite EF in TK. apply N.leb_gt in EF.
            destruct (inwin_facts _ W) as (_ & _ & _ & ETO & _).
            destruct (inwin_facts _ W1) as (_ & _ & _ & ETO1 & _).
            rewrite EE, ETO1, <- ETO.
            destruct (r_election_timeout r <=? r_election_elapsed r + 1 + 1) eqn:EG; [lia|].
            apply N.leb_gt in EG. lia.
        - destruct REST as [EE AA]. split; [apply AA; [auto|exact A]|].
          cbn [ticks] in TK. unfold to_check in *.
          destruct (inwin_facts _ W) as (_ & _ & _ & ETO & _).
          destruct (inwin_facts _ W1) as (_ & _ & _ & ETO1 & _).
          rewrite EE, ETO1, <- ETO. exact TK. }
      destruct NEXT as [A1 TK1].
      destruct (IH _ _ W1 A1 O2 R TK1) as (ops1 & ops2 & rm & EQ & RR & NS).
      exists (o :: ops1), ops2, rm. split; [cbn; congruence|]. split; [|exact NS].
      cbn. rewrite E1. cbn [bind]. exact RR.
Qed.

Lemma window_phase_a : forall ops r rf,
  inwin r -> ops_ok ops -> lrun r ops = Ok rf ->
  to_check r + r_election_timeout r0 <= ticks ops ->
  exists ops1 ops2 rm, ops = ops1 ++ ops2 /\ lrun r ops1 = Ok rm /\ ~ still r0 rm.
Proof.
  induction ops as [|o ops IH]; intros r rf W OK R TK.
  - cbn in TK. lia.
  - cbn [lrun] in R. destruct (lop_step r o) as [r1|] eqn:E1; cbn [bind] in R; [|discriminate].
    inversion OK as [|? ? O1 O2]; subst.
    destruct (lop_step_inwin _ _ _ W E1 O1) as [NS|[W1 REST]].
    + exists [o], ops, r1. split; [reflexivity|]. split; [cbn; rewrite E1; reflexivity|exact NS].
    + destruct (inwin_facts _ W) as (_ & _ & _ & ETO & _).
      destruct (inwin_facts _ W1) as (_ & _ & _ & ETO1 & _).
      assert (CONT : exists ops1 ops2 rm, ops = ops1 ++ ops2 /\ lrun r1 ops1 = Ok rm /\ ~ still r0 rm).
      { destruct o as [|m].
        - destruct (r_election_timeout r <=? r_election_elapsed r + 1) eqn:EF.
          + (* first check: phase b starts *)
            destruct REST as (_ & E0 & A1).
            eapply window_phase_b; [exact W1| |exact O2|exact R|].
            * eapply act_in_weaken; [|exact A1]. cbn. auto.
            * cbn [ticks] in TK. unfold to_check in TK. rewrite EF in TK.
              pose proof (to_check_le r1) as TL. rewrite ETO1 in TL. specialize (TL ET1). lia.
          + destruct REST as [EE _]. eapply IH; [exact W1|exact O2|exact R|].
            cbn [ticks] in TK. unfold to_check in *. rewrite EF in TK. apply N.leb_gt in EF.
            rewrite EE, ETO1, <- ETO.
            destruct (r_election_timeout r <=? r_election_elapsed r + 1 + 1) eqn:EG; [lia|].
            apply N.leb_gt in EG. lia.
        - destruct REST as [EE _]. eapply IH; [exact W1|exact O2|exact R|].
          cbn [ticks] in TK. unfold to_check in *. rewrite EE, ETO1. rewrite ETO in TK. exact TK. }
      destruct CONT as (ops1 & ops2 & rm & EQ & RR & NS).
      exists (o :: ops1), ops2, rm. split; [cbn; congruence|]. split; [|exact NS].
      cbn. rewrite E1. cbn [bind]. exact RR.
Qed.

End Window.

(* CheckQuorum: a leader that, over a sequence of ticks and messages, hears (MsgAppResp,
   MsgHeartbeatResp) only from peers that together with itself are not a quorum, is no longer
   leader of its term after at most two election timeouts of ticks.  The sequence may contain any
   other message of any type, term and content; it contains no leadership-transfer request (which
   restarts the timer) *)
Theorem check_quorum_steps_down r H ops rf :
  r_state r = StateLeader -> r_check_quorum r = true -> r_lead r <> NoneId ->
  1 <= r_election_timeout r ->
  no_quorum r H -> ops_ok r H ops ->
  lrun r ops = Ok rf -> 2 * r_election_timeout r <= ticks ops ->
  left_term r ops.
Proof.
  intros SL CQ LD ET1 NQ OK R TK. unfold left_term.
  eapply (window_phase_a r H NQ ET1); [| exact OK | exact R |].
  - unfold inwin. auto.
  - pose proof (to_check_le r ET1). lia.
Qed.


(* a boolean test that a run never leaves the leadership of its term (used to refute the
   statement without the exclusion of leadership-transfer requests on a concrete run) *)
Definition still_b (r0 r : raft) : bool :=
  state_type_eqb (r_state r) StateLeader && N.eqb (r_term r) (r_term r0).

Lemma still_b_spec r0 r : still_b r0 r = true -> still r0 r.
Proof.
  unfold still_b, still. intros H. apply andb_true_iff in H. destruct H as [A B].
  apply N.eqb_eq in B. split; [|exact B]. destruct (r_state r); try discriminate A; reflexivity.
Qed.

Fixpoint stays (r0 r : raft) (ops : list lop) : bool :=
  still_b r0 r &&
  match ops with
  | [] => true
  | o :: rest => match lop_step r o with Ok r1 => stays r0 r1 rest | Panic _ => false end
  end.

Lemma stays_prefix r0 : forall ops1 ops2 r rm,
  stays r0 r (ops1 ++ ops2) = true -> lrun r ops1 = Ok rm -> still r0 rm.
Proof.
  induction ops1 as [|o ops1 IH]; intros ops2 r rm ST R.
  - cbn in R. inversion R; subst. apply still_b_spec.
    destruct ops2; cbn in ST; apply andb_true_iff in ST; tauto.
  - cbn [app stays] in ST. apply andb_true_iff in ST. destruct ST as [_ ST].
    cbn [lrun] in R. destruct (lop_step r o) as [r1|]; cbn [bind] in R; [|discriminate].
    eapply IH; eassumption.
Qed.

Lemma stays_not_left r ops : stays r r ops = true -> ~ left_term r ops.
Proof.
  intros ST (ops1 & ops2 & rm & E & R & NS). subst ops. apply NS. eapply stays_prefix; eassumption.
Qed.

End WithStorage.
