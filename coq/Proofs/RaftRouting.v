(* RaftRouting.v: for every function of the node model and every input,
   - the static configuration of the node (id, limits, feature flags, timeouts) is unchanged,
   - the outgoing queue [msgs] only grows, by messages that are not promises,
   - the after-append queue [msgsAfterAppend] only grows, by promise messages
     (MsgAppResp, MsgVoteResp, MsgPreVoteResp).
   This is the routing half of C05 and the frame used by C07, C16, C17. *)
From Coq Require Import List NArith Bool Lia.
From RaftV Require Import Base Types Quorum Progress Tracker Storage Log Raft RawNode Tactics.
Import ListNotations.
Open Scope N_scope.

Definition promise_type (t : msg_type) : bool :=
  match t with MsgAppResp | MsgVoteResp | MsgPreVoteResp => true | _ => false end.

Definition statics (r : raft) :=
  (r_id r, r_max_msg_size r, r_max_uncommitted_size r, r_check_quorum r, r_pre_vote r,
   r_heartbeat_timeout r, r_election_timeout r, r_disable_proposal_forwarding r,
   r_step_down_on_removal r, r_disable_cc_validation r, ro_option (r_read_only r),
   t_max_inflight (r_trk r), t_max_inflight_bytes (r_trk r)).

Definition not_promise (m : message) : Prop := promise_type (m_type m) = false.
Definition is_promise (m : message) : Prop := promise_type (m_type m) = true.

Definition ext (r r' : raft) : Prop :=
  statics r' = statics r /\
  (exists l, r_msgs r' = r_msgs r ++ l /\ Forall not_promise l) /\
  (exists l, r_msgs_after_append r' = r_msgs_after_append r ++ l /\ Forall is_promise l).

Lemma ext_refl r : ext r r.
Proof.
  unfold ext. split; [reflexivity|]. split; exists []; rewrite app_nil_r; auto.
Qed.

Lemma ext_trans a b c : ext a b -> ext b c -> ext a c.
Proof.
  unfold ext. intros (S1 & (l1 & M1 & F1) & (k1 & A1 & G1)) (S2 & (l2 & M2 & F2) & (k2 & A2 & G2)).
  split; [congruence|]. split.
  - exists (l1 ++ l2). rewrite M2, M1, app_assoc. split; [reflexivity|]. apply Forall_app; auto.
  - exists (k1 ++ k2). rewrite A2, A1, app_assoc. split; [reflexivity|]. apply Forall_app; auto.
Qed.

(* updates that touch neither queue nor the static fields *)
Lemma ext_frame r r' :
  statics r' = statics r -> r_msgs r' = r_msgs r -> r_msgs_after_append r' = r_msgs_after_append r ->
  ext r r'.
Proof.
  intros S M A. unfold ext. split; [exact S|]. split; exists []; rewrite app_nil_r; auto.
Qed.

Lemma record_vote_mi t id v : t_max_inflight (record_vote t id v) = t_max_inflight t.
Proof. unfold record_vote. destruct (alookup _ _); reflexivity. Qed.
Lemma record_vote_mb t id v : t_max_inflight_bytes (record_vote t id v) = t_max_inflight_bytes t.
Proof. unfold record_vote. destruct (alookup _ _); reflexivity. Qed.

Ltac frame := apply ext_frame; unfold statics; cbn; rewrite ?record_vote_mi, ?record_vote_mb; reflexivity.

Lemma send_ext r m r' : send r m = Ok r' -> ext r r'.
Proof.
  unfold send. intros H.
  set (m1 := if N.eqb (m_from m) NoneId then set_from m (r_id r) else m) in *.
  inv_ok; cbn in *; try discriminate.
  all: unfold ext; cbn; (split; [reflexivity|]); split.
  all: first [ exists []; rewrite app_nil_r; split; [reflexivity|constructor]
             | eexists; split; [reflexivity|]; constructor; [|constructor];
               unfold not_promise, is_promise; cbn;
               repeat match goal with H : m_type _ = _ |- _ => rewrite H end; reflexivity ].
Qed.

Ltac chain :=
  first [ eassumption
        | apply ext_refl
        | frame
        | eapply ext_trans; [eassumption|chain] ].

Lemma ro_recv_ack_option ro from ctx ro' : ro_recv_ack ro from ctx = Ok ro' -> ro_option ro' = ro_option ro.
Proof. unfold ro_recv_ack. intros H. inv_ok; reflexivity. Qed.

Lemma ro_maybe_advance_option ro c0 c1 ro' l :
  ro_maybe_advance ro c0 c1 = Ok (ro', l) -> ro_option ro' = ro_option ro.
Proof. unfold ro_maybe_advance. intros H. inv_ok; reflexivity. Qed.

Lemma set_ro_ext r ro : ro_option ro = ro_option (r_read_only r) -> ext r (set_r_read_only r ro).
Proof. intros H. apply ext_frame; unfold statics; cbn; rewrite ?H; reflexivity. Qed.

Section WithStorage.
Variable st : memstorage.

Lemma maybe_send_snapshot_ext r to pr r' b :
  maybe_send_snapshot st r to pr = Ok (r', b) -> ext r r'.
Proof.
  unfold maybe_send_snapshot. intros H. inv_ok; try apply ext_refl.
  match goal with E : send _ _ = Ok _ |- _ => apply send_ext in E end. chain.
Qed.

Lemma maybe_send_append_ext r to sie r' b :
  maybe_send_append st r to sie = Ok (r', b) -> ext r r'.
Proof.
  unfold maybe_send_append. intros H.
  inv_ok; try apply ext_refl; try (eapply maybe_send_snapshot_ext; eassumption).
  all: match goal with E : send _ _ = Ok _ |- _ => apply send_ext in E end; chain.
Qed.

Lemma send_append_ext r to r' : send_append st r to = Ok r' -> ext r r'.
Proof.
  unfold send_append. intros H. inv_ok.
  match goal with E : maybe_send_append _ _ _ _ = Ok ?x |- _ => destruct x; cbn end.
  eapply maybe_send_append_ext; eassumption.
Qed.

Lemma send_heartbeat_ext r to ctx r' : send_heartbeat r to ctx = Ok r' -> ext r r'.
Proof.
  unfold send_heartbeat. intros H. inv_ok.
  match goal with E : send _ _ = Ok _ |- _ => apply send_ext in E end. chain.
Qed.

Lemma visit_others_ext (f : raft -> N -> res raft) :
  (forall r id r', f r id = Ok r' -> ext r r') ->
  forall ids r r', visit_others f r ids = Ok r' -> ext r r'.
Proof.
  intros Hf ids. induction ids as [|id ids IH]; intros r r' H; cbn in H.
  - inv_ok. apply ext_refl.
  - destruct (N.eqb id (r_id r)); [apply IH; auto|].
    inv_ok. eapply ext_trans; [eapply Hf; eassumption|apply IH; auto].
Qed.

Lemma bcast_append_ext r r' : bcast_append st r = Ok r' -> ext r r'.
Proof. unfold bcast_append. apply visit_others_ext. intros; eapply send_append_ext; eassumption. Qed.

Lemma bcast_heartbeat_ext r r' : bcast_heartbeat r = Ok r' -> ext r r'.
Proof.
  unfold bcast_heartbeat, bcast_heartbeat_with_ctx. apply visit_others_ext.
  intros; eapply send_heartbeat_ext; eassumption.
Qed.

Lemma maybe_commit_ext r r' b : maybe_commit st r = Ok (r', b) -> ext r r'.
Proof. unfold maybe_commit. intros H. inv_ok. frame. Qed.

Lemma reset_randomized_ext r r' : reset_randomized r = Ok r' -> ext r r'.
Proof. unfold reset_randomized. intros H. inv_ok. frame. Qed.

Lemma reset_ext r term r' : reset st r term = Ok r' -> ext r r'.
Proof.
  unfold reset. intros H. destruct (negb (N.eqb (r_term r) term)); inv_ok;
  match goal with E : reset_randomized _ = Ok _ |- _ => apply reset_randomized_ext in E end; chain.
Qed.

Lemma increase_uncommitted_ext r es r' b : increase_uncommitted_size r es = (r', b) -> ext r r'.
Proof. unfold increase_uncommitted_size. intros H. inv_ok; frame. Qed.

Lemma reduce_uncommitted_ext r s : ext r (reduce_uncommitted_size r s).
Proof. unfold reduce_uncommitted_size. destruct (_ <? _); frame. Qed.

Lemma append_entry_ext r es r' b : append_entry st r es = Ok (r', b) -> ext r r'.
Proof.
  unfold append_entry. intros H.
  destruct (increase_uncommitted_size r (stamp (r_term r) (last_index st r + 1) es)) as [r1 ok] eqn:EI.
  apply increase_uncommitted_ext in EI. inv_ok; [exact EI|].
  match goal with E : send _ _ = Ok _ |- _ => apply send_ext in E end. chain.
Qed.

Lemma become_follower_ext r term lead r' : become_follower st r term lead = Ok r' -> ext r r'.
Proof.
  unfold become_follower. intros H. inv_ok.
  match goal with E : reset _ _ _ = Ok _ |- _ => apply reset_ext in E end. chain.
Qed.

Lemma become_candidate_ext r r' : become_candidate st r = Ok r' -> ext r r'.
Proof.
  unfold become_candidate. intros H. inv_ok.
  match goal with E : reset _ _ _ = Ok _ |- _ => apply reset_ext in E end. chain.
Qed.

Lemma become_pre_candidate_ext r r' : become_pre_candidate r = Ok r' -> ext r r'.
Proof. unfold become_pre_candidate. intros H. inv_ok. frame. Qed.

Lemma become_leader_ext r r' : become_leader st r = Ok r' -> ext r r'.
Proof.
  unfold become_leader. intros H. inv_ok.
  match goal with E : reset _ _ _ = Ok _ |- _ => apply reset_ext in E end.
  match goal with E : append_entry _ _ _ = Ok ?p |- _ => destruct p; apply append_entry_ext in E end.
  cbn in *. chain.
Qed.

Lemma campaign_send_ext ids : forall r vm term lt li ctx r',
  campaign_send r ids vm term lt li ctx = Ok r' -> ext r r'.
Proof.
  induction ids as [|id ids IH]; intros r vm term lt li ctx r' H; cbn in H.
  - inv_ok. apply ext_refl.
  - inv_ok; (eapply ext_trans; [eapply send_ext; eassumption|eapply IH; eassumption]).
Qed.

Lemma campaign_ext r t r' : campaign st r t = Ok r' -> ext r r'.
Proof.
  unfold campaign. intros H. inv_ok;
  repeat match goal with
  | E : become_pre_candidate _ = Ok _ |- _ => apply become_pre_candidate_ext in E
  | E : become_candidate _ _ = Ok _ |- _ => apply become_candidate_ext in E
  | E : campaign_send _ _ _ _ _ _ _ = Ok _ |- _ => apply campaign_send_ext in E
  end; chain.
Qed.

Lemma hup_ext r t r' : hup st r t = Ok r' -> ext r r'.
Proof. unfold hup. intros H. inv_ok; try apply ext_refl. eapply campaign_ext; eassumption. Qed.

Lemma poll_ext r id v r' res : poll r id v = (r', res) -> ext r r'.
Proof. unfold poll. intros H. inv_ok. frame. Qed.

Ltac fwd :=
  repeat match goal with
  | H : send _ _ = Ok _ |- _ => apply send_ext in H
  | H : maybe_send_snapshot _ _ _ _ = Ok _ |- _ => apply maybe_send_snapshot_ext in H
  | H : maybe_send_append _ _ _ _ = Ok (_, _) |- _ => apply maybe_send_append_ext in H
  | H : maybe_send_append _ _ _ _ = Ok ?p |- _ => is_var p; destruct p
  | H : send_append _ _ _ = Ok _ |- _ => apply send_append_ext in H
  | H : send_heartbeat _ _ _ = Ok _ |- _ => apply send_heartbeat_ext in H
  | H : bcast_append _ _ = Ok _ |- _ => apply bcast_append_ext in H
  | H : bcast_heartbeat _ = Ok _ |- _ => apply bcast_heartbeat_ext in H
  | E : become_follower _ _ _ _ = Ok _ |- _ => apply become_follower_ext in E
  | E : become_candidate _ _ = Ok _ |- _ => apply become_candidate_ext in E
  | E : become_pre_candidate _ = Ok _ |- _ => apply become_pre_candidate_ext in E
  | E : become_leader _ _ = Ok _ |- _ => apply become_leader_ext in E
  | E : maybe_commit _ _ = Ok (_, _) |- _ => apply maybe_commit_ext in E
  | E : maybe_commit _ _ = Ok ?p |- _ => is_var p; destruct p
  | E : campaign _ _ _ = Ok _ |- _ => apply campaign_ext in E
  | E : hup _ _ _ = Ok _ |- _ => apply hup_ext in E
  | E : append_entry _ _ _ = Ok (_, _) |- _ => apply append_entry_ext in E
  | E : append_entry _ _ _ = Ok ?p |- _ => is_var p; destruct p
  | E : poll _ _ _ = (_, _) |- _ => apply poll_ext in E
  end; cbn [fst snd] in *.

Lemma handle_append_entries_ext r m r' : handle_append_entries st r m = Ok r' -> ext r r'.
Proof. unfold handle_append_entries. intros H. inv_ok; fwd; chain. Qed.

Lemma handle_heartbeat_ext r m r' : handle_heartbeat st r m = Ok r' -> ext r r'.
Proof. unfold handle_heartbeat. intros H. inv_ok; fwd; chain. Qed.

Lemma visit_maybe_send_ext ids : forall r r', visit_maybe_send st r ids = Ok r' -> ext r r'.
Proof.
  induction ids as [|id ids IH]; intros r r' H; cbn in H.
  - inv_ok. apply ext_refl.
  - destruct (N.eqb id (r_id r)); [apply IH; exact H|].
    inv_ok. fwd. eapply ext_trans; [eassumption|apply IH; eassumption].
Qed.

Lemma switch_to_config_ext r cfg pm r' cs : switch_to_config st r cfg pm = Ok (r', cs) -> ext r r'.
Proof.
  unfold switch_to_config. intros H. inv_ok; fwd;
  repeat match goal with
  | E : visit_maybe_send _ _ _ = Ok _ |- _ => apply visit_maybe_send_ext in E
  end; try (destruct (negb (smem _ _) && _)); chain.
Qed.

Lemma restore_ext r s r' b : restore st r s = Ok (r', b) -> ext r r'.
Proof.
  unfold restore. intros H. inv_ok; fwd;
  repeat match goal with
  | E : switch_to_config _ _ _ _ = Ok ?p |- _ => is_var p; destruct p
  | E : switch_to_config _ _ _ _ = Ok (_, _) |- _ => apply switch_to_config_ext in E
  end; cbn [fst snd] in *; chain.
Qed.

Lemma handle_snapshot_ext r m r' : handle_snapshot st r m = Ok r' -> ext r r'.
Proof.
  unfold handle_snapshot. intros H. inv_ok;
  match goal with E : restore _ _ _ = Ok _ |- _ => apply restore_ext in E end; fwd; chain.
Qed.

Lemma apply_conf_change_raft_ext r cc r' cs : apply_conf_change_raft st r cc = Ok (r', cs) -> ext r r'.
Proof.
  unfold apply_conf_change_raft. intros H. inv_ok. eapply switch_to_config_ext; eassumption.
Qed.

Lemma respond_read_index_ext r req i r' : respond_read_index r req i = Ok r' -> ext r r'.
Proof.
  unfold respond_read_index, response_to_read_index_req. intros H. inv_ok; fwd; chain.
Qed.

Lemma send_msg_read_index_response_ext r m r' : send_msg_read_index_response r m = Ok r' -> ext r r'.
Proof.
  unfold send_msg_read_index_response. intros H.
  destruct (_ && is_singleton _); [eapply respond_read_index_ext; eassumption|].
  inv_ok; fwd.
  - match goal with E : ro_recv_ack _ _ _ = Ok _ |- _ => apply ro_recv_ack_option in E end.
    eapply ext_trans; [apply set_ro_ext; eassumption|assumption].
  - eapply respond_read_index_ext; eassumption.
Qed.

Lemma send_read_index_responses_ext ms : forall r r', send_read_index_responses r ms = Ok r' -> ext r r'.
Proof.
  induction ms as [|m ms IH]; intros r r' H; cbn in H; inv_ok.
  - apply ext_refl.
  - eapply ext_trans; [eapply send_msg_read_index_response_ext; eassumption|eapply IH; eassumption].
Qed.

Lemma release_pending_read_index_ext r r' : release_pending_read_index st r = Ok r' -> ext r r'.
Proof.
  unfold release_pending_read_index. intros H. inv_ok; try apply ext_refl.
  match goal with E : send_read_index_responses _ _ = Ok _ |- _ => apply send_read_index_responses_ext in E end.
  chain.
Qed.

Lemma send_timeout_now_ext r to r' : send_timeout_now r to = Ok r' -> ext r r'.
Proof. unfold send_timeout_now. apply send_ext. Qed.

Lemma send_append_loop_ext fuel : forall r to r', send_append_loop st fuel r to = Ok r' -> ext r r'.
Proof.
  induction fuel as [|f IH]; intros r to r' H; cbn in H; inv_ok; fwd.
  - eapply ext_trans; [eassumption|eapply IH; eassumption].
  - assumption.
Qed.

Lemma respond_reads_ext rss : forall r r', respond_reads r rss = Ok r' -> ext r r'.
Proof.
  induction rss as [|[req idx] rss IH]; intros r r' H; cbn in H; inv_ok.
  - apply ext_refl.
  - eapply ext_trans; [eapply respond_read_index_ext; eassumption|eapply IH; eassumption].
Qed.

Lemma prop_gate_ext es : forall r li i r' es', prop_gate r li i es = (r', es') -> ext r r'.
Proof.
  induction es as [|e es IH]; intros r li i r' es' H; cbn in H.
  - inv_ok. apply ext_refl.
  - repeat match goal with
    | H : (if ?c then _ else _) = _ |- _ => destruct c
    | H : (let '(_, _) := ?x in _) = _ |- _ => let E := fresh "E" in destruct x eqn:E; apply IH in E
    end; inv_ok; chain.
Qed.

Lemma clear_recent_active_ext r : ext r (clear_recent_active r).
Proof. frame. Qed.

Ltac fwd3 :=
  fwd;
  repeat match goal with
  | E : visit_maybe_send _ _ _ = Ok _ |- _ => apply visit_maybe_send_ext in E
  | E : switch_to_config _ _ _ _ = Ok (_, _) |- _ => apply switch_to_config_ext in E
  | E : switch_to_config _ _ _ _ = Ok ?p |- _ => is_var p; destruct p
  | E : handle_append_entries _ _ _ = Ok _ |- _ => apply handle_append_entries_ext in E
  | E : handle_heartbeat _ _ _ = Ok _ |- _ => apply handle_heartbeat_ext in E
  | E : restore _ _ _ = Ok (_, _) |- _ => apply restore_ext in E
  | E : handle_snapshot _ _ _ = Ok _ |- _ => apply handle_snapshot_ext in E
  | E : respond_read_index _ _ _ = Ok _ |- _ => apply respond_read_index_ext in E
  | E : send_msg_read_index_response _ _ = Ok _ |- _ => apply send_msg_read_index_response_ext in E
  | E : release_pending_read_index _ _ = Ok _ |- _ => apply release_pending_read_index_ext in E
  | E : send_timeout_now _ _ = Ok _ |- _ => apply send_timeout_now_ext in E
  | E : send_append_loop _ _ _ _ = Ok _ |- _ => apply send_append_loop_ext in E
  | E : respond_reads _ _ = Ok _ |- _ => apply respond_reads_ext in E
  | E : prop_gate _ _ _ _ = (_, _) |- _ => apply prop_gate_ext in E
  end; cbn [fst snd] in *.

Ltac split_ifs :=
  repeat match goal with
  | |- context [if ?c then _ else _] => destruct c
  | H : context [if ?c then _ else _] |- _ => destruct c
  end.

Lemma step_leader_ext r m r' e : step_leader st r m = Ok (r', e) -> ext r r'.
Proof.
  unfold step_leader. intros H. inv_ok; fwd3; try solve [chain]; split_ifs; try solve [chain].
  (* MsgHeartbeatResp with a read-only context: the readOnly value is replaced, its option kept *)
  all: match goal with
       | E4 : ro_recv_ack _ _ _ = Ok _, E5 : ro_maybe_advance _ _ _ = Ok ?p |- _ =>
           destruct p; apply ro_recv_ack_option in E4; apply ro_maybe_advance_option in E5; cbn [fst] in *
       end.
  all: match goal with
       | E6 : ext (set_r_read_only ?x ?ro) ?r2 |- ext _ ?r2 =>
           assert (X : ext x r2) by (eapply ext_trans; [|exact E6]; apply set_ro_ext; congruence)
       end.
  all: first [ exact X
             | match goal with E1 : ext _ ?a, X : ext ?a _ |- _ => exact (ext_trans _ _ _ E1 X) end ].
Qed.

Lemma step_candidate_ext r m r' e : step_candidate st r m = Ok (r', e) -> ext r r'.
Proof.
  unfold step_candidate. intros H. inv_ok; fwd3; try solve [chain]; split_ifs; chain.
Qed.

Lemma step_follower_ext r m r' e : step_follower st r m = Ok (r', e) -> ext r r'.
Proof.
  unfold step_follower. intros H. inv_ok; fwd3; try solve [chain]; split_ifs; chain.
Qed.

Section StepGen.
Variable step_rec : raft -> message -> res (raft * err).
Hypothesis step_rec_ext : forall r m r' e, step_rec r m = Ok (r', e) -> ext r r'.

Lemma applied_to_ext r i s r' : applied_to step_rec r i s = Ok r' -> ext r r'.
Proof.
  unfold applied_to. intros H. inv_ok.
  - match goal with E : step_rec _ _ = Ok ?p |- _ => destruct p; apply step_rec_ext in E end.
    cbn in *. chain.
  - frame.
Qed.

Lemma applied_snap_ext r s r' : applied_snap step_rec r s = Ok r' -> ext r r'.
Proof. unfold applied_snap. intros H. apply applied_to_ext in H. chain. Qed.

Ltac fwd4 :=
  fwd3;
  repeat match goal with
  | E : applied_to _ _ _ _ = Ok _ |- _ => apply applied_to_ext in E
  | E : applied_snap _ _ _ = Ok _ |- _ => apply applied_snap_ext in E
  | E : step_leader _ _ _ = Ok (_, _) |- _ => apply step_leader_ext in E
  | E : step_candidate _ _ _ = Ok (_, _) |- _ => apply step_candidate_ext in E
  | E : step_follower _ _ _ = Ok (_, _) |- _ => apply step_follower_ext in E
  end.

Lemma step_preamble_ext r m r1 c : step_preamble st step_rec r m = Ok (r1, c) -> ext r r1.
Proof. unfold step_preamble. intros H. inv_ok; fwd4; chain. Qed.

Lemma step_transfer_leader_ext r m r' e : step_transfer_leader st step_rec r m = Ok (r', e) -> ext r r'.
Proof.
  unfold step_transfer_leader. intros H.
  match type of H with bind ?x _ = _ => destruct x as [[r1 e1]|] eqn:E1; cbn [bind] in H; [|discriminate] end.
  assert (M1 : ext r r1).
  { destruct (r_state r);
      [apply step_follower_ext in E1|apply step_candidate_ext in E1|apply step_leader_ext in E1|apply step_candidate_ext in E1]; exact E1. }
  destruct (state_type_eqb (r_state r) StateLeader && self_transfer_aborts r m).
  - cbn [fst snd] in H.
    match type of H with bind ?x _ = _ => destruct x as [r2|] eqn:E2; cbn [bind] in H; [|discriminate] end.
    inversion H; subst. apply applied_to_ext in E2. eapply ext_trans; eassumption.
  - inversion H; subst. exact M1.
Qed.

Lemma step_dispatch_ext r m r' e : step_dispatch st step_rec r m = Ok (r', e) -> ext r r'.
Proof.
  unfold step_dispatch. intros H. inv_ok;
    try (match goal with E : step_transfer_leader _ _ _ _ = Ok _ |- _ => apply step_transfer_leader_ext in E; exact E end);
    fwd4; try solve [chain]; split_ifs; try solve [chain].
  eapply ext_trans; [eassumption|apply reduce_uncommitted_ext].
Qed.

Lemma step_gen_ext r m r' e : step_gen st step_rec r m = Ok (r', e) -> ext r r'.
Proof.
  unfold step_gen. intros H. inv_ok;
  match goal with E : step_preamble _ _ _ _ = Ok _ |- _ => apply step_preamble_ext in E end.
  - assumption.
  - eapply ext_trans; [eassumption|eapply step_dispatch_ext; eassumption].
Qed.
End StepGen.

Lemma step_inner_ext r m r' e : step_inner st r m = Ok (r', e) -> ext r r'.
Proof. unfold step_inner. apply step_gen_ext. unfold step_leaf. discriminate. Qed.

(* For every message whatsoever: promises go only to msgsAfterAppend, never to msgs. *)
Theorem step_ext r m r' e : step st r m = Ok (r', e) -> ext r r'.
Proof. unfold step. apply step_gen_ext. exact step_inner_ext. Qed.

Lemma tick_election_ext r r' : tick_election st r = Ok r' -> ext r r'.
Proof.
  unfold tick_election. intros H.
  destruct (promotable _ && _).
  - match type of H with bind ?x _ = _ => destruct x as [[r1 e1]|] eqn:ES end; cbn [bind] in H; [|discriminate].
    inversion H; subst; clear H. cbn [fst]. apply step_ext in ES. chain.
  - inversion H; subst. frame.
Qed.

Lemma tick_heartbeat_ext r r' : tick_heartbeat st r = Ok r' -> ext r r'.
Proof.
  unfold tick_heartbeat. intros H. cbv beta zeta in H.
  match type of H with bind ?x _ = _ => destruct x as [r1|] eqn:E1; cbn [bind] in H; [|discriminate] end.
  assert (M1 : ext r r1).
  { destruct (_ <=? _) in E1; [|inversion E1; frame].
    match type of E1 with bind ?x _ = _ => destruct x as [r2|] eqn:E2; cbn [bind] in E1; [|discriminate] end.
    assert (M2 : ext r r2).
    { destruct (r_check_quorum _) in E2.
      - match type of E2 with bind ?x _ = _ => destruct x as [[r3 e3]|] eqn:ES end; cbn [bind] in E2; [|discriminate].
        inversion E2; subst; clear E2. cbn [fst]. apply step_ext in ES. chain.
      - inversion E2; subst. frame. }
    destruct (state_type_eqb (r_state r2) StateLeader && _).
    - unfold applied_to_top in E1. apply (applied_to_ext _ step_inner_ext) in E1. chain.
    - inversion E1; subst. chain. }
  destruct (negb (state_type_eqb (r_state r1) StateLeader)); [inversion H; subst; exact M1|].
  destruct (r_heartbeat_timeout r1 <=? r_heartbeat_elapsed r1); [|inversion H; subst; exact M1].
  match type of H with bind ?x _ = _ => destruct x as [[r3 e3]|] eqn:ES end; cbn [bind] in H; [|discriminate].
  inversion H; subst; clear H. cbn [fst]. apply step_ext in ES. chain.
Qed.

Lemma tick_ext r r' : tick st r = Ok r' -> ext r r'.
Proof. unfold tick. destruct (r_state r); first [apply tick_election_ext | apply tick_heartbeat_ext]. Qed.

End WithStorage.
