(* RoleProofs.v: a leader knows itself as the leader: in every reachable state
   [r_state r = StateLeader -> r_lead r = r_id r], and the node's id is never 0 (Config.validate).
   Kept by every function of raft.go; established by newRaft.  This discharges the hypothesis
   [r_lead r <> NoneId] of the CheckQuorum theorem (C17) for reachable states. *)
From Coq Require Import List NArith Bool Lia.
From RaftV Require Import Base Types Quorum Progress Tracker Storage Log Raft RawNode Tactics.
Import ListNotations.
Open Scope N_scope.

Definition coh (r : raft) : Prop :=
  r_id r <> NoneId /\ (r_state r = StateLeader -> r_lead r = r_id r).

(* role, lead and id untouched *)
Definition same_role (r r' : raft) : Prop :=
  r_id r' = r_id r /\ r_state r' = r_state r /\ r_lead r' = r_lead r.

Lemma same_role_refl r : same_role r r.
Proof. unfold same_role; auto. Qed.
Lemma same_role_trans a b c : same_role a b -> same_role b c -> same_role a c.
Proof. unfold same_role. intuition congruence. Qed.
Lemma same_role_coh r r' : same_role r r' -> coh r -> coh r'.
Proof. unfold same_role, coh. intros (A & B & C). rewrite A, B, C. auto. Qed.

Definition ck (r r' : raft) : Prop := coh r -> coh r'.
Lemma ck_refl r : ck r r.
Proof. unfold ck; auto. Qed.
Lemma ck_trans a b c : ck a b -> ck b c -> ck a c.
Proof. unfold ck; auto. Qed.
Lemma same_role_ck r r' : same_role r r' -> ck r r'.
Proof. intros H. exact (same_role_coh _ _ H). Qed.

Ltac sr_done := unfold same_role; cbn; repeat split; congruence || reflexivity.

Lemma send_sr r m r' : send r m = Ok r' -> same_role r r'.
Proof. unfold send. intros H. inv_ok; sr_done. Qed.

Section WithStorage.
Variable st : memstorage.

Lemma maybe_send_snapshot_sr r to pr r' b : maybe_send_snapshot st r to pr = Ok (r', b) -> same_role r r'.
Proof.
  unfold maybe_send_snapshot. intros H. inv_ok; try apply same_role_refl.
  match goal with E : send _ _ = Ok _ |- _ => apply send_sr in E end.
  eapply same_role_trans; [|eassumption]. sr_done.
Qed.

Lemma maybe_send_append_sr r to sie r' b : maybe_send_append st r to sie = Ok (r', b) -> same_role r r'.
Proof.
  unfold maybe_send_append. intros H.
  inv_ok; try apply same_role_refl; try (eapply maybe_send_snapshot_sr; eassumption).
  all: match goal with E : send _ _ = Ok _ |- _ => apply send_sr in E end;
       (eapply same_role_trans; [eassumption|]); sr_done.
Qed.

Lemma send_append_sr r to r' : send_append st r to = Ok r' -> same_role r r'.
Proof.
  unfold send_append. intros H.
  destruct (maybe_send_append st r to true) as [[r1 b]|] eqn:E; cbn [bind] in H; [|discriminate].
  inversion H; subst. eapply maybe_send_append_sr; eassumption.
Qed.

Lemma send_heartbeat_sr r to ctx r' : send_heartbeat r to ctx = Ok r' -> same_role r r'.
Proof.
  unfold send_heartbeat. intros H. inv_ok.
  match goal with E : send _ _ = Ok _ |- _ => apply send_sr in E end.
  eapply same_role_trans; [eassumption|]. sr_done.
Qed.

Lemma visit_others_sr (f : raft -> N -> res raft) :
  (forall r id r', f r id = Ok r' -> same_role r r') ->
  forall ids r r', visit_others f r ids = Ok r' -> same_role r r'.
Proof.
  intros Hf ids. induction ids as [|id ids IH]; intros r r' H; cbn in H.
  - inversion H. apply same_role_refl.
  - destruct (N.eqb id (r_id r)); [apply IH; exact H|].
    destruct (f r id) as [r1|] eqn:E; cbn [bind] in H; [|discriminate].
    eapply same_role_trans; [eapply Hf; exact E|apply IH; exact H].
Qed.

Lemma bcast_append_sr r r' : bcast_append st r = Ok r' -> same_role r r'.
Proof. unfold bcast_append. apply visit_others_sr. intros; eapply send_append_sr; eassumption. Qed.
Lemma bcast_heartbeat_ctx_sr r ctx r' : bcast_heartbeat_with_ctx r ctx = Ok r' -> same_role r r'.
Proof. unfold bcast_heartbeat_with_ctx. apply visit_others_sr. intros; eapply send_heartbeat_sr; eassumption. Qed.
Lemma bcast_heartbeat_sr r r' : bcast_heartbeat r = Ok r' -> same_role r r'.
Proof. unfold bcast_heartbeat. apply bcast_heartbeat_ctx_sr. Qed.

Lemma maybe_commit_sr r r' b : maybe_commit st r = Ok (r', b) -> same_role r r'.
Proof. unfold maybe_commit. intros H. inv_ok. sr_done. Qed.

Lemma append_entry_sr r es r' b : append_entry st r es = Ok (r', b) -> same_role r r'.
Proof.
  unfold append_entry, increase_uncommitted_size. intros H.
  destruct (_ && _ && _).
  - cbn in H. inversion H; subst. apply same_role_refl.
  - cbn [negb] in H. cbv iota beta in H.
    match type of H with bind ?x _ = _ => destruct x as [l|]; cbn [bind] in H; [|discriminate] end.
    match type of H with bind ?x _ = _ => destruct x as [r1|] eqn:E1; cbn [bind] in H; [|discriminate] end.
    inversion H; subst. apply send_sr in E1. eapply same_role_trans; [|exact E1]. sr_done.
Qed.

(* reset keeps the id; the callers set role and lead *)
Lemma reset_id r t r' : reset st r t = Ok r' -> r_id r' = r_id r /\ r_state r' = r_state r.
Proof.
  unfold reset. intros H.
  match type of H with bind ?x _ = _ => destruct x as [r1|] eqn:E1; cbn [bind] in H; [|discriminate] end.
  unfold reset_randomized in E1. destruct (r_draws _); [discriminate|]. inversion E1; subst; clear E1.
  inversion H; subst; clear H. cbn. destruct (negb _); cbn; auto.
Qed.

Lemma become_follower_ck r t l r' : become_follower st r t l = Ok r' -> ck r r'.
Proof.
  unfold become_follower. intros H [I _].
  destruct (reset st r t) as [r1|] eqn:E; cbn [bind] in H; [|discriminate].
  inversion H; subst. apply reset_id in E. destruct E as [E _]. unfold coh. cbn. rewrite E.
  split; [exact I|discriminate].
Qed.

Lemma become_candidate_ck r r' : become_candidate st r = Ok r' -> ck r r'.
Proof.
  unfold become_candidate. intros H [I _]. destruct (state_type_eqb _ _); [discriminate|].
  destruct (reset st r (r_term r + 1)) as [r1|] eqn:E; cbn [bind] in H; [|discriminate].
  inversion H; subst. apply reset_id in E. destruct E as [E _]. unfold coh. cbn. rewrite E.
  split; [exact I|discriminate].
Qed.

Lemma become_pre_candidate_ck r r' : become_pre_candidate r = Ok r' -> ck r r'.
Proof.
  unfold become_pre_candidate. intros H [I _]. destruct (state_type_eqb _ _); [discriminate|].
  inversion H; subst. unfold coh. cbn. split; [exact I|discriminate].
Qed.

Lemma become_leader_ck r r' : become_leader st r = Ok r' -> ck r r'.
Proof.
  unfold become_leader. intros H [I _]. destruct (state_type_eqb _ _); [discriminate|].
  destruct (reset st r (r_term r)) as [r1|] eqn:E; cbn [bind] in H; [|discriminate].
  apply reset_id in E. destruct E as [E _].
  destruct (get_progress _ _) as [pr|]; [|discriminate].
  match type of H with bind ?x _ = _ => destruct x as [[r2 ok]|] eqn:EA; cbn [bind] in H; [|discriminate] end.
  cbn [fst snd] in H. destruct ok; [|discriminate]. inversion H; subst.
  apply append_entry_sr in EA. destruct EA as (A & B & C). cbn in A, B, C.
  unfold coh. rewrite A, C, E. split; [exact I|reflexivity].
Qed.

Lemma campaign_send_sr ids : forall r vm term lt li ctx r',
  campaign_send r ids vm term lt li ctx = Ok r' -> same_role r r'.
Proof.
  induction ids as [|id ids IH]; intros r vm term lt li ctx r' H; cbn in H.
  - inversion H. apply same_role_refl.
  - match type of H with bind ?x _ = _ => destruct x as [r1|] eqn:E1; cbn [bind] in H; [|discriminate] end.
    eapply same_role_trans; [|eapply IH; exact H].
    destruct (N.eqb id (r_id r)); eapply send_sr; eassumption.
Qed.

Lemma campaign_ck r t r' : campaign st r t = Ok r' -> ck r r'.
Proof.
  unfold campaign. intros H.
  match type of H with bind ?x _ = _ => destruct x as [[[r1 vm] term]|] eqn:E1; cbn [bind] in H; [|discriminate] end.
  assert (X : ck r r1).
  { destruct t.
    - destruct (become_pre_candidate r) as [r2|] eqn:E2; cbn [bind] in E1; [|discriminate].
      inversion E1; subst. eapply become_pre_candidate_ck; eassumption.
    - destruct (become_candidate st r) as [r2|] eqn:E2; cbn [bind] in E1; [|discriminate].
      inversion E1; subst. eapply become_candidate_ck; eassumption.
    - destruct (become_candidate st r) as [r2|] eqn:E2; cbn [bind] in E1; [|discriminate].
      inversion E1; subst. eapply become_candidate_ck; eassumption. }
  destruct (l_last_entry_id st (r_log r1)) as [last|]; cbn [bind] in H; [|discriminate].
  apply campaign_send_sr in H. eapply ck_trans; [exact X|apply same_role_ck; exact H].
Qed.

Lemma hup_ck r t r' : hup st r t = Ok r' -> ck r r'.
Proof. unfold hup. intros H. inv_ok; try apply ck_refl. eapply campaign_ck; eassumption. Qed.

Lemma poll_sr r id v r' res : poll r id v = (r', res) -> same_role r r'.
Proof. unfold poll. intros H. inversion H; subst. sr_done. Qed.

Lemma handle_append_entries_sr r m r' : handle_append_entries st r m = Ok r' -> same_role r r'.
Proof.
  unfold handle_append_entries. intros H. inv_ok;
  match goal with E : send _ _ = Ok _ |- _ => apply send_sr in E end;
  (eapply same_role_trans; [|eassumption]); sr_done.
Qed.

Lemma handle_heartbeat_sr r m r' : handle_heartbeat st r m = Ok r' -> same_role r r'.
Proof.
  unfold handle_heartbeat. intros H. inv_ok.
  match goal with E : send _ _ = Ok _ |- _ => apply send_sr in E end.
  eapply same_role_trans; [|eassumption]. sr_done.
Qed.

Lemma visit_maybe_send_sr ids : forall r r', visit_maybe_send st r ids = Ok r' -> same_role r r'.
Proof.
  induction ids as [|id ids IH]; intros r r' H; cbn in H.
  - inversion H. apply same_role_refl.
  - destruct (N.eqb id (r_id r)); [apply IH; exact H|].
    destruct (maybe_send_append st r id false) as [[r1 b]|] eqn:E; cbn [bind] in H; [|discriminate].
    apply maybe_send_append_sr in E. eapply same_role_trans; [exact E|apply IH; exact H].
Qed.

Lemma switch_to_config_ck r cfg pm r' cs : switch_to_config st r cfg pm = Ok (r', cs) -> ck r r'.
Proof.
  unfold switch_to_config. intros H. cbv zeta in H.
  set (r1 := set_r_is_learner (set_r_trk r (t_with_config_progress (r_trk r) cfg pm)) _) in *.
  assert (S1 : same_role r r1) by (subst r1; sr_done).
  destruct (_ && state_type_eqb (r_state r1) StateLeader).
  - destruct (r_step_down_on_removal r1).
    + destruct (become_follower st r1 (r_term r1) NoneId) as [r2|] eqn:E; cbn [bind] in H; [|discriminate].
      inversion H; subst. eapply ck_trans; [apply same_role_ck; exact S1|eapply become_follower_ck; exact E].
    + inversion H; subst. apply same_role_ck. exact S1.
  - destruct (_ || _); [inversion H; subst; apply same_role_ck; exact S1|].
    destruct (maybe_commit st r1) as [[r2 c]|] eqn:EC; cbn [bind] in H; [|discriminate].
    apply maybe_commit_sr in EC. cbn [fst snd] in H.
    match type of H with bind ?x _ = _ => destruct x as [r3|] eqn:E3; cbn [bind] in H; [|discriminate] end.
    assert (S3 : same_role r2 r3).
    { destruct c; [eapply bcast_append_sr; exact E3|eapply visit_maybe_send_sr; exact E3]. }
    inversion H; subst. apply same_role_ck.
    eapply same_role_trans; [exact S1|]. eapply same_role_trans; [exact EC|]. eapply same_role_trans; [exact S3|].
    destruct (_ && _); sr_done.
Qed.

Lemma restore_ck r s r' b : restore st r s = Ok (r', b) -> ck r r'.
Proof.
  unfold restore. intros H.
  destruct (_ <=? _); [inversion H; subst; apply ck_refl|].
  destruct (negb (state_type_eqb _ _)).
  - destruct (become_follower st r (r_term r + 1) NoneId) as [r1|] eqn:E; cbn [bind] in H; [|discriminate].
    inversion H; subst. eapply become_follower_ck; exact E.
  - cbv zeta in H. destruct (negb _); [inversion H; subst; apply ck_refl|].
    destruct (l_match_term _ _ _ _).
    + destruct (l_commit_to _ _ _) as [l|]; cbn [bind] in H; [|discriminate]. inversion H; subst.
      apply same_role_ck. sr_done.
    + destruct (cc_restore _ _ _) as [[cfg pm]|]; [|discriminate].
      match type of H with bind ?x _ = _ => destruct x as [[r2 cs2]|] eqn:ES; cbn [bind] in H; [|discriminate] end.
      destruct (confstate_equiv _ _); [|discriminate]. inversion H; subst. cbn [fst].
      apply switch_to_config_ck in ES. eapply ck_trans; [|exact ES]. apply same_role_ck. sr_done.
Qed.

Lemma handle_snapshot_ck r m r' : handle_snapshot st r m = Ok r' -> ck r r'.
Proof.
  unfold handle_snapshot. intros H. inv_ok;
  match goal with E : restore _ _ _ = Ok _ |- _ => apply restore_ck in E end;
  match goal with E : send _ _ = Ok _ |- _ => apply send_sr in E end;
  (eapply ck_trans; [eassumption|apply same_role_ck; eassumption]).
Qed.

Lemma apply_conf_change_raft_ck r cc r' cs : apply_conf_change_raft st r cc = Ok (r', cs) -> ck r r'.
Proof.
  unfold apply_conf_change_raft. intros H. destruct (apply_conf_change _ _ _) as [[cfg pm]|]; [|discriminate].
  eapply switch_to_config_ck; exact H.
Qed.

Lemma respond_read_index_sr r req i r' : respond_read_index r req i = Ok r' -> same_role r r'.
Proof.
  unfold respond_read_index, response_to_read_index_req. intros H.
  destruct (_ || _).
  - destruct (m_entries req); [discriminate|]. cbn [bind fst snd] in H. inversion H; subst. sr_done.
  - cbn [bind fst snd] in H. eapply send_sr; eassumption.
Qed.

Lemma send_msg_read_index_response_sr r m r' : send_msg_read_index_response r m = Ok r' -> same_role r r'.
Proof.
  unfold send_msg_read_index_response. intros H.
  destruct (_ && is_singleton _); [eapply respond_read_index_sr; eassumption|].
  destruct (ro_option (r_read_only r)).
  - destruct (ro_recv_ack _ _ _) as [ro|]; cbn [bind] in H; [|discriminate].
    apply bcast_heartbeat_sr in H. eapply same_role_trans; [|exact H]. sr_done.
  - eapply respond_read_index_sr; eassumption.
Qed.

Lemma send_read_index_responses_sr ms : forall r r', send_read_index_responses r ms = Ok r' -> same_role r r'.
Proof.
  induction ms as [|m ms IH]; intros r r' H; cbn in H.
  - inversion H. apply same_role_refl.
  - destruct (send_msg_read_index_response r m) as [r1|] eqn:E; cbn [bind] in H; [|discriminate].
    eapply same_role_trans; [eapply send_msg_read_index_response_sr; exact E|apply IH; exact H].
Qed.

Lemma release_pending_read_index_sr r r' : release_pending_read_index st r = Ok r' -> same_role r r'.
Proof.
  unfold release_pending_read_index. intros H.
  destruct (r_pending_read_index r); [inversion H; apply same_role_refl|].
  destruct (negb _); [inversion H; apply same_role_refl|].
  apply send_read_index_responses_sr in H. eapply same_role_trans; [|exact H]. sr_done.
Qed.

Lemma send_timeout_now_sr r to r' : send_timeout_now r to = Ok r' -> same_role r r'.
Proof. unfold send_timeout_now. apply send_sr. Qed.

Lemma send_append_loop_sr fuel : forall r to r', send_append_loop st fuel r to = Ok r' -> same_role r r'.
Proof.
  induction fuel as [|f IH]; intros r to r' H; cbn in H; [discriminate|].
  destruct (maybe_send_append st r to false) as [[r1 b]|] eqn:E; cbn [bind] in H; [|discriminate].
  apply maybe_send_append_sr in E. cbn [fst snd] in H. destruct b.
  - eapply same_role_trans; [exact E|eapply IH; exact H].
  - inversion H; subst. exact E.
Qed.

Lemma respond_reads_sr rss : forall r r', respond_reads r rss = Ok r' -> same_role r r'.
Proof.
  induction rss as [|[req idx] rss IH]; intros r r' H; cbn in H.
  - inversion H. apply same_role_refl.
  - destruct (respond_read_index r req idx) as [r1|] eqn:E; cbn [bind] in H; [|discriminate].
    eapply same_role_trans; [eapply respond_read_index_sr; exact E|apply IH; exact H].
Qed.

Lemma prop_gate_sr es : forall r li i r' es', prop_gate r li i es = (r', es') -> same_role r r'.
Proof.
  induction es as [|e es IH]; intros r li i r' es' H; cbn in H.
  - inversion H. apply same_role_refl.
  - destruct (is_cc_type (e_type e)).
    + destruct (_ && negb (r_disable_cc_validation r)).
      * destruct (prop_gate r li (i + 1) es) as [r1 es1] eqn:E. apply IH in E. inversion H; subst. exact E.
      * destruct (prop_gate (set_r_pending_conf_index r (li + i + 1)) li (i + 1) es) as [r1 es1] eqn:E.
        apply IH in E. inversion H; subst. eapply same_role_trans; [|exact E]. sr_done.
    + destruct (prop_gate r li (i + 1) es) as [r1 es1] eqn:E. apply IH in E. inversion H; subst. exact E.
Qed.


Ltac ck_fwd :=
  repeat match goal with
  | H : send _ _ = Ok _ |- _ => apply send_sr in H
  | H : send_append _ _ _ = Ok _ |- _ => apply send_append_sr in H
  | H : maybe_send_append _ _ _ _ = Ok (_, _) |- _ => apply maybe_send_append_sr in H
  | H : maybe_send_append _ _ _ _ = Ok ?p |- _ => is_var p; destruct p; cbn [fst snd] in *
  | H : bcast_append _ _ = Ok _ |- _ => apply bcast_append_sr in H
  | H : bcast_heartbeat _ = Ok _ |- _ => apply bcast_heartbeat_sr in H
  | H : maybe_commit _ _ = Ok (_, _) |- _ => apply maybe_commit_sr in H
  | H : maybe_commit _ _ = Ok ?p |- _ => is_var p; destruct p; cbn [fst snd] in *
  | H : release_pending_read_index _ _ = Ok _ |- _ => apply release_pending_read_index_sr in H
  | H : send_append_loop _ _ _ _ = Ok _ |- _ => apply send_append_loop_sr in H
  | H : send_timeout_now _ _ = Ok _ |- _ => apply send_timeout_now_sr in H
  | H : respond_reads _ _ = Ok _ |- _ => apply respond_reads_sr in H
  | H : append_entry _ _ _ = Ok (_, _) |- _ => apply append_entry_sr in H
  | H : append_entry _ _ _ = Ok ?p |- _ => is_var p; destruct p; cbn [fst snd] in *
  | H : prop_gate _ _ _ _ = (_, _) |- _ => apply prop_gate_sr in H
  | H : send_msg_read_index_response _ _ = Ok _ |- _ => apply send_msg_read_index_response_sr in H
  | H : handle_append_entries _ _ _ = Ok _ |- _ => apply handle_append_entries_sr in H
  | H : handle_heartbeat _ _ _ = Ok _ |- _ => apply handle_heartbeat_sr in H
  | H : poll _ _ _ = (_, _) |- _ => apply poll_sr in H
  | H : become_follower _ _ _ _ = Ok _ |- _ => apply become_follower_ck in H
  | H : become_leader _ _ = Ok _ |- _ => apply become_leader_ck in H
  | H : campaign _ _ _ = Ok _ |- _ => apply campaign_ck in H
  | H : hup _ _ _ = Ok _ |- _ => apply hup_ck in H
  | H : handle_snapshot _ _ _ = Ok _ |- _ => apply handle_snapshot_ck in H
  end.

(* coh of a state reached through known steps *)
Ltac coh_solve :=
  lazymatch goal with
  | |- coh ?x =>
      first [ assumption
            | match goal with K : ck ?a x |- _ => apply K; coh_solve end
            | match goal with K : same_role ?a x |- _ => apply (same_role_coh a x K); coh_solve end
            | lazymatch x with
              | (if ?c then _ else _) => destruct c; coh_solve
              | clear_recent_active ?y => apply (same_role_coh y); [sr_done|coh_solve]
              | reduce_uncommitted_size ?y _ =>
                  apply (same_role_coh y); [unfold reduce_uncommitted_size; destruct (_ <? _); sr_done|coh_solve]
              | ?f ?y _ _ => apply (same_role_coh y); [sr_done|coh_solve]
              | ?f ?y _ => apply (same_role_coh y); [sr_done|coh_solve]
              end ]
  end.

Lemma step_leader_ck r m r' e : step_leader st r m = Ok (r', e) -> ck r r'.
Proof. intros H I. unfold step_leader in H. inv_ok; ck_fwd; coh_solve. Qed.

Lemma step_candidate_ck r m r' e : step_candidate st r m = Ok (r', e) -> ck r r'.
Proof. intros H I. unfold step_candidate in H. inv_ok; ck_fwd; coh_solve. Qed.

(* a follower's handlers set [lead] freely; the node is not leader afterwards either *)
Lemma step_follower_ck r m r' e :
  r_state r = StateFollower -> step_follower st r m = Ok (r', e) -> ck r r'.
Proof.
  intros SF H I. unfold step_follower in H.
  assert (NL : forall x, same_role (set_r_lead (set_r_election_elapsed r 0) (m_from m)) x -> coh x).
  { intros x (A & B & C). cbn in A, B. destruct I as [I _]. unfold coh. rewrite A, B, SF. split; [exact I|discriminate]. }
  inv_ok; ck_fwd; try (apply NL; assumption); try coh_solve.
  all: try (destruct I as [I _]; unfold coh; cbn; rewrite SF; split; [exact I|discriminate]).
  apply E0. destruct I as [I _]. unfold coh. cbn. rewrite SF. split; [exact I|discriminate].
Qed.

Section StepGen.
Variable step_rec : raft -> message -> res (raft * err).
Hypothesis step_rec_ck : forall r r' e, step_rec r leave_joint_prop = Ok (r', e) -> ck r r'.

Lemma applied_to_ck r i s r' : applied_to step_rec r i s = Ok r' -> ck r r'.
Proof.
  unfold applied_to. intros H.
  destruct (l_applied_to _ _ _) as [l|]; cbn [bind] in H; [|discriminate].
  destruct (_ && _ && _).
  - destruct (step_rec (set_r_log r l) leave_joint_prop) as [[r2 e2]|] eqn:ES; cbn [bind] in H; [|discriminate].
    inversion H; subst. apply step_rec_ck in ES. eapply ck_trans; [|exact ES]. apply same_role_ck. sr_done.
  - inversion H; subst. apply same_role_ck. sr_done.
Qed.

Lemma applied_snap_ck r s r' : applied_snap step_rec r s = Ok r' -> ck r r'.
Proof.
  unfold applied_snap. intros H. apply applied_to_ck in H. eapply ck_trans; [|exact H]. apply same_role_ck. sr_done.
Qed.

Lemma step_preamble_ck r m r1 c : step_preamble st step_rec r m = Ok (r1, c) -> ck r r1.
Proof.
  intros H I. unfold step_preamble in H. inv_ok; ck_fwd;
  repeat match goal with E : applied_snap _ _ _ = Ok _ |- _ => apply applied_snap_ck in E end;
  coh_solve.
Qed.

Lemma step_role_ck r m x :
  match r_state r with
  | StateFollower => step_follower st r m
  | StateCandidate | StatePreCandidate => step_candidate st r m
  | StateLeader => step_leader st r m
  end = Ok x -> ck r (fst x).
Proof.
  destruct x as [r1 e1]. cbn [fst]. destruct (r_state r) eqn:RS; intros H.
  - eapply step_follower_ck; eassumption.
  - eapply step_candidate_ck; eassumption.
  - eapply step_leader_ck; eassumption.
  - eapply step_candidate_ck; eassumption.
Qed.

Lemma step_transfer_leader_ck r m r' e : step_transfer_leader st step_rec r m = Ok (r', e) -> ck r r'.
Proof.
  unfold step_transfer_leader. intros H.
  match type of H with bind ?y _ = _ => destruct y as [x|] eqn:E1; cbn [bind] in H; [|discriminate] end.
  apply step_role_ck in E1.
  destruct (state_type_eqb (r_state r) StateLeader && self_transfer_aborts r m).
  - match type of H with bind ?y _ = _ => destruct y as [r2|] eqn:E2; cbn [bind] in H; [|discriminate] end.
    inversion H; subst. apply applied_to_ck in E2. eapply ck_trans; eassumption.
  - inversion H; subst. exact E1.
Qed.

Lemma step_dispatch_ck r m r' e : step_dispatch st step_rec r m = Ok (r', e) -> ck r r'.
Proof.
  intros H. unfold step_dispatch in H.
  destruct (m_type m) eqn:TY;
    try (apply (step_role_ck r m (r', e)) in H; exact H).
  - intros I. inv_ok; ck_fwd; coh_solve.
  - intros I. inv_ok; ck_fwd; coh_solve.
  - eapply step_transfer_leader_ck; eassumption.
  - intros I. inv_ok; ck_fwd; coh_solve.
  - intros I. destruct (m_snapshot m).
    + match type of H with bind ?y _ = _ => destruct y as [r1|] eqn:E1; cbn [bind] in H; [|discriminate] end.
      inversion H; subst. apply applied_snap_ck in E1. apply E1. destruct (negb _); coh_solve.
    + inversion H; subst. destruct (negb _); coh_solve.
  - intros I. destruct (last_opt (m_entries m)).
    + match type of H with bind ?y _ = _ => destruct y as [r1|] eqn:E1; cbn [bind] in H; [|discriminate] end.
      inversion H; subst. apply applied_to_ck in E1. coh_solve.
    + inversion H; subst. exact I.
Qed.

Lemma step_gen_ck r m r' e : step_gen st step_rec r m = Ok (r', e) -> ck r r'.
Proof.
  unfold step_gen. intros H.
  destruct (step_preamble st step_rec r m) as [[r1 c]|] eqn:EP; cbn [bind] in H; [|discriminate].
  apply step_preamble_ck in EP. destruct (negb c).
  - inversion H; subst. exact EP.
  - eapply ck_trans; [exact EP|eapply step_dispatch_ck; exact H].
Qed.
End StepGen.

Lemma step_inner_ck r r' e : step_inner st r leave_joint_prop = Ok (r', e) -> ck r r'.
Proof. unfold step_inner. apply step_gen_ck. unfold step_leaf. discriminate. Qed.

(* every message keeps: the id is not 0, and a leader knows itself as the leader *)
Theorem step_ck r m r' e : step st r m = Ok (r', e) -> ck r r'.
Proof. unfold step. apply step_gen_ck. exact step_inner_ck. Qed.

Theorem tick_ck r r' : tick st r = Ok r' -> ck r r'.
Proof.
  unfold tick. intros H I.
  assert (TE : forall r r', tick_election st r = Ok r' -> coh r -> coh r').
  { clear. intros r r' H I. unfold tick_election in H. destruct (promotable _ && _).
    - destruct (step st _ _) as [[r1 e1]|] eqn:ES; cbn [bind] in H; [|discriminate].
      inversion H; subst. apply step_ck in ES. apply ES. apply (same_role_coh r); [sr_done|exact I].
    - inversion H; subst. apply (same_role_coh r); [sr_done|exact I]. }
  assert (TH : forall r r', tick_heartbeat st r = Ok r' -> coh r -> coh r').
  { clear. intros r r' H I. unfold tick_heartbeat in H. cbv beta zeta in H.
    match type of H with bind ?x _ = _ => destruct x as [r1|] eqn:E1; cbn [bind] in H; [|discriminate] end.
    assert (I1 : coh r1).
    { destruct (_ <=? _) in E1; [|inversion E1; subst; apply (same_role_coh r); [sr_done|exact I]].
      match type of E1 with bind ?x _ = _ => destruct x as [r2|] eqn:E2; cbn [bind] in E1; [|discriminate] end.
      assert (I2 : coh r2).
      { destruct (r_check_quorum _) in E2.
        - destruct (step st _ _) as [[r3 e3]|] eqn:ES; cbn [bind] in E2; [|discriminate].
          inversion E2; subst. apply step_ck in ES. apply ES. apply (same_role_coh r); [sr_done|exact I].
        - inversion E2; subst. apply (same_role_coh r); [sr_done|exact I]. }
      destruct (state_type_eqb (r_state r2) StateLeader && _).
      - unfold applied_to_top in E1. apply (applied_to_ck _ step_inner_ck) in E1. apply E1.
        apply (same_role_coh r2); [sr_done|exact I2].
      - inversion E1; subst. exact I2. }
    destruct (negb (state_type_eqb (r_state r1) StateLeader)); [inversion H; subst; exact I1|].
    destruct (r_heartbeat_timeout r1 <=? r_heartbeat_elapsed r1); [|inversion H; subst; exact I1].
    cbv beta zeta in H.
    match type of H with bind ?x _ = _ => destruct x as [[r3 e3]|] eqn:ES; cbn [bind] in H; [|discriminate] end.
    inversion H; subst. apply step_ck in ES. apply ES. apply (same_role_coh r1); [sr_done|exact I1]. }
  destruct (r_state r); eauto.
Qed.

End WithStorage.

(* ---------- the RawNode API, histories, restart ---------- *)
From RaftV Require Import RaftMono RaftRouting NodeProps CheckQuorumProofs.

Definition rcoh (rn : rawnode) : Prop := coh (rn_raft rn).

Lemma step_all_ck st ms : forall r r', step_all st r ms = Ok r' -> ck r r'.
Proof.
  induction ms as [|m ms IH]; intros r r' H; cbn in H.
  - inversion H; subst. apply ck_refl.
  - destruct (step st r m) as [[r1 e1]|] eqn:ES; cbn [bind] in H; [|discriminate]. cbn [fst] in H.
    eapply ck_trans; [eapply step_ck; exact ES|apply IH; exact H].
Qed.

Lemma accept_ready_sr st rn rd rn' : accept_ready st rn rd = Ok rn' -> same_role (rn_raft rn) (rn_raft rn').
Proof.
  unfold accept_ready. intros H. cbv zeta in H.
  match type of H with bind ?x _ = _ => destruct x as [steps|]; cbn [bind] in H; [|discriminate] end.
  match type of H with bind ?x _ = _ => destruct x as [r2|] eqn:E2; cbn [bind] in H; [|discriminate] end.
  inversion H; subst; clear H. cbn [rn_raft].
  destruct (last_opt (rd_committed rd)).
  - match type of E2 with bind ?x _ = _ => destruct x as [l|]; cbn [bind] in E2; [|discriminate] end.
    inversion E2; subst. destruct (rd_read_states rd); sr_done.
  - inversion E2; subst. destruct (rd_read_states rd); sr_done.
Qed.

Theorem node_step_coh n i d n' out rn :
  n_rn n = Some rn -> rcoh rn -> same_incarnation i = true ->
  node_step n i d = Ok (n', out) ->
  exists rn', n_rn n' = Some rn' /\ rcoh rn'.
Proof.
  intros Hrn I SI H. unfold node_step in H. rewrite Hrn in H.
  set (rn0 := with_draws rn d) in *.
  assert (I0 : rcoh rn0) by exact I.
  destruct i; try discriminate SI.
  all: try (match type of H with bind ?x _ = _ => destruct x as [y|] eqn:E; cbn [bind] in H; [|discriminate] end).
  all: try (match type of y with (_ * _)%type => destruct y as [y1 y2] end).
  all: try (match type of y with ((_ * _) * _)%type => destruct y as [[y1 y2] y3] end).
  all: try (match type of H with (let '(_, _) := ?x in _) = _ => destruct x end).
  all: inversion H; subst; clear H; cbn [n_rn fst snd].
  all: try (unfold rn_campaign, rn_propose, rn_propose_cc, rn_report_unreachable, rn_report_snapshot,
            rn_transfer_leader, rn_forget_leader, rn_read_index in E).
  all: try solve [eexists; split; [eassumption|exact I]].
  all: eexists; (split; [reflexivity|]); unfold rcoh in *.
  all: try (unfold rn_tick in E; destruct (tick _ _) as [r1|] eqn:ET; cbn [bind] in E; [|discriminate];
            inversion E; subst; cbn; exact (tick_ck _ _ _ ET I0)).
  all: try (inversion E; subst; exact I0).
  all: try (unfold rn_raft_step in E; destruct (step _ _ _) as [[r1 e1]|] eqn:ES; cbn [bind] in E; [|discriminate];
            inversion E; subst; cbn; exact (step_ck _ _ _ _ _ ES I0)).
  all: try (unfold rn_apply_conf_change in E; destruct (apply_conf_change_raft _ _ _) as [[r1 c1]|] eqn:EA; cbn [bind] in E; [|discriminate];
            inversion E; subst; cbn; exact (apply_conf_change_raft_ck _ _ _ _ _ EA I0)).
  all: try (unfold rn_step in E; destruct (_ && _); [inversion E; subst; exact I0|];
            destruct (_ && _ && _); [inversion E; subst; exact I0|];
            destruct (step _ _ _) as [[r1 e1]|] eqn:ES; cbn [bind] in E; [|discriminate];
            inversion E; subst; cbn; exact (step_ck _ _ _ _ _ ES I0)).
  all: try (unfold rn_ready in E; destruct (ready_without_accept _ _) as [rd0|]; cbn [bind] in E; [|discriminate];
            destruct (accept_ready _ _ _) as [rn1|] eqn:EA; cbn [bind] in E; [|discriminate];
            inversion E; subst; exact (same_role_coh _ _ (accept_ready_sr _ _ _ _ EA) I0)).
  all: try exact I0.
  all: try (unfold rn_advance in E; destruct (rn_async rn0); [discriminate|];
            destruct (step_all _ _ _) as [r1|] eqn:ES; cbn [bind] in E; [|discriminate];
            inversion E; subst; cbn; exact (step_all_ck _ _ _ _ ES I0)).
Qed.

Theorem node_run_coh ins : forall n n' rn,
  n_rn n = Some rn -> rcoh rn ->
  Forall (fun id => same_incarnation (fst id) = true) ins ->
  node_run n ins = Ok n' ->
  exists rn', n_rn n' = Some rn' /\ rcoh rn'.
Proof.
  induction ins as [|[i d] ins IH]; intros n n' rn Hrn I F H; cbn in H.
  - inversion H; subst. exists rn. auto.
  - inversion F as [|? ? SI F']; subst. cbn in SI.
    destruct (node_step n i d) as [[n1 o1]|] eqn:E; cbn [bind] in H; [|discriminate]. cbn [fst] in H.
    destruct (node_step_coh _ _ _ _ _ _ Hrn I SI E) as (rn1 & H1 & I1).
    eapply IH; eassumption.
Qed.

(* newRaft: Config.validate refuses the id 0, and the node starts as a follower *)
Theorem new_rawnode_coh st c d rn : new_rawnode st c d = Ok rn -> rcoh rn.
Proof.
  unfold new_rawnode, new_raft, rcoh. intros H.
  destruct (validate c) as [[[mu mc] mb]|] eqn:EV; [|discriminate].
  assert (ID : cfg_id c <> NoneId).
  { unfold validate in EV. destruct (N.eqb (cfg_id c) NoneId) eqn:E0; [discriminate|]. apply N.eqb_neq. exact E0. }
  cbv zeta in H. destruct (ms_initial_state st) as [hs cs].
  match type of H with bind (bind ?x _) _ = _ => destruct x as [[lt li]|]; cbn [bind] in H; [|discriminate] end.
  destruct (cc_restore _ _ _) as [[cfg pm]|]; [|discriminate].
  match type of H with bind (bind ?x _) _ = _ => destruct x as [[r1 cs1]|] eqn:ES; cbn [bind] in H; [|discriminate] end.
  destruct (negb (confstate_equiv _ _)); [discriminate|]. cbn [fst] in H.
  match type of H with bind (bind ?x _) _ = _ => destruct x as [r2|] eqn:E2; cbn [bind] in H; [|discriminate] end.
  match type of H with bind (bind ?x _) _ = _ => destruct x as [r3|] eqn:E3; cbn [bind] in H; [|discriminate] end.
  match type of H with bind ?x _ = _ => destruct x as [r4|] eqn:E4; cbn [bind] in H; [|discriminate] end.
  inversion H; subst; clear H. cbn [rn_raft].
  apply become_follower_ck in E4. apply E4.
  apply switch_to_config_ck in ES.
  assert (I1 : coh r1).
  { apply ES. unfold coh. cbn. split; [exact ID|discriminate]. }
  assert (I2 : coh r2).
  { destruct hs as [h|]; [|inversion E2; subst; exact I1].
    destruct (is_empty_hs h); [inversion E2; subst; exact I1|].
    unfold load_state in E2. destruct (_ || _); [discriminate|]. inversion E2; subst.
    apply (same_role_coh r1); [sr_done|exact I1]. }
  destruct (0 <? cfg_applied c).
  - destruct (l_applied_to _ _ _); cbn [bind] in E3; [|discriminate]. inversion E3; subst.
    apply (same_role_coh r2); [sr_done|exact I2].
  - inversion E3; subst. exact I2.
Qed.

(* the CheckQuorum theorem for reachable states: the hypothesis "the leader knows a leader" is a
   consequence of the invariant *)
Theorem check_quorum_steps_down_reachable st r H ops rf :
  coh r -> r_state r = StateLeader -> r_check_quorum r = true ->
  1 <= r_election_timeout r ->
  no_quorum r H -> ops_ok r H ops ->
  lrun st r ops = Ok rf -> 2 * r_election_timeout r <= ticks ops ->
  left_term st r ops.
Proof.
  intros [ID LD] SL CQ ET NQ OK R TK.
  eapply check_quorum_steps_down; try eassumption.
  rewrite (LD SL). exact ID.
Qed.

(* ---------- two small contracts found through seeded changes ---------- *)

(* MustSync: a Ready that exposes a new term or a new vote, or carries entries, asks for a durable
   write (C02: the vote must not be forgotten in a crash; C05) *)
Theorem ready_must_sync st rn rd :
  ready_without_accept st rn = Ok rd ->
  (hs_term (hard_state (rn_raft rn)) <> hs_term (rn_prev_hard rn) \/
   hs_vote (hard_state (rn_raft rn)) <> hs_vote (rn_prev_hard rn) \/
   u_next_entries (l_unstable (r_log (rn_raft rn))) <> []) ->
  rd_must_sync rd = true.
Proof.
  unfold ready_without_accept. intros H C. cbv zeta in H.
  destruct (l_next_committed_ents _ _ _) as [cents|]; cbn [bind] in H; [|discriminate].
  assert (MS : must_sync (hard_state (rn_raft rn)) (rn_prev_hard rn)
                         (nlen (u_next_entries (l_unstable (r_log (rn_raft rn))))) = true).
  { unfold must_sync. destruct C as [C|[C|C]].
    - apply orb_true_iff. right. apply negb_true_iff, N.eqb_neq. exact C.
    - apply orb_true_iff. left. apply orb_true_iff. right. apply negb_true_iff, N.eqb_neq. exact C.
    - apply orb_true_iff. left. apply orb_true_iff. left. apply negb_true_iff, N.eqb_neq.
      destruct (u_next_entries _); [congruence|]. unfold nlen. cbn [length]. lia. }
  destruct (rn_async rn).
  - match type of H with bind ?x _ = _ => destruct x as [sa|]; cbn [bind] in H; [|discriminate] end.
    inversion H; subst. exact MS.
  - inversion H; subst. exact MS.
Qed.

(* a granted pre-vote response answers a pre-campaign: at a node that is not a pre-candidate it
   changes nothing, whatever term it carries (C17) *)
Theorem prevote_grant_elsewhere_ignored st r m r' e :
  m_type m = MsgPreVoteResp -> m_reject m = false -> r_state r <> StatePreCandidate ->
  step st r m = Ok (r', e) -> r' = r.
Proof.
  intros TY RJ NP H. unfold step, step_gen in H.
  assert (DISP : step_dispatch st (step_inner st) r m = Ok (r', e) -> r' = r).
  { intros D. unfold step_dispatch in D. rewrite TY in D.
    destruct (r_state r) eqn:RS; try congruence.
    - unfold step_follower in D. rewrite TY in D. inversion D; reflexivity.
    - unfold step_candidate in D. rewrite TY, RS in D. cbn in D. inversion D; reflexivity.
    - unfold step_leader in D. rewrite TY in D.
      destruct (get_progress r (m_from m)); inversion D; reflexivity. }
  destruct (step_preamble st (step_inner st) r m) as [[r1 c]|] eqn:EP; cbn [bind] in H; [|discriminate].
  unfold step_preamble in EP. rewrite TY, RJ in EP.
  destruct (N.eqb (m_term m) 0).
  { inversion EP; subst. cbn [negb] in H. exact (DISP H). }
  destruct (r_term r <? m_term m).
  { cbn [andb negb] in EP. inversion EP; subst. cbn [negb] in H. exact (DISP H). }
  destruct (m_term m <? r_term r).
  { inversion EP; subst. cbn [negb] in H. inversion H; reflexivity. }
  inversion EP; subst. cbn [negb] in H. exact (DISP H).
Qed.

(* a follower hands the leader's answer to a forwarded read request to its application unchanged:
   the index the leader confirmed, not something derived from the follower's own (possibly lagging)
   commit index (C11) *)
Theorem follower_reports_leaders_read_index st r m e r' err :
  m_type m = MsgReadIndexResp -> m_entries m = [e] ->
  step_follower st r m = Ok (r', err) ->
  r_read_states r' = r_read_states r ++ [mkRS (m_index m) (e_data e)].
Proof.
  unfold step_follower. intros TY EN H. rewrite TY, EN in H. inversion H; subst. reflexivity.
Qed.
