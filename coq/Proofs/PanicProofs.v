(* PanicProofs.v: assertions of the library that no input can reach (C14), for every state and every
   message, tick, proposal and configuration change:
     - the flow-control assertions: Inflights.Add on a full window, Progress.SentEntries in
       StateSnapshot (maybeSendAppend asks IsPaused / Full first);
     - the invalid state transitions: leader -> candidate, leader -> pre-candidate,
       follower -> leader (hup returns early at a leader; stepCandidate is entered only as a
       candidate or pre-candidate);
     - unknown Progress state / unknown transition, and the recursion leaf of the model's nested
       Step (appliedTo's leave-joint proposal never reaches appliedTo again).
   [unr p] says that p is one of these sites; the theorems say that no function of the node model
   returns [Panic p] with [unr p = true].  The other panic sites are guarded by invariants that
   involve the application and the other nodes (log bounds, commit range, ...); those are the
   business of the monitors and of the well-formedness theorems of C18/C03. *)
From Coq Require Import List NArith Bool Lia.
From RaftV Require Import Base Types Quorum Progress Tracker Storage Log Raft RawNode Tactics.
Import ListNotations.
Open Scope N_scope.

Definition unr (p : panic_site) : bool :=
  match p with
  | PInflightsAddFull | PSentEntriesState | PIsPausedState | PUnknownTransition | PUnreachable
  | PLeaderToCandidate | PLeaderToPreCandidate | PFollowerToLeader => true
  | _ => false
  end.

(* break "monadic program = Panic p" into the failing sub-call *)
Ltac inv_panic_step :=
  match goal with
  | H : Panic _ = Panic _ |- _ => inversion H; subst; clear H
  | H : Ok _ = Panic _ |- _ => discriminate H
  | H : bind ?x _ = Panic _ |- _ =>
      let E := fresh "E" in destruct x eqn:E; cbn [bind] in H
  | H : (let '(_, _) := ?x in _) = Panic _ |- _ =>
      let E := fresh "E" in destruct x eqn:E
  | H : (if ?c then _ else _) = Panic _ |- _ =>
      let E := fresh "E" in destruct c eqn:E
  | H : (match ?x with _ => _ end) = Panic _ |- _ =>
      let E := fresh "E" in destruct x eqn:E
  end.
Ltac inv_panic := repeat inv_panic_step.

Create HintDb np.
Ltac np_done := first [ reflexivity | solve [eauto with np] ].
Ltac np_auto := intros; inv_panic; np_done.

(* ---------- leaves: storage, unstable, log, read-only ---------- *)

Lemma ms_entries_np s lo hi ms p : ms_entries s lo hi ms = Panic p -> unr p = false.
Proof. unfold ms_entries. np_auto. Qed.
#[export] Hint Resolve ms_entries_np : np.

Lemma u_slice_np u lo hi p : u_slice u lo hi = Panic p -> unr p = false.
Proof. unfold u_slice. np_auto. Qed.
#[export] Hint Resolve u_slice_np : np.

Lemma u_truncate_and_append_np u es p : u_truncate_and_append u es = Panic p -> unr p = false.
Proof. unfold u_truncate_and_append. np_auto. Qed.
#[export] Hint Resolve u_truncate_and_append_np : np.

Lemma l_last_entry_id_np st l p : l_last_entry_id st l = Panic p -> unr p = false.
Proof. unfold l_last_entry_id. np_auto. Qed.
#[export] Hint Resolve l_last_entry_id_np : np.

Lemma l_is_up_to_date_np st l t i p : l_is_up_to_date st l t i = Panic p -> unr p = false.
Proof. unfold l_is_up_to_date. np_auto. Qed.
#[export] Hint Resolve l_is_up_to_date_np : np.

Lemma l_commit_to_np st l c p : l_commit_to st l c = Panic p -> unr p = false.
Proof. unfold l_commit_to. np_auto. Qed.
#[export] Hint Resolve l_commit_to_np : np.

Lemma l_append_np st l es p : l_append st l es = Panic p -> unr p = false.
Proof. unfold l_append. np_auto. Qed.
#[export] Hint Resolve l_append_np : np.

Lemma l_maybe_append_np st l pi pt es c p : l_maybe_append st l pi pt es c = Panic p -> unr p = false.
Proof. unfold l_maybe_append. np_auto. Qed.
#[export] Hint Resolve l_maybe_append_np : np.

Lemma l_must_check_np st l lo hi p : l_must_check_out_of_bounds st l lo hi = Panic p -> unr p = false.
Proof. unfold l_must_check_out_of_bounds. np_auto. Qed.
#[export] Hint Resolve l_must_check_np : np.

Lemma l_slice_np st l lo hi ms p : l_slice st l lo hi ms = Panic p -> unr p = false.
Proof. unfold l_slice. np_auto. Qed.
#[export] Hint Resolve l_slice_np : np.

Lemma l_entries_np st l i ms p : l_entries st l i ms = Panic p -> unr p = false.
Proof. unfold l_entries. np_auto. Qed.
#[export] Hint Resolve l_entries_np : np.

Lemma l_next_committed_ents_np st l a p : l_next_committed_ents st l a = Panic p -> unr p = false.
Proof. unfold l_next_committed_ents. np_auto. Qed.
#[export] Hint Resolve l_next_committed_ents_np : np.

Lemma l_applied_to_np l i s p : l_applied_to l i s = Panic p -> unr p = false.
Proof. unfold l_applied_to. np_auto. Qed.
#[export] Hint Resolve l_applied_to_np : np.

Lemma l_accept_applying_np l i s a p : l_accept_applying l i s a = Panic p -> unr p = false.
Proof. unfold l_accept_applying. np_auto. Qed.
#[export] Hint Resolve l_accept_applying_np : np.

Lemma l_maybe_commit_np st l t i p : l_maybe_commit st l t i = Panic p -> unr p = false.
Proof. unfold l_maybe_commit. np_auto. Qed.
#[export] Hint Resolve l_maybe_commit_np : np.

Lemma ro_recv_ack_np ro f c p : ro_recv_ack ro f c = Panic p -> unr p = false.
Proof. unfold ro_recv_ack. np_auto. Qed.
#[export] Hint Resolve ro_recv_ack_np : np.

Lemma ro_maybe_advance_np ro c0 c1 p : ro_maybe_advance ro c0 c1 = Panic p -> unr p = false.
Proof. unfold ro_maybe_advance. np_auto. Qed.
#[export] Hint Resolve ro_maybe_advance_np : np.

Lemma send_np r m p : send r m = Panic p -> unr p = false.
Proof. unfold send. np_auto. Qed.
#[export] Hint Resolve send_np : np.

(* ---------- flow control: maybeSendAppend never trips the Inflights / SentEntries assertions ---------- *)

Lemma pr_sent_entries_no_panic pr n b p :
  pr_state_ pr <> StateSnapshot ->
  (pr_state_ pr = StateReplicate -> 0 < n -> infl_full (pr_inflights pr) = false) ->
  pr_sent_entries pr n b = Panic p -> False.
Proof.
  unfold pr_sent_entries. intros NS NF H. destruct (pr_state_ pr) eqn:ST.
  - discriminate.
  - destruct (0 <? n) eqn:E0.
    + apply N.ltb_lt in E0. unfold infl_add in H. rewrite (NF eq_refl E0) in H. cbn [bind] in H. discriminate.
    + cbn [bind] in H. discriminate.
  - congruence.
Qed.

Section WithStorage.
Variable st : memstorage.

Lemma maybe_send_snapshot_np r to pr p : maybe_send_snapshot st r to pr = Panic p -> unr p = false.
Proof. unfold maybe_send_snapshot. np_auto. Qed.
Hint Resolve maybe_send_snapshot_np : np.

Lemma maybe_send_append_np r to sie p : maybe_send_append st r to sie = Panic p -> unr p = false.
Proof.
  unfold maybe_send_append. intros H.
  destruct (get_progress r to) as [pr|]; [|inversion H; reflexivity].
  destruct (pr_is_paused pr) eqn:PA; [discriminate|].
  assert (NS : pr_state_ pr <> StateSnapshot).
  { intros ST. unfold pr_is_paused in PA. rewrite ST in PA. discriminate. }
  destruct (l_term st (r_log r) (pr_prev (pr_next pr))) as [pt [| | | | | | |]];
    try (eapply maybe_send_snapshot_np; exact H).
  match type of H with bind ?x _ = _ => destruct x as [[ents e]|s] eqn:EE; cbn [bind] in H end.
  - destruct (N.eqb (nlen ents) 0 && negb sie); [discriminate|].
    destruct e; try (eapply maybe_send_snapshot_np; exact H).
    match type of H with bind ?x _ = _ => destruct x as [r1|s] eqn:E1; cbn [bind] in H end.
    + match type of H with bind ?x _ = _ => destruct x as [p1|s] eqn:E2; cbn [bind] in H end; [discriminate|].
      exfalso. eapply pr_sent_entries_no_panic; [exact NS| |exact E2].
      intros SR LT. destruct (infl_full (pr_inflights pr)) eqn:F; [|reflexivity].
      rewrite SR in EE. cbn in EE. inversion EE; subst. cbn in LT. lia.
    + inversion H; subst. eapply send_np; eassumption.
  - inversion H; subst. destruct (negb _ || negb _); [eapply l_entries_np; eassumption|discriminate].
Qed.
Hint Resolve maybe_send_append_np : np.

Lemma send_append_np r to p : send_append st r to = Panic p -> unr p = false.
Proof. unfold send_append. np_auto. Qed.
Hint Resolve send_append_np : np.

Lemma send_heartbeat_np r to ctx p : send_heartbeat r to ctx = Panic p -> unr p = false.
Proof. unfold send_heartbeat. np_auto. Qed.
Hint Resolve send_heartbeat_np : np.

Lemma visit_others_np (f : raft -> N -> res raft) :
  (forall r id p, f r id = Panic p -> unr p = false) ->
  forall ids r p, visit_others f r ids = Panic p -> unr p = false.
Proof.
  intros Hf ids. induction ids as [|id ids IH]; intros r p H; cbn in H; [discriminate|].
  destruct (N.eqb id (r_id r)); [eapply IH; exact H|].
  destruct (f r id) as [r1|s] eqn:E; cbn [bind] in H.
  - eapply IH; exact H.
  - inversion H; subst. eapply Hf; exact E.
Qed.

Lemma bcast_append_np r p : bcast_append st r = Panic p -> unr p = false.
Proof. unfold bcast_append. apply visit_others_np. intros; eapply send_append_np; eassumption. Qed.
Hint Resolve bcast_append_np : np.

Lemma bcast_heartbeat_ctx_np r ctx p : bcast_heartbeat_with_ctx r ctx = Panic p -> unr p = false.
Proof. unfold bcast_heartbeat_with_ctx. apply visit_others_np. intros; eapply send_heartbeat_np; eassumption. Qed.
Hint Resolve bcast_heartbeat_ctx_np : np.

Lemma bcast_heartbeat_np r p : bcast_heartbeat r = Panic p -> unr p = false.
Proof. unfold bcast_heartbeat. apply bcast_heartbeat_ctx_np. Qed.
Hint Resolve bcast_heartbeat_np : np.

Lemma maybe_commit_np r p : maybe_commit st r = Panic p -> unr p = false.
Proof. unfold maybe_commit. np_auto. Qed.
Hint Resolve maybe_commit_np : np.

Lemma reset_randomized_np r p : reset_randomized r = Panic p -> unr p = false.
Proof. unfold reset_randomized. np_auto. Qed.
Hint Resolve reset_randomized_np : np.

Lemma reset_np r t p : reset st r t = Panic p -> unr p = false.
Proof. unfold reset. np_auto. Qed.
Hint Resolve reset_np : np.

Lemma append_entry_np r es p : append_entry st r es = Panic p -> unr p = false.
Proof. unfold append_entry. np_auto. Qed.
Hint Resolve append_entry_np : np.

Lemma become_follower_np r t l p : become_follower st r t l = Panic p -> unr p = false.
Proof. unfold become_follower. np_auto. Qed.
Hint Resolve become_follower_np : np.

(* the transitions that carry an assertion need to know the role they start from *)
Lemma become_candidate_np r p :
  r_state r <> StateLeader -> become_candidate st r = Panic p -> unr p = false.
Proof.
  unfold become_candidate. intros NL H.
  destruct (state_type_eqb (r_state r) StateLeader) eqn:E; [destruct (r_state r); try discriminate E; congruence|].
  inv_panic; np_done.
Qed.

Lemma become_pre_candidate_np r p :
  r_state r <> StateLeader -> become_pre_candidate r = Panic p -> unr p = false.
Proof.
  unfold become_pre_candidate. intros NL H.
  destruct (state_type_eqb (r_state r) StateLeader) eqn:E; [destruct (r_state r); try discriminate E; congruence|].
  discriminate.
Qed.

Lemma become_leader_np r p :
  r_state r <> StateFollower -> become_leader st r = Panic p -> unr p = false.
Proof.
  unfold become_leader. intros NF H.
  destruct (state_type_eqb (r_state r) StateFollower) eqn:E; [destruct (r_state r); try discriminate E; congruence|].
  inv_panic; np_done.
Qed.

Lemma campaign_send_np ids : forall r vm term lt li ctx p,
  campaign_send r ids vm term lt li ctx = Panic p -> unr p = false.
Proof.
  induction ids as [|id ids IH]; intros r vm term lt li ctx p H; cbn in H; [discriminate|].
  match type of H with bind ?x _ = _ => destruct x as [r1|s] eqn:E1; cbn [bind] in H end.
  - eapply IH; exact H.
  - inversion H; subst. destruct (N.eqb id (r_id r)); eapply send_np; eassumption.
Qed.
Hint Resolve campaign_send_np : np.

Lemma campaign_np r t p : r_state r <> StateLeader -> campaign st r t = Panic p -> unr p = false.
Proof.
  unfold campaign. intros NL H.
  match type of H with bind ?x _ = _ => destruct x as [[[r1 vm] term]|s] eqn:E1; cbn [bind] in H end.
  - inv_panic; np_done.
  - inversion H; subst. destruct t; inv_panic;
      first [ eapply become_pre_candidate_np; eassumption | eapply become_candidate_np; eassumption ].
Qed.

Lemma l_scan_exists_np l fuel : forall lo hi ps f p,
  l_scan_exists st l fuel lo hi ps f = Panic p -> unr p = false.
Proof.
  induction fuel as [|fu IH]; intros lo hi ps f p H; cbn in H.
  - inv_panic; np_done.
  - inv_panic; try np_done; try (eapply IH; eassumption).
Qed.

Lemma has_unapplied_np r p : has_unapplied_conf_changes st r = Panic p -> unr p = false.
Proof.
  unfold has_unapplied_conf_changes. intros H. destruct (_ <=? _); [discriminate|].
  eapply l_scan_exists_np; exact H.
Qed.
Hint Resolve has_unapplied_np : np.

Lemma hup_np r t p : hup st r t = Panic p -> unr p = false.
Proof.
  unfold hup. intros H.
  destruct (state_type_eqb (r_state r) StateLeader) eqn:E; [discriminate|].
  assert (NL : r_state r <> StateLeader) by (intros X; rewrite X in E; discriminate).
  inv_panic; try np_done. eapply campaign_np; eassumption.
Qed.
Hint Resolve hup_np : np.


Lemma handle_append_entries_np r m p : handle_append_entries st r m = Panic p -> unr p = false.
Proof. unfold handle_append_entries. np_auto. Qed.
Hint Resolve handle_append_entries_np : np.

Lemma handle_heartbeat_np r m p : handle_heartbeat st r m = Panic p -> unr p = false.
Proof. unfold handle_heartbeat. np_auto. Qed.
Hint Resolve handle_heartbeat_np : np.

Lemma visit_maybe_send_np ids : forall r p, visit_maybe_send st r ids = Panic p -> unr p = false.
Proof.
  induction ids as [|id ids IH]; intros r p H; cbn in H; [discriminate|].
  destruct (N.eqb id (r_id r)); [eapply IH; exact H|].
  destruct (maybe_send_append st r id false) as [x|s] eqn:E; cbn [bind] in H.
  - eapply IH; exact H.
  - inversion H; subst. eapply maybe_send_append_np; exact E.
Qed.
Hint Resolve visit_maybe_send_np : np.

Lemma switch_to_config_np r cfg pm p : switch_to_config st r cfg pm = Panic p -> unr p = false.
Proof. unfold switch_to_config. np_auto. Qed.
Hint Resolve switch_to_config_np : np.

Lemma restore_np r s p : restore st r s = Panic p -> unr p = false.
Proof. unfold restore. np_auto. Qed.
Hint Resolve restore_np : np.

Lemma handle_snapshot_np r m p : handle_snapshot st r m = Panic p -> unr p = false.
Proof. unfold handle_snapshot. np_auto. Qed.
Hint Resolve handle_snapshot_np : np.

Lemma apply_conf_change_raft_np r cc p : apply_conf_change_raft st r cc = Panic p -> unr p = false.
Proof. unfold apply_conf_change_raft. np_auto. Qed.
Hint Resolve apply_conf_change_raft_np : np.

Lemma respond_read_index_np r req i p : respond_read_index r req i = Panic p -> unr p = false.
Proof. unfold respond_read_index, response_to_read_index_req. np_auto. Qed.
Hint Resolve respond_read_index_np : np.

Lemma send_msg_read_index_response_np r m p : send_msg_read_index_response r m = Panic p -> unr p = false.
Proof. unfold send_msg_read_index_response. np_auto. Qed.
Hint Resolve send_msg_read_index_response_np : np.

Lemma send_read_index_responses_np ms : forall r p, send_read_index_responses r ms = Panic p -> unr p = false.
Proof.
  induction ms as [|m ms IH]; intros r p H; cbn in H; [discriminate|].
  destruct (send_msg_read_index_response r m) as [r1|s] eqn:E; cbn [bind] in H.
  - eapply IH; exact H.
  - inversion H; subst. eapply send_msg_read_index_response_np; exact E.
Qed.
Hint Resolve send_read_index_responses_np : np.

Lemma release_pending_read_index_np r p : release_pending_read_index st r = Panic p -> unr p = false.
Proof. unfold release_pending_read_index. np_auto. Qed.
Hint Resolve release_pending_read_index_np : np.

Lemma send_timeout_now_np r to p : send_timeout_now r to = Panic p -> unr p = false.
Proof. unfold send_timeout_now. apply send_np. Qed.
Hint Resolve send_timeout_now_np : np.

Lemma send_append_loop_np fuel : forall r to p, send_append_loop st fuel r to = Panic p -> unr p = false.
Proof.
  induction fuel as [|f IH]; intros r to p H; cbn in H; [inversion H; reflexivity|].
  destruct (maybe_send_append st r to false) as [[r1 b]|s] eqn:E; cbn [bind] in H.
  - cbn [fst snd] in H. destruct b; [eapply IH; exact H|discriminate].
  - inversion H; subst. eapply maybe_send_append_np; exact E.
Qed.
Hint Resolve send_append_loop_np : np.

Lemma respond_reads_np rss : forall r p, respond_reads r rss = Panic p -> unr p = false.
Proof.
  induction rss as [|[req idx] rss IH]; intros r p H; cbn in H; [discriminate|].
  destruct (respond_read_index r req idx) as [r1|s] eqn:E; cbn [bind] in H.
  - eapply IH; exact H.
  - inversion H; subst. eapply respond_read_index_np; exact E.
Qed.
Hint Resolve respond_reads_np : np.

Lemma step_leader_np r m p : step_leader st r m = Panic p -> unr p = false.
Proof. unfold step_leader. np_auto. Qed.
Hint Resolve step_leader_np : np.

Lemma step_follower_np r m p : step_follower st r m = Panic p -> unr p = false.
Proof. unfold step_follower. np_auto. Qed.
Hint Resolve step_follower_np : np.

Lemma poll_state r id v r' res : poll r id v = (r', res) -> r_state r' = r_state r.
Proof. unfold poll. intros H. inversion H; reflexivity. Qed.

(* stepCandidate is entered as a candidate or a pre-candidate *)
Lemma step_candidate_np r m p :
  r_state r = StateCandidate \/ r_state r = StatePreCandidate ->
  step_candidate st r m = Panic p -> unr p = false.
Proof.
  unfold step_candidate. intros RS H.
  destruct (m_type m) eqn:TY; inv_panic; try np_done.
  all: match goal with EP : poll _ _ _ = (?r1, _) |- _ => pose proof (poll_state _ _ _ _ _ EP) as PS end.
  all: first
    [ eapply campaign_np; [|eassumption];
      match goal with E : state_type_eqb (r_state ?r1) StatePreCandidate = true |- _ =>
        destruct (r_state r1); try discriminate E; discriminate end
    | eapply become_leader_np; [|eassumption];
      match goal with E : state_type_eqb (r_state ?r1) StatePreCandidate = false |- _ =>
        rewrite PS in *; destruct RS as [RS|RS]; rewrite RS in *; [discriminate|discriminate E] end ].
Qed.

Lemma step_role_np r m p :
  match r_state r with
  | StateFollower => step_follower st r m
  | StateCandidate | StatePreCandidate => step_candidate st r m
  | StateLeader => step_leader st r m
  end = Panic p -> unr p = false.
Proof.
  destruct (r_state r) eqn:RS; intros H.
  - eapply step_follower_np; exact H.
  - eapply step_candidate_np; [left; exact RS|exact H].
  - eapply step_leader_np; exact H.
  - eapply step_candidate_np; [right; exact RS|exact H].
Qed.
Hint Resolve step_role_np : np.

Section StepGen.
Variable step_rec : raft -> message -> res (raft * err).
Hypothesis step_rec_np : forall r p, step_rec r leave_joint_prop = Panic p -> unr p = false.

Lemma applied_to_np r i s p : applied_to step_rec r i s = Panic p -> unr p = false.
Proof. unfold applied_to. intros H. inv_panic; try np_done; try (eapply step_rec_np; eassumption). Qed.

Lemma applied_snap_np r s p : applied_snap step_rec r s = Panic p -> unr p = false.
Proof. unfold applied_snap. apply applied_to_np. Qed.

Lemma step_preamble_np r m p : step_preamble st step_rec r m = Panic p -> unr p = false.
Proof.
  unfold step_preamble. intros H. inv_panic; try np_done.
  all: eapply applied_snap_np; eassumption.
Qed.

Lemma step_transfer_leader_np r m p : step_transfer_leader st step_rec r m = Panic p -> unr p = false.
Proof.
  unfold step_transfer_leader. intros H.
  match type of H with bind ?y _ = _ => destruct y as [x|s] eqn:E1; cbn [bind] in H end.
  - inv_panic; try np_done; try (eapply applied_to_np; eassumption).
  - inversion H; subst. eapply step_role_np; exact E1.
Qed.

Lemma step_dispatch_np r m p : step_dispatch st step_rec r m = Panic p -> unr p = false.
Proof.
  unfold step_dispatch. intros H.
  destruct (m_type m) eqn:TY; try (eapply step_role_np; exact H).
  all: try (eapply step_transfer_leader_np; exact H).
  all: inv_panic; try np_done.
  all: first [eapply applied_snap_np; eassumption | eapply applied_to_np; eassumption].
Qed.

Lemma step_gen_np r m p : step_gen st step_rec r m = Panic p -> unr p = false.
Proof.
  unfold step_gen. intros H.
  destruct (step_preamble st step_rec r m) as [[r1 c]|s] eqn:EP; cbn [bind] in H.
  - destruct (negb c); [discriminate|]. eapply step_dispatch_np; exact H.
  - inversion H; subst. eapply step_preamble_np; exact EP.
Qed.
End StepGen.

(* the nested Step carries the leave-joint proposal: it goes to the role's handler and never reaches
   appliedTo, hence never the recursion leaf *)
Lemma step_inner_leave_np r p : step_inner st r leave_joint_prop = Panic p -> unr p = false.
Proof.
  unfold step_inner, step_gen, step_preamble. cbn [m_term leave_joint_prop N.eqb bind negb].
  unfold step_dispatch. cbn [m_type leave_joint_prop]. apply step_role_np.
Qed.

(* Step, for every state and every message of any type, term and content: none of the assertions
   listed at the top fires *)
Theorem step_np r m p : step st r m = Panic p -> unr p = false.
Proof. unfold step. apply step_gen_np. exact step_inner_leave_np. Qed.
Hint Resolve step_np : np.

Lemma applied_to_top_np r i s p : applied_to_top st r i s = Panic p -> unr p = false.
Proof. unfold applied_to_top. apply applied_to_np. exact step_inner_leave_np. Qed.
Hint Resolve applied_to_top_np : np.

Lemma tick_election_np r p : tick_election st r = Panic p -> unr p = false.
Proof. unfold tick_election. np_auto. Qed.

Lemma tick_heartbeat_np r p : tick_heartbeat st r = Panic p -> unr p = false.
Proof. unfold tick_heartbeat. cbv beta zeta. np_auto. Qed.

Theorem tick_np r p : tick st r = Panic p -> unr p = false.
Proof. unfold tick. destruct (r_state r); first [apply tick_election_np | apply tick_heartbeat_np]. Qed.

End WithStorage.

(* ---------- the RawNode API ---------- *)

Lemma ms_append_np s es p : ms_append s es = Panic p -> unr p = false.
Proof. unfold ms_append. np_auto. Qed.
Lemma ms_create_snapshot_np s i cs d p : ms_create_snapshot s i cs d = Panic p -> unr p = false.
Proof. unfold ms_create_snapshot. np_auto. Qed.
Lemma ms_compact_np s i p : ms_compact s i = Panic p -> unr p = false.
Proof. unfold ms_compact. np_auto. Qed.
#[export] Hint Resolve ms_append_np ms_create_snapshot_np ms_compact_np : np.

#[export] Hint Resolve step_np tick_np apply_conf_change_raft_np become_follower_np switch_to_config_np
  l_last_entry_id_np : np.

Lemma load_state_np st r h p : load_state st r h = Panic p -> unr p = false.
Proof. unfold load_state. np_auto. Qed.
#[export] Hint Resolve load_state_np : np.

Lemma new_raft_np st c d p : new_raft st c d = Panic p -> unr p = false.
Proof. unfold new_raft. np_auto. Qed.
#[export] Hint Resolve new_raft_np : np.

Lemma new_rawnode_np st c d p : new_rawnode st c d = Panic p -> unr p = false.
Proof. unfold new_rawnode. np_auto. Qed.

Lemma storage_append_resp_np st r s p : storage_append_resp st r s = Panic p -> unr p = false.
Proof. unfold storage_append_resp. np_auto. Qed.
#[export] Hint Resolve storage_append_resp_np : np.

Lemma ready_without_accept_np st rn p : ready_without_accept st rn = Panic p -> unr p = false.
Proof. unfold ready_without_accept. cbv zeta. np_auto. Qed.

Lemma accept_ready_np st rn rd p : accept_ready st rn rd = Panic p -> unr p = false.
Proof. unfold accept_ready. cbv zeta. np_auto. Qed.

Lemma step_all_np st ms : forall r p, step_all st r ms = Panic p -> unr p = false.
Proof.
  induction ms as [|m ms IH]; intros r p H; cbn in H; [discriminate|].
  destruct (step st r m) as [x|s] eqn:E; cbn [bind] in H.
  - eapply IH; exact H.
  - inversion H; subst. eapply step_np; exact E.
Qed.

(* whatever is done to a node through the RawNode API and its storage, in any state: none of the
   assertions listed at the top fires *)
Theorem node_step_np n i d p : node_step n i d = Panic p -> unr p = false.
Proof.
  unfold node_step. intros H.
  destruct i; try (destruct (n_rn n) as [rn|]; [|discriminate]).
  all: unfold rn_tick, rn_campaign, rn_propose, rn_propose_cc, rn_apply_conf_change, rn_step, rn_ready,
         rn_advance, rn_report_unreachable, rn_report_snapshot, rn_transfer_leader, rn_forget_leader,
         rn_read_index, rn_raft_step in H.
  all: inv_panic; try np_done.
  all: first [ eapply new_rawnode_np; eassumption
             | eapply ready_without_accept_np; eassumption
             | eapply accept_ready_np; eassumption
             | eapply step_all_np; eassumption ].
Qed.
