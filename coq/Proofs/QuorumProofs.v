(* QuorumProofs.v: proofs about Model/Quorum.v (C12, and the quorum half of C19). *)
From Coq Require Import List NArith Bool Arith Lia Sorting.Mergesort Sorting.Sorted
     Sorting.Permutation ZArith ZifyBool ZifyNat ZifyN.
From RaftV Require Import Base Quorum.
Import ListNotations.

Ltac Zify.zify_post_hook ::= Z.div_mod_to_equations.

(* ---------- counting over lists ---------- *)

Definition count_ge (i : N) (l : list N) : nat :=
  length (filter (fun x => N.leb i x) l).

Lemma count_ge_app i l1 l2 : count_ge i (l1 ++ l2) = (count_ge i l1 + count_ge i l2)%nat.
Proof. unfold count_ge. rewrite filter_app, app_length. reflexivity. Qed.

Lemma count_ge_le_length i l : (count_ge i l <= length l)%nat.
Proof.
  unfold count_ge. induction l as [|x l IH]; simpl; [lia|].
  destruct (N.leb i x); simpl; lia.
Qed.

Lemma count_ge_all i l : Forall (fun x => (i <= x)%N) l -> count_ge i l = length l.
Proof.
  unfold count_ge. induction 1 as [|x l Hx Hl IH]; simpl; [reflexivity|].
  destruct (N.leb_spec i x); simpl; lia.
Qed.

Lemma count_ge_none i l : Forall (fun x => (x < i)%N) l -> count_ge i l = 0%nat.
Proof.
  unfold count_ge. induction 1 as [|x l Hx Hl IH]; simpl; [reflexivity|].
  destruct (N.leb_spec i x); simpl; lia.
Qed.

Lemma count_ge_perm i l l' : Permutation l l' -> count_ge i l = count_ge i l'.
Proof.
  unfold count_ge. induction 1 as [|x l l' HP IH|x y l|l l' l'' HP1 IH1 HP2 IH2]; simpl.
  - reflexivity.
  - destruct (N.leb i x); simpl; lia.
  - destruct (N.leb i x), (N.leb i y); simpl; lia.
  - lia.
Qed.

Lemma count_ge_mono i j l : (i <= j)%N -> (count_ge j l <= count_ge i l)%nat.
Proof.
  intros Hij. unfold count_ge. induction l as [|x l IH]; simpl; [lia|].
  destruct (N.leb_spec j x), (N.leb_spec i x); simpl; lia.
Qed.

(* ---------- sorted lists ---------- *)

Definition leN (a b : N) : Prop := is_true (N.leb a b).

Lemma sortN_sorted l : StronglySorted leN (sortN l).
Proof.
  unfold sortN. apply Sorted_StronglySorted.
  - intros a b c Hab Hbc. unfold leN, is_true in *. lia.
  - apply NSort.Sorted_sort.
Qed.

Lemma sortN_perm l : Permutation l (sortN l).
Proof. apply NSort.Permuted_sort. Qed.

Lemma sortN_length l : length (sortN l) = length l.
Proof. symmetry. apply Permutation_length, sortN_perm. Qed.

Lemma sorted_split (l : list N) (p : nat) :
  StronglySorted leN l -> (p < length l)%nat ->
  let x := nth p l 0%N in
  Forall (fun y => (y <= x)%N) (firstn p l) /\
  Forall (fun y => (x <= y)%N) (skipn p l).
Proof.
  intros Hs. revert p. induction Hs as [|a l Hs IH Ha]; intros p Hp; simpl in Hp; [lia|].
  destruct p as [|p]; simpl.
  - split; [constructor|]. constructor; [lia|].
    eapply Forall_impl; [|exact Ha]. intros y Hy. unfold leN, is_true in Hy. lia.
  - assert (Hp' : (p < length l)%nat) by lia.
    destruct (IH p Hp') as [H1 H2]. split; [|exact H2].
    constructor; [|exact H1].
    assert (Hin : In (nth p l 0%N) l) by (apply nth_In; exact Hp').
    rewrite Forall_forall in Ha. specialize (Ha _ Hin). unfold leN, is_true in Ha. lia.
Qed.

Lemma skipn_nth_head (l : list N) (p : nat) :
  (p < length l)%nat -> exists tl, skipn p l = nth p l 0%N :: tl.
Proof.
  revert p. induction l as [|a l IH]; intros p Hp; simpl in Hp; [lia|].
  destruct p as [|p]; simpl; [eexists; reflexivity|]. apply IH. lia.
Qed.

(* The element at position n-(n/2+1) of a sorted list is acknowledged by a strict
   majority, and nothing larger is. *)
Lemma sorted_majority_pos (l : list N) :
  StronglySorted leN l -> l <> [] ->
  let n := length l in
  let c := nth (n - (n / 2 + 1)) l 0%N in
  (2 * count_ge c l > n)%nat /\ forall i, (2 * count_ge i l > n)%nat -> (i <= c)%N.
Proof.
  intros Hs Hne n c.
  assert (Hn : (0 < n)%nat) by (subst n; destruct l; simpl; [congruence|lia]).
  set (p := (n - (n / 2 + 1))%nat) in *.
  assert (Hp : (p < length l)%nat) by (subst p; fold n; lia).
  destruct (sorted_split l p Hs Hp) as [Hlo Hhi]. fold c in Hlo, Hhi.
  assert (Hl : l = firstn p l ++ skipn p l) by (symmetry; apply firstn_skipn).
  assert (Hlen2 : length (skipn p l) = (n / 2 + 1)%nat)
    by (rewrite skipn_length; fold n; subst p; lia).
  split.
  - rewrite Hl, count_ge_app. rewrite (count_ge_all c (skipn p l) Hhi). lia.
  - intros i Hi. destruct (N.le_gt_cases i c) as [Hle|Hgt]; [exact Hle|exfalso].
    rewrite Hl, count_ge_app in Hi.
    assert (H1 : count_ge i (firstn p l) = 0%nat).
    { apply count_ge_none. eapply Forall_impl; [|exact Hlo]. intros y Hy. simpl in Hy. lia. }
    (* the head of the suffix is c itself, which is below i *)
    assert (Hsk : exists tl, skipn p l = c :: tl).
    { subst c. apply skipn_nth_head. exact Hp. }
    destruct Hsk as [tl Htl]. rewrite Htl in Hi, Hlen2.
    change (c :: tl) with ([c] ++ tl) in Hi. rewrite count_ge_app in Hi.
    assert (H2 : count_ge i [c] = 0%nat) by (apply count_ge_none; constructor; [lia|constructor]).
    pose proof (count_ge_le_length i tl) as H3. cbn [length] in Hlen2. lia.
Qed.

(* ---------- majority committed index ---------- *)

(* number of voters of [vs] whose acknowledged index (missing = 0) is at least [i] *)
Definition ackers (vs : list N) (ack : list (N * N)) (i : N) : nat :=
  length (filter (fun v => N.leb i (ack_or_zero ack v)) vs).

Definition majority_acked (vs : list N) (ack : list (N * N)) (i : N) : Prop :=
  (2 * ackers vs ack i > length vs)%nat.

Lemma ackers_count vs ack i : ackers vs ack i = count_ge i (map (ack_or_zero ack) vs).
Proof.
  unfold ackers, count_ge. induction vs as [|v vs IH]; simpl; [reflexivity|].
  destruct (N.leb i (ack_or_zero ack v)); simpl; lia.
Qed.

Theorem majority_committed_greatest vs ack :
  vs <> [] ->
  majority_acked vs ack (majority_committed vs ack) /\
  forall i, majority_acked vs ack i -> (i <= majority_committed vs ack)%N.
Proof.
  intros Hne. unfold majority_acked.
  set (l := map (ack_or_zero ack) vs).
  assert (Hlen : length (sortN l) = length vs) by (rewrite sortN_length; apply map_length).
  assert (Hmc : majority_committed vs ack =
                nth (length (sortN l) - (length (sortN l) / 2 + 1)) (sortN l) 0%N).
  { unfold majority_committed. destruct vs as [|v vs']; [congruence|]. fold l. rewrite Hlen. reflexivity. }
  assert (Hne' : sortN l <> []).
  { intro H. rewrite H in Hlen. destruct vs; simpl in Hlen; [congruence|lia]. }
  destruct (sorted_majority_pos (sortN l) (sortN_sorted l) Hne') as [H1 H2].
  rewrite Hmc. split.
  - rewrite ackers_count. fold l. rewrite (count_ge_perm _ _ _ (sortN_perm l)). lia.
  - intros i Hi. apply H2. rewrite ackers_count in Hi. fold l in Hi.
    rewrite (count_ge_perm _ _ _ (sortN_perm l)) in Hi. lia.
Qed.

Theorem majority_committed_empty ack : majority_committed [] ack = maxU64.
Proof. reflexivity. Qed.

(* uniqueness of "greatest acknowledged by a majority" *)
Lemma greatest_unique (P : N -> Prop) a b :
  (P a /\ forall i, P i -> (i <= a)%N) -> (P b /\ forall i, P i -> (i <= b)%N) -> a = b.
Proof. intros [Pa Ha] [Pb Hb]. apply N.le_antisymm; auto. Qed.

Lemma ackers_perm vs vs' ack i : Permutation vs vs' -> ackers vs ack i = ackers vs' ack i.
Proof.
  intros HP. rewrite !ackers_count. apply count_ge_perm. apply Permutation_map. exact HP.
Qed.

Theorem majority_committed_perm vs vs' ack :
  Permutation vs vs' -> majority_committed vs ack = majority_committed vs' ack.
Proof.
  intros HP. destruct vs as [|v vs0].
  - apply Permutation_nil in HP. subst. reflexivity.
  - assert (Hne : v :: vs0 <> []) by congruence.
    assert (Hne' : vs' <> []).
    { intro H; subst. apply Permutation_sym, Permutation_nil in HP. congruence. }
    apply (greatest_unique (majority_acked (v :: vs0) ack)).
    + apply majority_committed_greatest; exact Hne.
    + destruct (majority_committed_greatest vs' ack Hne') as [H1 H2].
      unfold majority_acked in *. split.
      * rewrite (ackers_perm _ _ _ _ HP), (Permutation_length HP). exact H1.
      * intros i Hi. apply H2. rewrite <- (ackers_perm _ _ _ _ HP), <- (Permutation_length HP). exact Hi.
Qed.

(* ---------- joint committed index ---------- *)

Theorem joint_committed_min c0 c1 ack :
  joint_committed c0 c1 ack = N.min (majority_committed c0 ack) (majority_committed c1 ack).
Proof.
  unfold joint_committed. destruct (N.ltb_spec (majority_committed c0 ack) (majority_committed c1 ack)); lia.
Qed.

Lemma ack_or_zero_le_max64 ack v :
  Forall (fun kv => (snd kv <= maxU64)%N) ack -> (ack_or_zero ack v <= maxU64)%N.
Proof.
  unfold ack_or_zero. induction 1 as [|[k x] ack Hx Hl IH]; simpl; [unfold maxU64; lia|].
  destruct (N.eqb v k); [exact Hx|exact IH].
Qed.

Lemma majority_committed_le_max64 vs ack :
  Forall (fun kv => (snd kv <= maxU64)%N) ack -> (majority_committed vs ack <= maxU64)%N.
Proof.
  intros Hack. destruct vs as [|v vs0] eqn:E; [simpl; lia|]. rewrite <- E.
  assert (Hne : vs <> []) by (rewrite E; congruence).
  destruct (majority_committed_greatest vs ack Hne) as [H1 _].
  unfold majority_acked in H1.
  (* some voter acknowledges it, and every acknowledgement is a uint64 *)
  unfold ackers in H1.
  destruct (filter (fun v0 => N.leb (majority_committed vs ack) (ack_or_zero ack v0)) vs) as [|w ws] eqn:F.
  - simpl in H1. lia.
  - assert (Hin : In w (w :: ws)) by (left; reflexivity). rewrite <- F in Hin.
    apply filter_In in Hin. destruct Hin as [_ Hw].
    pose proof (ack_or_zero_le_max64 ack w Hack). lia.
Qed.

(* an empty half imposes no constraint (all indexes are uint64 values) *)
Theorem joint_committed_empty_half c0 ack :
  Forall (fun kv => (snd kv <= maxU64)%N) ack ->
  joint_committed c0 [] ack = majority_committed c0 ack /\
  joint_committed [] c0 ack = majority_committed c0 ack.
Proof.
  intros Hack. rewrite !joint_committed_min. simpl.
  pose proof (majority_committed_le_max64 c0 ack Hack). lia.
Qed.

Theorem joint_committed_perm c0 c0' c1 c1' ack :
  Permutation c0 c0' -> Permutation c1 c1' ->
  joint_committed c0 c1 ack = joint_committed c0' c1' ack.
Proof.
  intros H0 H1. unfold joint_committed.
  rewrite (majority_committed_perm _ _ _ H0), (majority_committed_perm _ _ _ H1). reflexivity.
Qed.

(* ---------- votes ---------- *)

Definition yes_majority (vs : list N) (votes : list (N * bool)) : Prop :=
  (2 * count_yes vs votes > length vs)%nat.
(* even if every missing voter said yes, no strict majority *)
Definition majority_impossible (vs : list N) (votes : list (N * bool)) : Prop :=
  (2 * (count_yes vs votes + count_missing vs votes) <= length vs)%nat.

Theorem majority_vote_spec vs votes :
  vs <> [] ->
  (majority_vote vs votes = VoteWon <-> yes_majority vs votes) /\
  (majority_vote vs votes = VoteLost <-> majority_impossible vs votes) /\
  (majority_vote vs votes = VotePending <->
     ~ yes_majority vs votes /\ ~ majority_impossible vs votes).
Proof.
  intros Hne. unfold yes_majority, majority_impossible, majority_vote.
  destruct vs as [|v vs0] eqn:E; [congruence|]. rewrite <- E.
  set (n := length vs). set (y := count_yes vs votes). set (m := count_missing vs votes).
  destruct (Nat.leb_spec (n / 2 + 1) y) as [H1|H1].
  - repeat split; intros; try congruence; try lia.
  - destruct (Nat.leb_spec (n / 2 + 1) (y + m)) as [H2|H2].
    + repeat split; intros; try congruence; try lia.
    + repeat split; intros; try congruence; try lia.
Qed.

Theorem majority_vote_empty votes : majority_vote [] votes = VoteWon.
Proof. reflexivity. Qed.

(* a half "said yes" if it is empty or has a strict yes majority; it is "lost" if it is
   non-empty and a yes majority has become impossible *)
Definition half_won vs votes : Prop := vs = [] \/ yes_majority vs votes.
Definition half_lost vs votes : Prop := vs <> [] /\ majority_impossible vs votes.

Lemma majority_vote_won vs votes : majority_vote vs votes = VoteWon <-> half_won vs votes.
Proof.
  unfold half_won. destruct vs as [|v vs0] eqn:E.
  - simpl. split; auto.
  - rewrite <- E. assert (Hne : vs <> []) by (rewrite E; congruence).
    destruct (majority_vote_spec vs votes Hne) as [H _]. rewrite H. split; [auto|].
    intros [H0|H0]; [congruence|exact H0].
Qed.

Lemma majority_vote_lost vs votes : majority_vote vs votes = VoteLost <-> half_lost vs votes.
Proof.
  unfold half_lost. destruct vs as [|v vs0] eqn:E.
  - simpl. split; [congruence|]. intros [H _]. congruence.
  - rewrite <- E. assert (Hne : vs <> []) by (rewrite E; congruence).
    destruct (majority_vote_spec vs votes Hne) as [_ [H _]]. rewrite H. split; [auto|].
    intros [_ H0]; exact H0.
Qed.

Theorem joint_vote_spec c0 c1 votes :
  (joint_vote c0 c1 votes = VoteWon <-> half_won c0 votes /\ half_won c1 votes) /\
  (joint_vote c0 c1 votes = VoteLost <-> half_lost c0 votes \/ half_lost c1 votes) /\
  (joint_vote c0 c1 votes = VotePending <->
     ~ (half_won c0 votes /\ half_won c1 votes) /\ ~ (half_lost c0 votes \/ half_lost c1 votes)).
Proof.
  rewrite <- !majority_vote_won, <- !majority_vote_lost. unfold joint_vote.
  destruct (majority_vote c0 votes), (majority_vote c1 votes); simpl;
    intuition congruence.
Qed.

Lemma filter_length_perm {A} (f : A -> bool) l l' :
  Permutation l l' -> length (filter f l) = length (filter f l').
Proof.
  induction 1 as [|x l l' HP IH|x y l|l l' l'' HP1 IH1 HP2 IH2]; simpl.
  - reflexivity.
  - destruct (f x); simpl; lia.
  - destruct (f x), (f y); simpl; lia.
  - lia.
Qed.

Theorem majority_vote_perm vs vs' votes :
  Permutation vs vs' -> majority_vote vs votes = majority_vote vs' votes.
Proof.
  intros HP. unfold majority_vote, count_yes, count_missing.
  rewrite (filter_length_perm _ _ _ HP), (filter_length_perm _ _ _ HP), (Permutation_length HP).
  destruct vs as [|v vs0], vs' as [|v' vs0']; try reflexivity.
  - apply Permutation_nil in HP. congruence.
  - apply Permutation_sym, Permutation_nil in HP. congruence.
Qed.

Theorem joint_vote_perm c0 c0' c1 c1' votes :
  Permutation c0 c0' -> Permutation c1 c1' ->
  joint_vote c0 c1 votes = joint_vote c0' c1' votes.
Proof.
  intros H0 H1. unfold joint_vote.
  rewrite (majority_vote_perm _ _ _ H0), (majority_vote_perm _ _ _ H1). reflexivity.
Qed.

(* ---------- quorum intersection (used by the protocol proofs) ---------- *)

Lemma filter_and_length {A} (f g : A -> bool) (l : list A) :
  (length (filter f l) + length (filter g l) <=
   length l + length (filter (fun x => f x && g x) l))%nat.
Proof.
  induction l as [|x l IH]; simpl; [lia|].
  destruct (f x), (g x); simpl; lia.
Qed.

(* Two strict majorities of the same list share a member. *)
Theorem majorities_intersect {A} (f g : A -> bool) (l : list A) :
  (2 * length (filter f l) > length l)%nat ->
  (2 * length (filter g l) > length l)%nat ->
  exists x, In x l /\ f x = true /\ g x = true.
Proof.
  intros Hf Hg. pose proof (filter_and_length f g l) as H.
  destruct (filter (fun x => f x && g x) l) as [|x xs] eqn:E.
  - simpl in H. lia.
  - exists x. assert (Hin : In x (x :: xs)) by (left; reflexivity).
    rewrite <- E in Hin. apply filter_In in Hin. destruct Hin as [Hin Hfg].
    apply andb_true_iff in Hfg. tauto.
Qed.
