(* StreamProofs.v: the apply stream of one node over arbitrary histories (C08).
   CursorProofs.v shows what moves the apply cursor inside raft.go; this file lifts it to the
   RawNode API and to every sequence of inputs of one incarnation:
     - a Ready hands out the consecutive entries right after the cursor and moves the cursor to
       the last of them;
     - Step moves it only forward and only to the index of the acknowledgement it carries
       (entries applied, snapshot installed), Advance only to an acknowledgement queued by the
       last Ready;
     - nothing else moves it.
   Consequences over histories: the batches are ordered and pairwise disjoint (no index is handed
   out twice in an incarnation), and two batches with no acknowledgement above the cursor in
   between are adjacent (gap-free). *)
From Coq Require Import List NArith Bool Lia.
From RaftV Require Import Base Types Quorum Progress Tracker Storage Log Raft RawNode Tactics
     RaftMono RaftRouting NodeProps LogProofs CursorProofs.
Import ListNotations.
Open Scope N_scope.

Definition ncur (rn : rawnode) : N := l_applying (r_log (rn_raft rn)).

(* the acknowledgements queued for Advance *)
Definition pend (rn : rawnode) (i : N) : Prop :=
  exists m, In m (rn_steps_on_advance rn) /\ acks m i.

(* the cursor stays, or moves forward to an index that satisfies P *)
Definition moved (P : N -> Prop) (a a' : N) : Prop := a' = a \/ (a < a' /\ P a').

Definition rcur_ok (rn : rawnode) : Prop := cur_ok (rn_raft rn).

Lemma promise_no_ack m : is_promise m -> ack_of m = None.
Proof. unfold is_promise, promise_type, ack_of. destruct (m_type m); congruence. Qed.

Section WithStorage.
Variable st : memstorage.

Lemma cur_step_moved P r r' : cur_step P r r' -> cur_ok r ->
  cur_ok r' /\ moved P (l_applying (r_log r)) (l_applying (r_log r')).
Proof. intros H O. destruct (H O) as [O' M]. split; [exact O'|exact M]. Qed.

Lemma no_move_eq r r' : no_move r r' -> cur_ok r ->
  cur_ok r' /\ l_applying (r_log r') = l_applying (r_log r).
Proof. intros H O. destruct (H O) as [O' [M|[_ []]]]. auto. Qed.

(* Step through the RawNode: only the acknowledgement the message carries *)
Lemma rn_step_cur rn m rn' e :
  rn_step st rn m = Ok (rn', e) -> rcur_ok rn -> rcur_ok rn' /\ moved (acks m) (ncur rn) (ncur rn').
Proof.
  unfold rn_step, rcur_ok, ncur. intros H O.
  destruct (is_local_msg _ && _); [inversion H; subst; split; [exact O|left; reflexivity]|].
  destruct (is_response_msg _ && _ && _); [inversion H; subst; split; [exact O|left; reflexivity]|].
  destruct (step st (rn_raft rn) m) as [[r1 e1]|] eqn:ES; cbn [bind] in H; [|discriminate].
  inversion H; subst; clear H. cbn. apply step_cur in ES. apply (cur_step_moved _ _ _ ES O).
Qed.

Lemma rn_raft_step_no_ack rn m rn' e :
  ack_of m = None -> rn_raft_step st rn m = Ok (rn', e) -> rcur_ok rn -> rcur_ok rn' /\ ncur rn' = ncur rn.
Proof.
  unfold rn_raft_step, rcur_ok, ncur. intros A H O.
  destruct (step st (rn_raft rn) m) as [[r1 e1]|] eqn:ES; cbn [bind] in H; [|discriminate].
  inversion H; subst; clear H. cbn. apply step_no_ack in ES; [|exact A]. apply (no_move_eq _ _ ES O).
Qed.

Lemma rn_tick_cur rn rn' : rn_tick st rn = Ok rn' -> rcur_ok rn -> rcur_ok rn' /\ ncur rn' = ncur rn.
Proof.
  unfold rn_tick, rcur_ok, ncur. intros H O.
  destruct (tick st (rn_raft rn)) as [r1|] eqn:ET; cbn [bind] in H; [|discriminate].
  inversion H; subst; clear H. cbn. apply tick_cur in ET. apply (no_move_eq _ _ ET O).
Qed.

Lemma rn_apply_conf_change_cur rn cc rn' cs :
  rn_apply_conf_change st rn cc = Ok (rn', cs) -> rcur_ok rn -> rcur_ok rn' /\ ncur rn' = ncur rn.
Proof.
  unfold rn_apply_conf_change, rcur_ok, ncur, cur_ok. intros H O.
  destruct (apply_conf_change_raft st (rn_raft rn) cc) as [[r1 c1]|] eqn:EA; cbn [bind] in H; [|discriminate].
  inversion H; subst; clear H. cbn. apply apply_conf_change_raft_cur in EA. destruct EA as [A B].
  rewrite A, B. auto.
Qed.

(* Advance steps the queued local messages *)
Lemma step_all_cur ms : forall r r',
  step_all st r ms = Ok r' -> cur_ok r ->
  cur_ok r' /\ moved (fun i => exists m, In m ms /\ acks m i) (l_applying (r_log r)) (l_applying (r_log r')).
Proof.
  induction ms as [|m ms IH]; intros r r' H O; cbn in H.
  - inversion H; subst. split; [exact O|left; reflexivity].
  - destruct (step st r m) as [[r1 e1]|] eqn:ES; cbn [bind] in H; [|discriminate]. cbn [fst] in H.
    apply step_cur in ES. destruct (cur_step_moved _ _ _ ES O) as [O1 M1].
    destruct (IH _ _ H O1) as [O2 M2]. split; [exact O2|].
    unfold moved in *. destruct M1 as [M1|[L1 P1]], M2 as [M2|[L2 (m2 & I2 & P2)]].
    + left. congruence.
    + right. rewrite <- M1. split; [exact L2|]. exists m2. split; [right; exact I2|exact P2].
    + right. rewrite M2. split; [exact L1|]. exists m. split; [left; reflexivity|exact P1].
    + right. split; [lia|]. exists m2. split; [right; exact I2|exact P2].
Qed.

Lemma rn_advance_cur rn rn' :
  rn_advance st rn = Ok rn' -> rcur_ok rn -> rcur_ok rn' /\ moved (pend rn) (ncur rn) (ncur rn').
Proof.
  unfold rn_advance, rcur_ok, ncur, pend. intros H O.
  destruct (rn_async rn); [discriminate|].
  destruct (step_all st (rn_raft rn) (rn_steps_on_advance rn)) as [r1|] eqn:ES; cbn [bind] in H; [|discriminate].
  inversion H; subst; clear H. cbn. apply (step_all_cur _ _ _ ES O).
Qed.

(* Ready: the batch is the consecutive run right after the cursor, and the cursor moves to its end *)
Definition ready_pre (rn : rawnode) : Prop :=
  ms_wf st /\ u_wf (l_unstable (r_log (rn_raft rn))) /\
  1 <= u_offset (l_unstable (r_log (rn_raft rn))) < two64.

Lemma ready_committed rn rd :
  ready_without_accept st rn = Ok rd ->
  l_next_committed_ents st (r_log (rn_raft rn)) (negb (rn_async rn)) = Ok (rd_committed rd).
Proof.
  unfold ready_without_accept. intros H. cbv zeta in H.
  destruct (l_next_committed_ents st (r_log (rn_raft rn)) (negb (rn_async rn))) as [cents|] eqn:EC; cbn [bind] in H; [|discriminate].
  destruct (rn_async rn).
  - match type of H with bind ?x _ = _ => destruct x as [sa|]; cbn [bind] in H; [|discriminate] end.
    inversion H; subst. reflexivity.
  - inversion H; subst. reflexivity.
Qed.

Lemma accept_ready_cur rn rd rn' :
  accept_ready st rn rd = Ok rn' ->
  l_applied (r_log (rn_raft rn')) = l_applied (r_log (rn_raft rn)) /\
  ncur rn' = match last_opt (rd_committed rd) with Some e => e_index e | None => ncur rn end.
Proof.
  unfold accept_ready, ncur. intros H. cbv zeta in H.
  set (r1 := match rd_read_states rd with [] => rn_raft rn | _ :: _ => set_r_read_states (rn_raft rn) [] end) in *.
  assert (L1 : r_log r1 = r_log (rn_raft rn)) by (subst r1; destruct (rd_read_states rd); reflexivity).
  match type of H with bind ?x _ = _ => destruct x as [steps|]; cbn [bind] in H; [|discriminate] end.
  destruct (last_opt (rd_committed rd)) as [e|].
  - match type of H with bind (bind ?x _) _ = _ => destruct x as [l|] eqn:EL; cbn [bind] in H; [|discriminate] end.
    inversion H; subst; clear H. cbn.
    unfold l_accept_applying in EL. destruct (_ <? _) in EL; [discriminate|]. inversion EL; subst l. cbn.
    rewrite L1. auto.
  - cbn [bind] in H. inversion H; subst; clear H. cbn. rewrite L1. auto.
Qed.

Theorem rn_ready_cur rn rn' rd :
  ready_pre rn -> rn_ready st rn = Ok (rn', rd) -> rcur_ok rn ->
  rcur_ok rn' /\ contig (ncur rn + 1) (rd_committed rd) /\ ncur rn' = ncur rn + nlen (rd_committed rd) /\
  (rd_committed rd <> [] -> ncur rn' <= l_committed (r_log (rn_raft rn))).
Proof.
  unfold rn_ready. intros (WS & WU & OB) H O.
  destruct (ready_without_accept st rn) as [rd0|] eqn:ER; cbn [bind] in H; [|discriminate].
  destruct (accept_ready st rn rd0) as [rn1|] eqn:EA; cbn [bind] in H; [|discriminate].
  inversion H; subst; clear H.
  apply ready_committed in ER.
  destruct (l_next_committed_ents_spec _ _ _ _ WS WU OB ER) as (_ & _ & C & LE & _).
  destruct (accept_ready_cur _ _ _ EA) as [AP CU].
  unfold rcur_ok, cur_ok, ncur in *.
  destruct (last_opt (rd_committed rd)) as [e|] eqn:EL.
  - pose proof (last_opt_index _ _ _ C EL) as LI.
    assert (NE : rd_committed rd <> []) by (intro Z; rewrite Z in EL; discriminate).
    specialize (LE NE).
    assert (1 <= nlen (rd_committed rd)).
    { destruct (rd_committed rd); [congruence|]. unfold nlen. cbn [length]. lia. }
    rewrite CU, AP. repeat split; try assumption; lia.
  - assert (Z : rd_committed rd = []).
    { unfold last_opt in EL. destruct (rd_committed rd) as [|x xs]; [reflexivity|].
      cbn in EL. destruct (rev xs ++ [x]) eqn:R; [|discriminate]. destruct (rev xs); discriminate. }
    rewrite Z in *. cbn. rewrite CU, AP. repeat split; try assumption; try lia. congruence.
Qed.

(* what a Ready queues for Advance in the synchronous interface: the acknowledgement of its
   snapshot and of its committed entries, nothing else that could move the cursor *)
Lemma accept_ready_pend rn rd rn' :
  inv_rn rn -> accept_ready st rn rd = Ok rn' -> rn_async rn = false ->
  forall i, pend rn' i ->
    (exists s, rd_snapshot rd = Some s /\ i = s_index s) \/
    (exists e, last_opt (rd_committed rd) = Some e /\ i = e_index e).
Proof.
  unfold accept_ready, inv_rn, pend. intros [IS IM] H AS i (m & Hin & Hack). cbv zeta in H. rewrite AS in H.
  set (r1 := match rd_read_states rd with [] => rn_raft rn | _ :: _ => set_r_read_states (rn_raft rn) [] end) in *.
  assert (M1 : r_msgs_after_append r1 = r_msgs_after_append (rn_raft rn)) by (subst r1; destruct (rd_read_states rd); reflexivity).
  destruct (rn_steps_on_advance rn); [|discriminate H].
  match type of H with bind (bind ?x _) _ = _ => destruct x as [s2|] eqn:E2; cbn [bind] in H; [|discriminate] end.
  match type of H with bind ?x _ = _ => destruct x as [r2|] eqn:ER; cbn [bind] in H; [|discriminate] end.
  inversion H; subst; clear H. cbn in Hin.
  apply in_app_or in Hin. destruct Hin as [Hin|Hin].
  { exfalso. apply filter_In in Hin. destruct Hin as [Hin _]. rewrite M1 in Hin.
    rewrite Forall_forall in IM. apply IM in Hin. apply promise_no_ack in Hin.
    unfold acks in Hack. congruence. }
  apply in_app_or in Hin. destruct Hin as [Hin|Hin].
  - left. destruct (need_storage_append_resp r1 (rd_snapshot rd)).
    + match type of E2 with bind ?x _ = _ => destruct x as [m2|] eqn:E3; cbn [bind] in E2; [|discriminate] end.
      inversion E2; subst; clear E2. destruct Hin as [Hin|[]]. subst m2.
      unfold storage_append_resp in E3.
      match type of E3 with bind ?x _ = _ => destruct x as [idt|]; cbn [bind] in E3; [|discriminate] end.
      inversion E3; subst; clear E3. unfold acks, ack_of in Hack. cbn in Hack.
      destruct (rd_snapshot rd) as [sn|]; [|destruct (opt_snap_empty None); discriminate].
      destruct (opt_snap_empty (Some sn)); [discriminate|]. cbn in Hack. inversion Hack. eauto.
    + inversion E2; subst. destruct Hin.
  - right. destruct (rd_committed rd) as [|c cs] eqn:EC; [destruct Hin|].
    destruct Hin as [Hin|[]]. subst m. unfold acks, ack_of, storage_apply_resp in Hack. cbn [m_type m_entries] in Hack.
    destruct (last_opt (c :: cs)) as [e|]; [|discriminate]. cbn in Hack. inversion Hack. eauto.
Qed.

End WithStorage.

(* ---------- node_step ---------- *)

(* how one input moves the apply cursor *)
Definition cursor_rel (i : ninput) (o : noutput) (rn rn' : rawnode) : Prop :=
  match i with
  | IReady => match o with
              | OReady rd => contig (ncur rn + 1) (rd_committed rd) /\
                             ncur rn' = ncur rn + nlen (rd_committed rd)
              | _ => False
              end
  | IStep m => moved (acks m) (ncur rn) (ncur rn')
  | IAdvance => moved (pend rn) (ncur rn) (ncur rn')
  | _ => ncur rn' = ncur rn
  end.

Theorem node_step_cursor n i d n' out rn :
  n_rn n = Some rn -> rcur_ok rn -> same_incarnation i = true ->
  (i = IReady -> ready_pre (n_st n) rn) ->
  node_step n i d = Ok (n', out) ->
  exists rn', n_rn n' = Some rn' /\ rcur_ok rn' /\ cursor_rel i out rn rn'.
Proof.
  intros Hrn O SI RP H. unfold node_step in H. rewrite Hrn in H.
  set (rn0 := with_draws rn d) in *.
  assert (O0 : rcur_ok rn0) by exact O.
  assert (C0 : ncur rn0 = ncur rn) by reflexivity.
  assert (P0 : forall j, pend rn0 j <-> pend rn j) by (intros j; reflexivity).
  destruct i; try discriminate SI.
  all: try (match type of H with bind ?x _ = _ => destruct x as [y|] eqn:E; cbn [bind] in H; [|discriminate] end).
  all: try (match type of y with (_ * _)%type => destruct y as [y1 y2] end).
  all: try (match type of y with ((_ * _) * _)%type => destruct y as [[y1 y2] y3] end).
  all: try (match type of H with (let '(_, _) := ?x in _) = _ => destruct x end).
  all: inversion H; subst; clear H; cbn [n_rn fst snd cursor_rel].
  all: try (unfold rn_campaign, rn_propose, rn_propose_cc, rn_report_unreachable, rn_report_snapshot,
            rn_transfer_leader, rn_forget_leader, rn_read_index in E).
  all: first
    [ (* storage writes leave the RawNode alone *)
      solve [eexists; split; [eassumption|]; split; [exact O|reflexivity]]
    | destruct (rn_tick_cur _ _ _ E O0) as [O' M];
      eexists; split; [reflexivity|]; split; [exact O'|]; rewrite <- C0; exact M
    | inversion E; subst; eexists; split; [reflexivity|]; split; [exact O0|reflexivity]
    | match type of E with rn_raft_step _ _ ?m = _ =>
        destruct (rn_raft_step_no_ack _ _ m _ _ eq_refl E O0) as [O' M] end;
      eexists; split; [reflexivity|]; split; [exact O'|]; rewrite <- C0; exact M
    | destruct (rn_apply_conf_change_cur _ _ _ _ _ E O0) as [O' M];
      eexists; split; [reflexivity|]; split; [exact O'|]; rewrite <- C0; exact M
    | destruct (rn_step_cur _ _ _ _ _ E O0) as [O' M];
      eexists; split; [reflexivity|]; split; [exact O'|]; rewrite <- C0; exact M
    | destruct (rn_ready_cur _ _ _ _ (RP eq_refl : ready_pre (n_st n) rn0) E O0) as (O' & C & M & _);
      eexists; split; [reflexivity|]; split; [exact O'|]; rewrite <- C0; split; [exact C|exact M]
    | eexists; split; [reflexivity|]; split; [exact O0|reflexivity]
    | destruct (rn_advance_cur _ _ _ E O0) as [O' M];
      eexists; split; [reflexivity|]; split; [exact O'|]; rewrite <- C0; exact M
    ].
Qed.

(* ---------- histories of one incarnation ---------- *)

Definition ncursor (n : nstate) : N := match n_rn n with Some rn => ncur rn | None => 0 end.
Definition running_ok (n : nstate) : Prop := exists rn, n_rn n = Some rn /\ rcur_ok rn.

(* one recorded step: the state it was taken in, the input, the draws, the output *)
Definition tstep := (nstate * ninput * list N * noutput)%type.

(* a history of one incarnation; every Ready is taken in a state whose log is well formed
   (consecutive indexes in storage and in the unstable tail: C18) *)
Inductive nrun : nstate -> list tstep -> nstate -> Prop :=
| nrun_nil n : nrun n [] n
| nrun_cons n i d o n1 tr n2 :
    node_step n i d = Ok (n1, o) -> same_incarnation i = true ->
    (i = IReady -> forall rn, n_rn n = Some rn -> ready_pre (n_st n) rn) ->
    nrun n1 tr n2 -> nrun n ((n, i, d, o) :: tr) n2.

(* the committed entries a step hands to the application *)
Definition batch_of (x : tstep) : list entry :=
  let '(_, i, _, o) := x in
  match i, o with
  | IReady, OReady rd => rd_committed rd
  | _, _ => []
  end.

Lemma contig_in_range i es e : contig i es -> In e es -> i <= e_index e < i + nlen es.
Proof.
  revert i. induction es as [|x xs IH]; intros i C Hin; [destruct Hin|].
  cbn in C. destruct C as [C1 C2]. unfold nlen. cbn [length].
  destruct Hin as [Hin|Hin].
  - subst x. lia.
  - specialize (IH _ C2 Hin). unfold nlen in IH. lia.
Qed.

Lemma moved_le P a a' : moved P a a' -> a <= a'.
Proof. unfold moved. intros [M|[M _]]; lia. Qed.

Lemma nrun_step_facts n i d o n1 :
  node_step n i d = Ok (n1, o) -> same_incarnation i = true ->
  (i = IReady -> forall rn, n_rn n = Some rn -> ready_pre (n_st n) rn) ->
  running_ok n ->
  running_ok n1 /\ ncursor n <= ncursor n1 /\
  (forall e, In e (batch_of (n, i, d, o)) -> ncursor n < e_index e <= ncursor n1).
Proof.
  intros H SI RP (rn & Hrn & O).
  destruct (node_step_cursor _ _ _ _ _ _ Hrn O SI (fun Ei => RP Ei _ Hrn) H) as (rn1 & H1 & O1 & R).
  split; [exists rn1; auto|]. unfold ncursor. rewrite Hrn, H1.
  destruct i; cbn [cursor_rel batch_of] in *; try discriminate SI;
    try (split; [lia|intros e0 []]);
    try (split; [eapply moved_le; eassumption|intros e0 []]).
  destruct o; try contradiction. destruct R as [C M]. split; [lia|].
  intros e Hin. pose proof (contig_in_range _ _ _ C Hin). lia.
Qed.

(* over a history the cursor only moves forward, and every entry handed out lies above the cursor
   the history started from and at or below the cursor it ends with *)
Theorem nrun_bounds n tr n' :
  nrun n tr n' -> running_ok n ->
  running_ok n' /\ ncursor n <= ncursor n' /\
  (forall x, In x tr -> forall e, In e (batch_of x) -> ncursor n < e_index e <= ncursor n').
Proof.
  induction 1 as [n|n i d o n1 tr n2 H SI RP R IH]; intros OK.
  - split; [exact OK|]. split; [lia|]. intros x [].
  - destruct (nrun_step_facts _ _ _ _ _ H SI RP OK) as (OK1 & L1 & B1).
    destruct (IH OK1) as (OK2 & L2 & B2).
    split; [exact OK2|]. split; [lia|].
    intros x [Hx|Hx] e He.
    + subst x. specialize (B1 _ He). lia.
    + specialize (B2 _ Hx _ He). lia.
Qed.

Lemma nrun_app_inv n a b n' : nrun n (a ++ b) n' -> exists nm, nrun n a nm /\ nrun nm b n'.
Proof.
  revert n. induction a as [|x a IH]; intros n H; cbn in H.
  - exists n. split; [constructor|exact H].
  - inversion H as [|? i d o n1 ? ? H1 SI RP R]; subst.
    destruct (IH _ R) as (nm & Ra & Rb). exists nm. split; [|exact Rb].
    econstructor; eassumption.
Qed.

(* exactly-once and ordered: an entry handed out later in the incarnation has a larger index than
   every entry handed out before *)
Theorem apply_stream_exactly_once n tr1 x tr2 n' :
  nrun n (tr1 ++ x :: tr2) n' -> running_ok n ->
  forall y, In y tr2 -> forall e1 e2, In e1 (batch_of x) -> In e2 (batch_of y) ->
  e_index e1 < e_index e2.
Proof.
  intros R OK y Hy e1 e2 H1 H2.
  destruct (nrun_app_inv _ _ _ _ R) as (nm & Ra & Rb).
  destruct (nrun_bounds _ _ _ Ra OK) as (OKm & _ & _).
  inversion Rb as [|? i d o n1 ? ? Hs SI RP R2]; subst.
  destruct (nrun_step_facts _ _ _ _ _ Hs SI RP OKm) as (OK1 & _ & B1).
  destruct (nrun_bounds _ _ _ R2 OK1) as (_ & _ & B2).
  specialize (B1 _ H1). specialize (B2 _ Hy _ H2). lia.
Qed.

(* steps that carry no acknowledgement above the cursor and hand out nothing *)
Definition quiet (x : tstep) : Prop :=
  let '(n, i, _, _) := x in
  match i with
  | IStep m => forall j, acks m j -> j <= ncursor n
  | IAdvance => forall rn, n_rn n = Some rn -> forall j, pend rn j -> j <= ncur rn
  | IReady => batch_of x = []
  | _ => True
  end.

Lemma quiet_step n i d o n1 :
  node_step n i d = Ok (n1, o) -> same_incarnation i = true ->
  (i = IReady -> forall rn, n_rn n = Some rn -> ready_pre (n_st n) rn) ->
  running_ok n -> quiet (n, i, d, o) -> ncursor n1 = ncursor n.
Proof.
  intros H SI RP (rn & Hrn & O) Q.
  destruct (node_step_cursor _ _ _ _ _ _ Hrn O SI (fun Ei => RP Ei _ Hrn) H) as (rn1 & H1 & O1 & R).
  unfold ncursor in *. rewrite Hrn in *. rewrite H1.
  destruct i; cbn [cursor_rel quiet batch_of] in *; try discriminate SI; try exact R.
  - destruct R as [R|[L A]]; [exact R|]. specialize (Q _ A). unfold ncursor in Q. rewrite Hrn in Q. lia.
  - destruct o; try contradiction. destruct R as [_ M]. rewrite Q in M. cbn in M. lia.
  - destruct R as [R|[L A]]; [exact R|]. specialize (Q _ Hrn _ A). lia.
Qed.

Theorem quiet_keeps_cursor n tr n' :
  nrun n tr n' -> running_ok n -> Forall quiet tr -> ncursor n' = ncursor n.
Proof.
  induction 1 as [n|n i d o n1 tr n2 H SI RP R IH]; intros OK Q; [reflexivity|].
  inversion Q as [|? ? Q1 Q2]; subst.
  destruct (nrun_step_facts _ _ _ _ _ H SI RP OK) as (OK1 & _ & _).
  rewrite (IH OK1 Q2). eapply quiet_step; eassumption.
Qed.

(* gap-free: a batch starts right after the previous one when nothing in between acknowledged an
   index above the cursor (the only such acknowledgement a contract-following application produces
   is the one of an installed snapshot) *)
Theorem apply_stream_gap_free n dx rdx mid ny dy rdy rest n' :
  nrun n ((n, IReady, dx, OReady rdx) :: mid ++ (ny, IReady, dy, OReady rdy) :: rest) n' ->
  running_ok n -> Forall quiet mid ->
  contig (ncursor n + nlen (rd_committed rdx) + 1) (rd_committed rdy).
Proof.
  intros R OK Q.
  inversion R as [|? i d o n1 ? ? Hs SI RP R1]; subst.
  destruct OK as (rn & Hrn & O).
  destruct (node_step_cursor _ _ _ _ _ _ Hrn O SI (fun Ei => RP Ei _ Hrn) Hs) as (rn1 & H1 & O1 & Cx).
  cbn [cursor_rel] in Cx. destruct Cx as [_ Mx].
  assert (OK1 : running_ok n1) by (exists rn1; auto).
  destruct (nrun_app_inv _ _ _ _ R1) as (nm & Ra & Rb).
  pose proof (quiet_keeps_cursor _ _ _ Ra OK1 Q) as Em.
  destruct (nrun_bounds _ _ _ Ra OK1) as ((rnm & Hm & Om) & _ & _).
  inversion Rb as [|? i d o n2 ? ? Hy SIy RPy R2]; subst.
  destruct (node_step_cursor _ _ _ _ _ _ Hm Om SIy (fun Ei => RPy Ei _ Hm) Hy) as (rn2 & H2 & O2 & Cy).
  cbn [cursor_rel] in Cy. destruct Cy as [Cy _].
  unfold ncursor in *. rewrite Hrn. rewrite H1, Hm in Em. rewrite Em, Mx in Cy. exact Cy.
Qed.

(* ---------- restart ---------- *)

Lemma load_state_cur st r h r' : load_state st r h = Ok r' -> same_cur r r'.
Proof.
  unfold load_state. intros H. destruct (_ || _); [discriminate|]. inversion H; subst.
  unfold l_with_committed, same_cur. cbn. auto.
Qed.

(* a new incarnation starts with the cursor at the configured applied index, or at the snapshot
   the storage starts from when none is configured (a configured index below that snapshot is
   refused) *)
Theorem new_rawnode_cursor st c d rn :
  new_rawnode st c d = Ok rn ->
  rcur_ok rn /\ ncur rn = N.max (ms_first_index st - 1) (cfg_applied c).
Proof.
  unfold new_rawnode. intros H.
  destruct (new_raft st c d) as [r|] eqn:ER; cbn [bind] in H; [|discriminate].
  inversion H; subst; clear H. unfold rcur_ok, ncur, cur_ok. cbn [rn_raft].
  unfold new_raft in ER.
  destruct (validate c) as [[[mu mc] mb]|]; [|discriminate].
  destruct (ms_initial_state st) as [hs cs].
  match type of ER with bind ?x _ = _ => destruct x as [last|]; cbn [bind] in ER; [|discriminate] end.
  destruct (cc_restore _ _ _) as [[cfg pm]|]; [|discriminate].
  match type of ER with bind ?x _ = _ => destruct x as [[r1 cs1]|] eqn:E1; cbn [bind] in ER; [|discriminate] end.
  destruct (negb (confstate_equiv cs (snd (r1, cs1)))); [discriminate|]. cbn [fst snd] in ER.
  apply switch_to_config_cur in E1. destruct E1 as [A1 B1]. cbn in A1, B1.
  match type of ER with bind ?x _ = _ => destruct x as [r2|] eqn:E2; cbn [bind] in ER; [|discriminate] end.
  assert (S2 : same_cur r1 r2).
  { destruct hs as [h|]; [|inversion E2; apply same_cur_refl].
    destruct (is_empty_hs h); [inversion E2; apply same_cur_refl|]. eapply load_state_cur; eassumption. }
  destruct S2 as [A2 B2].
  match type of ER with bind ?x _ = _ => destruct x as [r3|] eqn:E3; cbn [bind] in ER; [|discriminate] end.
  apply become_follower_cur in ER. destruct ER as [A4 B4]. rewrite A4, B4.
  destruct (0 <? cfg_applied c) eqn:EA.
  - match type of E3 with bind ?x _ = _ => destruct x as [l|] eqn:EL; cbn [bind] in E3; [|discriminate] end.
    inversion E3; subst; clear E3. cbn.
    unfold l_applied_to in EL. destruct (_ || _) eqn:EG in EL; [discriminate|]. inversion EL; subst l. cbn.
    apply orb_false_iff in EG. destruct EG as [_ EG]. apply N.ltb_ge in EG.
    rewrite A2, A1. rewrite B2, B1 in EG. split; lia.
  - inversion E3; subst; clear E3. apply N.ltb_ge in EA. rewrite A2, A1, B2, B1. split; lia.
Qed.

(* ---------- recorded histories (for concrete executions) ---------- *)

Fixpoint node_trace (n : nstate) (ins : list (ninput * list N)) : res (list tstep * nstate) :=
  match ins with
  | [] => Ok ([], n)
  | (i, d) :: rest =>
      do x <- node_step n i d;
      do y <- node_trace (fst x) rest;
      Ok ((n, i, d, snd x) :: fst y, snd y)
  end.

Definition ready_pre_at (x : tstep) : Prop :=
  let '(n, i, _, _) := x in
  i = IReady -> forall rn, n_rn n = Some rn -> ready_pre (n_st n) rn.

Lemma node_trace_nrun ins : forall n tr n',
  node_trace n ins = Ok (tr, n') ->
  Forall (fun id => same_incarnation (fst id) = true) ins ->
  Forall ready_pre_at tr -> nrun n tr n'.
Proof.
  induction ins as [|[i d] ins IH]; intros n tr n' H SI RP; cbn in H.
  - inversion H; subst. constructor.
  - destruct (node_step n i d) as [[n1 o]|] eqn:E; cbn [bind] in H; [|discriminate]. cbn [fst snd] in H.
    destruct (node_trace n1 ins) as [[tr1 n2]|] eqn:E1; cbn [bind] in H; [|discriminate].
    inversion H; subst; clear H. cbn [fst snd] in *.
    inversion SI as [|? ? S1 S2]; subst. inversion RP as [|? ? R1 R2]; subst.
    econstructor; [exact E|exact S1|exact R1|]. apply IH; assumption.
Qed.
