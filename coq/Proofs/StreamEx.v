(* StreamEx.v: a concrete history of one node that meets the hypotheses of the apply-stream
   theorems (Proofs/StreamProofs.v), so that they are not vacuous: a single voter started from a
   snapshot at index 1 elects itself, commits its empty entry (index 2) and a proposal (index 3),
   and hands them out in two batches. *)
From Coq Require Import List NArith Bool Lia.
From RaftV Require Import Base Types Quorum Progress Tracker Storage Log Raft RawNode Tactics
     RaftMono RaftRouting NodeProps LogProofs CursorProofs StreamProofs.
Import ListNotations.
Open Scope N_scope.

Definition ex_cfg : rconfig :=
  mkCfg 1 10 1 0 false 1000 0 0 256 0 false false ReadOnlySafe false false false.

Definition ex_boot : list (ninput * list N) :=
  [ (IStApplySnapshot (mkSnapshot 1 1 (mkConfState [1] [] [] [] false) []), []);
    (INew ex_cfg, [3]) ].

Definition ex_n0 : res nstate := Eval vm_compute in node_run init_node ex_boot.

(* the application's side of one Ready/Advance cycle: persist what the Ready asks for, then Advance *)
Definition cycle (n : res nstate) : list (ninput * list N) :=
  match n with
  | Ok n =>
      match node_step n IReady [] with
      | Ok (_, OReady rd) =>
          [(IReady, [])] ++
          (match rd_entries rd with [] => [] | es => [(IStAppend es, [])] end) ++
          (match rd_hard rd with Some h => [(IStSetHardState h, [])] | None => [] end) ++
          [(IAdvance, [5])]
      | _ => []
      end
  | _ => []
  end.

Definition run (n : res nstate) (ins : list (ninput * list N)) : res nstate :=
  match n with Ok n => node_run n ins | Panic p => Panic p end.

Definition ins1 : list (ninput * list N) := [(ICampaign, [4])].
Definition n1 := Eval vm_compute in run ex_n0 ins1.
Definition ins2 := Eval vm_compute in cycle n1.      (* term and vote persisted; becomes leader *)
Definition n2 := Eval vm_compute in run n1 ins2.
Definition ins3 := Eval vm_compute in cycle n2.      (* the empty entry (index 2) persisted, committed *)
Definition n3 := Eval vm_compute in run n2 ins3.
Definition ins4 := Eval vm_compute in cycle n3.      (* hands out [2] *)
Definition n4 := Eval vm_compute in run n3 ins4.
Definition ins5 : list (ninput * list N) := [(IPropose [7], [])].
Definition n5 := Eval vm_compute in run n4 ins5.
Definition ins6 := Eval vm_compute in cycle n5.      (* index 3 persisted, committed *)
Definition n6 := Eval vm_compute in run n5 ins6.
Definition ins7 := Eval vm_compute in cycle n6.      (* hands out [3] *)

Definition ex_ins := Eval vm_compute in ins1 ++ ins2 ++ ins3 ++ ins4 ++ ins5 ++ ins6 ++ ins7.

Definition ex_trace :=
  Eval vm_compute in match ex_n0 with Ok n => node_trace n ex_ins | Panic p => Panic p end.

Definition batches_of (t : res (list tstep * nstate)) : list (list N) :=
  match t with
  | Ok (tr, _) => filter (fun l => match l with [] => false | _ => true end)
                         (map (fun x => map e_index (batch_of x)) tr)
  | _ => []
  end.

Definition ex_start : nstate := Eval vm_compute in match ex_n0 with Ok n => n | _ => init_node end.
Definition ex_tr : list tstep := Eval vm_compute in match ex_trace with Ok (tr, _) => tr | _ => [] end.
Definition ex_end : nstate := Eval vm_compute in match ex_trace with Ok (_, n) => n | _ => init_node end.

Lemma ex_running : running_ok ex_start.
Proof. eexists. split; [reflexivity|]. unfold rcur_ok, cur_ok. cbn. lia. Qed.

Lemma ex_nrun : nrun ex_start ex_tr ex_end.
Proof.
  apply (node_trace_nrun ex_ins).
  - vm_compute. reflexivity.
  - repeat constructor.
  - unfold ex_tr.
    repeat (apply Forall_cons; [|]); try apply Forall_nil.
    all: unfold ready_pre_at; intros E; try discriminate E; intros rn Hrn; cbn in Hrn; inversion Hrn; subst rn;
         unfold ready_pre, ms_wf, a_wf, u_wf; cbn; unfold two64; repeat split; lia.
Qed.

(* the hypotheses of the stream theorems hold of this history, and it hands out two non-empty
   batches, [2] and then [3] *)
Example apply_stream_nonvacuous :
  exists n tr n', running_ok n /\ nrun n tr n' /\ batches_of (Ok (tr, n')) = [[2]; [3]].
Proof.
  exists ex_start, ex_tr, ex_end. split; [exact ex_running|]. split; [exact ex_nrun|].
  vm_compute. reflexivity.
Qed.
