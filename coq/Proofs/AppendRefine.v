(* AppendRefine.v: the follower's append path of the node model (raftLog.maybeAppend: matchTerm,
   findConflict, append / unstable.truncateAndAppend) refines the FollowerAppend rule of
   Spec/LogMatching.v on the logical log (stable storage below the unstable offset, then the
   unstable tail). *)
From Coq Require Import List NArith Bool Lia Arith.
From RaftV Require Import Base Types Storage Log Tactics LogProofs.
Import ListNotations.
Open Scope N_scope.

(* ---------- the logical log of a node ---------- *)

Definition lview (st : memstorage) (l : raftlog) : abslog :=
  let u := l_unstable l in
  match u_snapshot u with
  | Some s => mkAbs (s_index s) (s_term s) (u_entries u)
  | None => mkAbs (ms_dummy_index st) (ms_dummy_term st)
                  (firstn (N.to_nat (u_offset u - ms_dummy_index st - 1)) (ms_ents st) ++ u_entries u)
  end.

Definition l_wf (st : memstorage) (l : raftlog) : Prop :=
  ms_wf st /\ u_wf (l_unstable l) /\
  match u_snapshot (l_unstable l) with
  | Some s => u_offset (l_unstable l) = s_index s + 1
  | None => ms_dummy_index st + 1 <= u_offset (l_unstable l) <= ms_last_index st + 1 /\
            (u_entries (l_unstable l) = [] -> u_offset (l_unstable l) = ms_last_index st + 1)
  end.

Lemma lview_wf st l : l_wf st l -> a_wf (lview st l).
Proof.
  unfold l_wf, lview, a_wf, ms_wf, abs_ms, u_wf. intros (M & (C & O & S) & B).
  destruct (u_snapshot (l_unstable l)) as [s|]; cbn in *.
  - rewrite <- B. exact C.
  - destruct B as [B _]. apply contig_app. split.
    + apply contig_firstn. exact M.
    + unfold nlen, ms_last_index, nlen in *. rewrite firstn_length.
      replace (ms_dummy_index st + 1 + N.of_nat (Nat.min (N.to_nat (u_offset (l_unstable l) - ms_dummy_index st - 1)) (length (ms_ents st))))
        with (u_offset (l_unstable l)) by lia.
      exact C.
Qed.

Lemma lview_last st l : l_wf st l -> l_last_index st l = a_last (lview st l).
Proof.
  unfold l_wf, lview, l_last_index, u_maybe_last_index, a_last, u_wf. intros (M & (C & O & S) & B).
  destruct (u_snapshot (l_unstable l)) as [s|]; cbn in *.
  - destruct (u_entries (l_unstable l)) eqn:E; cbn [a_base a_ents]; [cbn; lia|]. rewrite nlen_cons in *. lia.
  - destruct B as [B B2]. destruct (u_entries (l_unstable l)) eqn:E; cbn [a_base a_ents].
    + specialize (B2 eq_refl). rewrite app_nil_r. unfold nlen, ms_last_index, nlen in *. rewrite firstn_length. lia.
    + rewrite nlen_app. unfold nlen, ms_last_index, nlen in *. rewrite firstn_length. cbn [length] in *. lia.
Qed.

Lemma lview_first st l : l_wf st l -> l_first_index st l = a_first (lview st l).
Proof.
  unfold l_wf, lview, l_first_index, u_maybe_first_index, a_first. intros (M & U & B).
  destruct (u_snapshot (l_unstable l)) as [s|]; reflexivity.
Qed.

(* ---------- term(i) and matchTerm answer as the logical log ---------- *)

Lemma nth_error_Some_lt' {A} (l : list A) i e : nth_error l i = Some e -> (i < length l)%nat.
Proof. intros H. apply nth_error_Some. congruence. Qed.

Lemma firstn_nth_error {A} (l : list A) : forall k i, (i < k)%nat -> nth_error (firstn k l) i = nth_error l i.
Proof.
  induction l as [|x l IH]; intros k i H; destruct k, i; cbn; try reflexivity; try lia. apply IH. lia.
Qed.


Lemma a_term_in a i : a_wf a -> a_base a < i <= a_last a ->
  exists e, nth_error (a_ents a) (N.to_nat (i - a_base a - 1)) = Some e /\ a_term a i = Some (e_term e) /\ e_index e = i.
Proof.
  unfold a_wf, a_last, a_term, a_at. intros W R.
  destruct (N.eqb_spec i (a_base a)); [lia|].
  assert (L : (i <=? a_base a) = false) by (apply N.leb_gt; lia). rewrite L.
  destruct (nth_error (a_ents a) (N.to_nat (i - a_base a - 1))) as [e|] eqn:E.
  - exists e. split; [reflexivity|]. split; [reflexivity|]. rewrite (contig_nth _ _ _ _ W E). lia.
  - apply nth_error_None in E. unfold nlen in *. lia.
Qed.

Lemma u_maybe_term_spec u i : u_wf u ->
  u_maybe_term u i =
    if i <? u_offset u then
      match u_snapshot u with
      | Some s => if N.eqb (s_index s) i then Some (s_term s) else None
      | None => None
      end
    else match nth_error (u_entries u) (N.to_nat (i - u_offset u)) with
         | Some e => Some (e_term e)
         | None => None
         end.
Proof.
  unfold u_wf, u_maybe_term, u_maybe_last_index. intros (C & O & S).
  destruct (N.ltb_spec i (u_offset u)) as [LT|GE]; [reflexivity|].
  destruct (u_entries u) as [|e0 es] eqn:UE.
  - destruct (N.to_nat (i - u_offset u)); cbn [nth_error];
      (destruct (u_snapshot u) as [s|]; [destruct (N.ltb_spec (s_index s) i); [reflexivity|lia]|reflexivity]).
  - destruct (N.ltb_spec (u_offset u + nlen (e0 :: es) - 1) i) as [AB|IN].
    + destruct (nth_error (e0 :: es) (N.to_nat (i - u_offset u))) eqn:NE; [|reflexivity].
      apply nth_error_Some_lt' in NE. unfold nlen in AB. lia.
    + rewrite nnth_nth. reflexivity.
Qed.

Lemma l_term_view st l i : l_wf st l ->
  (a_base (lview st l) <= i <= a_last (lview st l) ->
     exists t, l_term st l i = (t, ENone) /\ a_term (lview st l) i = Some t) /\
  (i < a_base (lview st l) \/ a_last (lview st l) < i -> snd (l_term st l i) <> ENone).
Proof.
  intros W. pose proof (lview_last st l W) as LL. pose proof (lview_first st l W) as LF.
  pose proof (lview_wf st l W) as VW.
  destruct W as (M & U & B). pose proof U as (C & O & S).
  unfold l_term. rewrite (u_maybe_term_spec _ i U), LL, LF. unfold a_first.
  unfold lview in *.
  destruct (u_snapshot (l_unstable l)) as [s|] eqn:SN; cbn [a_base a_base_term a_ents] in *.
  - (* unstable snapshot: base = its index, entries = the unstable entries *)
    set (a := mkAbs (s_index s) (s_term s) (u_entries (l_unstable l))) in *.
    assert (AL : a_last a = s_index s + nlen (u_entries (l_unstable l))) by reflexivity.
    assert (AB0 : a_base a = s_index s) by reflexivity.
    destruct (N.ltb_spec i (u_offset (l_unstable l))) as [LT|GE].
    + destruct (N.eqb_spec (s_index s) i) as [EQ|NE].
      * split; [intros _|intros [X|X]; lia].
        exists (s_term s). split; [reflexivity|]. unfold a_term. cbn. subst i. rewrite N.eqb_refl. reflexivity.
      * split; [intros R; lia|intros _].
        destruct (N.ltb_spec (i + 1) (s_index s + 1)); [cbn; discriminate|lia].
    + assert (BI : s_index s < i) by lia.
      destruct (N.le_gt_cases i (a_last a)) as [IN|AB].
      * assert (R : a_base a < i <= a_last a) by lia.
        destruct (a_term_in a i VW R) as [e [NE [AT EI]]]. unfold a in NE; cbn [a_base a_ents] in NE.
        replace (N.to_nat (i - u_offset (l_unstable l))) with (N.to_nat (i - s_index s - 1)) by lia.
        rewrite NE. split; [intros _; exists (e_term e); split; [reflexivity|exact AT]|intros [X|X]; lia].
      * destruct (nth_error (u_entries (l_unstable l)) (N.to_nat (i - u_offset (l_unstable l)))) eqn:NE.
        { apply nth_error_Some_lt' in NE. unfold nlen in AL. lia. }
        split; [intros R; lia|intros _].
        destruct (N.ltb_spec (i + 1) (s_index s + 1)); [lia|].
        destruct (N.ltb_spec (a_last a) i) as [Q|Q]; [cbn; discriminate|lia].
  - destruct B as [B B2].
    set (a := mkAbs (ms_dummy_index st) (ms_dummy_term st)
                (firstn (N.to_nat (u_offset (l_unstable l) - ms_dummy_index st - 1)) (ms_ents st) ++ u_entries (l_unstable l))) in *.
    assert (FL : length (firstn (N.to_nat (u_offset (l_unstable l) - ms_dummy_index st - 1)) (ms_ents st)) =
                 N.to_nat (u_offset (l_unstable l) - ms_dummy_index st - 1)).
    { rewrite firstn_length. unfold ms_last_index, nlen in B. lia. }
    assert (AL : a_last a = u_offset (l_unstable l) + nlen (u_entries (l_unstable l)) - 1).
    { unfold a_last, a. cbn [a_base a_ents]. rewrite nlen_app. unfold nlen. rewrite FL. lia. }
    assert (AB0 : a_base a = ms_dummy_index st) by reflexivity.
    destruct (N.ltb_spec i (u_offset (l_unstable l))) as [LT|GE].
    + (* below the unstable offset: the storage answers *)
      pose proof (ms_term_refines st i) as MT. unfold abs_ms, a_last in MT. cbn [a_base a_ents] in MT.
      destruct (N.ltb_spec (i + 1) (ms_dummy_index st + 1)) as [CP|NC].
      * split; [intros R; lia|intros _; cbn; discriminate].
      * destruct (N.ltb_spec (a_last a) i) as [Q|Q]; [lia|].
        destruct (ms_term st i) as [t e] eqn:TE.
        destruct e; try contradiction; try (unfold ms_last_index in B; lia).
        destruct MT as [MR MA].
        split; [intros _|intros [X|X]; lia].
        exists t. split; [reflexivity|].
        unfold a_term, a_at, a in *. cbn [a_base a_base_term a_ents] in *.
        destruct (N.eqb_spec i (ms_dummy_index st)); [exact MA|].
        destruct (N.leb_spec i (ms_dummy_index st)); [lia|].
        rewrite nth_error_app1 by (rewrite FL; lia).
        rewrite (firstn_nth_error (ms_ents st)) by lia. exact MA.
    + destruct (N.le_gt_cases i (a_last a)) as [IN|AB].
      * assert (R : a_base a < i <= a_last a) by lia.
        destruct (a_term_in a i VW R) as [e [NE [AT EI]]]. unfold a in NE; cbn [a_base a_ents] in NE.
        rewrite nth_error_app2 in NE by (rewrite FL; lia). rewrite FL in NE.
        replace (N.to_nat (i - u_offset (l_unstable l))) with (N.to_nat (i - ms_dummy_index st - 1) - N.to_nat (u_offset (l_unstable l) - ms_dummy_index st - 1))%nat by lia.
        rewrite NE. split; [intros _; exists (e_term e); split; [reflexivity|exact AT]|intros [X|X]; lia].
      * destruct (nth_error (u_entries (l_unstable l)) (N.to_nat (i - u_offset (l_unstable l)))) eqn:NE.
        { apply nth_error_Some_lt' in NE. unfold nlen in AL. lia. }
        split; [intros R; lia|intros _].
        destruct (N.ltb_spec (i + 1) (ms_dummy_index st + 1)); [lia|].
        destruct (N.ltb_spec (a_last a) i) as [Q|Q]; [cbn; discriminate|lia].
Qed.

Definition a_match (a : abslog) (i t : N) : bool :=
  match a_term a i with Some t' => N.eqb t' t | None => false end.

Lemma a_term_some a i t : a_term a i = Some t -> a_base a <= i <= a_last a.
Proof.
  unfold a_term, a_at, a_last. destruct (N.eqb_spec i (a_base a)); [intros _; lia|].
  destruct (N.leb_spec i (a_base a)); [discriminate|].
  destruct (nth_error (a_ents a) (N.to_nat (i - a_base a - 1))) eqn:E; [|discriminate].
  intros _. apply nth_error_Some_lt' in E. unfold nlen. lia.
Qed.

Lemma l_match_term_view st l i t : l_wf st l -> l_match_term st l i t = a_match (lview st l) i t.
Proof.
  intros W. destruct (l_term_view st l i W) as [IN OUT]. unfold l_match_term, a_match.
  destruct (a_term (lview st l) i) as [t'|] eqn:AT.
  - destruct (IN (a_term_some _ _ _ AT)) as [t2 [LT AT2]]. rewrite LT. congruence.
  - destruct (N.le_gt_cases (a_base (lview st l)) i) as [A|A].
    + destruct (N.le_gt_cases i (a_last (lview st l))) as [B|B].
      * destruct (IN (conj A B)) as [t2 [LT AT2]]. congruence.
      * specialize (OUT (or_intror B)). destruct (l_term st l i) as [t2 e]. destruct e; cbn in OUT; congruence.
    + specialize (OUT (or_introl A)). destruct (l_term st l i) as [t2 e]. destruct e; cbn in OUT; congruence.
Qed.

Fixpoint a_find_conflict (a : abslog) (ents : list entry) : N :=
  match ents with
  | [] => 0
  | e :: rest => if a_match a (e_index e) (e_term e) then a_find_conflict a rest else e_index e
  end.

Lemma l_find_conflict_view st l ents : l_wf st l -> l_find_conflict st l ents = a_find_conflict (lview st l) ents.
Proof.
  intros W. induction ents as [|e rest IH]; cbn; [reflexivity|].
  rewrite (l_match_term_view st l _ _ W), IH. reflexivity.
Qed.

(* the conflict index, if any, is the index of the k-th new entry; the entries before it are in
   the log with the same term *)
Lemma a_find_conflict_spec a : forall ents i0, contig i0 ents -> 0 < i0 ->
  (a_find_conflict a ents = 0 /\ forall k e, nth_error ents k = Some e -> a_match a (e_index e) (e_term e) = true) \/
  (exists k e, nth_error ents k = Some e /\ a_find_conflict a ents = i0 + N.of_nat k /\ e_index e = i0 + N.of_nat k /\
               a_match a (e_index e) (e_term e) = false /\
               forall j e', (j < k)%nat -> nth_error ents j = Some e' -> a_match a (e_index e') (e_term e') = true).
Proof.
  induction ents as [|e rest IH]; intros i0 C P; cbn.
  - left. split; [reflexivity|]. intros k e H. destruct k; discriminate.
  - destruct C as [EI C]. destruct (a_match a (e_index e) (e_term e)) eqn:M.
    + destruct (IH (i0 + 1) C ltac:(lia)) as [[Z A]|(k & e' & N1 & F & E2 & M2 & B)].
      * left. split; [exact Z|]. intros k e' H. destruct k; cbn in H; [inversion H; subst; exact M|eapply A; exact H].
      * right. exists (S k), e'. cbn [nth_error]. repeat split; try assumption; try lia.
        intros j e2 LT H. destruct j; cbn in H; [inversion H; subst; exact M|eapply B; [|exact H]; lia].
    + right. exists 0%nat, e. cbn. repeat split; try lia; try assumption. intros j e' LT. lia.
Qed.

(* ---------- raftLog.append ---------- *)

Lemma firstn_firstn_min {A} (l : list A) a b : firstn a (firstn b l) = firstn (Nat.min a b) l.
Proof. apply firstn_firstn. Qed.

Lemma l_append_view st l ents l' e0 rest :
  l_wf st l -> ents = e0 :: rest -> contig (e_index e0) ents ->
  a_base (lview st l) < e_index e0 <= a_last (lview st l) + 1 ->
  l_append st l ents = Ok l' ->
  l_wf st l' /\ lview st l' = a_truncate_append (lview st l) ents /\ l_committed l' = l_committed l.
Proof.
  intros W E C R H. pose proof (lview_last st l W) as LL. pose proof W as (M & U & B).
  unfold l_append in H. subst ents.
  destruct (N.ltb_spec (sub64 (e_index e0) 1) (l_committed l)); [discriminate|].
  destruct (u_truncate_and_append (l_unstable l) (e0 :: rest)) as [u'|] eqn:TA; cbn [bind] in H; [|discriminate].
  inversion H; subst l'; clear H.
  pose proof U as (UC & UO & US).
  assert (SN : match u_snapshot (l_unstable l) with Some s => s_index s < e_index e0 | None => True end).
  { unfold lview in R. destruct (u_snapshot (l_unstable l)); [cbn [a_base] in R; lia|trivial]. }
  assert (LE : e_index e0 <= u_offset (l_unstable l) + nlen (u_entries (l_unstable l))).
  { unfold lview, a_last in R. destruct (u_snapshot (l_unstable l)) as [s|]; cbn [a_base a_ents] in R.
    - lia.
    - destruct B as [B _]. rewrite nlen_app in R. unfold nlen in R at 1. rewrite firstn_length in R.
      unfold ms_last_index, nlen in B. lia. }
  destruct (u_truncate_and_append_wf _ _ _ _ _ U eq_refl C SN LE TA) as (UW' & S' & SP' & O' & E' & OP').
  unfold l_wf, lview, l_with_unstable. cbn [l_unstable l_committed].
  rewrite S', O', E'.
  destruct (u_snapshot (l_unstable l)) as [s|] eqn:SNE.
  - (* snapshot: offset stays s_index + 1 *)
    cbn [a_base] in R. split; [|split; [|reflexivity]].
    + refine (conj M (conj UW' _)). lia.
    + unfold a_truncate_append. cbn [a_base a_base_term a_ents].
      replace (N.to_nat (e_index e0 - u_offset (l_unstable l))) with (N.to_nat (e_index e0 - s_index s - 1)) by lia. reflexivity.
  - destruct B as [B B2]. cbn [a_base] in R.
    assert (FL : length (firstn (N.to_nat (u_offset (l_unstable l) - ms_dummy_index st - 1)) (ms_ents st)) =
                 N.to_nat (u_offset (l_unstable l) - ms_dummy_index st - 1)).
    { rewrite firstn_length. unfold ms_last_index, nlen in B. lia. }
    split; [|split; [|reflexivity]].
    + refine (conj M (conj UW' (conj _ _))); [lia|].
      intros X. apply app_eq_nil in X. destruct X as [_ X]. discriminate.
    + unfold a_truncate_append. cbn [a_base a_base_term a_ents]. f_equal.
      rewrite firstn_app, FL, firstn_firstn.
      destruct (N.le_gt_cases (e_index e0) (u_offset (l_unstable l))) as [Q|Q].
      * replace (N.min (u_offset (l_unstable l)) (e_index e0)) with (e_index e0) by lia.
        replace (N.to_nat (e_index e0 - u_offset (l_unstable l))) with 0%nat by lia.
        replace (N.to_nat (e_index e0 - ms_dummy_index st - 1) - N.to_nat (u_offset (l_unstable l) - ms_dummy_index st - 1))%nat with 0%nat by lia.
        cbn [firstn app]. rewrite app_nil_r.
        replace (Nat.min (N.to_nat (e_index e0 - ms_dummy_index st - 1)) (N.to_nat (u_offset (l_unstable l) - ms_dummy_index st - 1)))
          with (N.to_nat (e_index e0 - ms_dummy_index st - 1)) by lia.
        reflexivity.
      * replace (N.min (u_offset (l_unstable l)) (e_index e0)) with (u_offset (l_unstable l)) by lia.
        replace (Nat.min (N.to_nat (e_index e0 - ms_dummy_index st - 1)) (N.to_nat (u_offset (l_unstable l) - ms_dummy_index st - 1)))
          with (N.to_nat (u_offset (l_unstable l) - ms_dummy_index st - 1)) by lia.
        replace (N.to_nat (e_index e0 - ms_dummy_index st - 1) - N.to_nat (u_offset (l_unstable l) - ms_dummy_index st - 1))%nat
          with (N.to_nat (e_index e0 - u_offset (l_unstable l))) by lia.
        rewrite <- app_assoc. reflexivity.
Qed.
