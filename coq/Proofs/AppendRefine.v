(* AppendRefine.v: the follower's append path of the node model (raftLog.maybeAppend: matchTerm,
   findConflict, append / unstable.truncateAndAppend) refines the FollowerAppend rule of
   Spec/LogMatching.v on the logical log (stable storage below the unstable offset, then the
   unstable tail). *)
From Coq Require Import List NArith Bool Lia Arith.
From RaftV Require Import Base Types Storage Log Tactics LogProofs.
Import ListNotations.
Open Scope N_scope.

(* ---------- the logical log of a node ---------- *)

Definition lview (st : memstorage) (l : raftlog) : abslog :=
  let u := l_unstable l in
  match u_snapshot u with
  | Some s => mkAbs (s_index s) (s_term s) (u_entries u)
  | None => mkAbs (ms_dummy_index st) (ms_dummy_term st)
                  (firstn (N.to_nat (u_offset u - ms_dummy_index st - 1)) (ms_ents st) ++ u_entries u)
  end.

Definition l_wf (st : memstorage) (l : raftlog) : Prop :=
  ms_wf st /\ u_wf (l_unstable l) /\
  match u_snapshot (l_unstable l) with
  | Some s => u_offset (l_unstable l) = s_index s + 1
  | None => ms_dummy_index st + 1 <= u_offset (l_unstable l) <= ms_last_index st + 1 /\
            (u_entries (l_unstable l) = [] -> u_offset (l_unstable l) = ms_last_index st + 1)
  end.

Lemma lview_wf st l : l_wf st l -> a_wf (lview st l).
Proof.
  unfold l_wf, lview, a_wf, ms_wf, abs_ms, u_wf. intros (M & (C & O & S) & B).
  destruct (u_snapshot (l_unstable l)) as [s|]; cbn in *.
  - rewrite <- B. exact C.
  - destruct B as [B _]. apply contig_app. split.
    + apply contig_firstn. exact M.
    + unfold nlen, ms_last_index, nlen in *. rewrite firstn_length.
      replace (ms_dummy_index st + 1 + N.of_nat (Nat.min (N.to_nat (u_offset (l_unstable l) - ms_dummy_index st - 1)) (length (ms_ents st))))
        with (u_offset (l_unstable l)) by lia.
      exact C.
Qed.

Lemma lview_last st l : l_wf st l -> l_last_index st l = a_last (lview st l).
Proof.
  unfold l_wf, lview, l_last_index, u_maybe_last_index, a_last, u_wf. intros (M & (C & O & S) & B).
  destruct (u_snapshot (l_unstable l)) as [s|]; cbn in *.
  - destruct (u_entries (l_unstable l)) eqn:E; cbn [a_base a_ents]; [cbn; lia|]. rewrite nlen_cons in *. lia.
  - destruct B as [B B2]. destruct (u_entries (l_unstable l)) eqn:E; cbn [a_base a_ents].
    + specialize (B2 eq_refl). rewrite app_nil_r. unfold nlen, ms_last_index, nlen in *. rewrite firstn_length. lia.
    + rewrite nlen_app. unfold nlen, ms_last_index, nlen in *. rewrite firstn_length. cbn [length] in *. lia.
Qed.

Lemma lview_first st l : l_wf st l -> l_first_index st l = a_first (lview st l).
Proof.
  unfold l_wf, lview, l_first_index, u_maybe_first_index, a_first. intros (M & U & B).
  destruct (u_snapshot (l_unstable l)) as [s|]; reflexivity.
Qed.

(* ---------- term(i) and matchTerm answer as the logical log ---------- *)

Lemma nth_error_Some_lt' {A} (l : list A) i e : nth_error l i = Some e -> (i < length l)%nat.
Proof. intros H. apply nth_error_Some. congruence. Qed.

Lemma firstn_nth_error {A} (l : list A) : forall k i, (i < k)%nat -> nth_error (firstn k l) i = nth_error l i.
Proof.
  induction l as [|x l IH]; intros k i H; destruct k, i; cbn; try reflexivity; try lia. apply IH. lia.
Qed.


Lemma a_term_in a i : a_wf a -> a_base a < i <= a_last a ->
  exists e, nth_error (a_ents a) (N.to_nat (i - a_base a - 1)) = Some e /\ a_term a i = Some (e_term e) /\ e_index e = i.
Proof.
  unfold a_wf, a_last, a_term, a_at. intros W R.
  destruct (N.eqb_spec i (a_base a)); [lia|].
  assert (L : (i <=? a_base a) = false) by (apply N.leb_gt; lia). rewrite L.
  destruct (nth_error (a_ents a) (N.to_nat (i - a_base a - 1))) as [e|] eqn:E.
  - exists e. split; [reflexivity|]. split; [reflexivity|]. rewrite (contig_nth _ _ _ _ W E). lia.
  - apply nth_error_None in E. unfold nlen in *. lia.
Qed.

Lemma u_maybe_term_spec u i : u_wf u ->
  u_maybe_term u i =
    if i <? u_offset u then
      match u_snapshot u with
      | Some s => if N.eqb (s_index s) i then Some (s_term s) else None
      | None => None
      end
    else match nth_error (u_entries u) (N.to_nat (i - u_offset u)) with
         | Some e => Some (e_term e)
         | None => None
         end.
Proof.
  unfold u_wf, u_maybe_term, u_maybe_last_index. intros (C & O & S).
  destruct (N.ltb_spec i (u_offset u)) as [LT|GE]; [reflexivity|].
  destruct (u_entries u) as [|e0 es] eqn:UE.
  - destruct (N.to_nat (i - u_offset u)); cbn [nth_error];
      (destruct (u_snapshot u) as [s|]; [destruct (N.ltb_spec (s_index s) i); [reflexivity|lia]|reflexivity]).
  - destruct (N.ltb_spec (u_offset u + nlen (e0 :: es) - 1) i) as [AB|IN].
    + destruct (nth_error (e0 :: es) (N.to_nat (i - u_offset u))) eqn:NE; [|reflexivity].
      apply nth_error_Some_lt' in NE. unfold nlen in AB. lia.
    + rewrite nnth_nth. reflexivity.
Qed.

Lemma l_term_view st l i : l_wf st l ->
  (a_base (lview st l) <= i <= a_last (lview st l) ->
     exists t, l_term st l i = (t, ENone) /\ a_term (lview st l) i = Some t) /\
  (i < a_base (lview st l) \/ a_last (lview st l) < i -> snd (l_term st l i) <> ENone).
Proof.
  intros W. pose proof (lview_last st l W) as LL. pose proof (lview_first st l W) as LF.
  pose proof (lview_wf st l W) as VW.
  destruct W as (M & U & B). pose proof U as (C & O & S).
  unfold l_term. rewrite (u_maybe_term_spec _ i U), LL, LF. unfold a_first.
  unfold lview in *.
  destruct (u_snapshot (l_unstable l)) as [s|] eqn:SN; cbn [a_base a_base_term a_ents] in *.
  - (* unstable snapshot: base = its index, entries = the unstable entries *)
    set (a := mkAbs (s_index s) (s_term s) (u_entries (l_unstable l))) in *.
    assert (AL : a_last a = s_index s + nlen (u_entries (l_unstable l))) by reflexivity.
    assert (AB0 : a_base a = s_index s) by reflexivity.
    destruct (N.ltb_spec i (u_offset (l_unstable l))) as [LT|GE].
    + destruct (N.eqb_spec (s_index s) i) as [EQ|NE].
      * split; [intros _|intros [X|X]; lia].
        exists (s_term s). split; [reflexivity|]. unfold a_term. cbn. subst i. rewrite N.eqb_refl. reflexivity.
      * split; [intros R; lia|intros _].
        destruct (N.ltb_spec (i + 1) (s_index s + 1)); [cbn; discriminate|lia].
    + assert (BI : s_index s < i) by lia.
      destruct (N.le_gt_cases i (a_last a)) as [IN|AB].
      * assert (R : a_base a < i <= a_last a) by lia.
        destruct (a_term_in a i VW R) as [e [NE [AT EI]]]. unfold a in NE; cbn [a_base a_ents] in NE.
        replace (N.to_nat (i - u_offset (l_unstable l))) with (N.to_nat (i - s_index s - 1)) by lia.
        rewrite NE. split; [intros _; exists (e_term e); split; [reflexivity|exact AT]|intros [X|X]; lia].
      * destruct (nth_error (u_entries (l_unstable l)) (N.to_nat (i - u_offset (l_unstable l)))) eqn:NE.
        { apply nth_error_Some_lt' in NE. unfold nlen in AL. lia. }
        split; [intros R; lia|intros _].
        destruct (N.ltb_spec (i + 1) (s_index s + 1)); [lia|].
        destruct (N.ltb_spec (a_last a) i) as [Q|Q]; [cbn; discriminate|lia].
  - destruct B as [B B2].
    set (a := mkAbs (ms_dummy_index st) (ms_dummy_term st)
                (firstn (N.to_nat (u_offset (l_unstable l) - ms_dummy_index st - 1)) (ms_ents st) ++ u_entries (l_unstable l))) in *.
    assert (FL : length (firstn (N.to_nat (u_offset (l_unstable l) - ms_dummy_index st - 1)) (ms_ents st)) =
                 N.to_nat (u_offset (l_unstable l) - ms_dummy_index st - 1)).
    { rewrite firstn_length. unfold ms_last_index, nlen in B. lia. }
    assert (AL : a_last a = u_offset (l_unstable l) + nlen (u_entries (l_unstable l)) - 1).
    { unfold a_last, a. cbn [a_base a_ents]. rewrite nlen_app. unfold nlen. rewrite FL. lia. }
    assert (AB0 : a_base a = ms_dummy_index st) by reflexivity.
    destruct (N.ltb_spec i (u_offset (l_unstable l))) as [LT|GE].
    + (* below the unstable offset: the storage answers *)
      pose proof (ms_term_refines st i) as MT. unfold abs_ms, a_last in MT. cbn [a_base a_ents] in MT.
      destruct (N.ltb_spec (i + 1) (ms_dummy_index st + 1)) as [CP|NC].
      * split; [intros R; lia|intros _; cbn; discriminate].
      * destruct (N.ltb_spec (a_last a) i) as [Q|Q]; [lia|].
        destruct (ms_term st i) as [t e] eqn:TE.
        destruct e; try contradiction; try (unfold ms_last_index in B; lia).
        destruct MT as [MR MA].
        split; [intros _|intros [X|X]; lia].
        exists t. split; [reflexivity|].
        unfold a_term, a_at, a in *. cbn [a_base a_base_term a_ents] in *.
        destruct (N.eqb_spec i (ms_dummy_index st)); [exact MA|].
        destruct (N.leb_spec i (ms_dummy_index st)); [lia|].
        rewrite nth_error_app1 by (rewrite FL; lia).
        rewrite (firstn_nth_error (ms_ents st)) by lia. exact MA.
    + destruct (N.le_gt_cases i (a_last a)) as [IN|AB].
      * assert (R : a_base a < i <= a_last a) by lia.
        destruct (a_term_in a i VW R) as [e [NE [AT EI]]]. unfold a in NE; cbn [a_base a_ents] in NE.
        rewrite nth_error_app2 in NE by (rewrite FL; lia). rewrite FL in NE.
        replace (N.to_nat (i - u_offset (l_unstable l))) with (N.to_nat (i - ms_dummy_index st - 1) - N.to_nat (u_offset (l_unstable l) - ms_dummy_index st - 1))%nat by lia.
        rewrite NE. split; [intros _; exists (e_term e); split; [reflexivity|exact AT]|intros [X|X]; lia].
      * destruct (nth_error (u_entries (l_unstable l)) (N.to_nat (i - u_offset (l_unstable l)))) eqn:NE.
        { apply nth_error_Some_lt' in NE. unfold nlen in AL. lia. }
        split; [intros R; lia|intros _].
        destruct (N.ltb_spec (i + 1) (ms_dummy_index st + 1)); [lia|].
        destruct (N.ltb_spec (a_last a) i) as [Q|Q]; [cbn; discriminate|lia].
Qed.

Definition a_match (a : abslog) (i t : N) : bool :=
  match a_term a i with Some t' => N.eqb t' t | None => false end.

Lemma a_term_some a i t : a_term a i = Some t -> a_base a <= i <= a_last a.
Proof.
  unfold a_term, a_at, a_last. destruct (N.eqb_spec i (a_base a)); [intros _; lia|].
  destruct (N.leb_spec i (a_base a)); [discriminate|].
  destruct (nth_error (a_ents a) (N.to_nat (i - a_base a - 1))) eqn:E; [|discriminate].
  intros _. apply nth_error_Some_lt' in E. unfold nlen. lia.
Qed.

Lemma l_match_term_view st l i t : l_wf st l -> l_match_term st l i t = a_match (lview st l) i t.
Proof.
  intros W. destruct (l_term_view st l i W) as [IN OUT]. unfold l_match_term, a_match.
  destruct (a_term (lview st l) i) as [t'|] eqn:AT.
  - destruct (IN (a_term_some _ _ _ AT)) as [t2 [LT AT2]]. rewrite LT. congruence.
  - destruct (N.le_gt_cases (a_base (lview st l)) i) as [A|A].
    + destruct (N.le_gt_cases i (a_last (lview st l))) as [B|B].
      * destruct (IN (conj A B)) as [t2 [LT AT2]]. congruence.
      * specialize (OUT (or_intror B)). destruct (l_term st l i) as [t2 e]. destruct e; cbn in OUT; congruence.
    + specialize (OUT (or_introl A)). destruct (l_term st l i) as [t2 e]. destruct e; cbn in OUT; congruence.
Qed.

Fixpoint a_find_conflict (a : abslog) (ents : list entry) : N :=
  match ents with
  | [] => 0
  | e :: rest => if a_match a (e_index e) (e_term e) then a_find_conflict a rest else e_index e
  end.

Lemma l_find_conflict_view st l ents : l_wf st l -> l_find_conflict st l ents = a_find_conflict (lview st l) ents.
Proof.
  intros W. induction ents as [|e rest IH]; cbn; [reflexivity|].
  rewrite (l_match_term_view st l _ _ W), IH. reflexivity.
Qed.

(* the conflict index, if any, is the index of the k-th new entry; the entries before it are in
   the log with the same term *)
Lemma a_find_conflict_spec a : forall ents i0, contig i0 ents -> 0 < i0 ->
  (a_find_conflict a ents = 0 /\ forall k e, nth_error ents k = Some e -> a_match a (e_index e) (e_term e) = true) \/
  (exists k e, nth_error ents k = Some e /\ a_find_conflict a ents = i0 + N.of_nat k /\ e_index e = i0 + N.of_nat k /\
               a_match a (e_index e) (e_term e) = false /\
               forall j e', (j < k)%nat -> nth_error ents j = Some e' -> a_match a (e_index e') (e_term e') = true).
Proof.
  induction ents as [|e rest IH]; intros i0 C P; cbn.
  - left. split; [reflexivity|]. intros k e H. destruct k; discriminate.
  - destruct C as [EI C]. destruct (a_match a (e_index e) (e_term e)) eqn:M.
    + destruct (IH (i0 + 1) C ltac:(lia)) as [[Z A]|(k & e' & N1 & F & E2 & M2 & B)].
      * left. split; [exact Z|]. intros k e' H. destruct k; cbn in H; [inversion H; subst; exact M|eapply A; exact H].
      * right. exists (S k), e'. cbn [nth_error]. repeat split; try assumption; try lia.
        intros j e2 LT H. destruct j; cbn in H; [inversion H; subst; exact M|eapply B; [|exact H]; lia].
    + right. exists 0%nat, e. cbn. repeat split; try lia; try assumption.
Qed.

(* ---------- raftLog.append ---------- *)

Lemma firstn_firstn_min {A} (l : list A) a b : firstn a (firstn b l) = firstn (Nat.min a b) l.
Proof. apply firstn_firstn. Qed.

Lemma l_append_view st l ents l' e0 rest :
  l_wf st l -> ents = e0 :: rest -> contig (e_index e0) ents ->
  a_base (lview st l) < e_index e0 <= a_last (lview st l) + 1 ->
  l_append st l ents = Ok l' ->
  l_wf st l' /\ lview st l' = a_truncate_append (lview st l) ents /\ l_committed l' = l_committed l.
Proof.
  intros W E C R H. pose proof (lview_last st l W) as LL. pose proof W as (M & U & B).
  unfold l_append in H. subst ents.
  destruct (N.ltb_spec (sub64 (e_index e0) 1) (l_committed l)); [discriminate|].
  destruct (u_truncate_and_append (l_unstable l) (e0 :: rest)) as [u'|] eqn:TA; cbn [bind] in H; [|discriminate].
  inversion H; subst l'; clear H.
  pose proof U as (UC & UO & US).
  assert (SN : match u_snapshot (l_unstable l) with Some s => s_index s < e_index e0 | None => True end).
  { unfold lview in R. destruct (u_snapshot (l_unstable l)); [cbn [a_base] in R; lia|trivial]. }
  assert (LE : e_index e0 <= u_offset (l_unstable l) + nlen (u_entries (l_unstable l))).
  { unfold lview, a_last in R. destruct (u_snapshot (l_unstable l)) as [s|]; cbn [a_base a_ents] in R.
    - lia.
    - destruct B as [B _]. rewrite nlen_app in R. unfold nlen in R at 1. rewrite firstn_length in R.
      unfold ms_last_index, nlen in B. lia. }
  destruct (u_truncate_and_append_wf _ _ _ _ _ U eq_refl C SN LE TA) as (UW' & S' & SP' & O' & E' & OP').
  unfold l_wf, lview, l_with_unstable. cbn [l_unstable l_committed].
  rewrite S', O', E'. unfold lview in R.
  destruct (u_snapshot (l_unstable l)) as [s|] eqn:SNE.
  - (* snapshot: offset stays s_index + 1 *)
    cbn [a_base] in R. split; [|split; [|reflexivity]].
    + refine (conj M (conj UW' _)). lia.
    + unfold a_truncate_append. cbn [a_base a_base_term a_ents].
      replace (N.to_nat (e_index e0 - u_offset (l_unstable l))) with (N.to_nat (e_index e0 - s_index s - 1)) by lia. reflexivity.
  - destruct B as [B B2]. cbn [a_base] in R.
    assert (FL : length (firstn (N.to_nat (u_offset (l_unstable l) - ms_dummy_index st - 1)) (ms_ents st)) =
                 N.to_nat (u_offset (l_unstable l) - ms_dummy_index st - 1)).
    { rewrite firstn_length. unfold ms_last_index, nlen in B. lia. }
    split; [|split; [|reflexivity]].
    + refine (conj M (conj UW' (conj _ _))); [lia|].
      intros X. apply app_eq_nil in X. destruct X as [_ X]. discriminate.
    + unfold a_truncate_append. cbn [a_base a_base_term a_ents]. f_equal.
      rewrite firstn_app, FL, firstn_firstn.
      destruct (N.le_gt_cases (e_index e0) (u_offset (l_unstable l))) as [Q|Q].
      * replace (N.min (u_offset (l_unstable l)) (e_index e0)) with (e_index e0) by lia.
        replace (N.to_nat (e_index e0 - u_offset (l_unstable l))) with 0%nat by lia.
        replace (N.to_nat (e_index e0 - ms_dummy_index st - 1) - N.to_nat (u_offset (l_unstable l) - ms_dummy_index st - 1))%nat with 0%nat by lia.
        cbn [firstn app]. rewrite app_nil_r.
        replace (Nat.min (N.to_nat (e_index e0 - ms_dummy_index st - 1)) (N.to_nat (u_offset (l_unstable l) - ms_dummy_index st - 1)))
          with (N.to_nat (e_index e0 - ms_dummy_index st - 1)) by lia.
        reflexivity.
      * replace (N.min (u_offset (l_unstable l)) (e_index e0)) with (u_offset (l_unstable l)) by lia.
        replace (Nat.min (N.to_nat (e_index e0 - ms_dummy_index st - 1)) (N.to_nat (u_offset (l_unstable l) - ms_dummy_index st - 1)))
          with (N.to_nat (u_offset (l_unstable l) - ms_dummy_index st - 1)) by lia.
        replace (N.to_nat (e_index e0 - ms_dummy_index st - 1) - N.to_nat (u_offset (l_unstable l) - ms_dummy_index st - 1))%nat
          with (N.to_nat (e_index e0 - u_offset (l_unstable l))) by lia.
        rewrite <- app_assoc. reflexivity.
Qed.

(* ---------- raftLog.maybeAppend ---------- *)

Definition a_maybe_append (a : abslog) (prevIndex prevTerm : N) (ents : list entry) : option abslog :=
  if a_match a prevIndex prevTerm then
    let ci := a_find_conflict a ents in
    Some (if N.eqb ci 0 then a else a_truncate_append a (skipn (N.to_nat (ci - (prevIndex + 1))) ents))
  else None.

Lemma l_commit_to_unstable st l c l' : l_commit_to st l c = Ok l' -> l_unstable l' = l_unstable l.
Proof.
  unfold l_commit_to. destruct (l_committed l <? c); [|intros H; inversion H; reflexivity].
  destruct (l_last_index st l <? c); [discriminate|]. intros H; inversion H; reflexivity.
Qed.

Lemma l_wf_unstable st l l' : l_unstable l' = l_unstable l -> l_wf st l -> l_wf st l'.
Proof. unfold l_wf. intros E. rewrite E. auto. Qed.

Lemma lview_unstable st l l' : l_unstable l' = l_unstable l -> lview st l' = lview st l.
Proof. unfold lview. intros E. rewrite E. reflexivity. Qed.

Lemma nth_error_skipn_cons {A} (l : list A) : forall k e, nth_error l k = Some e -> skipn k l = e :: skipn (S k) l.
Proof.
  induction l as [|x l IH]; intros k e H; destruct k; cbn in *; try discriminate.
  - inversion H; reflexivity.
  - apply IH. exact H.
Qed.

Theorem l_maybe_append_view st l prev pt ents c l' r :
  l_wf st l -> contig (prev + 1) ents -> a_base (lview st l) <= l_committed l ->
  l_maybe_append st l prev pt ents c = Ok (l', r) ->
  l_wf st l' /\
  match a_maybe_append (lview st l) prev pt ents with
  | Some a' => lview st l' = a' /\ r = Some (prev + nlen ents)
  | None => l' = l /\ r = None
  end.
Proof.
  intros W C BC H. unfold l_maybe_append in H. unfold a_maybe_append.
  rewrite (l_match_term_view st l _ _ W), (l_find_conflict_view st l _ W) in H.
  destruct (a_match (lview st l) prev pt) eqn:PM; cbn [negb] in H.
  2:{ inversion H; subst. split; [exact W|split; reflexivity]. }
  set (ci := a_find_conflict (lview st l) ents) in *.
  destruct (N.eqb_spec ci 0) as [Z|NZ].
  - cbn [bind] in H. destruct (l_commit_to st l (N.min c (prev + nlen ents))) as [l2|] eqn:CT; cbn [bind] in H; [|discriminate].
    inversion H; subst l' r. pose proof (l_commit_to_unstable _ _ _ _ CT) as EU.
    split; [exact (l_wf_unstable st l l2 EU W)|]. split; [exact (lview_unstable st l l2 EU)|reflexivity].
  - destruct (N.leb_spec ci (l_committed l)) as [LE|GT]; [discriminate|].
    destruct (N.ltb_spec (nlen ents) (sub64 ci (prev + 1))) as [X|X]; [discriminate|].
    destruct (l_append st l (ndrop (ci - (prev + 1)) ents)) as [l1|] eqn:AP; cbn [bind] in H; [|discriminate].
    destruct (l_commit_to st l1 (N.min c (prev + nlen ents))) as [l2|] eqn:CT; cbn [bind] in H; [|discriminate].
    inversion H; subst l' r. pose proof (l_commit_to_unstable _ _ _ _ CT) as EU.
    destruct (a_find_conflict_spec (lview st l) ents (prev + 1) C ltac:(lia)) as [[Z _]|(k & e & NE & F & EI & MF & BEF)];
      [fold ci in Z; contradiction|]. fold ci in F.
    assert (DK : ndrop (ci - (prev + 1)) ents = e :: skipn (S k) ents).
    { rewrite ndrop_skipn. replace (N.to_nat (ci - (prev + 1))) with k by lia. apply nth_error_skipn_cons. exact NE. }
    assert (CK : contig (e_index e) (e :: skipn (S k) ents)).
    { rewrite <- (nth_error_skipn_cons _ _ _ NE). rewrite EI. apply contig_skipn. exact C. }
    assert (R : a_base (lview st l) < e_index e <= a_last (lview st l) + 1).
    { split; [lia|]. destruct k as [|k'].
      - unfold a_match in PM. destruct (a_term (lview st l) prev) eqn:AT; [|discriminate].
        pose proof (a_term_some _ _ _ AT). lia.
      - destruct (nth_error ents k') as [e'|] eqn:NK.
        + pose proof (BEF k' e' ltac:(lia) NK) as MB. unfold a_match in MB.
          destruct (a_term (lview st l) (e_index e')) eqn:AT; [|discriminate].
          pose proof (a_term_some _ _ _ AT). pose proof (contig_nth _ _ _ _ C NK). lia.
        + apply nth_error_None in NK. apply nth_error_Some_lt' in NE. lia. }
    rewrite DK in AP.
    destruct (l_append_view st l _ l1 e (skipn (S k) ents) W eq_refl CK R AP) as (W1 & V1 & _).
    split; [exact (l_wf_unstable st l1 l2 EU W1)|]. split; [|reflexivity].
    rewrite (lview_unstable st l1 l2 EU), V1. f_equal.
    replace (N.to_nat (ci - (prev + 1))) with k by lia. symmetry. apply nth_error_skipn_cons. exact NE.
Qed.


(* ---------- what an accepted append guarantees (the MsgAppResp promise) ---------- *)

Lemma nth_error_skipn' {A} (l : list A) : forall p c, nth_error (skipn p l) c = nth_error l (p + c).
Proof.
  induction l as [|x l IH]; intros p c.
  - rewrite skipn_nil. destruct c, p; reflexivity.
  - destruct p; cbn; [reflexivity|apply IH].
Qed.

(* after an accepted maybe-append the log holds every entry of the message at its index with its
   term, and reaches at least to the last of them: what the MsgAppResp index promises *)

Lemma a_match_truncate_below a es e0 rest i t :
  a_wf a -> es = e0 :: rest -> a_base a < e_index e0 -> i < e_index e0 ->
  a_match a i t = true -> a_match (a_truncate_append a es) i t = true.
Proof.
  intros W E B LT M. subst es. unfold a_truncate_append. unfold a_match, a_term, a_at in *.
  cbn [a_base a_base_term a_ents].
  destruct (N.eqb_spec i (a_base a)); [exact M|].
  destruct (N.leb_spec i (a_base a)); [exact M|].
  destruct (nth_error (a_ents a) (N.to_nat (i - a_base a - 1))) as [e|] eqn:NE; [|discriminate].
  assert (L1 : (N.to_nat (i - a_base a - 1) < length (a_ents a))%nat) by (apply nth_error_Some; congruence).
  rewrite nth_error_app1 by (rewrite firstn_length; lia).
  rewrite firstn_nth_error by lia. rewrite NE. exact M.
Qed.

Lemma a_match_appended a es e0 rest k e :
  a_wf a -> es = e0 :: rest -> contig (e_index e0) es -> a_base a < e_index e0 <= a_last a + 1 ->
  nth_error es k = Some e -> a_match (a_truncate_append a es) (e_index e) (e_term e) = true.
Proof.
  intros W E C R NK. pose proof (contig_nth _ _ _ _ C NK) as EI. subst es.
  unfold a_truncate_append, a_match, a_term, a_at. cbn [a_base a_base_term a_ents].
  destruct (N.eqb_spec (e_index e) (a_base a)); [lia|].
  destruct (N.leb_spec (e_index e) (a_base a)); [lia|].
  assert (FL : length (firstn (N.to_nat (e_index e0 - a_base a - 1)) (a_ents a)) = N.to_nat (e_index e0 - a_base a - 1)).
  { rewrite firstn_length. unfold a_last, nlen in R. lia. }
  rewrite nth_error_app2 by (rewrite FL; lia). rewrite FL.
  replace (N.to_nat (e_index e - a_base a - 1) - N.to_nat (e_index e0 - a_base a - 1))%nat with k by lia.
  rewrite NK. apply N.eqb_refl.
Qed.

Theorem a_maybe_append_holds a prev pt ents a' :
  a_wf a -> contig (prev + 1) ents -> a_base a <= prev ->
  a_maybe_append a prev pt ents = Some a' ->
  (forall k e, nth_error ents k = Some e -> a_match a' (e_index e) (e_term e) = true) /\
  prev + nlen ents <= a_last a' /\ a_match a' prev pt = true.
Proof.
  intros W C BP H. unfold a_maybe_append in H.
  destruct (a_match a prev pt) eqn:PM; [|discriminate].
  destruct (a_find_conflict_spec a ents (prev + 1) C ltac:(lia)) as [[Z ALL]|(k & e & NE & F & EI & MF & BEF)].
  - rewrite Z in H. cbn in H. inversion H; subst a'. split; [exact ALL|]. split; [|exact PM].
    destruct ents as [|x xs] eqn:EE.
    + unfold a_match in PM. destruct (a_term a prev) eqn:AT; [|discriminate]. pose proof (a_term_some _ _ _ AT). cbn. lia.
    + rewrite <- EE in *. assert (LN : (length ents - 1 < length ents)%nat) by (rewrite EE; cbn; lia).
      destruct (nth_error ents (length ents - 1)) as [el|] eqn:NL; [|apply nth_error_None in NL; lia].
      pose proof (ALL _ _ NL) as ML. unfold a_match in ML.
      destruct (a_term a (e_index el)) eqn:AT; [|discriminate]. pose proof (a_term_some _ _ _ AT).
      pose proof (contig_nth _ _ _ _ C NL). unfold nlen. lia.
  - rewrite F in H. destruct (N.eqb_spec (prev + 1 + N.of_nat k) 0); [lia|].
    replace (N.to_nat (prev + 1 + N.of_nat k - (prev + 1))) with k in H by lia.
    rewrite (nth_error_skipn_cons _ _ _ NE) in H.
    assert (EA : a' = a_truncate_append a (e :: skipn (S k) ents)) by congruence. clear H. rewrite EA. clear EA.
    assert (CK : contig (e_index e) (e :: skipn (S k) ents)).
    { rewrite <- (nth_error_skipn_cons _ _ _ NE). rewrite EI. apply contig_skipn. exact C. }
    assert (R : a_base a < e_index e <= a_last a + 1).
    { split; [lia|]. destruct k as [|k'].
      - unfold a_match in PM. destruct (a_term a prev) eqn:AT; [|discriminate]. pose proof (a_term_some _ _ _ AT). lia.
      - destruct (nth_error ents k') as [e'|] eqn:NK.
        + pose proof (BEF k' e' ltac:(lia) NK) as MB. unfold a_match in MB.
          destruct (a_term a (e_index e')) eqn:AT; [|discriminate].
          pose proof (a_term_some _ _ _ AT). pose proof (contig_nth _ _ _ _ C NK). lia.
        + apply nth_error_None in NK. apply nth_error_Some_lt' in NE. lia. }
    split; [|split].
    + intros j ej NJ. destruct (Nat.lt_ge_cases j k) as [LT|GE].
      * pose proof (BEF j ej LT NJ) as MB. pose proof (contig_nth _ _ _ _ C NJ).
        apply (a_match_truncate_below a _ e (skipn (S k) ents)); try assumption; try reflexivity; lia.
      * apply (a_match_appended a _ e (skipn (S k) ents) (j - k)); try assumption; try reflexivity.
        rewrite <- (nth_error_skipn_cons _ _ _ NE). rewrite nth_error_skipn'. replace (k + (j - k))%nat with j by lia. exact NJ.
    + assert (FL : length (firstn (N.to_nat (e_index e - a_base a - 1)) (a_ents a)) = N.to_nat (e_index e - a_base a - 1)).
      { rewrite firstn_length. unfold a_last, nlen in R. lia. }
      unfold a_truncate_append, a_last. cbn [a_base a_ents]. unfold nlen. rewrite app_length, FL.
      cbn [length]. rewrite skipn_length. apply nth_error_Some_lt' in NE. lia.
    + apply (a_match_truncate_below a _ e (skipn (S k) ents)); try assumption; try reflexivity; lia.
Qed.


(* ---------- the abstract maybeAppend is the FollowerAppend rule of Spec/LogMatching.v ---------- *)

From RaftV Require LogMatching.

Section ToProtocol.
Variable pay : entry -> N.     (* any naming of payloads (type and data) *)

Definition absent (e : entry) : LogMatching.aent := (e_term e, pay e).
Definition absl (a : abslog) : list LogMatching.aent := map absent (a_ents a).

Lemma a_match_pos a p t : a_base a = 0 ->
  a_match a (N.of_nat p + 1) t =
  match nth_error (absl a) p with Some x => N.eqb (fst x) t | None => false end.
Proof.
  intros B. unfold a_match, a_term, a_at, absl. rewrite B.
  destruct (N.eqb_spec (N.of_nat p + 1) 0); [lia|].
  destruct (N.leb_spec (N.of_nat p + 1) 0); [lia|].
  replace (N.to_nat (N.of_nat p + 1 - 0 - 1)) with p by lia.
  rewrite nth_error_map. destruct (nth_error (a_ents a) p); reflexivity.
Qed.

Lemma find_conflict_pos a : a_base a = 0 -> forall ents p, contig (N.of_nat p + 1) ents ->
  match LogMatching.first_conflict (skipn p (absl a)) (map absent ents) with
  | None => a_find_conflict a ents = 0
  | Some c => a_find_conflict a ents = N.of_nat p + 1 + N.of_nat c /\ (c < length ents)%nat
  end.
Proof.
  intros B. induction ents as [|e rest IH]; intros p C; cbn [map LogMatching.first_conflict a_find_conflict]; [reflexivity|].
  destruct C as [EI C]. rewrite EI, (a_match_pos a p _ B).
  destruct (nth_error (absl a) p) as [x|] eqn:NX.
  - rewrite (nth_error_skipn_cons _ _ _ NX). cbn [absent fst].
    destruct (N.eqb (fst x) (e_term e)).
    + specialize (IH (S p)). replace (N.of_nat (S p) + 1) with (N.of_nat p + 1 + 1) in IH by lia. specialize (IH C).
      destruct (LogMatching.first_conflict (skipn (S p) (absl a)) (map absent rest)) as [c|].
      * destruct IH as [F L]. split; [lia|cbn; lia].
      * exact IH.
    + split; [lia|cbn; lia].
  - assert (SK : skipn p (absl a) = []) by (apply skipn_all2; apply nth_error_None; exact NX).
    rewrite SK. split; [lia|cbn; lia].
Qed.

Lemma a_match_prev a prev pt : a_base a = 0 -> a_base_term a = 0 ->
  (a_match a prev pt = true <-> LogMatching.prev_term (absl a) (N.to_nat prev) = Some pt).
Proof.
  intros B BT. destruct (N.eq_dec prev 0) as [->|NZ].
  - unfold a_match, a_term. rewrite B, BT. cbn [N.eqb LogMatching.prev_term N.to_nat]. split; [intros H; destruct pt; [reflexivity|discriminate]|intros H; inversion H; reflexivity].
  - replace prev with (N.of_nat (N.to_nat prev - 1) + 1) at 1 by lia. rewrite (a_match_pos a _ _ B).
    unfold LogMatching.prev_term. destruct (N.to_nat prev) as [|p] eqn:P; [lia|].
    replace (S p - 1)%nat with p by lia.
    destruct (nth_error (absl a) p) as [x|]; [|split; discriminate].
    split; [intros H; apply N.eqb_eq in H; congruence|intros H; inversion H; apply N.eqb_refl].
Qed.

(* The refinement: on a log that was never compacted (base 0), maybeAppend accepts exactly when
   the FollowerAppend rule's (prev index, prev term) match holds, and the new logical log is
   the rule's result. *)
Theorem a_maybe_append_is_follower_rule a prev pt ents :
  a_base a = 0 -> a_base_term a = 0 -> contig (prev + 1) ents ->
  match a_maybe_append a prev pt ents with
  | Some a' =>
      LogMatching.prev_term (absl a) (N.to_nat prev) = Some pt /\
      absl a' = LogMatching.fappend (absl a) (N.to_nat prev) (map absent ents) /\
      a_base a' = 0 /\ a_base_term a' = 0
  | None => LogMatching.prev_term (absl a) (N.to_nat prev) <> Some pt
  end.
Proof.
  intros B BT C. unfold a_maybe_append.
  destruct (a_match a prev pt) eqn:PM.
  2:{ intros H. apply (a_match_prev a prev pt B BT) in H. congruence. }
  split; [apply (a_match_prev a prev pt B BT); exact PM|].
  unfold LogMatching.fappend.
  pose proof (find_conflict_pos a B ents (N.to_nat prev)) as FC.
  replace (N.of_nat (N.to_nat prev) + 1) with (prev + 1) in FC by lia. specialize (FC C).
  destruct (LogMatching.first_conflict (skipn (N.to_nat prev) (absl a)) (map absent ents)) as [c|].
  - destruct FC as [F L]. rewrite F.
    destruct (N.eqb_spec (prev + 1 + N.of_nat c) 0); [lia|].
    replace (N.to_nat (prev + 1 + N.of_nat c - (prev + 1))) with c by lia.
    destruct (skipn c ents) as [|e0 rest] eqn:SK.
    { exfalso. assert (LL : length (skipn c ents) = 0%nat) by (rewrite SK; reflexivity). rewrite skipn_length in LL. lia. }
    assert (EI : e_index e0 = prev + 1 + N.of_nat c).
    { pose proof (contig_skipn _ _ c C) as CS. rewrite SK in CS. destruct CS as [CS _]. exact CS. }
    unfold a_truncate_append, absl. cbn [a_ents a_base a_base_term]. rewrite EI, B.
    replace (N.to_nat (prev + 1 + N.of_nat c - 0 - 1)) with (N.to_nat prev + c)%nat by lia.
    rewrite map_app, firstn_map, <- SK, skipn_map. auto.
  - rewrite FC. cbn. auto.
Qed.

End ToProtocol.

(* ---------- the leader's append and the voter's up-to-date test ---------- *)

(* appendEntry: entries stamped lastIndex+1.. extend the logical log at its end (the
   LeaderAppend rule) *)
Theorem l_append_end_view st l ents l' e0 rest :
  l_wf st l -> ents = e0 :: rest -> contig (e_index e0) ents ->
  e_index e0 = a_last (lview st l) + 1 ->
  l_append st l ents = Ok l' ->
  l_wf st l' /\
  lview st l' = mkAbs (a_base (lview st l)) (a_base_term (lview st l)) (a_ents (lview st l) ++ ents).
Proof.
  intros W E C EI H.
  assert (R : a_base (lview st l) < e_index e0 <= a_last (lview st l) + 1) by (unfold a_last in *; lia).
  destruct (l_append_view st l ents l' e0 rest W E C R H) as (W' & V & _). split; [exact W'|].
  rewrite V. unfold a_truncate_append. subst ents. f_equal.
  rewrite firstn_all2; [reflexivity|]. unfold a_last, nlen in EI. lia.
Qed.

From RaftV Require Safety.

Section UpToDate.
Variable pay : entry -> N.

(* lastEntryID is (term of the last entry, length) of the logical log *)
Lemma l_last_entry_id_view st l t i :
  l_wf st l -> a_base (lview st l) = 0 -> a_base_term (lview st l) = 0 ->
  l_last_entry_id st l = Ok (t, i) ->
  t = Safety.lastT (absl pay (lview st l)) /\ i = N.of_nat (length (absl pay (lview st l))).
Proof.
  intros W B BT H. unfold l_last_entry_id in H. rewrite (lview_last st l W) in H.
  destruct (l_term_view st l (a_last (lview st l)) W) as [IN _].
  destruct (IN ltac:(unfold a_last; lia)) as [t' [LT AT]]. rewrite LT in H. inversion H; subst t' i.
  unfold absl. rewrite map_length. split; [|unfold a_last, nlen; lia].
  unfold a_term, a_at, a_last in AT. rewrite B, BT in AT.
  destruct (a_ents (lview st l)) as [|x xs] eqn:EN.
  - cbn in AT. inversion AT. reflexivity.
  - assert (NE : map (absent pay) (x :: xs) <> []) by discriminate.
    destruct (Safety.lastT_nth _ NE) as [e [NL LE]]. rewrite LE.
    rewrite map_length in NL. rewrite nth_error_map in NL.
    destruct (N.eqb_spec (0 + nlen (x :: xs)) 0) as [Z|NZ]; [unfold nlen in Z; cbn in Z; lia|].
    destruct (N.leb_spec (0 + nlen (x :: xs)) 0) as [Z|NZ2]; [unfold nlen in Z; cbn in Z; lia|].
    replace (N.to_nat (0 + nlen (x :: xs) - 0 - 1)) with (length (x :: xs) - 1)%nat in AT by (unfold nlen; lia).
    destruct (nth_error (x :: xs) (length (x :: xs) - 1)) as [e1|]; [|discriminate].
    cbn in NL. inversion NL; subst e. inversion AT. reflexivity.
Qed.

(* isUpToDate(candidate's last term, last index) is the up-to-date rule of Spec/Safety.v, given
   a candidate log with that last term and length *)
Theorem l_is_up_to_date_view st l term index b lc :
  l_wf st l -> a_base (lview st l) = 0 -> a_base_term (lview st l) = 0 ->
  Safety.lastT lc = term -> N.of_nat (length lc) = index ->
  l_is_up_to_date st l term index = Ok b ->
  (b = true <-> Safety.utd lc (absl pay (lview st l))).
Proof.
  intros W B BT LT LI H. unfold l_is_up_to_date in H.
  destruct (l_last_entry_id st l) as [[ot oi]|] eqn:LE; cbn [bind] in H; [|discriminate].
  destruct (l_last_entry_id_view st l ot oi W B BT LE) as [E1 E2]. inversion H; subst b; clear H.
  unfold Safety.utd. rewrite <- E1. rewrite LT.
  split.
  - intros X. apply orb_true_iff in X. destruct X as [X|X].
    + left. apply N.ltb_lt in X. exact X.
    + apply andb_true_iff in X. destruct X as [X1 X2]. apply N.eqb_eq in X1. apply N.leb_le in X2. right. split; [exact X1|lia].
  - intros [X|[X1 X2]]; apply orb_true_iff.
    + left. apply N.ltb_lt. exact X.
    + right. apply andb_true_iff. split; [apply N.eqb_eq; exact X1|apply N.leb_le; lia].
Qed.

End UpToDate.

Print Assumptions l_maybe_append_view.
Print Assumptions a_maybe_append_is_follower_rule.
Print Assumptions l_append_end_view.
Print Assumptions l_is_up_to_date_view.

(* ---------- the MsgApp handler ---------- *)

From RaftV Require Import Raft.

Lemma set_r_log_log r l : r_log (set_r_log r l) = l.
Proof. reflexivity. Qed.

Lemma send_log r m r' : send r m = Ok r' -> r_log r' = r_log r.
Proof.
  unfold send. intros H.
  destruct (if is_vote_family (m_type (if N.eqb (m_from m) NoneId then set_from m (r_id r) else m))
            then if N.eqb (m_term (if N.eqb (m_from m) NoneId then set_from m (r_id r) else m)) 0 then Panic PSendTermUnset
                 else Ok (if N.eqb (m_from m) NoneId then set_from m (r_id r) else m)
            else if negb (N.eqb (m_term (if N.eqb (m_from m) NoneId then set_from m (r_id r) else m)) 0) then Panic PSendTermSet
                 else match m_type (if N.eqb (m_from m) NoneId then set_from m (r_id r) else m) with
                      | MsgProp | MsgReadIndex => Ok (if N.eqb (m_from m) NoneId then set_from m (r_id r) else m)
                      | _ => Ok (set_term (if N.eqb (m_from m) NoneId then set_from m (r_id r) else m) (r_term r))
                      end) as [m1|] eqn:E; cbn [bind] in H; [|discriminate].
  destruct (m_type m1); try (destruct (N.eqb (m_to m1) (r_id r)); [discriminate|]); inversion H; reflexivity.
Qed.

(* handleAppendEntries: a MsgApp either leaves the follower's log alone (stale message below the
   commit index, or the (prev index, prev term) test fails) or changes its logical log exactly as
   the abstract maybe-append does; nothing else about the log changes *)
Theorem handle_append_entries_view st r m r' :
  l_wf st (r_log r) -> contig (m_index m + 1) (m_entries m) ->
  a_base (lview st (r_log r)) <= l_committed (r_log r) ->
  handle_append_entries st r m = Ok r' ->
  l_wf st (r_log r') /\
  (lview st (r_log r') = lview st (r_log r) \/
   a_maybe_append (lview st (r_log r)) (m_index m) (m_logterm m) (m_entries m) = Some (lview st (r_log r'))).
Proof.
  intros W C BC H. unfold handle_append_entries in H.
  destruct (N.ltb_spec (m_index m) (l_committed (r_log r))).
  { apply send_log in H. rewrite H. split; [exact W|left; reflexivity]. }
  destruct (l_maybe_append st (r_log r) (m_index m) (m_logterm m) (m_entries m) (m_commit m)) as [[l o]|] eqn:MA;
    cbn [bind] in H; [|discriminate].
  destruct (l_maybe_append_view st (r_log r) _ _ _ _ _ _ W C BC MA) as [W' V].
  destruct o as [mlast|].
  - apply send_log in H. rewrite H. rewrite set_r_log_log.
    destruct (a_maybe_append (lview st (r_log r)) (m_index m) (m_logterm m) (m_entries m)) as [a'|].
    + destruct V as [V _]. split; [exact W'|right]. rewrite V. reflexivity.
    + destruct V as [_ V]. discriminate.
  - destruct (l_find_conflict_by_term st (r_log (set_r_log r l)) (N.min (m_index m) (last_index st (set_r_log r l))) (m_logterm m)) as [hi ht].
    apply send_log in H. rewrite H, set_r_log_log.
    destruct (a_maybe_append (lview st (r_log r)) (m_index m) (m_logterm m) (m_entries m)) as [a'|].
    + destruct V as [_ V]. discriminate.
    + destruct V as [V _]. subst l. split; [exact W|left; reflexivity].
Qed.

Print Assumptions handle_append_entries_view.
Print Assumptions a_maybe_append_holds.
