(* ScanProofs.v: hasUnappliedConfChanges decides exactly whether the logical log holds a
   configuration change in (applied, committed]; hup campaigns only when it does not. *)
From Coq Require Import List NArith Bool Lia Arith.
From RaftV Require Import Base Types Storage Log Raft Tactics LogProofs AppendRefine SliceRefine.
Import ListNotations.
Open Scope N_scope.

Lemma existsb_false_nth {A} (f : A -> bool) l : existsb f l = false -> forall k e, nth_error l k = Some e -> f e = false.
Proof.
  induction l as [|x l IH]; intros H k e NK; [destruct k; discriminate|].
  cbn in H. apply orb_false_iff in H. destruct H as [H1 H2].
  destruct k; cbn in NK; [inversion NK; subst; exact H1|eapply IH; eauto].
Qed.

Lemma existsb_true_nth {A} (f : A -> bool) l : existsb f l = true -> exists k e, nth_error l k = Some e /\ f e = true.
Proof.
  induction l as [|x l IH]; intros H; [discriminate|]. cbn in H. apply orb_true_iff in H. destruct H as [H|H].
  - exists 0%nat, x. auto.
  - destruct (IH H) as (k & e & NK & F). exists (S k), e. auto.
Qed.

Theorem l_scan_exists_spec st l f ps : l_wf st l -> forall fuel lo hi b,
  l_scan_exists st l fuel lo hi ps f = Ok b ->
  (b = true -> exists i e, lo <= i < hi /\ a_at (lview st l) i = Some e /\ f e = true) /\
  (b = false -> forall i e, lo <= i < hi -> a_at (lview st l) i = Some e -> f e = false).
Proof.
  intros W. pose proof W as (WS & WU & _).
  induction fuel as [|fu IH]; intros lo hi b H; cbn [l_scan_exists] in H.
  - destruct (N.ltb_spec lo hi); [discriminate|]. inversion H; subst. split; [discriminate|]. intros _ i e R. lia.
  - destruct (N.ltb_spec lo hi) as [LT|GE]; cbn [negb] in H.
    2:{ inversion H; subst. split; [discriminate|]. intros _ i e R. lia. }
    destruct (l_slice st l lo hi ps) as [[ents er]|] eqn:SL; cbn [bind] in H; [|discriminate].
    destruct er; try discriminate.
    destruct ents as [|e0 ents0] eqn:EE; [discriminate|]. rewrite <- EE in *.
    pose proof (l_slice_contig _ _ _ _ _ _ WS WU SL) as [CT LEN].
    pose proof (l_slice_view _ _ _ _ _ _ W SL) as VW.
    destruct (existsb f ents) eqn:EX.
    + inversion H; subst b. split; [|discriminate]. intros _.
      apply existsb_true_nth in EX. destruct EX as (k & e & NK & F).
      exists (lo + N.of_nat k), e. split; [|split; [apply VW; exact NK|exact F]].
      apply nth_error_Some_lt' in NK. unfold nlen in LEN. lia.
    + apply IH in H. destruct H as [HT HF]. split.
      * intros B. destruct (HT B) as (i & e & R & AT & F). exists i, e. split; [lia|auto].
      * intros B i e R AT. destruct (N.ltb_spec i (lo + nlen ents)) as [IN|OUT].
        -- assert (KL : (N.to_nat (i - lo) < length ents)%nat) by (unfold nlen in IN; lia).
           destruct (nth_error ents (N.to_nat (i - lo))) as [e'|] eqn:NK; [|apply nth_error_None in NK; lia].
           pose proof (VW _ _ NK) as AT'. replace (lo + N.of_nat (N.to_nat (i - lo))) with i in AT' by lia.
           rewrite AT in AT'. inversion AT'; subst. eapply existsb_false_nth; eauto.
        -- apply (HF B i e); [|exact AT]. lia.
Qed.

Section Hup.
Variable st : memstorage.

Theorem has_unapplied_conf_changes_spec r b :
  l_wf st (r_log r) -> has_unapplied_conf_changes st r = Ok b ->
  (b = true -> exists i e, l_applied (r_log r) < i <= l_committed (r_log r) /\
                           a_at (lview st (r_log r)) i = Some e /\ is_cc_type (e_type e) = true) /\
  (b = false -> forall i e, l_applied (r_log r) < i <= l_committed (r_log r) ->
                            a_at (lview st (r_log r)) i = Some e -> is_cc_type (e_type e) = false).
Proof.
  intros W H. unfold has_unapplied_conf_changes in H.
  destruct (N.leb_spec (l_committed (r_log r)) (l_applied (r_log r))) as [LE|GT].
  - inversion H; subst. split; [discriminate|]. intros _ i e R. lia.
  - apply (l_scan_exists_spec _ _ _ _ W) in H. destruct H as [HT HF]. split.
    + intros B. destruct (HT B) as (i & e & R & AT & F). exists i, e. split; [lia|auto].
    + intros B i e R AT. apply (HF B i e); [lia|exact AT].
Qed.

(* a node whose log holds a committed configuration change it has not applied does not
   campaign: whenever hup changes anything, (applied, committed] is free of them *)
Theorem hup_campaigns_only_without_unapplied_cc r t r' :
  l_wf st (r_log r) -> hup st r t = Ok r' -> r' <> r ->
  forall i e, l_applied (r_log r) < i <= l_committed (r_log r) ->
              a_at (lview st (r_log r)) i = Some e -> is_cc_type (e_type e) = false.
Proof.
  intros W H NE. unfold hup in H.
  destruct (state_type_eqb _ _); [inversion H; congruence|].
  destruct (negb _); [inversion H; congruence|].
  destruct (has_unapplied_conf_changes st r) as [u|] eqn:HU; cbn [bind] in H; [|discriminate].
  destruct u; [inversion H; congruence|].
  apply has_unapplied_conf_changes_spec in HU; [|exact W]. destruct HU as [_ HF]. exact (HF eq_refl).
Qed.
End Hup.
