(* CursorProofs.v: the apply cursor of a node (raftLog.applying, raftLog.applied) under every
   function of the node model, for every input.  The cursor is moved by exactly two things:
   accepting a Ready (to the last committed entry handed out) and an acknowledgement that the
   storage threads step into the node (MsgStorageApplyResp: entries applied; MsgStorageAppendResp
   with a snapshot: snapshot installed).  Everything else, including every message from another
   node, every tick, proposal and configuration change, leaves it where it is.  Basis of the
   stream clauses of C08 (ordered, gap-free, exactly-once within an incarnation). *)
From Coq Require Import List NArith Bool Lia.
From RaftV Require Import Base Types Quorum Progress Tracker Storage Log Raft RawNode Tactics.
Import ListNotations.
Open Scope N_scope.

(* both cursors untouched *)
Definition same_cur (r r' : raft) : Prop :=
  l_applying (r_log r') = l_applying (r_log r) /\ l_applied (r_log r') = l_applied (r_log r).

Lemma same_cur_refl r : same_cur r r.
Proof. unfold same_cur; auto. Qed.
Lemma same_cur_trans a b c : same_cur a b -> same_cur b c -> same_cur a c.
Proof. unfold same_cur. intuition congruence. Qed.

Ltac same_cur_done := unfold same_cur; cbn; split; congruence || reflexivity.

Lemma send_cur r m r' : send r m = Ok r' -> same_cur r r'.
Proof. unfold send. intros H. inv_ok; same_cur_done. Qed.

Lemma put_progress_cur r id p : same_cur r (put_progress r id p).
Proof. same_cur_done. Qed.

Section WithStorage.
Variable st : memstorage.

Lemma maybe_send_snapshot_cur r to pr r' b :
  maybe_send_snapshot st r to pr = Ok (r', b) -> same_cur r r'.
Proof.
  unfold maybe_send_snapshot. intros H. inv_ok; try apply same_cur_refl.
  apply send_cur in E1. eapply same_cur_trans; [|exact E1]. apply put_progress_cur.
Qed.

Lemma maybe_send_append_cur r to sie r' b :
  maybe_send_append st r to sie = Ok (r', b) -> same_cur r r'.
Proof.
  unfold maybe_send_append. intros H. inv_ok; try apply same_cur_refl;
    try (eapply maybe_send_snapshot_cur; eassumption).
  all: match goal with
       | S : send _ _ = Ok _ |- _ => apply send_cur in S;
           eapply same_cur_trans; [exact S|apply put_progress_cur]
       end.
Qed.

Lemma send_append_cur r to r' : send_append st r to = Ok r' -> same_cur r r'.
Proof.
  unfold send_append. intros H. inv_ok.
  match goal with E : maybe_send_append _ _ _ _ = Ok ?x |- _ => destruct x; cbn end.
  eapply maybe_send_append_cur; eassumption.
Qed.

Lemma send_heartbeat_cur r to ctx r' : send_heartbeat r to ctx = Ok r' -> same_cur r r'.
Proof.
  unfold send_heartbeat. intros H. inv_ok. apply send_cur in E0.
  eapply same_cur_trans; [exact E0|apply put_progress_cur].
Qed.

Lemma visit_others_cur (f : raft -> N -> res raft) :
  (forall r id r', f r id = Ok r' -> same_cur r r') ->
  forall ids r r', visit_others f r ids = Ok r' -> same_cur r r'.
Proof.
  intros Hf ids. induction ids as [|id ids IH]; intros r r' H; cbn in H.
  - inv_ok. apply same_cur_refl.
  - destruct (N.eqb id (r_id r)); [apply IH; auto|].
    inv_ok. eapply same_cur_trans; [eapply Hf; eassumption|apply IH; auto].
Qed.

Lemma bcast_append_cur r r' : bcast_append st r = Ok r' -> same_cur r r'.
Proof.
  unfold bcast_append. apply visit_others_cur.
  intros; eapply send_append_cur; eassumption.
Qed.

Lemma bcast_heartbeat_cur r r' : bcast_heartbeat r = Ok r' -> same_cur r r'.
Proof.
  unfold bcast_heartbeat, bcast_heartbeat_with_ctx. apply visit_others_cur.
  intros; eapply send_heartbeat_cur; eassumption.
Qed.

(* ---------- the log: nothing but appliedTo and acceptApplying moves the cursors ---------- *)

Definition lcur (l l' : raftlog) : Prop :=
  l_applying l' = l_applying l /\ l_applied l' = l_applied l.

Lemma l_commit_to_cur l c l' : l_commit_to st l c = Ok l' -> lcur l l'.
Proof. unfold l_commit_to, lcur. intros H. inv_ok; cbn; auto. Qed.

Lemma l_append_cur l es l' : l_append st l es = Ok l' -> lcur l l'.
Proof. unfold l_append, lcur. intros H. inv_ok; cbn; auto. Qed.

Lemma lcur_trans a b c : lcur a b -> lcur b c -> lcur a c.
Proof. unfold lcur. intuition congruence. Qed.
Lemma lcur_refl a : lcur a a.
Proof. unfold lcur; auto. Qed.

Lemma l_maybe_append_cur l pi pt es c l' o :
  l_maybe_append st l pi pt es c = Ok (l', o) -> lcur l l'.
Proof.
  unfold l_maybe_append. intros H. inv_ok; try apply lcur_refl;
  repeat match goal with
  | E : l_commit_to _ _ _ = Ok _ |- _ => apply l_commit_to_cur in E
  | E : l_append _ _ _ = Ok _ |- _ => apply l_append_cur in E
  end; try assumption; eapply lcur_trans; eassumption.
Qed.

Lemma l_maybe_commit_cur l t i l' b :
  l_maybe_commit st l t i = Ok (l', b) -> lcur l l'.
Proof.
  unfold l_maybe_commit. intros H. inv_ok; try apply lcur_refl.
  all: match goal with E : l_commit_to _ _ _ = Ok _ |- _ => apply l_commit_to_cur in E; exact E end.
Qed.

Lemma l_restore_cur l s : lcur l (l_restore l s).
Proof. unfold l_restore, lcur. cbn. auto. Qed.

Lemma l_stable_to_cur l i t : lcur l (l_stable_to l i t).
Proof. unfold l_stable_to, l_with_unstable, lcur. cbn. auto. Qed.

Lemma l_stable_snap_to_cur l i : lcur l (l_stable_snap_to l i).
Proof. unfold l_stable_snap_to, l_with_unstable, lcur. cbn. auto. Qed.

(* turn every successful call in the context into its summary *)
Ltac fwd :=
  repeat match goal with
  | H : send _ _ = Ok _ |- _ => apply send_cur in H
  | H : maybe_send_snapshot _ _ _ _ = Ok _ |- _ => apply maybe_send_snapshot_cur in H
  | H : maybe_send_append _ _ _ _ = Ok (_, _) |- _ => apply maybe_send_append_cur in H
  | H : maybe_send_append _ _ _ _ = Ok ?p |- _ => destruct p
  | H : send_append _ _ _ = Ok _ |- _ => apply send_append_cur in H
  | H : send_heartbeat _ _ _ = Ok _ |- _ => apply send_heartbeat_cur in H
  | H : bcast_append _ _ = Ok _ |- _ => apply bcast_append_cur in H
  | H : bcast_heartbeat _ = Ok _ |- _ => apply bcast_heartbeat_cur in H
  | H : l_commit_to _ _ _ = Ok _ |- _ => apply l_commit_to_cur in H
  | H : l_append _ _ _ = Ok _ |- _ => apply l_append_cur in H
  | H : l_maybe_append _ _ _ _ _ _ = Ok (_, _) |- _ => apply l_maybe_append_cur in H
  | H : l_maybe_append _ _ _ _ _ _ = Ok ?p |- _ => destruct p
  | H : l_maybe_commit _ _ _ _ = Ok (_, _) |- _ => apply l_maybe_commit_cur in H
  | H : l_maybe_commit _ _ _ _ = Ok ?p |- _ => destruct p
  end.

(* close goals about the cursors from the summaries *)
Ltac cur_solve :=
  unfold same_cur, lcur, l_restore, l_stable_to, l_stable_snap_to, l_with_unstable, l_with_committed in *; cbn in *;
  repeat match goal with H : _ /\ _ |- _ => destruct H end;
  repeat match goal with H : l_applying _ = _ |- _ => rewrite H in * end;
  repeat match goal with H : l_applied _ = _ |- _ => rewrite H in * end;
  cbn in *; repeat split; try congruence; try lia.

Lemma maybe_commit_cur r r' b : maybe_commit st r = Ok (r', b) -> same_cur r r'.
Proof. unfold maybe_commit. intros H. inv_ok. fwd. cbn. cur_solve. Qed.

Lemma reset_randomized_cur r r' : reset_randomized r = Ok r' -> same_cur r r'.
Proof. unfold reset_randomized. intros H. inv_ok. same_cur_done. Qed.

Lemma reset_cur r term r' : reset st r term = Ok r' -> same_cur r r'.
Proof.
  unfold reset. intros H. destruct (negb (N.eqb (r_term r) term)) eqn:ET; inv_ok;
  match goal with E : reset_randomized _ = Ok _ |- _ => apply reset_randomized_cur in E end;
  cur_solve.
Qed.

Lemma increase_uncommitted_cur r es r' b : increase_uncommitted_size r es = (r', b) -> same_cur r r'.
Proof. unfold increase_uncommitted_size. intros H. inv_ok; same_cur_done. Qed.

Lemma reduce_uncommitted_cur r s : same_cur r (reduce_uncommitted_size r s).
Proof. unfold reduce_uncommitted_size. destruct (_ <? _); same_cur_done. Qed.

Lemma append_entry_cur r es r' b : append_entry st r es = Ok (r', b) -> same_cur r r'.
Proof.
  unfold append_entry. intros H.
  destruct (increase_uncommitted_size r (stamp (r_term r) (last_index st r + 1) es)) as [r1 ok] eqn:EI.
  apply increase_uncommitted_cur in EI. inv_ok; fwd; cur_solve.
Qed.

Lemma become_follower_cur r term lead r' : become_follower st r term lead = Ok r' -> same_cur r r'.
Proof.
  unfold become_follower. intros H. inv_ok.
  match goal with E : reset _ _ _ = Ok _ |- _ => apply reset_cur in E end. cur_solve.
Qed.

Lemma become_candidate_cur r r' : become_candidate st r = Ok r' -> same_cur r r'.
Proof.
  unfold become_candidate. intros H. inv_ok.
  match goal with E : reset _ _ _ = Ok _ |- _ => apply reset_cur in E end. cur_solve.
Qed.

Lemma become_pre_candidate_cur r r' : become_pre_candidate r = Ok r' -> same_cur r r'.
Proof. unfold become_pre_candidate. intros H. inv_ok. same_cur_done. Qed.

Lemma become_leader_cur r r' : become_leader st r = Ok r' -> same_cur r r'.
Proof.
  unfold become_leader. intros H. inv_ok.
  match goal with E : reset _ _ _ = Ok _ |- _ => apply reset_cur in E end.
  match goal with E : append_entry _ _ _ = Ok ?p |- _ => destruct p; apply append_entry_cur in E end.
  cur_solve.
Qed.

Lemma campaign_send_cur ids : forall r vm term lt li ctx r',
  campaign_send r ids vm term lt li ctx = Ok r' -> same_cur r r'.
Proof.
  induction ids as [|id ids IH]; intros r vm term lt li ctx r' H; cbn in H.
  - inv_ok. apply same_cur_refl.
  - inv_ok; (eapply same_cur_trans; [eapply send_cur; eassumption|eapply IH; eassumption]).
Qed.

Lemma campaign_cur r t r' : campaign st r t = Ok r' -> same_cur r r'.
Proof.
  unfold campaign. intros H. inv_ok;
  repeat match goal with
  | E : become_pre_candidate _ = Ok _ |- _ => apply become_pre_candidate_cur in E
  | E : become_candidate _ _ = Ok _ |- _ => apply become_candidate_cur in E
  | E : campaign_send _ _ _ _ _ _ _ = Ok _ |- _ => apply campaign_send_cur in E
  end.
  all: eapply same_cur_trans; eassumption.
Qed.

Lemma hup_cur r t r' : hup st r t = Ok r' -> same_cur r r'.
Proof.
  unfold hup. intros H. inv_ok; try apply same_cur_refl. eapply campaign_cur; eassumption.
Qed.

Lemma poll_cur r id v r' res : poll r id v = (r', res) -> same_cur r r'.
Proof. unfold poll. intros H. inv_ok. same_cur_done. Qed.

Lemma handle_append_entries_cur r m r' : handle_append_entries st r m = Ok r' -> same_cur r r'.
Proof. unfold handle_append_entries. intros H. inv_ok; fwd; cur_solve. Qed.

Lemma handle_heartbeat_cur r m r' : handle_heartbeat st r m = Ok r' -> same_cur r r'.
Proof. unfold handle_heartbeat. intros H. inv_ok; fwd; cur_solve. Qed.

Lemma visit_maybe_send_cur ids : forall r r', visit_maybe_send st r ids = Ok r' -> same_cur r r'.
Proof.
  induction ids as [|id ids IH]; intros r r' H; cbn in H.
  - inv_ok. apply same_cur_refl.
  - destruct (N.eqb id (r_id r)); [apply IH; exact H|].
    inv_ok. fwd. eapply same_cur_trans; [eassumption|apply IH; eassumption].
Qed.

Lemma switch_to_config_cur r cfg pm r' cs :
  switch_to_config st r cfg pm = Ok (r', cs) -> same_cur r r'.
Proof.
  unfold switch_to_config. intros H. inv_ok.
  all: repeat match goal with
       | E : become_follower _ _ _ _ = Ok _ |- _ => apply become_follower_cur in E
       | E : maybe_commit _ _ = Ok (_, _) |- _ => apply maybe_commit_cur in E
       | E : maybe_commit _ _ = Ok ?p |- _ => destruct p
       | E : visit_maybe_send _ _ _ = Ok _ |- _ => apply visit_maybe_send_cur in E
       end; fwd.
  all: try (destruct (negb (smem _ _) && _)).
  all: cur_solve.
Qed.

Ltac fwd2 :=
  fwd;
  repeat match goal with
  | E : become_follower _ _ _ _ = Ok _ |- _ => apply become_follower_cur in E
  | E : become_candidate _ _ = Ok _ |- _ => apply become_candidate_cur in E
  | E : become_pre_candidate _ = Ok _ |- _ => apply become_pre_candidate_cur in E
  | E : become_leader _ _ = Ok _ |- _ => apply become_leader_cur in E
  | E : maybe_commit _ _ = Ok (_, _) |- _ => apply maybe_commit_cur in E
  | E : maybe_commit _ _ = Ok ?p |- _ => destruct p
  | E : visit_maybe_send _ _ _ = Ok _ |- _ => apply visit_maybe_send_cur in E
  | E : switch_to_config _ _ _ _ = Ok (_, _) |- _ => apply switch_to_config_cur in E
  | E : switch_to_config _ _ _ _ = Ok ?p |- _ => destruct p
  | E : campaign _ _ _ = Ok _ |- _ => apply campaign_cur in E
  | E : hup _ _ _ = Ok _ |- _ => apply hup_cur in E
  | E : handle_append_entries _ _ _ = Ok _ |- _ => apply handle_append_entries_cur in E
  | E : handle_heartbeat _ _ _ = Ok _ |- _ => apply handle_heartbeat_cur in E
  | E : append_entry _ _ _ = Ok (_, _) |- _ => apply append_entry_cur in E
  | E : append_entry _ _ _ = Ok ?p |- _ => destruct p
  | E : poll _ _ _ = (_, _) |- _ => apply poll_cur in E
  end.

(* installing a snapshot moves the commit index and the log base, not the apply cursor: the
   cursor follows when the write is acknowledged (appliedSnap) *)
Lemma restore_cur r s r' b : restore st r s = Ok (r', b) -> same_cur r r'.
Proof. unfold restore. intros H. inv_ok; fwd2; cur_solve. Qed.

Lemma handle_snapshot_cur r m r' : handle_snapshot st r m = Ok r' -> same_cur r r'.
Proof.
  unfold handle_snapshot. intros H. inv_ok;
  match goal with E : restore _ _ _ = Ok _ |- _ => apply restore_cur in E end; fwd;
  (eapply same_cur_trans; eassumption).
Qed.

Lemma apply_conf_change_raft_cur r cc r' cs :
  apply_conf_change_raft st r cc = Ok (r', cs) -> same_cur r r'.
Proof. unfold apply_conf_change_raft. intros H. inv_ok. fwd2. assumption. Qed.

Lemma respond_read_index_cur r req i r' : respond_read_index r req i = Ok r' -> same_cur r r'.
Proof.
  unfold respond_read_index, response_to_read_index_req. intros H. inv_ok; fwd; cur_solve.
Qed.

Lemma send_msg_read_index_response_cur r m r' :
  send_msg_read_index_response r m = Ok r' -> same_cur r r'.
Proof.
  unfold send_msg_read_index_response. intros H.
  destruct (_ && is_singleton _); [eapply respond_read_index_cur; eassumption|].
  inv_ok; fwd.
  - eapply same_cur_trans; [|eassumption]. same_cur_done.
  - eapply respond_read_index_cur; eassumption.
Qed.

Lemma send_read_index_responses_cur ms : forall r r',
  send_read_index_responses r ms = Ok r' -> same_cur r r'.
Proof.
  induction ms as [|m ms IH]; intros r r' H; cbn in H; inv_ok.
  - apply same_cur_refl.
  - eapply same_cur_trans; [eapply send_msg_read_index_response_cur; eassumption|eapply IH; eassumption].
Qed.

Lemma release_pending_read_index_cur r r' : release_pending_read_index st r = Ok r' -> same_cur r r'.
Proof.
  unfold release_pending_read_index. intros H. inv_ok; try apply same_cur_refl.
  match goal with E : send_read_index_responses _ _ = Ok _ |- _ => apply send_read_index_responses_cur in E end.
  eapply same_cur_trans; [|eassumption]. same_cur_done.
Qed.

Lemma send_timeout_now_cur r to r' : send_timeout_now r to = Ok r' -> same_cur r r'.
Proof. unfold send_timeout_now. apply send_cur. Qed.

Lemma send_append_loop_cur fuel : forall r to r', send_append_loop st fuel r to = Ok r' -> same_cur r r'.
Proof.
  induction fuel as [|f IH]; intros r to r' H; cbn in H; inv_ok; fwd.
  - eapply same_cur_trans; [eassumption|eapply IH; eassumption].
  - assumption.
Qed.

Lemma respond_reads_cur rss : forall r r', respond_reads r rss = Ok r' -> same_cur r r'.
Proof.
  induction rss as [|[req idx] rss IH]; intros r r' H; cbn in H; inv_ok.
  - apply same_cur_refl.
  - eapply same_cur_trans; [eapply respond_read_index_cur; eassumption|eapply IH; eassumption].
Qed.

Lemma prop_gate_cur es : forall r li i r' es', prop_gate r li i es = (r', es') -> same_cur r r'.
Proof.
  induction es as [|e es IH]; intros r li i r' es' H; cbn in H.
  - inv_ok. apply same_cur_refl.
  - repeat match goal with
    | H : (if ?c then _ else _) = _ |- _ => destruct c
    | H : (let '(_, _) := ?x in _) = _ |- _ => let E := fresh "E" in destruct x eqn:E; apply IH in E
    end; inv_ok; assumption.
Qed.

Lemma clear_recent_active_cur r : same_cur r (clear_recent_active r).
Proof. same_cur_done. Qed.

Ltac fwd3 :=
  fwd2;
  repeat match goal with
  | E : restore _ _ _ = Ok (_, _) |- _ => apply restore_cur in E
  | E : handle_snapshot _ _ _ = Ok _ |- _ => apply handle_snapshot_cur in E
  | E : respond_read_index _ _ _ = Ok _ |- _ => apply respond_read_index_cur in E
  | E : send_msg_read_index_response _ _ = Ok _ |- _ => apply send_msg_read_index_response_cur in E
  | E : release_pending_read_index _ _ = Ok _ |- _ => apply release_pending_read_index_cur in E
  | E : send_timeout_now _ _ = Ok _ |- _ => apply send_timeout_now_cur in E
  | E : send_append_loop _ _ _ _ = Ok _ |- _ => apply send_append_loop_cur in E
  | E : respond_reads _ _ = Ok _ |- _ => apply respond_reads_cur in E
  | E : prop_gate _ _ _ _ = (_, _) |- _ => apply prop_gate_cur in E
  | E : bcast_heartbeat _ = Ok _ |- _ => apply bcast_heartbeat_cur in E
  end.

Ltac split_ifs :=
  repeat match goal with
  | |- context [if ?c then _ else _] => destruct c
  | H : context [if ?c then _ else _] |- _ => destruct c
  end.

Lemma step_leader_cur r m r' e : step_leader st r m = Ok (r', e) -> same_cur r r'.
Proof.
  unfold step_leader. intros H.
  inv_ok; fwd3; try solve [cur_solve]; split_ifs; cur_solve.
Qed.

Lemma step_candidate_cur r m r' e : step_candidate st r m = Ok (r', e) -> same_cur r r'.
Proof.
  unfold step_candidate. intros H.
  inv_ok; fwd3; try solve [cur_solve]; split_ifs; cur_solve.
Qed.

Lemma step_follower_cur r m r' e : step_follower st r m = Ok (r', e) -> same_cur r r'.
Proof.
  unfold step_follower. intros H.
  inv_ok; fwd3; try solve [cur_solve]; split_ifs; cur_solve.
Qed.

(* ---------- Step: the cursor moves only through appliedTo ---------- *)

(* the applied index never passes the applying index *)
Definition cur_ok (r : raft) : Prop := l_applied (r_log r) <= l_applying (r_log r).

(* [cur_step P r r']: from a state whose cursors are in order the cursors stay in order, and the
   applying cursor stays or moves forward to an index that satisfies P *)
Definition cur_step (P : N -> Prop) (r r' : raft) : Prop :=
  cur_ok r ->
  cur_ok r' /\
  (l_applying (r_log r') = l_applying (r_log r) \/
   (l_applying (r_log r) < l_applying (r_log r') /\ P (l_applying (r_log r')))).

Lemma same_cur_step P r r' : same_cur r r' -> cur_step P r r'.
Proof. unfold same_cur, cur_step, cur_ok. intros [A B] O. rewrite A, B. auto. Qed.

Lemma cur_step_refl P r : cur_step P r r.
Proof. apply same_cur_step, same_cur_refl. Qed.

Lemma cur_step_trans P a b c : cur_step P a b -> cur_step P b c -> cur_step P a c.
Proof.
  unfold cur_step. intros H1 H2 O. destruct (H1 O) as [O1 M1]. destruct (H2 O1) as [O2 M2].
  split; [exact O2|].
  destruct M1 as [M1|[L1 P1]], M2 as [M2|[L2 P2]].
  - left. congruence.
  - right. rewrite <- M1. auto.
  - right. rewrite M2. auto.
  - right. split; [lia|exact P2].
Qed.

Lemma cur_step_weaken (P Q : N -> Prop) r r' : (forall i, P i -> Q i) -> cur_step P r r' -> cur_step Q r r'.
Proof.
  unfold cur_step. intros PQ H O. destruct (H O) as [O1 [M|[L Pi]]]; split; auto.
Qed.

(* the index an acknowledgement from the storage threads carries: the last applied entry, or the
   installed snapshot *)
Definition ack_of (m : message) : option N :=
  match m_type m with
  | MsgStorageApplyResp => option_map e_index (last_opt (m_entries m))
  | MsgStorageAppendResp => option_map s_index (m_snapshot m)
  | _ => None
  end.

Definition acks (m : message) (i : N) : Prop := ack_of m = Some i.

Lemma leave_joint_no_ack i : ~ acks leave_joint_prop i.
Proof. unfold acks, ack_of. cbn. discriminate. Qed.

Section StepGen.
Variable step_rec : raft -> message -> res (raft * err).
Hypothesis step_rec_cur : forall r m r' e, step_rec r m = Ok (r', e) -> cur_step (acks m) r r'.

(* appliedTo(i): the applying cursor becomes max(applying, i) when the cursors were in order *)
Lemma applied_to_cur r i s r' :
  applied_to step_rec r i s = Ok r' ->
  cur_step (fun j => j = i) r r'.
Proof.
  unfold applied_to. intros H O. unfold cur_ok in O.
  match type of H with bind ?x _ = _ => destruct x as [l|] eqn:EL; cbn [bind] in H; [|discriminate] end.
  assert (LA : l_applying l = N.max (l_applying (r_log r)) (N.max i (l_applied (r_log r))) /\
               l_applied l = N.max i (l_applied (r_log r))).
  { unfold l_applied_to in EL. destruct (_ || _) in EL; [discriminate|]. inversion EL; subst l. cbn. auto. }
  destruct LA as [LA LB].
  assert (R1 : cur_ok (set_r_log r l) /\
               (l_applying (r_log (set_r_log r l)) = l_applying (r_log r) \/
                (l_applying (r_log r) < l_applying (r_log (set_r_log r l)) /\ l_applying (r_log (set_r_log r l)) = i))).
  { unfold cur_ok. cbn. rewrite LA, LB. split; [lia|]. lia. }
  destruct (c_auto_leave _ && _ && _).
  - match type of H with bind ?x _ = _ => destruct x as [[r2 e2]|] eqn:ES; cbn [bind] in H; [|discriminate] end.
    inversion H; subst; clear H. cbn [fst].
    apply step_rec_cur in ES. destruct R1 as [O1 M1]. destruct (ES O1) as [O2 [M2|[_ M2]]].
    + split; [exact O2|]. rewrite M2. exact M1.
    + exfalso. exact (leave_joint_no_ack _ M2).
  - inversion H; subst; clear H. exact R1.
Qed.

Lemma applied_snap_cur r s r' :
  applied_snap step_rec r s = Ok r' -> cur_step (fun j => j = s_index s) r r'.
Proof.
  unfold applied_snap. intros H. apply applied_to_cur in H.
  eapply cur_step_trans; [|exact H]. apply same_cur_step.
  unfold l_stable_snap_to, l_with_unstable. same_cur_done.
Qed.

Lemma step_preamble_cur r m r1 c :
  step_preamble st step_rec r m = Ok (r1, c) -> cur_step (acks m) r r1.
Proof.
  unfold step_preamble. intros H.
  inv_ok; fwd3; try apply cur_step_refl; try (apply same_cur_step; assumption).
  match goal with E : applied_snap _ _ _ = Ok _ |- _ => apply applied_snap_cur in E end.
  eapply cur_step_weaken; [|eassumption]. intros i Hi. unfold acks, ack_of.
  match goal with T : m_type m = _ |- _ => rewrite T end.
  match goal with T : m_snapshot m = _ |- _ => rewrite T end. cbn. congruence.
Qed.

Lemma step_role_cur r m x :
  match r_state r with
  | StateFollower => step_follower st r m
  | StateCandidate | StatePreCandidate => step_candidate st r m
  | StateLeader => step_leader st r m
  end = Ok x -> same_cur r (fst x).
Proof.
  destruct x as [r1 e1]. cbn [fst]. destruct (r_state r); intros H.
  - eapply step_follower_cur; eassumption.
  - eapply step_candidate_cur; eassumption.
  - eapply step_leader_cur; eassumption.
  - eapply step_candidate_cur; eassumption.
Qed.

(* the retry of the automatic leave after an aborted transfer calls appliedTo with the applied
   index itself, which is no move *)
Lemma applied_to_self_cur P r s r' :
  applied_to step_rec r (l_applied (r_log r)) s = Ok r' -> cur_step P r r'.
Proof.
  intros H O. destruct (applied_to_cur _ _ _ _ H O) as [O' [M|[L E]]]; split; auto.
  unfold cur_ok in O. lia.
Qed.

Lemma step_transfer_leader_cur P r m r' e :
  step_transfer_leader st step_rec r m = Ok (r', e) -> cur_step P r r'.
Proof.
  unfold step_transfer_leader. intros H.
  match type of H with bind ?y _ = _ => destruct y as [x|] eqn:E1; cbn [bind] in H; [|discriminate] end.
  apply step_role_cur in E1.
  destruct (state_type_eqb (r_state r) StateLeader && self_transfer_aborts r m).
  - match type of H with bind ?y _ = _ => destruct y as [r2|] eqn:E2; cbn [bind] in H; [|discriminate] end.
    inversion H; subst. eapply cur_step_trans; [apply same_cur_step; exact E1|].
    eapply applied_to_self_cur; eassumption.
  - inversion H; subst. apply same_cur_step. exact E1.
Qed.

Lemma step_dispatch_cur r m r' e :
  step_dispatch st step_rec r m = Ok (r', e) -> cur_step (acks m) r r'.
Proof.
  unfold step_dispatch. intros H.
  destruct (m_type m) eqn:T;
    try (apply same_cur_step; apply (step_role_cur r m (r', e)); exact H).
  all: try (eapply step_transfer_leader_cur; eassumption).
  - (* MsgHup *) inv_ok. fwd3. apply same_cur_step. assumption.
  - (* MsgVote *) inv_ok; fwd3; apply same_cur_step; cur_solve.
  - (* MsgPreVote *) inv_ok; fwd3; apply same_cur_step; cur_solve.
  - (* MsgStorageAppendResp *)
    set (r0 := if negb (N.eqb (m_index m) 0)
               then set_r_log r (l_stable_to (r_log r) (m_index m) (m_logterm m)) else r) in *.
    assert (S0 : same_cur r r0).
    { subst r0. destruct (negb _); [|apply same_cur_refl]. unfold l_stable_to, l_with_unstable. same_cur_done. }
    destruct (m_snapshot m) as [s|] eqn:ES.
    + match type of H with bind ?x _ = _ => destruct x as [r2|] eqn:E2; cbn [bind] in H; [|discriminate] end.
      inversion H; subst; clear H. apply applied_snap_cur in E2.
      eapply cur_step_trans; [apply same_cur_step; exact S0|].
      eapply cur_step_weaken; [|exact E2]. intros i Hi. unfold acks, ack_of. rewrite T, ES. cbn. congruence.
    + inversion H; subst. apply same_cur_step. exact S0.
  - (* MsgStorageApplyResp *)
    destruct (last_opt (m_entries m)) as [e0|] eqn:EL.
    + match type of H with bind ?x _ = _ => destruct x as [r2|] eqn:E2; cbn [bind] in H; [|discriminate] end.
      inversion H; subst; clear H. apply applied_to_cur in E2.
      eapply cur_step_trans; [|apply same_cur_step, reduce_uncommitted_cur].
      eapply cur_step_weaken; [|exact E2]. intros i Hi. unfold acks, ack_of. rewrite T, EL. cbn. congruence.
    + inversion H; subst. apply cur_step_refl.
Qed.

Lemma step_gen_cur r m r' e : step_gen st step_rec r m = Ok (r', e) -> cur_step (acks m) r r'.
Proof.
  unfold step_gen. intros H.
  match type of H with bind ?x _ = _ => destruct x as [[r1 c]|] eqn:EP; cbn [bind] in H; [|discriminate] end.
  apply step_preamble_cur in EP. destruct (negb c).
  - inversion H; subst. exact EP.
  - eapply cur_step_trans; [exact EP|]. eapply step_dispatch_cur; eassumption.
Qed.

End StepGen.

Lemma step_leaf_cur r m r' e : step_leaf r m = Ok (r', e) -> cur_step (acks m) r r'.
Proof. unfold step_leaf. discriminate. Qed.

Lemma step_inner_cur r m r' e : step_inner st r m = Ok (r', e) -> cur_step (acks m) r r'.
Proof. unfold step_inner. apply step_gen_cur. apply step_leaf_cur. Qed.

(* Every message, of any type, term and content: the applying cursor stays, or moves forward to
   the index the message acknowledges. *)
Theorem step_cur r m r' e : step st r m = Ok (r', e) -> cur_step (acks m) r r'.
Proof. unfold step. apply step_gen_cur. exact step_inner_cur. Qed.

Definition no_move : raft -> raft -> Prop := cur_step (fun _ => False).

Lemma step_no_ack r m r' e : ack_of m = None -> step st r m = Ok (r', e) -> no_move r r'.
Proof.
  intros A H. apply step_cur in H. eapply cur_step_weaken; [|exact H].
  unfold acks. intros i Hi. congruence.
Qed.

Lemma no_move_trans a b c : no_move a b -> no_move b c -> no_move a c.
Proof. apply cur_step_trans. Qed.

Lemma tick_election_cur r r' : tick_election st r = Ok r' -> no_move r r'.
Proof.
  unfold tick_election. intros H.
  destruct (promotable _ && _).
  - destruct (step st _ _) as [[r1 e1]|] eqn:ES; cbn [bind] in H; [|discriminate].
    inversion H; subst; clear H. cbn [fst].
    apply step_no_ack in ES; [|reflexivity].
    eapply no_move_trans; [|exact ES]. apply same_cur_step. same_cur_done.
  - inversion H; subst. apply same_cur_step. same_cur_done.
Qed.

Lemma tick_heartbeat_cur r r' : tick_heartbeat st r = Ok r' -> no_move r r'.
Proof.
  unfold tick_heartbeat. intros H.
  set (r0 := set_r_election_elapsed (set_r_heartbeat_elapsed r (r_heartbeat_elapsed r + 1))
                                    (r_election_elapsed (set_r_heartbeat_elapsed r (r_heartbeat_elapsed r + 1)) + 1)) in *.
  assert (M0 : no_move r r0) by (apply same_cur_step; subst r0; same_cur_done).
  match type of H with bind ?x _ = _ => destruct x as [r1|] eqn:E1; cbn [bind] in H; [|discriminate] end.
  assert (M1 : no_move r0 r1).
  { destruct (r_election_timeout r0 <=? r_election_elapsed r0); [|inversion E1; apply cur_step_refl].
    match type of E1 with bind ?x _ = _ => destruct x as [r2|] eqn:E2; cbn [bind] in E1; [|discriminate] end.
    assert (M2 : no_move r0 r2).
    { destruct (r_check_quorum (set_r_election_elapsed r0 0)).
      - destruct (step st _ _) as [[r3 e3]|] eqn:ES; cbn [bind] in E2; [|discriminate].
        inversion E2; subst; clear E2. cbn [fst].
        apply step_no_ack in ES; [|reflexivity].
        eapply no_move_trans; [|exact ES]. apply same_cur_step. same_cur_done.
      - inversion E2; subst. apply same_cur_step. same_cur_done. }
    eapply no_move_trans; [exact M2|].
    destruct (state_type_eqb (r_state r2) StateLeader && _).
    - unfold applied_to_top in E1.
      eapply no_move_trans; [|eapply (applied_to_self_cur (step_inner st) step_inner_cur); exact E1].
      apply same_cur_step. same_cur_done.
    - inversion E1; subst. apply cur_step_refl. }
  assert (M : no_move r r1) by exact (no_move_trans _ _ _ M0 M1).
  destruct (negb (state_type_eqb (r_state r1) StateLeader)); [inversion H; subst; exact M|].
  destruct (r_heartbeat_timeout r1 <=? r_heartbeat_elapsed r1); [|inversion H; subst; exact M].
  cbv beta zeta in H.
  match type of H with bind ?x _ = _ => destruct x as [[r3 e3]|] eqn:ES end; cbn [bind] in H; [|discriminate].
  inversion H; subst; clear H. cbn [fst].
  apply step_no_ack in ES; [|reflexivity].
  eapply no_move_trans; [exact M|]. eapply no_move_trans; [|exact ES]. apply same_cur_step. same_cur_done.
Qed.

(* no tick moves the apply cursor *)
Theorem tick_cur r r' : tick st r = Ok r' -> no_move r r'.
Proof.
  unfold tick. destruct (r_state r); first [apply tick_election_cur | apply tick_heartbeat_cur].
Qed.

End WithStorage.
