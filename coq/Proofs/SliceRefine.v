(* SliceRefine.v: raftLog.slice (and with it entries, nextCommittedEnts, the MsgApp payloads) returns
   entries of the logical log: the k-th entry returned for slice(lo, hi, max) is the entry the logical
   log holds at index lo + k. *)
From Coq Require Import List NArith Bool Lia Arith.
From RaftV Require Import Base Types Storage Log Tactics LogProofs AppendRefine.
Import ListNotations.
Open Scope N_scope.

Lemma nth_error_firstn_some {A} (l : list A) : forall c k e, nth_error (firstn c l) k = Some e -> nth_error l k = Some e.
Proof.
  induction l as [|x l IH]; intros c k e H; destruct c, k; cbn in *; try discriminate; auto. eapply IH. exact H.
Qed.

Lemma nth_error_skipn3 {A} (l : list A) : forall p c, nth_error (skipn p l) c = nth_error l (p + c).
Proof.
  induction l as [|x l IH]; intros p c.
  - rewrite skipn_nil. destruct c, p; reflexivity.
  - destruct p; cbn; [reflexivity|apply IH].
Qed.

(* the unstable entries are the logical log from the unstable offset on *)
Lemma view_unstable st l i e :
  l_wf st l -> u_offset (l_unstable l) <= i ->
  nth_error (u_entries (l_unstable l)) (N.to_nat (i - u_offset (l_unstable l))) = Some e ->
  a_at (lview st l) i = Some e.
Proof.
  intros (M & (C & O & S) & B) OI NE. unfold lview, a_at.
  destruct (u_snapshot (l_unstable l)) as [s|]; cbn [a_base a_ents].
  - destruct (N.leb_spec i (s_index s)); [lia|].
    replace (N.to_nat (i - s_index s - 1)) with (N.to_nat (i - u_offset (l_unstable l))) by lia. exact NE.
  - destruct B as [B _]. destruct (N.leb_spec i (ms_dummy_index st)); [lia|].
    assert (FL : length (firstn (N.to_nat (u_offset (l_unstable l) - ms_dummy_index st - 1)) (ms_ents st)) =
                 N.to_nat (u_offset (l_unstable l) - ms_dummy_index st - 1)).
    { rewrite firstn_length. unfold ms_last_index, nlen in B. lia. }
    rewrite nth_error_app2 by (rewrite FL; lia). rewrite FL.
    replace (N.to_nat (i - ms_dummy_index st - 1) - N.to_nat (u_offset (l_unstable l) - ms_dummy_index st - 1))%nat
      with (N.to_nat (i - u_offset (l_unstable l))) by lia.
    exact NE.
Qed.

(* below the unstable offset (and without a pending snapshot) the stable entries are the logical log *)
Lemma view_stable st l i e :
  l_wf st l -> u_snapshot (l_unstable l) = None ->
  ms_dummy_index st < i < u_offset (l_unstable l) ->
  nth_error (ms_ents st) (N.to_nat (i - ms_dummy_index st - 1)) = Some e ->
  a_at (lview st l) i = Some e.
Proof.
  intros (M & U & B) SN R NE. unfold lview, a_at. rewrite SN. cbn [a_base a_ents].
  destruct (N.leb_spec i (ms_dummy_index st)); [lia|].
  rewrite nth_error_app1.
  - rewrite firstn_nth_error by lia. exact NE.
  - rewrite firstn_length. apply nth_error_Some_lt' in NE. lia.
Qed.

Theorem l_slice_view st l lo hi maxSize es :
  l_wf st l ->
  l_slice st l lo hi maxSize = Ok (es, ENone) ->
  forall k e, nth_error es k = Some e -> a_at (lview st l) (lo + N.of_nat k) = Some e.
Proof.
  intros W H k e NK. pose proof W as (WS & WU & B).
  unfold l_slice in H.
  destruct (l_must_check_out_of_bounds st l lo hi) as [eb|] eqn:EB; cbn [bind] in H; [|discriminate].
  destruct eb; try (inversion H; fail).
  (* lo is at or above the first index *)
  assert (FI : l_first_index st l <= lo).
  { unfold l_must_check_out_of_bounds in EB. destruct (hi <? lo); [discriminate|].
    destruct (N.ltb_spec lo (l_first_index st l)); [discriminate|lia]. }
  destruct (N.eqb_spec lo hi); [inversion H; subst; destruct k; discriminate|].
  destruct (N.leb_spec (u_offset (l_unstable l)) lo) as [UL|UL].
  - (* entirely unstable *)
    destruct (u_slice (l_unstable l) lo hi) as [us|] eqn:EU; cbn [bind] in H; [|discriminate].
    inversion H; subst es; clear H.
    destruct (u_slice_spec _ _ _ _ WU EU) as (_ & _ & _ & EQ & _ & _).
    destruct (limit_size_prefix us maxSize) as [k0 LP]. rewrite LP in NK.
    apply nth_error_firstn_some in NK. rewrite EQ in NK. apply nth_error_firstn_some in NK.
    rewrite nth_error_skipn3 in NK.
    apply (view_unstable st l _ e W); [lia|].
    replace (N.to_nat (lo + N.of_nat k - u_offset (l_unstable l))) with (N.to_nat (lo - u_offset (l_unstable l)) + k)%nat by lia.
    exact NK.
  - (* starts in stable storage: no snapshot is pending there *)
    assert (SN : u_snapshot (l_unstable l) = None).
    { destruct (u_snapshot (l_unstable l)) as [s|] eqn:SE; [|reflexivity]. exfalso.
      unfold l_first_index, u_maybe_first_index in FI. rewrite SE in FI. lia. }
    rewrite SN in B. destruct B as [B _].
    destruct (ms_entries st lo (N.min hi (u_offset (l_unstable l))) maxSize) as [[se ee]|] eqn:EM; cbn [bind] in H; [|discriminate].
    destruct (ms_entries_refines _ _ _ _ _ _ EM) as (CM & RM & _).
    assert (LB : ms_dummy_index st < lo).
    { destruct (N.leb_spec lo (ms_dummy_index st)) as [Q|Q]; [|exact Q].
      assert (ee = ErrCompacted) by (apply CM; exact Q). subst ee. inversion H. }
    assert (EE : ee = ENone \/ ee = ErrCompacted \/ ee = ErrUnavailable).
    { clear -EM. unfold ms_entries in EM.
      repeat match type of EM with
      | (if ?c then _ else _) = _ => destruct c
      | match ?x with _ => _ end = _ => destruct x
      end; inversion EM; auto. }
    destruct EE as [ -> | [ -> | -> ] ]; [|inversion H|inversion H].
    specialize (RM eq_refl).
    set (cut := N.min hi (u_offset (l_unstable l))) in *.
    (* the stable part: a prefix of the storage range [lo, cut) *)
    assert (STA : forall j x, nth_error se j = Some x -> a_at (lview st l) (lo + N.of_nat j) = Some x).
    { intros j x NJ. destruct (limit_size_prefix (a_range (abs_ms st) lo cut) maxSize) as [k0 LP].
      rewrite RM, LP in NJ. apply nth_error_firstn_some in NJ. unfold a_range, abs_ms in NJ. cbn [a_base a_ents] in NJ.
      assert (JL : (j < N.to_nat (cut - lo))%nat).
      { apply nth_error_Some_lt' in NJ. rewrite firstn_length in NJ. lia. }
      apply nth_error_firstn_some in NJ. rewrite nth_error_skipn3 in NJ.
      apply (view_stable st l _ x W SN); [unfold cut in JL; lia|].
      replace (N.to_nat (lo + N.of_nat j - ms_dummy_index st - 1)) with (N.to_nat (lo - ms_dummy_index st - 1) + j)%nat by lia.
      exact NJ. }
    destruct (N.leb_spec hi (u_offset (l_unstable l))).
    { inversion H; subst es. apply STA. exact NK. }
    destruct (N.ltb_spec (nlen se) (cut - lo)).
    { inversion H; subst es. apply STA. exact NK. }
    destruct (maxSize <=? ents_size se).
    { inversion H; subst es. apply STA. exact NK. }
    destruct (u_slice (l_unstable l) (u_offset (l_unstable l)) hi) as [us|] eqn:EU; cbn [bind] in H; [|discriminate].
    destruct (u_slice_spec _ _ _ _ WU EU) as (_ & _ & _ & EQ & _ & _).
    destruct (_ && _).
    { inversion H; subst es. apply STA. exact NK. }
    inversion H; subst es; clear H.
    destruct (Nat.lt_ge_cases k (length se)) as [KS|KS].
    + rewrite nth_error_app1 in NK by exact KS. apply STA. exact NK.
    + rewrite nth_error_app2 in NK by exact KS.
      (* the stable part is complete: it ends right below the unstable offset *)
      assert (LS : nlen se = u_offset (l_unstable l) - lo).
      { assert (nlen se <= cut - lo).
        { rewrite RM. pose proof (limit_size_len (a_range (abs_ms st) lo cut) maxSize).
          pose proof (a_range_len (abs_ms st) lo cut). lia. }
        unfold cut in *. lia. }
      destruct (limit_size_prefix us (maxSize - ents_size se)) as [k0 LP]. rewrite LP in NK.
      apply nth_error_firstn_some in NK. rewrite EQ in NK. apply nth_error_firstn_some in NK.
      rewrite nth_error_skipn3 in NK.
      apply (view_unstable st l _ e W); [unfold nlen in LS; lia|].
      replace (N.to_nat (lo + N.of_nat k - u_offset (l_unstable l)))
        with (N.to_nat (u_offset (l_unstable l) - u_offset (l_unstable l)) + (k - length se))%nat by (unfold nlen in LS; lia).
      exact NK.
Qed.

(* nextCommittedEnts hands out entries of the logical log, starting right after the applying cursor *)
Theorem l_next_committed_ents_view st l allow es :
  l_wf st l -> l_next_committed_ents st l allow = Ok es ->
  forall k e, nth_error es k = Some e -> a_at (lview st l) (l_applying l + 1 + N.of_nat k) = Some e.
Proof.
  intros W H k e NK. unfold l_next_committed_ents in H.
  destruct (l_applying_paused l); [inversion H; subst; destruct k; discriminate|].
  destruct (l_has_next_or_in_progress_snapshot l); [inversion H; subst; destruct k; discriminate|].
  destruct (_ <=? _); [inversion H; subst; destruct k; discriminate|].
  destruct (N.eqb _ 0); [discriminate|].
  destruct (l_slice st l (l_applying l + 1) (l_max_appliable l allow + 1) (sub64 (l_max_applying_size l) (l_applying_size l)))
    as [[ents er]|] eqn:SL; cbn [bind] in H; [|discriminate].
  destruct er; try discriminate. inversion H; subst ents.
  exact (l_slice_view st l _ _ _ es W SL k e NK).
Qed.

Print Assumptions l_slice_view.
Print Assumptions l_next_committed_ents_view.
