(* LocalProofs.v: node-local mechanisms behind C02, C06, C09, C10, C11, C14, C15, C20: each
   lemma is about one function of the node model, for every state and input. *)
From Coq Require Import List NArith Bool Lia.
From RaftV Require Import Base Types Quorum Progress Tracker Storage Log Raft RawNode Tactics
     RaftMono RaftRouting PreVoteProofs QuorumProofs.
Import ListNotations.
Open Scope N_scope.

Section WithStorage.
Variable st : memstorage.

(* ---------- C02: votes ---------- *)

Definition is_grant (t : msg_type) (m : message) : Prop := m_type m = t /\ m_reject m = false.

(* A (real or pre-) vote is granted only when canVote holds and the candidate's log is at
   least as up to date as the voter's; a real grant records the vote. *)
Theorem vote_grant_conditions r m r' e :
  (m_type m = MsgVote \/ m_type m = MsgPreVote) ->
  step_dispatch st (step_inner st) r m = Ok (r', e) ->
  forall x, In x (r_msgs_after_append r') -> ~ In x (r_msgs_after_append r) -> m_reject x = false ->
  l_is_up_to_date st (r_log r) (m_logterm m) (m_index m) = Ok true /\
  (r_vote r = m_from m \/ (r_vote r = NoneId /\ r_lead r = NoneId) \/
   (m_type m = MsgPreVote /\ r_term r < m_term m)) /\
  (m_type m = MsgVote -> r_vote r' = m_from m) /\
  m_to x = m_from m /\ m_term x = m_term m.
Proof.
  intros T H x Hin Hnin Hrej. unfold step_dispatch in H.
  assert (H' : (do utd <- l_is_up_to_date st (r_log r) (m_logterm m) (m_index m);
               let isPre := match m_type m with MsgPreVote => true | _ => false end in
               let canVote := N.eqb (r_vote r) (m_from m) || (N.eqb (r_vote r) NoneId && N.eqb (r_lead r) NoneId)
                              || (isPre && (r_term r <? m_term m)) in
               let respT := if isPre then MsgPreVoteResp else MsgVoteResp in
               if canVote && utd then
                 do r <- send r (mkMsg respT (m_from m) 0 (m_term m) 0 0 [] 0 0 None false 0 []);
                 if isPre then Ok (r, ENone) else Ok (set_r_vote (set_r_election_elapsed r 0) (m_from m), ENone)
               else
                 do r <- send r (mkMsg respT (m_from m) 0 (r_term r) 0 0 [] 0 0 None true 0 []); Ok (r, ENone)) = Ok (r', e)).
  { destruct T as [T|T]; rewrite T in H; rewrite T; exact H. }
  clear H. destruct (l_is_up_to_date st (r_log r) (m_logterm m) (m_index m)) as [utd|] eqn:EU; cbn [bind] in H'; [|discriminate].
  cbv zeta in H'.
  destruct (_ && utd) eqn:CV.
  - apply andb_true_iff in CV. destruct CV as [CV U]. subst utd.
    match type of H' with bind ?s _ = _ => destruct s as [r1|] eqn:ES; cbn [bind] in H'; [|discriminate] end.
    unfold send in ES. cbn in ES.
    assert (M1 : exists resp, r_msgs_after_append r1 = r_msgs_after_append r ++ [resp] /\
                              m_to resp = m_from m /\ m_term resp = m_term m /\ r_vote r1 = r_vote r).
    { destruct T as [T|T]; rewrite T in ES; cbn in ES;
        (destruct (N.eqb (m_term m) 0); [discriminate|]); inversion ES; subst; cbn;
        eexists; (split; [reflexivity|]); cbn; auto. }
    destruct M1 as (resp & M1 & TO & TE & VV).
    split; [reflexivity|]. split.
    + apply orb_true_iff in CV. destruct CV as [CV|CV].
      * apply orb_true_iff in CV. destruct CV as [CV|CV].
        -- left. apply N.eqb_eq. exact CV.
        -- right. left. apply andb_true_iff in CV. destruct CV as [A B]. split; apply N.eqb_eq; assumption.
      * right. right. apply andb_true_iff in CV. destruct CV as [A B].
        split; [destruct (m_type m); try discriminate; reflexivity|apply N.ltb_lt; exact B].
    + assert (MA : r_msgs_after_append r' = r_msgs_after_append r1 /\ (m_type m = MsgVote -> r_vote r' = m_from m)).
      { destruct T as [T|T]; rewrite T in H'; inversion H'; subst; cbn; split; auto. intros X; rewrite T in X; discriminate. }
      destruct MA as [MA VR]. split; [exact VR|].
      rewrite MA, M1 in Hin. apply in_app_or in Hin. destruct Hin as [Hin|[Hin|[]]]; [contradiction|].
      subst x. split; assumption.
  - (* rejection: the only new message has reject = true *)
    match type of H' with bind ?s _ = _ => destruct s as [r1|] eqn:ES; cbn [bind] in H'; [|discriminate] end.
    inversion H'; subst; clear H'. unfold send in ES. cbn in ES.
    exfalso.
    destruct T as [T|T]; rewrite T in ES; cbn in ES;
      (destruct (N.eqb (r_term r) 0); [discriminate|]); inversion ES; subst; cbn in Hin;
      apply in_app_or in Hin; destruct Hin as [Hin|[Hin|[]]]; try contradiction; subst x; cbn in Hrej; discriminate.
Qed.

Lemma become_follower_state r0 t l r1 : become_follower st r0 t l = Ok r1 -> r_state r1 = StateFollower.
Proof.
  intros B. unfold become_follower in B. destruct (reset st r0 t); cbn [bind] in B; [|discriminate].
  inversion B. reflexivity.
Qed.

Lemma send_state r0 x r1 : send r0 x = Ok r1 -> r_state r1 = r_state r0.
Proof. intros Sx. unfold send in Sx. inv_ok; reflexivity. Qed.

Lemma handle_append_entries_state r1 m r2 : handle_append_entries st r1 m = Ok r2 -> r_state r2 = r_state r1.
Proof.
  intros HA. unfold handle_append_entries in HA.
  inv_ok; repeat match goal with X : send _ _ = Ok _ |- _ => apply send_state in X end; cbn in *; congruence.
Qed.

(* A candidate becomes leader only in the VoteWon branch of a MsgVoteResp: the tally of the
   recorded votes over the joint configuration (decision function of C12). *)
Theorem candidate_becomes_leader_only_on_quorum r m r' e :
  r_state r = StateCandidate -> step_candidate st r m = Ok (r', e) -> r_state r' = StateLeader ->
  m_type m = MsgVoteResp /\
  joint_vote (c_voters (t_config (r_trk r))) (c_outgoing (t_config (r_trk r)))
             (t_votes (record_vote (r_trk r) (m_from m) (negb (m_reject m)))) = VoteWon /\
  alookup (t_votes (record_vote (r_trk r) (m_from m) (negb (m_reject m)))) (r_id r) = Some true.
Proof.
  intros S H L. unfold step_candidate in H. rewrite S in H. cbn [state_type_eqb] in H.
  pose proof become_follower_state as BF. pose proof send_state as SendS.
  destruct (m_type m) eqn:T; cbn [msg_type_eqb msg_type_num N.eqb Pos.eqb] in H;
    try (inversion H; subst; rewrite S in L; discriminate).
  - (* MsgApp *) exfalso.
    destruct (become_follower st r (m_term m) (m_from m)) as [r1|] eqn:B; cbn [bind] in H; [|discriminate].
    destruct (handle_append_entries st r1 m) as [r2|] eqn:HA; cbn [bind] in H; [|discriminate].
    inversion H; subst. apply BF in B.
    apply handle_append_entries_state in HA. congruence.
  - (* MsgVoteResp *)
    split; [reflexivity|]. cbn [andb] in H. unfold poll, tally_votes in H. cbn [snd set_r_trk r_trk] in H.
    rewrite record_vote_config in H.
    destruct (joint_vote _ _ _) eqn:J.
    + exfalso. inversion H; subst. cbn in L. rewrite S in L. discriminate.
    + exfalso. destruct (become_follower st _ _ _) as [r1|] eqn:B; cbn [bind] in H; [|discriminate].
      inversion H; subst. apply BF in B. congruence.
    + split; [reflexivity|]. cbn [r_state set_r_trk] in H. rewrite S in H. cbn [state_type_eqb] in H.
      cbn [r_trk r_id set_r_trk] in H.
      destruct (alookup (t_votes (record_vote (r_trk r) (m_from m) (negb (m_reject m)))) (r_id r)) as [[|]|];
        [reflexivity| |]; exfalso; inversion H; subst; cbn in L; rewrite S in L; discriminate.
  - (* MsgSnap *) exfalso.
    destruct (become_follower st r (m_term m) (m_from m)) as [r1|] eqn:B; cbn [bind] in H; [|discriminate].
    destruct (handle_snapshot st r1 m) as [r2|] eqn:HS; cbn [bind] in H; [|discriminate].
    inversion H; subst. apply BF in B.
    assert (r_state r' <> StateLeader).
    { unfold handle_snapshot in HS.
      destruct (restore st r1 _) as [[r3 ok]|] eqn:R; cbn [bind] in HS; [|discriminate].
      apply SendS in HS. rewrite HS.
      unfold restore in R. rewrite B in R. cbn [state_type_eqb negb] in R.
      inv_ok; cbn; try congruence.
      match goal with X : switch_to_config _ _ _ _ = Ok _ |- _ => unfold switch_to_config in X; cbn in X; rewrite B in X; cbn in X;
        rewrite andb_false_r in X; cbn in X; inversion X; subst; cbn; congruence end. }
    contradiction.
  - (* MsgHeartbeat *) exfalso.
    destruct (become_follower st r (m_term m) (m_from m)) as [r1|] eqn:B; cbn [bind] in H; [|discriminate].
    destruct (handle_heartbeat st r1 m) as [r2|] eqn:HH; cbn [bind] in H; [|discriminate].
    inversion H; subst. apply BF in B.
    unfold handle_heartbeat in HH. destruct (l_commit_to st _ _); cbn [bind] in HH; [|discriminate].
    apply SendS in HH. cbn in HH. congruence.
Qed.

(* ---------- C06: commit advancement at the leader ---------- *)

(* maybeCommit moves the commit index only to the quorum index computed by C12's function over
   the Match values, and only if the entry there carries the leader's current term. *)
Theorem maybe_commit_spec r r' b :
  maybe_commit st r = Ok (r', b) ->
  (b = false -> r' = r) /\
  (b = true ->
     l_committed (r_log r') = t_committed (r_trk r) /\
     l_committed (r_log r) < t_committed (r_trk r) /\
     l_match_term st (r_log r) (t_committed (r_trk r)) (r_term r) = true /\
     t_committed (r_trk r) <= l_last_index st (r_log r)).
Proof.
  unfold maybe_commit, l_maybe_commit. intros H.
  destruct (negb (N.eqb (r_term r) 0) && (l_committed (r_log r) <? t_committed (r_trk r)) &&
            l_match_term st (r_log r) (t_committed (r_trk r)) (r_term r)) eqn:C; cbn [bind] in H.
  - unfold l_commit_to in H.
    apply andb_true_iff in C. destruct C as [C M]. apply andb_true_iff in C. destruct C as [_ C].
    rewrite C in H. destruct (l_last_index st (r_log r) <? t_committed (r_trk r)) eqn:L; cbn [bind] in H; [discriminate|].
    inversion H; subst; clear H. split; [discriminate|]. intros _. cbn.
    apply N.ltb_lt in C. apply N.ltb_ge in L. auto.
  - inversion H; subst; clear H. split; [|discriminate]. intros _. destruct r; reflexivity.
Qed.

(* heartbeats carry min(Match, committed) *)
Theorem heartbeat_commit_clamped r to ctx r' pr :
  get_progress r to = Some pr -> send_heartbeat r to ctx = Ok r' ->
  exists m, r_msgs r' = r_msgs r ++ [m] /\ m_type m = MsgHeartbeat /\
            m_commit m = N.min (pr_match pr) (l_committed (r_log r)).
Proof.
  unfold send_heartbeat. intros G H. rewrite G in H.
  match type of H with bind ?s _ = _ => destruct s as [r1|] eqn:ES; cbn [bind] in H; [|discriminate] end.
  inversion H; subst; clear H. unfold send in ES. cbn in ES.
  destruct (N.eqb to (r_id r)); [discriminate|]. inversion ES; subst; clear ES. cbn.
  eexists. split; [reflexivity|]. cbn. auto.
Qed.

(* a follower adopts min(leader commit, last new index) and never moves beyond its log *)
Theorem commit_to_bounded l c l' :
  l_commit_to st l c = Ok l' -> l_committed l <= l_last_index st l -> l_committed l' <= l_last_index st l.
Proof.
  unfold l_commit_to. intros H I.
  destruct (l_committed l <? c); [|inversion H; subst; exact I].
  destruct (l_last_index st l <? c) eqn:L; [discriminate|]. inversion H; subst. cbn. apply N.ltb_ge in L. exact L.
Qed.

(* ---------- C09: restore guards ---------- *)

Theorem restore_guards r s r' ok :
  restore st r s = Ok (r', ok) ->
  (s_index s <= l_committed (r_log r) -> r' = r /\ ok = false) /\
  (ok = true ->
     l_committed (r_log r) < s_index s /\ r_state r = StateFollower /\
     l_match_term st (r_log r) (s_index s) (s_term s) = false /\
     (In (r_id r) (cs_voters (s_conf s)) \/ In (r_id r) (cs_learners (s_conf s)) \/
      In (r_id r) (cs_voters_outgoing (s_conf s)))) /\
  (ok = false -> l_unstable (r_log r') = l_unstable (r_log r) \/ r_state r <> StateFollower).
Proof.
  unfold restore. intros H. split; [|split].
  - intros L. apply N.leb_le in L. rewrite L in H. inversion H. auto.
  - intros OK. subst ok.
    destruct (s_index s <=? l_committed (r_log r)) eqn:L; [inversion H|]. apply N.leb_gt in L.
    destruct (negb (state_type_eqb (r_state r) StateFollower)) eqn:S.
    { destruct (become_follower st r (r_term r + 1) NoneId); cbn [bind] in H; inversion H. }
    cbv zeta in H.
    destruct (negb (existsb _ _ || existsb _ _ || existsb _ _)) eqn:F; [inversion H|].
    destruct (l_match_term st (r_log r) (s_index s) (s_term s)) eqn:M.
    { destruct (l_commit_to st _ _); cbn [bind] in H; inversion H. }
    split; [exact L|]. split.
    + destruct (r_state r); try discriminate; reflexivity.
    + split; [reflexivity|]. apply negb_false_iff in F.
      assert (EX : forall l, existsb (N.eqb (r_id r)) l = true -> In (r_id r) l).
      { intros l X. apply existsb_exists in X. destruct X as [y [Y1 Y2]]. apply N.eqb_eq in Y2. subst. exact Y1. }
      apply orb_true_iff in F. destruct F as [F|F]; [apply orb_true_iff in F; destruct F as [F|F]|]; auto.
  - intros NOK. subst ok.
    destruct (s_index s <=? l_committed (r_log r)); [inversion H; left; reflexivity|].
    destruct (negb (state_type_eqb (r_state r) StateFollower)) eqn:S.
    { right. destruct (r_state r); try discriminate; congruence. }
    cbv zeta in H.
    destruct (negb (existsb _ _ || existsb _ _ || existsb _ _)); [inversion H; left; reflexivity|].
    destruct (l_match_term st (r_log r) (s_index s) (s_term s)).
    { unfold l_commit_to in H. left.
      destruct (_ <? _); [destruct (_ <? _); [discriminate|]|]; inversion H; reflexivity. }
    destruct (cc_restore _ _ _) as [[cfg pm]|]; [|discriminate].
    destruct (switch_to_config st _ cfg pm) as [[r2 cs2]|]; cbn [bind] in H; [|discriminate].
    destruct (confstate_equiv _ _); inversion H.
Qed.

(* ---------- C10: the propose-time gate, campaigning, new leaders ---------- *)

(* A configuration-change entry survives the gate (with validation on) only if no earlier
   change may still be unapplied, the joint/leave shapes fit, and the current configuration
   accepts the change (a dry run of the Changer: the F6 repair); otherwise it is replaced by an
   empty normal entry.  A surviving change moves pendingConfIndex to its own index. *)
Theorem prop_gate_single r li e r' es' :
  is_cc_type (e_type e) = true -> r_disable_cc_validation r = false ->
  prop_gate r li 0 [e] = (r', es') ->
  (r_pending_conf_index r <= l_applied (r_log r) /\
   (0 <? nlen (c_outgoing (t_config (r_trk r)))) = e_leave e /\
   cc_accepted r li e = true /\
   es' = [e] /\ r_pending_conf_index r' = li + 1)
  \/
  (es' = [mkEntry 0 0 EntryNormal true [] false false] /\ r' = r).
Proof.
  intros CC V H. cbn [prop_gate] in H. rewrite CC, V in H. cbn [negb andb] in H.
  destruct (l_applied (r_log r) <? r_pending_conf_index r) eqn:P; cbn [orb] in H.
  - right. rewrite andb_true_r in H. inversion H. auto.
  - destruct (0 <? nlen (c_outgoing (t_config (r_trk r)))) eqn:J; destruct (e_leave e) eqn:L;
      destruct (cc_accepted r li e) eqn:A; cbn [negb andb orb] in H;
      inversion H; subst; auto; left; apply N.ltb_ge in P; repeat split; auto; cbn; lia.
Qed.

(* a change that the current configuration does not accept (one that would remove every voter,
   say) never enters the log of a validating leader *)
Theorem prop_gate_refuses_unacceptable r li e r' es' :
  is_cc_type (e_type e) = true -> r_disable_cc_validation r = false ->
  cc_accepted r li e = false ->
  prop_gate r li 0 [e] = (r', es') ->
  es' = [mkEntry 0 0 EntryNormal true [] false false] /\ r' = r.
Proof.
  intros CC V A H. destruct (prop_gate_single r li e r' es' CC V H) as [(_ & _ & A' & _)|R]; [congruence|exact R].
Qed.

(* hup refuses to campaign while a committed configuration change is unapplied *)
Theorem hup_refuses_unapplied_cc r t r' :
  has_unapplied_conf_changes st r = Ok true -> hup st r t = Ok r' -> r' = r.
Proof.
  unfold hup. intros U H. destruct (state_type_eqb _ _); [inversion H; reflexivity|].
  destruct (negb (promotable r)); [inversion H; reflexivity|].
  rewrite U in H. cbn in H. inversion H. reflexivity.
Qed.

(* a new leader treats its whole log as possibly holding an unapplied change *)
Theorem become_leader_pending_conf r r' :
  become_leader st r = Ok r' -> exists r0, reset st r (r_term r) = Ok r0 /\
  r_pending_conf_index r' = l_last_index st (r_log r0) /\ r_state r' = StateLeader /\ r_lead r' = r_id r'.
Proof.
  unfold become_leader. intros H. destruct (state_type_eqb _ _); [discriminate|].
  destruct (reset st r (r_term r)) as [r0|] eqn:R; cbn [bind] in H; [|discriminate].
  exists r0. split; [reflexivity|].
  destruct (get_progress _ _); [|discriminate].
  match type of H with bind ?a _ = _ => destruct a as [[r2 b]|] eqn:A; cbn [bind] in H; [|discriminate] end.
  cbn [snd fst] in H. destruct b; [|discriminate]. inversion H; subst; clear H.
  unfold append_entry in A.
  match type of A with (let '(_, _) := ?x in _) = _ => destruct x as [r3 ok] eqn:I end.
  unfold increase_uncommitted_size in I.
  destruct ok; cbn [negb] in A; [|inversion A].
  destruct (l_append st _ _) as [l|] eqn:LA; cbn [bind] in A; [|discriminate].
  match type of A with bind ?s _ = _ => destruct s as [r4|] eqn:S; cbn [bind] in A; [|discriminate] end.
  inversion A; subst; clear A. unfold send in S. cbn in S.
  destruct (_ && _) in I; inversion I; subst; cbn in S; inversion S; subst; cbn; unfold last_index; cbn; auto.
Qed.

(* ---------- C11: ReadIndex at the leader ---------- *)

(* A leader (sole voter or not) that has not committed an entry of its own term produces no
   read state and no response for a MsgReadIndex: it only postpones it. *)
Theorem read_index_postponed r m r' e :
  m_type m = MsgReadIndex -> committed_entry_in_current_term st r = false ->
  step_leader st r m = Ok (r', e) ->
  r' = set_r_pending_read_index r (r_pending_read_index r ++ [m]).
Proof.
  intros T C H. unfold step_leader in H. rewrite T, C in H. cbn in H. inversion H. reflexivity.
Qed.

(* A leader that is not itself a voter of its configuration (it was removed and has not stepped
   down) never takes the sole-voter shortcut: under ReadOnlySafe the request is queued and a
   heartbeat round to the voters is started, whatever the size of the voter set. *)
Theorem non_voter_leader_asks_quorum r m r' :
  existsb (N.eqb (r_id r)) (c_voters (t_config (r_trk r))) = false ->
  ro_option (r_read_only r) = ReadOnlySafe ->
  send_msg_read_index_response r m = Ok r' ->
  exists ro,
    ro_recv_ack (ro_add_request (r_read_only r) (l_committed (r_log r)) m) (r_id r)
                (ro_heartbeat_ctx (ro_add_request (r_read_only r) (l_committed (r_log r)) m)) = Ok ro /\
    bcast_heartbeat (set_r_read_only r ro) = Ok r'.
Proof.
  intros NV RO H. unfold send_msg_read_index_response in H. rewrite NV, RO in H. cbn [andb] in H.
  match type of H with bind ?x _ = _ => destruct x as [ro|] eqn:E; cbn [bind] in H; [|discriminate] end.
  exists ro. split; [reflexivity|exact H].
Qed.

(* reads are confirmed only up to the quorum order statistic of the acknowledged positions *)
Theorem ro_advance_quorum ro c0 c1 ro' out :
  ro_maybe_advance ro c0 c1 = Ok (ro', out) ->
  (out = [] /\ ro' = ro) \/
  (ro_confirmed ro < joint_committed c0 c1 (ro_acks ro) /\
   ro_confirmed ro' = joint_committed c0 c1 (ro_acks ro) /\
   nlen out = joint_committed c0 c1 (ro_acks ro) - ro_confirmed ro /\
   ro_unconfirmed ro = out ++ ro_unconfirmed ro').
Proof.
  unfold ro_maybe_advance. intros H.
  destruct (_ <=? _) eqn:L; [inversion H; left; auto|]. apply N.leb_gt in L.
  destruct (nlen (ro_unconfirmed ro) <? _) eqn:K; [discriminate|]. apply N.ltb_ge in K.
  inversion H; subst; clear H. right. cbn. split; [exact L|]. split; [reflexivity|].
  set (k := joint_committed c0 c1 (ro_acks ro) - ro_confirmed ro) in *.
  unfold ntake, ndrop. destruct (nlen (ro_unconfirmed ro) <=? k) eqn:Q.
  - apply N.leb_le in Q. assert (nlen (ro_unconfirmed ro) = k) by lia. split; [assumption|]. rewrite app_nil_r. reflexivity.
  - split; [|symmetry; apply firstn_skipn]. unfold nlen. rewrite firstn_length.
    apply N.leb_gt in Q. unfold nlen in Q. lia.
Qed.

(* ... and that order statistic is acknowledged by a majority of EACH half of a joint
   configuration: reads that are confirmed were answered by a majority of the incoming voters and
   by a majority of the outgoing voters (an empty half asks for nothing) *)
Lemma majority_acked_mono vs ack i j : j <= i -> majority_acked vs ack i -> majority_acked vs ack j.
Proof.
  unfold majority_acked. intros L H. rewrite ackers_count in *.
  pose proof (count_ge_mono j i (map (ack_or_zero ack) vs) L). lia.
Qed.

Theorem ro_advance_both_majorities ro c0 c1 ro' out :
  ro_maybe_advance ro c0 c1 = Ok (ro', out) -> out <> [] ->
  (c0 <> [] -> majority_acked c0 (ro_acks ro) (ro_confirmed ro')) /\
  (c1 <> [] -> majority_acked c1 (ro_acks ro) (ro_confirmed ro')).
Proof.
  intros H Hne. destruct (ro_advance_quorum _ _ _ _ _ H) as [[E _]|(_ & E & _)]; [contradiction|].
  rewrite E, joint_committed_min. split; intros Hc.
  - apply (majority_acked_mono _ _ (majority_committed c0 (ro_acks ro))); [lia|].
    apply majority_committed_greatest; exact Hc.
  - apply (majority_acked_mono _ _ (majority_committed c1 (ro_acks ro))); [lia|].
    apply majority_committed_greatest; exact Hc.
Qed.

(* read bookkeeping is dropped on every role or term change (reset) *)
Theorem reset_clears_read_only r t r' :
  reset st r t = Ok r' -> r_read_only r' = new_readonly (ro_option (r_read_only r)).
Proof.
  unfold reset. intros H. destruct (negb _);
  (destruct (reset_randomized _) as [r1|] eqn:E; cbn [bind] in H; [|discriminate]);
  inversion H; subst; cbn; unfold reset_randomized in E; destruct (r_draws _); inversion E; subst; reflexivity.
Qed.

(* ... and so is everything a node knew about its peers' logs: after reset every peer's Match is 0
   and it is probed again (what was acknowledged in an earlier term says nothing about the peer's
   log now: its tail may have been replaced since) *)
Theorem reset_forgets_matches r t r' id pr :
  reset st r t = Ok r' -> In (id, pr) (t_progress (r_trk r')) -> id <> r_id r ->
  pr_match pr = 0 /\ pr_state_ pr = StateProbe /\ pr_pending_snapshot pr = 0 /\ pr_recent_active pr = false.
Proof.
  unfold reset. intros H Hin Hne. destruct (negb _);
  (destruct (reset_randomized _) as [r1|] eqn:E; cbn [bind] in H; [|discriminate]);
  inversion H; subst; clear H; cbn in Hin; apply in_map_iff in Hin; destruct Hin as ([id0 p0] & Q & _);
  inversion Q; subst; clear Q; cbn [fst snd] in *;
  unfold reset_randomized in E; destruct (r_draws _); inversion E; subst; cbn in *;
  (destruct (N.eqb_spec id r_id0) as [X|_] || destruct (N.eqb_spec id (r_id r)) as [X|_]); try (exfalso; apply Hne; exact X);
  cbn; repeat split; reflexivity.
Qed.

(* what a node answers to a MsgSnap: one MsgAppResp, held back until the write is durable, that
   vouches for the whole log only if the snapshot was installed (the log is then the snapshot point
   and nothing else); a snapshot that was ignored, or that only moved the commit index forward, is
   answered with the commit index: the tail beyond it was not checked against the sender's log *)
Theorem snapshot_answer r m r' :
  handle_snapshot st r m = Ok r' ->
  exists r1 ok a,
    restore st r (match m_snapshot m with Some s => s | None => empty_snapshot end) = Ok (r1, ok) /\
    r_msgs_after_append r' = r_msgs_after_append r1 ++ [a] /\ r_msgs r' = r_msgs r1 /\
    m_type a = MsgAppResp /\ m_to a = m_from m /\ m_from a = r_id r1 /\ m_term a = r_term r1 /\
    m_reject a = false /\
    m_index a = (if ok then last_index st r1 else l_committed (r_log r1)).
Proof.
  unfold handle_snapshot. intros H.
  destruct (restore st r _) as [[r1 ok]|] eqn:E; cbn [bind] in H; [|discriminate].
  exists r1, ok. unfold send in H. cbn in H. inversion H; subst; clear H.
  eexists. split; [reflexivity|]. cbn. repeat split; reflexivity.
Qed.

(* ---------- C14 / model soundness: the nested Step call ---------- *)

(* The nested Step issued by appliedTo carries a MsgProp with term 0, whose handling does not
   depend on the nested-call parameter: two levels of [step_gen] are exact, the
   [PUnreachable] leaf is never reached. *)
Theorem step_gen_prop_independent k1 k2 r m :
  m_type m = MsgProp -> m_term m = 0 -> step_gen st k1 r m = step_gen st k2 r m.
Proof.
  intros T Z. unfold step_gen, step_preamble, step_dispatch. rewrite Z, T. reflexivity.
Qed.

(* ---------- C15: liveness mechanisms ---------- *)

(* a heartbeat response clears the flow-control pause of the follower *)
Theorem heartbeat_resp_unpauses r m r' e pr :
  m_type m = MsgHeartbeatResp -> get_progress r (m_from m) = Some pr ->
  pr_match pr = l_last_index st (r_log r) -> pr_state_ pr <> StateProbe -> m_context m = [] ->
  step_leader st r m = Ok (r', e) ->
  get_progress r' (m_from m) = Some (pr_with_paused (pr_with_recent_active pr true) false).
Proof.
  intros T G M NP C H. unfold step_leader in H. rewrite T, G in H. cbv zeta in H. rewrite C in H.
  assert (Z : (pr_match (pr_with_paused (pr_with_recent_active pr true) false) <?
               last_index st (put_progress r (m_from m) (pr_with_paused (pr_with_recent_active pr true) false))) = false).
  { cbn. unfold last_index. cbn. rewrite M. apply N.ltb_irrefl. }
  rewrite Z in H.
  assert (Z2 : pr_state_eqb (pr_state_ (pr_with_paused (pr_with_recent_active pr true) false)) StateProbe = false).
  { cbn. destruct (pr_state_ pr); try reflexivity. contradiction NP. reflexivity. }
  rewrite Z2 in H. cbn [orb bind] in H.
  destruct (ro_option (r_read_only _)); inversion H; subst; unfold get_progress, put_progress; cbn.
  all: clear. all: induction (t_progress (r_trk r)) as [|[k v] l IH]; cbn; [rewrite N.eqb_refl; reflexivity|].
  all: destruct (N.eqb (m_from m) k) eqn:E; cbn; [rewrite N.eqb_refl; reflexivity|].
  all: destruct (N.ltb (m_from m) k); cbn; [rewrite N.eqb_refl; reflexivity|rewrite E; exact IH].
Qed.

(* a leadership transfer is aborted when the election timeout elapses (outside an auto-leave joint
   configuration; inside one the same tick also retries the proposal that leaves it, see
   tick_heartbeat) *)
Theorem transfer_aborted_on_timeout r r' :
  r_state r = StateLeader -> r_check_quorum r = false ->
  c_auto_leave (t_config (r_trk r)) = false ->
  r_election_timeout r <= r_election_elapsed r + 1 ->
  r_heartbeat_elapsed r + 1 < r_heartbeat_timeout r ->
  tick_heartbeat st r = Ok r' -> r_lead_transferee r' = NoneId.
Proof.
  intros S CQ AL E HB H. unfold tick_heartbeat in H. cbv zeta in H. cbn in H. rewrite CQ in H.
  apply N.leb_le in E. rewrite E in H. cbn in H. rewrite S in H. cbn in H.
  assert (Z : (r_heartbeat_timeout r <=? r_heartbeat_elapsed r + 1) = false) by (apply N.leb_gt; exact HB).
  destruct (negb (N.eqb (r_lead_transferee r) NoneId)) eqn:X; cbn in H.
  - unfold applied_to_top, applied_to in H. cbn in H. rewrite AL in H. cbn in H.
    destruct (l_applied_to _ _ _) as [l|]; cbn [bind] in H; [|discriminate]. cbn in H.
    rewrite S in H. cbn in H. rewrite Z in H. inversion H; subst; cbn. reflexivity.
  - rewrite S in H. cbn in H. rewrite Z in H. inversion H; subst; cbn.
    apply negb_false_iff, N.eqb_eq in X. exact X.
Qed.

(* ---------- C20: proposals ---------- *)

(* stamping keeps type, payload and order; only term and index are assigned *)
Theorem stamp_preserves term : forall es next,
  map e_type (stamp term next es) = map e_type es /\
  map e_data (stamp term next es) = map e_data es /\
  length (stamp term next es) = length es /\
  Forall (fun e => e_term e = term) (stamp term next es).
Proof.
  induction es as [|e es IH]; intros next; cbn; [repeat split; constructor|].
  destruct (IH (next + 1)) as (A & B & C & D). rewrite A, B, C. repeat split. constructor; [reflexivity|exact D].
Qed.

(* a follower forwards a proposal unchanged to its leader, or reports it dropped and
   queues nothing *)
Theorem follower_forwards_or_drops r m r' e :
  m_type m = MsgProp -> m_term m = 0 -> step_follower st r m = Ok (r', e) ->
  (e = ErrProposalDropped /\ r' = r) \/
  (e = ENone /\ r_lead r <> NoneId /\ exists m', r_msgs r' = r_msgs r ++ [m'] /\
     m_entries m' = m_entries m /\ m_to m' = r_lead r /\ m_type m' = MsgProp).
Proof.
  intros T Z H. unfold step_follower in H. rewrite T in H.
  destruct (N.eqb (r_lead r) NoneId) eqn:L; [inversion H; left; auto|].
  destruct (r_disable_proposal_forwarding r); [inversion H; left; auto|].
  match type of H with bind ?s _ = _ => destruct s as [r1|] eqn:S; cbn [bind] in H; [|discriminate] end.
  inversion H; subst; clear H. right. split; [reflexivity|]. split; [apply N.eqb_neq; exact L|].
  unfold send in S. cbn [m_from set_to] in S.
  destruct (N.eqb (m_from m) NoneId); cbn [m_type m_term m_to set_from set_to] in S; rewrite T, Z in S; cbn in S; rewrite ?T in S.
  all: (destruct (N.eqb (r_lead r) (r_id r)); [discriminate|]); inversion S; subst; cbn;
    eexists; (split; [reflexivity|]); cbn; auto.
Qed.

(* a candidate never accepts a proposal *)
Theorem candidate_drops_proposals r m r' e :
  m_type m = MsgProp -> step_candidate st r m = Ok (r', e) -> e = ErrProposalDropped /\ r' = r.
Proof. intros T H. unfold step_candidate in H. rewrite T in H. inversion H. auto. Qed.

End WithStorage.
