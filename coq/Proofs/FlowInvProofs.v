(* FlowInvProofs.v: the inflight window of every follower, as an invariant of the node over every
   function of raft.go (C16).
   [iok i]: the ring buffer represents a window (InflRefine.infl_ok) that holds at most [size]
   messages and, under a byte limit, all but its newest message below the limit.
   [pinv r]: every Progress of the tracker has such a window, sized by the node's MaxInflightMsgs
   and MaxInflightBytes.  The invariant is established by newRaft / reset / the configuration
   changer (fresh windows) and kept by every message, tick, proposal, configuration change and
   snapshot restore: a leader never has more than MaxInflightMsgs appends (nor more than
   MaxInflightBytes beyond one message) in flight to any follower, in any reachable state. *)
From Coq Require Import List NArith Bool Lia.
From RaftV Require Import Base Types Quorum Progress Tracker Storage Log Raft RawNode Tactics
     RaftMono RaftRouting NodeProps FlowProofs InflRefine CheckQuorumProofs.
Import ListNotations.
Open Scope N_scope.

(* ---------- one window ---------- *)

Definition iok (i : inflights) : Prop :=
  infl_ok i /\ window_inv (in_size i) (in_maxbytes i) (infl_window i).

Lemma iok_step i o i' :
  iok i -> cstep i o = Ok i' -> iok i' /\ in_size i' = in_size i /\ in_maxbytes i' = in_maxbytes i.
Proof.
  intros [O W] H. pose proof (infl_refines i o O) as R. rewrite H in R.
  destruct (astep (in_size i) (in_maxbytes i) (infl_window i) o) as [w'|] eqn:A; [|contradiction].
  destruct R as (O' & WW & SS & MM & _). split; [|auto]. split; [exact O'|].
  rewrite SS, MM, WW. eapply window_inv_step; eassumption.
Qed.

Lemma iok_new size mb : iok (new_inflights size mb).
Proof.
  destruct (infl_new_ok size mb) as [O W]. split; [exact O|]. rewrite W.
  unfold window_inv. cbn. split; [lia|]. intros _. right. reflexivity.
Qed.

Lemma iok_add i idx b i' : iok i -> infl_add i idx b = Ok i' -> iok i' /\ in_size i' = in_size i /\ in_maxbytes i' = in_maxbytes i.
Proof. intros O H. exact (iok_step i (IAdd idx b) i' O H). Qed.
Lemma iok_free i to : iok i -> iok (infl_free_le i to) /\ in_size (infl_free_le i to) = in_size i /\ in_maxbytes (infl_free_le i to) = in_maxbytes i.
Proof. intros O. exact (iok_step i (IFree to) _ O eq_refl). Qed.
Lemma iok_reset i : iok i -> iok (infl_reset i) /\ in_size (infl_reset i) = in_size i /\ in_maxbytes (infl_reset i) = in_maxbytes i.
Proof. intros O. exact (iok_step i IReset _ O eq_refl). Qed.

(* what the invariant says in the end: at most [size] messages in flight, and under a byte limit
   everything but the newest message stays below it *)
Lemma iok_bounds i : iok i ->
  infl_count i <= in_size i /\
  (in_maxbytes i <> 0 -> sumb (removelast (infl_window i)) < in_maxbytes i \/ infl_window i = []).
Proof.
  intros [O [L B]]. split; [|exact B].
  unfold infl_count. pose proof (window_length i O) as WL. unfold nlen in L. lia.
Qed.

(* ---------- one Progress ---------- *)

Definition prok (M B : N) (p : progress) : Prop :=
  iok (pr_inflights p) /\ in_size (pr_inflights p) = M /\ in_maxbytes (pr_inflights p) = B.

Lemma prok_same_infl M B p p' : pr_inflights p' = pr_inflights p -> prok M B p -> prok M B p'.
Proof. unfold prok. intros E. rewrite E. auto. Qed.

Lemma prok_reset_state M B p s : prok M B p -> prok M B (pr_reset_state p s).
Proof.
  unfold prok, pr_reset_state. cbn [pr_inflights]. intros (O & SS & MM).
  destruct (iok_reset _ O) as (O' & S' & M'). rewrite S', M'. auto.
Qed.

Lemma prok_become_probe M B p : prok M B p -> prok M B (pr_become_probe p).
Proof.
  intros H. unfold pr_become_probe.
  destruct (pr_state_eqb _ _); (eapply prok_same_infl; [|apply (prok_reset_state _ _ _ StateProbe H)]); reflexivity.
Qed.

Lemma prok_become_replicate M B p : prok M B p -> prok M B (pr_become_replicate p).
Proof.
  intros H. unfold pr_become_replicate.
  eapply prok_same_infl; [|apply (prok_reset_state _ _ _ StateReplicate H)]. reflexivity.
Qed.

Lemma prok_become_snapshot M B p i : prok M B p -> prok M B (pr_become_snapshot p i).
Proof.
  intros H. unfold pr_become_snapshot.
  eapply prok_same_infl; [|apply (prok_reset_state _ _ _ StateSnapshot H)]. reflexivity.
Qed.

Lemma prok_sent_entries M B p n b p' : prok M B p -> pr_sent_entries p n b = Ok p' -> prok M B p'.
Proof.
  unfold pr_sent_entries. intros H E. destruct (pr_state_ p); [| |discriminate].
  - destruct (0 <? n); inversion E; subst; (eapply prok_same_infl; [|exact H]); reflexivity.
  - destruct (0 <? n).
    + destruct (infl_add _ _ _) as [i'|] eqn:EA; cbn [bind] in E; [|discriminate].
      inversion E; subst. destruct H as (O & SS & MM).
      destruct (iok_add _ _ _ _ O EA) as (O' & S' & M'). unfold prok. cbn [pr_inflights pr_with_paused pr_with_inflights]. rewrite S', M'. auto.
    + cbn [bind] in E. inversion E; subst. eapply prok_same_infl; [|exact H]. reflexivity.
Qed.

Lemma prok_maybe_update M B p n p' u : prok M B p -> pr_maybe_update p n = (p', u) -> prok M B p'.
Proof.
  unfold pr_maybe_update. intros H E. destruct (n <=? pr_match p); inversion E; subst; [exact H|].
  eapply prok_same_infl; [|exact H]. reflexivity.
Qed.

Lemma prok_maybe_decr_to M B p r h p' d : prok M B p -> pr_maybe_decr_to p r h = (p', d) -> prok M B p'.
Proof.
  unfold pr_maybe_decr_to. intros H E.
  destruct (pr_state_eqb _ _).
  - destruct (r <=? pr_match p); inversion E; subst; [exact H|]. eapply prok_same_infl; [|exact H]. reflexivity.
  - destruct (negb _); inversion E; subst; [exact H|]. eapply prok_same_infl; [|exact H]. reflexivity.
Qed.

Lemma prok_free M B p to : prok M B p -> prok M B (pr_with_inflights p (infl_free_le (pr_inflights p) to)).
Proof.
  unfold prok. cbn [pr_inflights pr_with_inflights]. intros (O & SS & MM). destruct (iok_free _ to O) as (O' & S' & M'). rewrite S', M'. auto.
Qed.

(* ---------- a progress map ---------- *)

Definition pmok (M B : N) (p : progress_map) : Prop := Forall (fun kv => prok M B (snd kv)) p.

Lemma forall_aremove {A} (P : N * A -> Prop) l k : Forall P l -> Forall P (aremove l k).
Proof.
  induction l as [|[k' v'] l IH]; cbn; intros F; [constructor|].
  inversion F as [|? ? F1 F2]; subst. destruct (N.eqb k k'); [apply IH; exact F2|].
  constructor; [exact F1|apply IH; exact F2].
Qed.

Lemma pmok_lookup M B p id pr : pmok M B p -> alookup p id = Some pr -> prok M B pr.
Proof. unfold pmok. intros F L. apply alookup_in in L. rewrite Forall_forall in F. exact (F _ L). Qed.

Lemma pmok_insert M B p id pr : pmok M B p -> prok M B pr -> pmok M B (ainsert p id pr).
Proof. unfold pmok. intros F H. apply forall_ainsert; assumption. Qed.

Lemma pmok_remove M B p id : pmok M B p -> pmok M B (aremove p id).
Proof. unfold pmok. apply forall_aremove. Qed.

(* ---------- the configuration changer creates and keeps good windows ---------- *)

Lemma init_progress_ok M B li c p id l c' p' :
  pmok M B p -> init_progress M B li c p id l = (c', p') -> pmok M B p'.
Proof.
  unfold init_progress. intros F E. inversion E; subst. apply pmok_insert; [exact F|].
  unfold prok. cbn [pr_inflights]. split; [apply iok_new|]. auto.
Qed.

Lemma cc_remove_ok M B c p id c' p' : pmok M B p -> cc_remove c p id = (c', p') -> pmok M B p'.
Proof.
  unfold cc_remove. intros F E. destruct (negb _); [inversion E; subst; exact F|].
  destruct (smem _ _); inversion E; subst; [exact F|apply pmok_remove; exact F].
Qed.

Lemma make_voter_ok M B li c p id c' p' : pmok M B p -> make_voter M B li c p id = (c', p') -> pmok M B p'.
Proof.
  unfold make_voter. intros F E. destruct (alookup p id) as [pr|] eqn:L.
  - inversion E; subst. apply pmok_insert; [exact F|].
    eapply prok_same_infl; [|eapply pmok_lookup; eassumption]. reflexivity.
  - eapply init_progress_ok; eassumption.
Qed.

Lemma make_learner_ok M B li c p id c' p' : pmok M B p -> make_learner M B li c p id = (c', p') -> pmok M B p'.
Proof.
  unfold make_learner. intros F E. destruct (alookup p id) as [pr|] eqn:L.
  - destruct (pr_is_learner pr); [inversion E; subst; exact F|].
    destruct (cc_remove c p id) as [c1 p1] eqn:ER. apply (cc_remove_ok M B) in ER; [|exact F].
    pose proof (pmok_lookup _ _ _ _ _ F L) as PK.
    destruct (smem _ _); inversion E; subst; apply pmok_insert; try exact ER; exact PK.
  - eapply init_progress_ok; eassumption.
Qed.

Lemma cc_apply_ok M B li ccs : forall c p c' p',
  pmok M B p -> cc_apply M B li c p ccs = inl (c', p') -> pmok M B p'.
Proof.
  induction ccs as [|cc ccs IH]; intros c p c' p' F E; cbn in E.
  - destruct (N.eqb _ 0); [discriminate|]. inversion E; subst. exact F.
  - destruct (N.eqb (ccs_node cc) 0); [eapply IH; eassumption|].
    destruct (ccs_type cc).
    + destruct (make_voter M B li c p (ccs_node cc)) as [c1 p1] eqn:E1.
      eapply IH; [|exact E]. eapply make_voter_ok; eassumption.
    + destruct (cc_remove c p (ccs_node cc)) as [c1 p1] eqn:E1.
      eapply IH; [|exact E]. eapply cc_remove_ok; eassumption.
    + eapply IH; eassumption.
    + destruct (make_learner M B li c p (ccs_node cc)) as [c1 p1] eqn:E1.
      eapply IH; [|exact E]. eapply make_learner_ok; eassumption.
    + discriminate.
Qed.

Lemma check_and_return_ok c p c' p' : check_and_return c p = inl (c', p') -> p' = p.
Proof. unfold check_and_return. destruct (check_invariants c p); [|discriminate]. intros E. inversion E. reflexivity. Qed.

Definition tok_trk (t : tracker) : Prop := pmok (t_max_inflight t) (t_max_inflight_bytes t) (t_progress t).

Lemma changer_simple_pm t li ccs c p : tok_trk t -> changer_simple t li ccs = inl (c, p) ->
  pmok (t_max_inflight t) (t_max_inflight_bytes t) p.
Proof.
  unfold changer_simple, tok_trk. intros F E.
  destruct (check_and_return _ _) as [[c0 p0]|] eqn:E0; [|discriminate].
  apply check_and_return_ok in E0. subst p0.
  destruct (joint c0); [discriminate|].
  destruct (cc_apply _ _ _ _ _ _) as [[c2 p2]|] eqn:E2; [|discriminate].
  destruct (1 <? _); [discriminate|]. apply check_and_return_ok in E. subst p.
  eapply cc_apply_ok; eassumption.
Qed.

Lemma changer_enter_joint_pm t li al ccs c p : tok_trk t -> changer_enter_joint t li al ccs = inl (c, p) ->
  pmok (t_max_inflight t) (t_max_inflight_bytes t) p.
Proof.
  unfold changer_enter_joint, tok_trk. intros F E.
  destruct (check_and_return _ _) as [[c0 p0]|] eqn:E0; [|discriminate].
  apply check_and_return_ok in E0. subst p0.
  destruct (joint c0); [discriminate|]. destruct (N.eqb _ 0); [discriminate|].
  destruct (cc_apply _ _ _ _ _ _) as [[c2 p2]|] eqn:E2; [|discriminate].
  apply check_and_return_ok in E. subst p. eapply cc_apply_ok; eassumption.
Qed.

Lemma fold_learner_ok M B ids : forall p, pmok M B p ->
  pmok M B (fold_left (fun p id => match alookup p id with
                                   | Some pr => ainsert p id (pr_with_is_learner pr true)
                                   | None => p end) ids p).
Proof.
  induction ids as [|id ids IH]; intros p F; cbn; [exact F|]. apply IH.
  destruct (alookup p id) as [pr|] eqn:L; [|exact F]. apply pmok_insert; [exact F|].
  eapply prok_same_infl; [|eapply pmok_lookup; eassumption]. reflexivity.
Qed.

Lemma fold_remove_ok M B (f : N -> bool) ids : forall p, pmok M B p ->
  pmok M B (fold_left (fun p id => if f id then aremove p id else p) ids p).
Proof.
  induction ids as [|id ids IH]; intros p F; cbn; [exact F|]. apply IH.
  destruct (f id); [apply pmok_remove; exact F|exact F].
Qed.

Lemma changer_leave_joint_pm t c p : tok_trk t -> changer_leave_joint t = inl (c, p) ->
  pmok (t_max_inflight t) (t_max_inflight_bytes t) p.
Proof.
  unfold changer_leave_joint, tok_trk. intros F E.
  destruct (check_and_return _ _) as [[c0 p0]|] eqn:E0; [|discriminate].
  apply check_and_return_ok in E0. subst p0.
  destruct (negb (joint c0)); [discriminate|]. cbv zeta in E.
  apply check_and_return_ok in E. subst p.
  apply (fold_remove_ok _ _ (fun id => negb (smem (c_voters c0) id) && negb (smem (fold_left sinsert (c_learners_next c0) (c_learners c0)) id))).
  apply fold_learner_ok. exact F.
Qed.

Lemma apply_conf_change_pm t li cc c p : tok_trk t -> apply_conf_change t li cc = inl (c, p) ->
  pmok (t_max_inflight t) (t_max_inflight_bytes t) p.
Proof.
  unfold apply_conf_change. intros F E.
  destruct (ccv2_leave_joint cc); [eapply changer_leave_joint_pm; eassumption|].
  destruct (ccv2_enter_joint cc); [eapply changer_enter_joint_pm; eassumption|eapply changer_simple_pm; eassumption].
Qed.

Lemma chain_simple_ok li ccs : forall t t',
  tok_trk t -> chain_simple t li ccs = inl t' ->
  tok_trk t' /\ t_max_inflight t' = t_max_inflight t /\ t_max_inflight_bytes t' = t_max_inflight_bytes t.
Proof.
  induction ccs as [|cc ccs IH]; intros t t' F E; cbn in E.
  - inversion E; subst. auto.
  - destruct (changer_simple t li [cc]) as [[c p]|] eqn:E1; [|discriminate].
    apply (changer_simple_pm _ _ _ _ _ F) in E1.
    destruct (IH (t_with_config_progress t c p) t') as (F' & A & B); [exact E1|exact E|].
    split; [exact F'|]. cbn in A, B. auto.
Qed.

Lemma cc_restore_pm t li cs c p : tok_trk t -> cc_restore t li cs = inl (c, p) ->
  pmok (t_max_inflight t) (t_max_inflight_bytes t) p.
Proof.
  unfold cc_restore. intros F E. destruct (to_cc_single cs) as [outgoing incoming].
  destruct outgoing as [|o os].
  - destruct (chain_simple t li incoming) as [t'|] eqn:E1; [|discriminate].
    inversion E; subst. destruct (chain_simple_ok _ _ _ _ F E1) as (F' & A & B).
    unfold tok_trk in F'. rewrite A, B in F'. exact F'.
  - destruct (chain_simple t li (o :: os)) as [t'|] eqn:E1; [|discriminate].
    destruct (chain_simple_ok _ _ _ _ F E1) as (F' & A & B).
    apply (changer_enter_joint_pm _ _ _ _ _ _ F') in E. rewrite A, B in E. exact E.
Qed.

(* ---------- the node ---------- *)

Section WithLimits.
Variables M B : N.

(* the tracker's limits are M and B, and every Progress has a good window of that size *)
Definition pinv (r : raft) : Prop :=
  t_max_inflight (r_trk r) = M /\ t_max_inflight_bytes (r_trk r) = B /\ pmok M B (t_progress (r_trk r)).

Definition pk (r r' : raft) : Prop := pinv r -> pinv r'.

Lemma pk_refl r : pk r r.
Proof. unfold pk. auto. Qed.
Lemma pk_trans a b c : pk a b -> pk b c -> pk a c.
Proof. unfold pk. auto. Qed.

Lemma pk_frame r r' : r_trk r' = r_trk r -> pk r r'.
Proof. unfold pk, pinv. intros E. rewrite E. auto. Qed.

Ltac frame := apply pk_frame; reflexivity.

Lemma put_progress_pinv r id p : pinv r -> prok M B p -> pinv (put_progress r id p).
Proof.
  unfold pinv, put_progress. cbn. intros (A & C & F) H. repeat split; auto. apply pmok_insert; assumption.
Qed.

Lemma lookup_prok r id pr : pinv r -> get_progress r id = Some pr -> prok M B pr.
Proof. unfold pinv, get_progress. intros (_ & _ & F) L. eapply pmok_lookup; eassumption. Qed.

Lemma send_pk r m r' : send r m = Ok r' -> pk r r'.
Proof. unfold send. intros H. inv_ok; frame. Qed.

Lemma send_get r m r' id : send r m = Ok r' -> get_progress r' id = get_progress r id.
Proof. unfold send. intros H. inv_ok; reflexivity. Qed.

Section WithStorage.
Variable st : memstorage.

Lemma maybe_send_snapshot_pk r to pr r' b :
  prok M B pr -> maybe_send_snapshot st r to pr = Ok (r', b) -> pk r r'.
Proof.
  unfold maybe_send_snapshot. intros P H I.
  destruct (negb (pr_recent_active pr)); [inversion H; subst; exact I|].
  destruct (N.eqb _ 0); [discriminate|].
  match type of H with bind ?x _ = _ => destruct x as [r1|] eqn:E1; cbn [bind] in H; [|discriminate] end.
  inversion H; subst. apply send_pk in E1. apply E1. apply put_progress_pinv; [exact I|].
  apply prok_become_snapshot. exact P.
Qed.

Lemma maybe_send_append_pk r to sie r' b : maybe_send_append st r to sie = Ok (r', b) -> pk r r'.
Proof.
  unfold maybe_send_append. intros H I.
  destruct (get_progress r to) as [pr|] eqn:L; [|discriminate].
  pose proof (lookup_prok _ _ _ I L) as P.
  destruct (pr_is_paused pr); [inversion H; subst; exact I|].
  destruct (l_term st (r_log r) (pr_prev (pr_next pr))) as [pt [| | | | | | |]] eqn:ET;
    try (exact (maybe_send_snapshot_pk _ _ _ _ _ P H I)).
  match type of H with bind ?x _ = _ => destruct x as [[ents e]|] eqn:EE; cbn [bind] in H; [|discriminate] end.
  destruct (N.eqb (nlen ents) 0 && negb sie); [inversion H; subst; exact I|].
  destruct e; try (exact (maybe_send_snapshot_pk _ _ _ _ _ P H I)).
  match type of H with bind ?x _ = _ => destruct x as [r1|] eqn:E1; cbn [bind] in H; [|discriminate] end.
  match type of H with bind ?x _ = _ => destruct x as [p1|] eqn:E2; cbn [bind] in H; [|discriminate] end.
  inversion H; subst; clear H. apply put_progress_pinv; [exact (send_pk _ _ _ E1 I)|].
  eapply prok_same_infl; [|eapply prok_sent_entries; eassumption]. reflexivity.
Qed.

Lemma send_append_pk r to r' : send_append st r to = Ok r' -> pk r r'.
Proof.
  unfold send_append. intros H.
  destruct (maybe_send_append st r to true) as [[r1 b]|] eqn:E; cbn [bind] in H; [|discriminate].
  inversion H; subst. eapply maybe_send_append_pk; eassumption.
Qed.

Lemma send_heartbeat_pk r to ctx r' : send_heartbeat r to ctx = Ok r' -> pk r r'.
Proof.
  unfold send_heartbeat. intros H I.
  destruct (get_progress r to) as [pr|] eqn:L; [|discriminate].
  match type of H with bind ?x _ = _ => destruct x as [r1|] eqn:E1; cbn [bind] in H; [|discriminate] end.
  inversion H; subst; clear H. apply put_progress_pinv; [exact (send_pk _ _ _ E1 I)|].
  eapply prok_same_infl; [|eapply lookup_prok; eassumption]. reflexivity.
Qed.

Lemma visit_others_pk (f : raft -> N -> res raft) :
  (forall r id r', f r id = Ok r' -> pk r r') ->
  forall ids r r', visit_others f r ids = Ok r' -> pk r r'.
Proof.
  intros Hf ids. induction ids as [|id ids IH]; intros r r' H; cbn in H.
  - inversion H. apply pk_refl.
  - destruct (N.eqb id (r_id r)); [apply IH; exact H|].
    destruct (f r id) as [r1|] eqn:E; cbn [bind] in H; [|discriminate].
    eapply pk_trans; [eapply Hf; exact E|apply IH; exact H].
Qed.

Lemma bcast_append_pk r r' : bcast_append st r = Ok r' -> pk r r'.
Proof. unfold bcast_append. apply visit_others_pk. intros; eapply send_append_pk; eassumption. Qed.

Lemma bcast_heartbeat_ctx_pk r ctx r' : bcast_heartbeat_with_ctx r ctx = Ok r' -> pk r r'.
Proof. unfold bcast_heartbeat_with_ctx. apply visit_others_pk. intros; eapply send_heartbeat_pk; eassumption. Qed.

Lemma bcast_heartbeat_pk r r' : bcast_heartbeat r = Ok r' -> pk r r'.
Proof. unfold bcast_heartbeat. apply bcast_heartbeat_ctx_pk. Qed.

Lemma maybe_commit_pk r r' b : maybe_commit st r = Ok (r', b) -> pk r r'.
Proof.
  unfold maybe_commit. intros H.
  destruct (l_maybe_commit _ _ _ _) as [[l c]|]; cbn [bind] in H; [|discriminate].
  inversion H; subst. frame.
Qed.

(* reset gives every Progress a fresh window of the tracker's limits *)
Lemma reset_pk r term r' : reset st r term = Ok r' -> pk r r'.
Proof.
  unfold reset, pk, pinv. intros H (A & C & F).
  match type of H with bind ?x _ = _ => destruct x as [r1|] eqn:E1; cbn [bind] in H; [|discriminate] end.
  assert (TR : r_trk r1 = r_trk r).
  { unfold reset_randomized in E1. destruct (r_draws _); [discriminate|]. inversion E1; subst.
    destruct (negb _); reflexivity. }
  inversion H; subst r'; clear H. cbn. rewrite TR. repeat split; auto.
  unfold pmok. apply Forall_forall. intros [k p] Hin. apply in_map_iff in Hin. destruct Hin as (kv & E & _).
  inversion E; subst k p. cbn. unfold prok. cbn [pr_inflights]. rewrite A, C. split; [apply iok_new|]. auto.
Qed.

Lemma append_entry_pk r es r' b : append_entry st r es = Ok (r', b) -> pk r r'.
Proof.
  unfold append_entry, increase_uncommitted_size. intros H.
  destruct (_ && _ && _).
  - cbn in H. inversion H; subst. apply pk_refl.
  - cbn [negb] in H. cbv iota beta in H.
    match type of H with bind ?x _ = _ => destruct x as [l|]; cbn [bind] in H; [|discriminate] end.
    match type of H with bind ?x _ = _ => destruct x as [r1|] eqn:E1; cbn [bind] in H; [|discriminate] end.
    inversion H; subst. apply send_pk in E1. eapply pk_trans; [|exact E1]. frame.
Qed.

Lemma become_follower_pk r term lead r' : become_follower st r term lead = Ok r' -> pk r r'.
Proof.
  unfold become_follower. intros H.
  destruct (reset st r term) as [r1|] eqn:E; cbn [bind] in H; [|discriminate].
  inversion H; subst. apply reset_pk in E. eapply pk_trans; [exact E|]. frame.
Qed.

Lemma become_candidate_pk r r' : become_candidate st r = Ok r' -> pk r r'.
Proof.
  unfold become_candidate. intros H. destruct (state_type_eqb _ _); [discriminate|].
  destruct (reset st r (r_term r + 1)) as [r1|] eqn:E; cbn [bind] in H; [|discriminate].
  inversion H; subst. apply reset_pk in E. eapply pk_trans; [exact E|]. frame.
Qed.

Lemma become_pre_candidate_pk r r' : become_pre_candidate r = Ok r' -> pk r r'.
Proof.
  unfold become_pre_candidate. intros H. destruct (state_type_eqb _ _); [discriminate|].
  inversion H; subst. unfold pk, pinv. cbn. auto.
Qed.

Lemma become_leader_pk r r' : become_leader st r = Ok r' -> pk r r'.
Proof.
  unfold become_leader. intros H I. destruct (state_type_eqb _ _); [discriminate|].
  destruct (reset st r (r_term r)) as [r1|] eqn:E; cbn [bind] in H; [|discriminate].
  pose proof (reset_pk _ _ _ E I) as I1.
  destruct (get_progress _ _) as [pr|] eqn:L; [|discriminate].
  match type of H with bind ?x _ = _ => destruct x as [[r2 ok]|] eqn:EA; cbn [bind] in H; [|discriminate] end.
  cbn [fst snd] in H. destruct ok; [|discriminate]. inversion H; subst.
  apply append_entry_pk in EA. apply EA.
  assert (I2 : pinv (set_r_state (set_r_lead r1 (r_id r1)) StateLeader)) by exact I1.
  assert (P : prok M B pr) by (eapply lookup_prok; [exact I2|exact L]).
  assert (I3 : pinv (put_progress (set_r_state (set_r_lead r1 (r_id r1)) StateLeader) (r_id r1)
                                  (pr_with_recent_active (pr_become_replicate pr) true))).
  { apply put_progress_pinv; [exact I2|]. eapply prok_same_infl; [|apply prok_become_replicate; exact P]. reflexivity. }
  exact I3.
Qed.

Lemma campaign_send_pk ids : forall r vm term lt li ctx r',
  campaign_send r ids vm term lt li ctx = Ok r' -> pk r r'.
Proof.
  induction ids as [|id ids IH]; intros r vm term lt li ctx r' H; cbn in H.
  - inversion H. apply pk_refl.
  - match type of H with bind ?x _ = _ => destruct x as [r1|] eqn:E1; cbn [bind] in H; [|discriminate] end.
    eapply pk_trans; [|eapply IH; exact H].
    destruct (N.eqb id (r_id r)); eapply send_pk; eassumption.
Qed.

Lemma campaign_pk r t r' : campaign st r t = Ok r' -> pk r r'.
Proof.
  unfold campaign. intros H.
  match type of H with bind ?x _ = _ => destruct x as [[[r1 vm] term]|] eqn:E1; cbn [bind] in H; [|discriminate] end.
  assert (X : pk r r1).
  { destruct t.
    - destruct (become_pre_candidate r) as [r2|] eqn:E2; cbn [bind] in E1; [|discriminate].
      inversion E1; subst. eapply become_pre_candidate_pk; eassumption.
    - destruct (become_candidate st r) as [r2|] eqn:E2; cbn [bind] in E1; [|discriminate].
      inversion E1; subst. eapply become_candidate_pk; eassumption.
    - destruct (become_candidate st r) as [r2|] eqn:E2; cbn [bind] in E1; [|discriminate].
      inversion E1; subst. eapply become_candidate_pk; eassumption. }
  destruct (l_last_entry_id st (r_log r1)) as [last|]; cbn [bind] in H; [|discriminate].
  apply campaign_send_pk in H. eapply pk_trans; eassumption.
Qed.

Lemma hup_pk r t r' : hup st r t = Ok r' -> pk r r'.
Proof. unfold hup. intros H. inv_ok; try apply pk_refl. eapply campaign_pk; eassumption. Qed.

Lemma poll_pk r id v r' res : poll r id v = (r', res) -> pk r r'.
Proof.
  unfold poll. intros H. inversion H; subst. unfold pk, pinv. cbn.
  unfold record_vote. destruct (alookup _ _); cbn; auto.
Qed.


Lemma handle_append_entries_pk r m r' : handle_append_entries st r m = Ok r' -> pk r r'.
Proof.
  unfold handle_append_entries. intros H. inv_ok;
  match goal with E : send _ _ = Ok _ |- _ => apply send_pk in E end;
  (eapply pk_trans; [|eassumption]); frame.
Qed.

Lemma handle_heartbeat_pk r m r' : handle_heartbeat st r m = Ok r' -> pk r r'.
Proof.
  unfold handle_heartbeat. intros H. inv_ok.
  match goal with E : send _ _ = Ok _ |- _ => apply send_pk in E end.
  eapply pk_trans; [|eassumption]. frame.
Qed.

Lemma visit_maybe_send_pk ids : forall r r', visit_maybe_send st r ids = Ok r' -> pk r r'.
Proof.
  induction ids as [|id ids IH]; intros r r' H; cbn in H.
  - inversion H. apply pk_refl.
  - destruct (N.eqb id (r_id r)); [apply IH; exact H|].
    destruct (maybe_send_append st r id false) as [[r1 b]|] eqn:E; cbn [bind] in H; [|discriminate].
    apply maybe_send_append_pk in E. eapply pk_trans; [exact E|apply IH; exact H].
Qed.

(* switchToConfig installs a progress map; it must come with good windows *)
Lemma switch_to_config_pk r cfg pm r' cs :
  pmok M B pm -> switch_to_config st r cfg pm = Ok (r', cs) -> pk r r'.
Proof.
  unfold switch_to_config. intros PM H I. cbv zeta in H.
  set (r1 := set_r_is_learner (set_r_trk r (t_with_config_progress (r_trk r) cfg pm)) _) in *.
  assert (I1 : pinv r1).
  { destruct I as (A & C & _). unfold pinv. subst r1. cbn. auto. }
  destruct (_ && state_type_eqb (r_state r1) StateLeader).
  - destruct (r_step_down_on_removal r1).
    + destruct (become_follower st r1 (r_term r1) NoneId) as [r2|] eqn:E; cbn [bind] in H; [|discriminate].
      inversion H; subst. exact (become_follower_pk _ _ _ _ E I1).
    + inversion H; subst. exact I1.
  - destruct (_ || _); [inversion H; subst; exact I1|].
    destruct (maybe_commit st r1) as [[r2 c]|] eqn:EC; cbn [bind] in H; [|discriminate].
    pose proof (maybe_commit_pk _ _ _ EC I1) as I2. cbn [fst snd] in H.
    match type of H with bind ?x _ = _ => destruct x as [r3|] eqn:E3; cbn [bind] in H; [|discriminate] end.
    assert (I3 : pinv r3).
    { destruct c; [exact (bcast_append_pk _ _ E3 I2)|exact (visit_maybe_send_pk _ _ _ E3 I2)]. }
    inversion H; subst. destruct (_ && _); [|exact I3].
    destruct I3 as (A & C & F). unfold pinv. cbn. auto.
Qed.

Lemma restore_pk r s r' b : restore st r s = Ok (r', b) -> pk r r'.
Proof.
  unfold restore. intros H I.
  destruct (_ <=? _); [inversion H; subst; exact I|].
  destruct (negb (state_type_eqb _ _)).
  - destruct (become_follower st r (r_term r + 1) NoneId) as [r1|] eqn:E; cbn [bind] in H; [|discriminate].
    inversion H; subst. exact (become_follower_pk _ _ _ _ E I).
  - cbv zeta in H. destruct (negb _); [inversion H; subst; exact I|].
    destruct (l_match_term _ _ _ _).
    + destruct (l_commit_to _ _ _) as [l|]; cbn [bind] in H; [|discriminate]. inversion H; subst.
      destruct I as (A & C & F). unfold pinv. cbn. auto.
    + destruct (cc_restore _ _ _) as [[cfg pm]|] eqn:ER; [|discriminate].
      match type of H with bind ?x _ = _ => destruct x as [[r2 cs2]|] eqn:ES; cbn [bind] in H; [|discriminate] end.
      destruct (confstate_equiv _ _); [|discriminate]. inversion H; subst. cbn [fst].
      destruct I as (A & C & F).
      apply cc_restore_pm in ER; [|unfold tok_trk, make_tracker; cbn; constructor].
      cbn in ER. rewrite A, C in ER.
      eapply (switch_to_config_pk _ _ _ _ _ ER ES).
      unfold pinv. cbn. rewrite A, C. repeat split. constructor.
Qed.

Lemma handle_snapshot_pk r m r' : handle_snapshot st r m = Ok r' -> pk r r'.
Proof.
  unfold handle_snapshot. intros H. inv_ok;
  match goal with E : restore _ _ _ = Ok _ |- _ => apply restore_pk in E end;
  match goal with E : send _ _ = Ok _ |- _ => apply send_pk in E end;
  eapply pk_trans; eassumption.
Qed.

Lemma apply_conf_change_raft_pk r cc r' cs : apply_conf_change_raft st r cc = Ok (r', cs) -> pk r r'.
Proof.
  unfold apply_conf_change_raft. intros H I.
  destruct (apply_conf_change _ _ _) as [[cfg pm]|] eqn:EA; [|discriminate].
  destruct I as (A & C & F).
  apply apply_conf_change_pm in EA; [|unfold tok_trk; rewrite A, C; exact F]. rewrite A, C in EA.
  eapply (switch_to_config_pk _ _ _ _ _ EA H). unfold pinv. auto.
Qed.

Lemma respond_read_index_pk r req i r' : respond_read_index r req i = Ok r' -> pk r r'.
Proof.
  unfold respond_read_index, response_to_read_index_req. intros H.
  destruct (_ || _).
  - destruct (m_entries req); [discriminate|]. cbn [bind fst snd] in H. inversion H; subst. frame.
  - cbn [bind fst snd] in H. eapply send_pk; eassumption.
Qed.

Lemma send_msg_read_index_response_pk r m r' : send_msg_read_index_response r m = Ok r' -> pk r r'.
Proof.
  unfold send_msg_read_index_response. intros H.
  destruct (_ && is_singleton _); [eapply respond_read_index_pk; eassumption|].
  destruct (ro_option (r_read_only r)).
  - destruct (ro_recv_ack _ _ _) as [ro|]; cbn [bind] in H; [|discriminate].
    apply bcast_heartbeat_pk in H. eapply pk_trans; [|exact H]. frame.
  - eapply respond_read_index_pk; eassumption.
Qed.

Lemma send_read_index_responses_pk ms : forall r r', send_read_index_responses r ms = Ok r' -> pk r r'.
Proof.
  induction ms as [|m ms IH]; intros r r' H; cbn in H.
  - inversion H. apply pk_refl.
  - destruct (send_msg_read_index_response r m) as [r1|] eqn:E; cbn [bind] in H; [|discriminate].
    eapply pk_trans; [eapply send_msg_read_index_response_pk; exact E|apply IH; exact H].
Qed.

Lemma release_pending_read_index_pk r r' : release_pending_read_index st r = Ok r' -> pk r r'.
Proof.
  unfold release_pending_read_index. intros H.
  destruct (r_pending_read_index r); [inversion H; apply pk_refl|].
  destruct (negb _); [inversion H; apply pk_refl|].
  apply send_read_index_responses_pk in H. eapply pk_trans; [|exact H]. frame.
Qed.

Lemma send_timeout_now_pk r to r' : send_timeout_now r to = Ok r' -> pk r r'.
Proof. unfold send_timeout_now. apply send_pk. Qed.

Lemma send_append_loop_pk fuel : forall r to r', send_append_loop st fuel r to = Ok r' -> pk r r'.
Proof.
  induction fuel as [|f IH]; intros r to r' H; cbn in H; [discriminate|].
  destruct (maybe_send_append st r to false) as [[r1 b]|] eqn:E; cbn [bind] in H; [|discriminate].
  apply maybe_send_append_pk in E. cbn [fst snd] in H. destruct b.
  - eapply pk_trans; [exact E|eapply IH; exact H].
  - inversion H; subst. exact E.
Qed.

Lemma respond_reads_pk rss : forall r r', respond_reads r rss = Ok r' -> pk r r'.
Proof.
  induction rss as [|[req idx] rss IH]; intros r r' H; cbn in H.
  - inversion H. apply pk_refl.
  - destruct (respond_read_index r req idx) as [r1|] eqn:E; cbn [bind] in H; [|discriminate].
    eapply pk_trans; [eapply respond_read_index_pk; exact E|apply IH; exact H].
Qed.

Lemma prop_gate_pk es : forall r li i r' es', prop_gate r li i es = (r', es') -> pk r r'.
Proof.
  induction es as [|e es IH]; intros r li i r' es' H; cbn in H.
  - inversion H. apply pk_refl.
  - destruct (is_cc_type (e_type e)).
    + destruct (_ && negb (r_disable_cc_validation r)).
      * destruct (prop_gate r li (i + 1) es) as [r1 es1] eqn:E. apply IH in E. inversion H; subst. exact E.
      * destruct (prop_gate (set_r_pending_conf_index r (li + i + 1)) li (i + 1) es) as [r1 es1] eqn:E.
        apply IH in E. inversion H; subst. eapply pk_trans; [|exact E]. frame.
    + destruct (prop_gate r li (i + 1) es) as [r1 es1] eqn:E. apply IH in E. inversion H; subst. exact E.
Qed.

Lemma clear_recent_active_pk r : pk r (clear_recent_active r).
Proof.
  unfold pk, pinv, clear_recent_active. cbn. intros (A & C & F). repeat split; auto.
  unfold pmok in *. apply Forall_forall. intros [k p] Hin. apply in_map_iff in Hin. destruct Hin as ([k0 p0] & E & Hin).
  rewrite Forall_forall in F. specialize (F _ Hin). cbn in E, F.
  destruct (N.eqb k0 (r_id r)); inversion E; subst; cbn; [exact F|].
  eapply prok_same_infl; [|exact F]. reflexivity.
Qed.


(* ---------- stepLeader and the rest of Step ---------- *)

Ltac prok_solve :=
  lazymatch goal with
  | |- prok _ _ (pr_become_probe _) => apply prok_become_probe; prok_solve
  | |- prok _ _ (pr_become_replicate _) => apply prok_become_replicate; prok_solve
  | |- prok _ _ (pr_with_inflights ?p (infl_free_le (pr_inflights ?p) _)) => apply prok_free; prok_solve
  | |- prok _ _ (pr_with_recent_active ?p _) => apply (prok_same_infl _ _ p); [reflexivity|prok_solve]
  | |- prok _ _ (pr_with_paused ?p _) => apply (prok_same_infl _ _ p); [reflexivity|prok_solve]
  | |- prok _ _ (pr_with_pending_snapshot ?p _) => apply (prok_same_infl _ _ p); [reflexivity|prok_solve]
  | |- prok _ _ (if _ then _ else _) => match goal with |- context [if ?c then _ else _] => destruct c end; prok_solve
  | |- prok _ _ (match ?x with _ => _ end) => destruct x; prok_solve
  | |- prok _ _ _ => assumption
  end.

(* prok facts for the results of maybeUpdate / maybeDecrTo *)
Ltac prok_fwd :=
  repeat match goal with
  | E : pr_maybe_update ?p _ = (?q, _) |- _ =>
      lazymatch goal with
      | _ : prok _ _ q |- _ => fail
      | _ => assert (prok M B q) by (eapply prok_maybe_update; [|exact E]; prok_solve)
      end
  | E : pr_maybe_decr_to ?p _ _ = (?q, _) |- _ =>
      lazymatch goal with
      | _ : prok _ _ q |- _ => fail
      | _ => assert (prok M B q) by (eapply prok_maybe_decr_to; [|exact E]; prok_solve)
      end
  end.

Ltac pk_fwd :=
  repeat match goal with
  | H : send _ _ = Ok _ |- _ => apply send_pk in H
  | H : send_append _ _ _ = Ok _ |- _ => apply send_append_pk in H
  | H : maybe_send_append _ _ _ _ = Ok (_, _) |- _ => apply maybe_send_append_pk in H
  | H : bcast_append _ _ = Ok _ |- _ => apply bcast_append_pk in H
  | H : bcast_heartbeat _ = Ok _ |- _ => apply bcast_heartbeat_pk in H
  | H : maybe_commit _ _ = Ok (_, _) |- _ => apply maybe_commit_pk in H
  | H : release_pending_read_index _ _ = Ok _ |- _ => apply release_pending_read_index_pk in H
  | H : send_append_loop _ _ _ _ = Ok _ |- _ => apply send_append_loop_pk in H
  | H : send_timeout_now _ _ = Ok _ |- _ => apply send_timeout_now_pk in H
  | H : respond_reads _ _ = Ok _ |- _ => apply respond_reads_pk in H
  | H : append_entry _ _ _ = Ok (_, _) |- _ => apply append_entry_pk in H
  | H : append_entry _ _ _ = Ok ?p |- _ => is_var p; destruct p; cbn [fst snd] in *
  | H : maybe_commit _ _ = Ok ?p |- _ => is_var p; destruct p; cbn [fst snd] in *
  | H : maybe_send_append _ _ _ _ = Ok ?p |- _ => is_var p; destruct p; cbn [fst snd] in *
  | H : prop_gate _ _ _ _ = (_, _) |- _ => apply prop_gate_pk in H
  | H : send_msg_read_index_response _ _ = Ok _ |- _ => apply send_msg_read_index_response_pk in H
  | H : become_follower _ _ _ _ = Ok _ |- _ => apply become_follower_pk in H
  | H : become_candidate _ _ = Ok _ |- _ => apply become_candidate_pk in H
  | H : become_leader _ _ = Ok _ |- _ => apply become_leader_pk in H
  | H : campaign _ _ _ = Ok _ |- _ => apply campaign_pk in H
  | H : hup _ _ _ = Ok _ |- _ => apply hup_pk in H
  | H : handle_append_entries _ _ _ = Ok _ |- _ => apply handle_append_entries_pk in H
  | H : handle_heartbeat _ _ _ = Ok _ |- _ => apply handle_heartbeat_pk in H
  | H : handle_snapshot _ _ _ = Ok _ |- _ => apply handle_snapshot_pk in H
  | H : poll _ _ _ = (_, _) |- _ => apply poll_pk in H
  end.

(* pinv of a state built from states whose pinv is known *)
Ltac pinv_solve :=
  lazymatch goal with
  | |- pinv ?x =>
      first [ assumption
            | match goal with K : pk ?a x |- _ => apply K; pinv_solve end
            | lazymatch x with
              | put_progress ?y _ _ => apply put_progress_pinv; [pinv_solve|prok_fwd; prok_solve]
              | (if ?c then _ else _) => destruct c; pinv_solve
              | clear_recent_active ?y => apply clear_recent_active_pk; pinv_solve
              | reduce_uncommitted_size ?y _ =>
                  apply (pk_frame y); [unfold reduce_uncommitted_size; destruct (_ <? _); reflexivity|pinv_solve]
              | ?f ?y _ => apply (pk_frame y x eq_refl); pinv_solve
              end ]
  end.

Lemma step_leader_pk r m r' e : step_leader st r m = Ok (r', e) -> pk r r'.
Proof.
  intros H I. unfold step_leader in H.
  destruct (m_type m) eqn:T.
  all: try (destruct (get_progress r (m_from m)) as [pr|] eqn:L;
            [pose proof (lookup_prok _ _ _ I L) as P0|inversion H; subst; exact I]).
  all: try (inversion H; subst; exact I).
  all: inv_ok; pk_fwd; prok_fwd; pinv_solve.
Qed.


Lemma step_candidate_pk r m r' e : step_candidate st r m = Ok (r', e) -> pk r r'.
Proof.
  intros H I. unfold step_candidate in H. inv_ok; pk_fwd; pinv_solve.
Qed.

Lemma step_follower_pk r m r' e : step_follower st r m = Ok (r', e) -> pk r r'.
Proof.
  intros H I. unfold step_follower in H. inv_ok; pk_fwd; pinv_solve.
Qed.

Lemma step_role_pk r m x :
  match r_state r with
  | StateFollower => step_follower st r m
  | StateCandidate | StatePreCandidate => step_candidate st r m
  | StateLeader => step_leader st r m
  end = Ok x -> pk r (fst x).
Proof.
  destruct x as [r1 e1]. cbn [fst]. destruct (r_state r); intros H.
  - eapply step_follower_pk; eassumption.
  - eapply step_candidate_pk; eassumption.
  - eapply step_leader_pk; eassumption.
  - eapply step_candidate_pk; eassumption.
Qed.

Section StepGen.
Variable step_rec : raft -> message -> res (raft * err).
Hypothesis step_rec_pk : forall r m r' e, step_rec r m = Ok (r', e) -> pk r r'.

Lemma applied_to_pk r i s r' : applied_to step_rec r i s = Ok r' -> pk r r'.
Proof.
  unfold applied_to. intros H.
  destruct (l_applied_to _ _ _) as [l|]; cbn [bind] in H; [|discriminate].
  destruct (_ && _ && _).
  - destruct (step_rec (set_r_log r l) leave_joint_prop) as [[r2 e2]|] eqn:ES; cbn [bind] in H; [|discriminate].
    inversion H; subst. apply step_rec_pk in ES. eapply pk_trans; [|exact ES]. apply pk_frame. reflexivity.
  - inversion H; subst. apply pk_frame. reflexivity.
Qed.

Lemma applied_snap_pk r s r' : applied_snap step_rec r s = Ok r' -> pk r r'.
Proof.
  unfold applied_snap. intros H. apply applied_to_pk in H. eapply pk_trans; [|exact H]. apply pk_frame. reflexivity.
Qed.

Lemma step_preamble_pk r m r1 c : step_preamble st step_rec r m = Ok (r1, c) -> pk r r1.
Proof.
  intros H I. unfold step_preamble in H. inv_ok; pk_fwd;
  repeat match goal with E : applied_snap _ _ _ = Ok _ |- _ => apply applied_snap_pk in E end;
  pinv_solve.
Qed.

Lemma step_transfer_leader_pk r m r' e : step_transfer_leader st step_rec r m = Ok (r', e) -> pk r r'.
Proof.
  unfold step_transfer_leader. intros H.
  match type of H with bind ?y _ = _ => destruct y as [x|] eqn:E1; cbn [bind] in H; [|discriminate] end.
  apply step_role_pk in E1.
  destruct (state_type_eqb (r_state r) StateLeader && self_transfer_aborts r m).
  - match type of H with bind ?y _ = _ => destruct y as [r2|] eqn:E2; cbn [bind] in H; [|discriminate] end.
    inversion H; subst. apply applied_to_pk in E2. eapply pk_trans; eassumption.
  - inversion H; subst. exact E1.
Qed.

Lemma step_dispatch_pk r m r' e : step_dispatch st step_rec r m = Ok (r', e) -> pk r r'.
Proof.
  intros H. unfold step_dispatch in H.
  destruct (m_type m) eqn:TY;
    try (apply (step_role_pk r m (r', e)) in H; exact H).
  - intros I. inv_ok; pk_fwd; pinv_solve.
  - intros I. inv_ok; pk_fwd; pinv_solve.
  - eapply step_transfer_leader_pk; eassumption.
  - intros I. inv_ok; pk_fwd; pinv_solve.
  - intros I. destruct (m_snapshot m).
    + match type of H with bind ?y _ = _ => destruct y as [r1|] eqn:E1; cbn [bind] in H; [|discriminate] end.
      inversion H; subst. apply applied_snap_pk in E1. apply E1. destruct (negb _); pinv_solve.
    + inversion H; subst. destruct (negb _); pinv_solve.
  - intros I. destruct (last_opt (m_entries m)).
    + match type of H with bind ?y _ = _ => destruct y as [r1|] eqn:E1; cbn [bind] in H; [|discriminate] end.
      inversion H; subst. apply applied_to_pk in E1. pinv_solve.
    + inversion H; subst. exact I.
Qed.

Lemma step_gen_pk r m r' e : step_gen st step_rec r m = Ok (r', e) -> pk r r'.
Proof.
  unfold step_gen. intros H.
  destruct (step_preamble st step_rec r m) as [[r1 c]|] eqn:EP; cbn [bind] in H; [|discriminate].
  apply step_preamble_pk in EP. destruct (negb c).
  - inversion H; subst. exact EP.
  - eapply pk_trans; [exact EP|eapply step_dispatch_pk; exact H].
Qed.
End StepGen.

Lemma step_inner_pk r m r' e : step_inner st r m = Ok (r', e) -> pk r r'.
Proof. unfold step_inner. apply step_gen_pk. unfold step_leaf. discriminate. Qed.

(* every message, of any type, term and content, keeps every follower's window within the limits *)
Theorem step_pk r m r' e : step st r m = Ok (r', e) -> pk r r'.
Proof. unfold step. apply step_gen_pk. exact step_inner_pk. Qed.

Theorem tick_pk r r' : tick st r = Ok r' -> pk r r'.
Proof.
  unfold tick. intros H I.
  assert (TE : forall r r', tick_election st r = Ok r' -> pinv r -> pinv r').
  { clear. intros r r' H I. unfold tick_election in H. destruct (promotable _ && _).
    - destruct (step st _ _) as [[r1 e1]|] eqn:ES; cbn [bind] in H; [|discriminate].
      inversion H; subst. apply step_pk in ES. apply ES. apply (pk_frame r); [reflexivity|exact I].
    - inversion H; subst. apply (pk_frame r); [reflexivity|exact I]. }
  assert (TH : forall r r', tick_heartbeat st r = Ok r' -> pinv r -> pinv r').
  { clear. intros r r' H I. unfold tick_heartbeat in H. cbv beta zeta in H.
    match type of H with bind ?x _ = _ => destruct x as [r1|] eqn:E1; cbn [bind] in H; [|discriminate] end.
    assert (I1 : pinv r1).
    { destruct (_ <=? _) in E1; [|inversion E1; subst; apply (pk_frame r); [reflexivity|exact I]].
      match type of E1 with bind ?x _ = _ => destruct x as [r2|] eqn:E2; cbn [bind] in E1; [|discriminate] end.
      assert (I2 : pinv r2).
      { destruct (r_check_quorum _) in E2.
        - destruct (step st _ _) as [[r3 e3]|] eqn:ES; cbn [bind] in E2; [|discriminate].
          inversion E2; subst. apply step_pk in ES. apply ES. apply (pk_frame r); [reflexivity|exact I].
        - inversion E2; subst. apply (pk_frame r); [reflexivity|exact I]. }
      destruct (state_type_eqb (r_state r2) StateLeader && _).
      - unfold applied_to_top in E1. apply (applied_to_pk _ step_inner_pk) in E1. apply E1.
        apply (pk_frame r2); [reflexivity|exact I2].
      - inversion E1; subst. exact I2. }
    destruct (negb (state_type_eqb (r_state r1) StateLeader)); [inversion H; subst; exact I1|].
    destruct (r_heartbeat_timeout r1 <=? r_heartbeat_elapsed r1); [|inversion H; subst; exact I1].
    cbv beta zeta in H.
    match type of H with bind ?x _ = _ => destruct x as [[r3 e3]|] eqn:ES; cbn [bind] in H; [|discriminate] end.
    inversion H; subst. apply step_pk in ES. apply ES. apply (pk_frame r1); [reflexivity|exact I1]. }
  destruct (r_state r); eauto.
Qed.

End WithStorage.
End WithLimits.

(* ---------- what the invariant says, the RawNode API, histories, restart ---------- *)

(* in a state that satisfies the invariant no follower has more than M messages in flight, and
   under a byte limit everything but the newest of them stays below the limit *)
Theorem pinv_bounds M B r id pr :
  pinv M B r -> get_progress r id = Some pr ->
  infl_count (pr_inflights pr) <= M /\
  (B <> 0 -> sumb (removelast (infl_window (pr_inflights pr))) < B \/ infl_window (pr_inflights pr) = []).
Proof.
  intros I L. destruct (lookup_prok _ _ _ _ _ I L) as (O & SS & MM).
  destruct (iok_bounds _ O) as [C1 C2]. rewrite SS in C1. rewrite MM in C2. auto.
Qed.

Section NodeLevel.
Variables M B : N.
Variable st : memstorage.

Definition rpinv (rn : rawnode) : Prop := pinv M B (rn_raft rn).

Lemma step_all_pk ms : forall r r', step_all st r ms = Ok r' -> pk M B r r'.
Proof.
  induction ms as [|m ms IH]; intros r r' H; cbn in H.
  - inversion H; subst. apply pk_refl.
  - destruct (step st r m) as [[r1 e1]|] eqn:ES; cbn [bind] in H; [|discriminate]. cbn [fst] in H.
    eapply pk_trans; [eapply step_pk; exact ES|apply IH; exact H].
Qed.

Lemma accept_ready_pk rn rd rn' : accept_ready st rn rd = Ok rn' -> rpinv rn -> rpinv rn'.
Proof.
  unfold accept_ready, rpinv. intros H I. cbv zeta in H.
  match type of H with bind ?x _ = _ => destruct x as [steps|]; cbn [bind] in H; [|discriminate] end.
  match type of H with bind ?x _ = _ => destruct x as [r2|] eqn:E2; cbn [bind] in H; [|discriminate] end.
  inversion H; subst; clear H. cbn [rn_raft].
  assert (TR : r_trk r2 = r_trk (rn_raft rn)).
  { destruct (last_opt (rd_committed rd)).
    - match type of E2 with bind ?x _ = _ => destruct x as [l|]; cbn [bind] in E2; [|discriminate] end.
      inversion E2; subst. cbn. destruct (rd_read_states rd); reflexivity.
    - inversion E2; subst. cbn. destruct (rd_read_states rd); reflexivity. }
  unfold pinv in *. rewrite TR. exact I.
Qed.

End NodeLevel.

(* every input of the RawNode API keeps the invariant (storage writes do not touch the node) *)
Theorem node_step_pinv M B n i d n' out rn :
  n_rn n = Some rn -> rpinv M B rn -> same_incarnation i = true ->
  node_step n i d = Ok (n', out) ->
  exists rn', n_rn n' = Some rn' /\ rpinv M B rn'.
Proof.
  intros Hrn I SI H. unfold node_step in H. rewrite Hrn in H.
  set (rn0 := with_draws rn d) in *.
  assert (I0 : rpinv M B rn0) by exact I.
  destruct i; try discriminate SI.
  all: try (match type of H with bind ?x _ = _ => destruct x as [y|] eqn:E; cbn [bind] in H; [|discriminate] end).
  all: try (match type of y with (_ * _)%type => destruct y as [y1 y2] end).
  all: try (match type of y with ((_ * _) * _)%type => destruct y as [[y1 y2] y3] end).
  all: try (match type of H with (let '(_, _) := ?x in _) = _ => destruct x end).
  all: inversion H; subst; clear H; cbn [n_rn fst snd].
  all: try (unfold rn_campaign, rn_propose, rn_propose_cc, rn_report_unreachable, rn_report_snapshot,
            rn_transfer_leader, rn_forget_leader, rn_read_index in E).
  all: try solve [eexists; split; [eassumption|exact I]].
  all: eexists; (split; [reflexivity|]); unfold rpinv in *.
  all: try (unfold rn_tick in E; destruct (tick _ _) as [r1|] eqn:ET; cbn [bind] in E; [|discriminate];
            inversion E; subst; cbn; exact (tick_pk _ _ _ _ _ ET I0)).
  all: try (inversion E; subst; exact I0).
  all: try (unfold rn_raft_step in E; destruct (step _ _ _) as [[r1 e1]|] eqn:ES; cbn [bind] in E; [|discriminate];
            inversion E; subst; cbn; exact (step_pk _ _ _ _ _ _ _ ES I0)).
  all: try (unfold rn_apply_conf_change in E; destruct (apply_conf_change_raft _ _ _) as [[r1 c1]|] eqn:EA; cbn [bind] in E; [|discriminate];
            inversion E; subst; cbn; exact (apply_conf_change_raft_pk _ _ _ _ _ _ _ EA I0)).
  all: try (unfold rn_step in E; destruct (_ && _); [inversion E; subst; exact I0|];
            destruct (_ && _ && _); [inversion E; subst; exact I0|];
            destruct (step _ _ _) as [[r1 e1]|] eqn:ES; cbn [bind] in E; [|discriminate];
            inversion E; subst; cbn; exact (step_pk _ _ _ _ _ _ _ ES I0)).
  all: try (unfold rn_ready in E; destruct (ready_without_accept _ _) as [rd0|]; cbn [bind] in E; [|discriminate];
            destruct (accept_ready _ _ _) as [rn1|] eqn:EA; cbn [bind] in E; [|discriminate];
            inversion E; subst; exact (accept_ready_pk _ _ _ _ _ _ EA I0)).
  all: try exact I0.
  all: try (unfold rn_advance in E; destruct (rn_async rn0); [discriminate|];
            destruct (step_all _ _ _) as [r1|] eqn:ES; cbn [bind] in E; [|discriminate];
            inversion E; subst; cbn; exact (step_all_pk _ _ _ _ _ _ ES I0)).
Qed.

Theorem node_run_pinv M B ins : forall n n' rn,
  n_rn n = Some rn -> rpinv M B rn ->
  Forall (fun id => same_incarnation (fst id) = true) ins ->
  node_run n ins = Ok n' ->
  exists rn', n_rn n' = Some rn' /\ rpinv M B rn'.
Proof.
  induction ins as [|[i d] ins IH]; intros n n' rn Hrn I F H; cbn in H.
  - inversion H; subst. exists rn. auto.
  - inversion F as [|? ? SI F']; subst. cbn in SI.
    destruct (node_step n i d) as [[n1 o1]|] eqn:E; cbn [bind] in H; [|discriminate]. cbn [fst] in H.
    destruct (node_step_pinv _ _ _ _ _ _ _ _ Hrn I SI E) as (rn1 & H1 & I1).
    eapply IH; eassumption.
Qed.

(* newRaft establishes the invariant with the configured limits *)
Theorem new_rawnode_pinv st c d rn :
  new_rawnode st c d = Ok rn ->
  rpinv (cfg_max_inflight_msgs c)
        (if N.eqb (cfg_max_inflight_bytes c) 0 then noLimit else cfg_max_inflight_bytes c) rn.
Proof.
  unfold new_rawnode, new_raft, rpinv. intros H.
  unfold validate in H.
  destruct (_ || _); [discriminate|]. destruct (N.eqb (cfg_heartbeat_tick c) 0); [discriminate|].
  destruct (_ <=? _); [discriminate|]. destruct (N.eqb (cfg_max_inflight_msgs c) 0); [discriminate|].
  destruct (negb _ && _); [discriminate|].
  set (MB := if N.eqb (cfg_max_inflight_bytes c) 0 then noLimit else cfg_max_inflight_bytes c) in *.
  set (MI := cfg_max_inflight_msgs c) in *.
  destruct (cfg_read_only c), (cfg_check_quorum c); try discriminate.
  all: cbv zeta in H; destruct (ms_initial_state st) as [hs cs];
    (match type of H with bind (bind ?x _) _ = _ => destruct x as [[lt li]|] eqn:EL; cbn [bind] in H; [|discriminate] end);
    (destruct (cc_restore _ _ _) as [[cfg pm]|] eqn:ER; [|discriminate]);
    (match type of H with bind (bind ?x _) _ = _ => destruct x as [[r1 cs1]|] eqn:ES; cbn [bind] in H; [|discriminate] end);
    (destruct (negb (confstate_equiv _ _)); [discriminate|]); cbn [fst] in H;
    (apply cc_restore_pm in ER; [|unfold tok_trk, make_tracker; cbn; constructor]); cbn in ER;
    (apply (switch_to_config_pk MI MB) in ES; [|exact ER]);
    (match type of H with bind (bind ?x _) _ = _ => destruct x as [r2|] eqn:E2; cbn [bind] in H; [|discriminate] end);
    (match type of H with bind (bind ?x _) _ = _ => destruct x as [r3|] eqn:E3; cbn [bind] in H; [|discriminate] end);
    (match type of H with bind ?x _ = _ => destruct x as [r4|] eqn:E4; cbn [bind] in H; [|discriminate] end);
    inversion H; subst; clear H; cbn [rn_raft];
    apply (become_follower_pk MI MB) in E4; apply E4;
    assert (I1 : pinv MI MB r1) by (apply ES; unfold pinv; cbn; repeat split; constructor);
    assert (I2 : pinv MI MB r2) by
      (destruct hs as [h|]; [|inversion E2; subst; exact I1];
       destruct (is_empty_hs h); [inversion E2; subst; exact I1|];
       unfold load_state in E2; destruct (_ || _); [discriminate|]; inversion E2; subst; exact I1);
    (destruct (0 <? cfg_applied c);
     [destruct (l_applied_to _ _ _); cbn [bind] in E3; [|discriminate]; inversion E3; subst; exact I2
     |inversion E3; subst; exact I2]).
Qed.
