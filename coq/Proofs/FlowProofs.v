(* FlowProofs.v: size limits and flow control (C16): limitSize, raftLog.slice, the append
   path of maybeSendAppend, Inflights, the uncommitted-size budget. *)
From Coq Require Import List NArith Bool Lia.
From RaftV Require Import Base Types Quorum Progress Tracker Storage Log Raft RawNode Tactics.
Import ListNotations.
Open Scope N_scope.

(* ---------- sizes ---------- *)

Arguments ents_size : simpl never.
Arguments entry_size : simpl never.
Arguments payloads_size : simpl never.

Lemma fold_size_acc (f : entry -> N) es : forall a, fold_left (fun s e => s + f e) es a = a + fold_left (fun s e => s + f e) es 0.
Proof.
  induction es as [|e es IH]; intros a; cbn [fold_left]; [rewrite N.add_0_r; reflexivity|].
  rewrite IH. rewrite (IH (0 + f e)). rewrite N.add_0_l, N.add_assoc. reflexivity.
Qed.

Lemma ents_size_cons e es : ents_size (e :: es) = entry_size e + ents_size es.
Proof.
  unfold ents_size. cbn [fold_left]. rewrite (fold_size_acc entry_size es (0 + entry_size e)).
  rewrite N.add_0_l. reflexivity.
Qed.

Lemma ents_size_app a b : ents_size (a ++ b) = ents_size a + ents_size b.
Proof.
  induction a as [|e a IH]; [change (ents_size []) with 0; rewrite N.add_0_l; reflexivity|].
  cbn [app]. rewrite !ents_size_cons, IH. rewrite N.add_assoc. reflexivity.
Qed.

Lemma ents_size_nil : ents_size [] = 0.
Proof. reflexivity. Qed.

Lemma entry_size_pos e : 0 < entry_size e.
Proof. unfold entry_size. lia. Qed.

(* within the size budget, or a single entry *)
Definition fits (es : list entry) (maxSize : N) : Prop := ents_size es <= maxSize \/ length es = 1%nat.

(* ---------- limitSize ---------- *)

Lemma limit_loop_spec rest : forall acc size maxSize,
  size = ents_size (rev acc) ->
  exists k, limit_loop acc size rest maxSize = rev acc ++ firstn k rest /\
            (ents_size (rev acc ++ firstn k rest) <= maxSize \/ k = 0%nat).
Proof.
  induction rest as [|e rest IH]; intros acc size maxSize Hs; cbn.
  - exists 0%nat. rewrite app_nil_r. split; [reflexivity|right; reflexivity].
  - destruct (N.ltb_spec maxSize (size + entry_size e)) as [Hlt|Hge].
    + exists 0%nat. cbn. rewrite app_nil_r. split; [reflexivity|right; reflexivity].
    + destruct (IH (e :: acc) (size + entry_size e) maxSize) as [k [Hk Hf]].
      { cbn [rev]. rewrite ents_size_app, ents_size_cons, ents_size_nil. lia. }
      exists (S k). cbn [rev firstn] in *. rewrite <- app_assoc in Hk, Hf. cbn [app] in Hk, Hf.
      split; [exact Hk|]. left. destruct Hf as [Hf|Hf]; [exact Hf|].
      subst k. cbn [firstn]. rewrite ents_size_app, ents_size_cons, ents_size_nil. lia.
Qed.

(* limitSize returns a non-empty prefix that fits the budget unless it is a single entry *)
Theorem limit_size_spec ents maxSize :
  ents <> [] ->
  exists k, limit_size ents maxSize = firstn (S k) ents /\ fits (limit_size ents maxSize) maxSize.
Proof.
  intros Hne. destruct ents as [|e rest]; [congruence|]. unfold limit_size.
  destruct (limit_loop_spec rest [e] (entry_size e) maxSize) as [k [Hk Hf]].
  { cbn. rewrite ents_size_cons, ents_size_nil. lia. }
  exists k. cbn [rev app] in Hk, Hf. split; [exact Hk|]. rewrite Hk. unfold fits.
  destruct Hf as [Hf|Hf]; [left; exact Hf|right; subst k; reflexivity].
Qed.

Lemma limit_size_nil maxSize : limit_size [] maxSize = [].
Proof. reflexivity. Qed.

Lemma limit_size_fits ents maxSize : ents = [] \/ fits (limit_size ents maxSize) maxSize.
Proof.
  destruct ents as [|e rest]; [left; reflexivity|right].
  destruct (limit_size_spec (e :: rest) maxSize) as [k [_ F]]; [congruence|exact F].
Qed.

Lemma limit_size_nonempty ents maxSize : ents <> [] -> limit_size ents maxSize <> [].
Proof.
  intros H. destruct (limit_size_spec ents maxSize H) as [k [E _]]. rewrite E.
  destruct ents; [congruence|]. cbn. congruence.
Qed.

(* ---------- raftLog.slice / entries ---------- *)

Definition fits_or_empty (es : list entry) (maxSize : N) : Prop := es = [] \/ fits es maxSize.

Lemma limit_fits_or_empty ents maxSize : fits_or_empty (limit_size ents maxSize) maxSize.
Proof.
  destruct (limit_size_fits ents maxSize) as [H|H]; [left; subst; reflexivity|right; exact H].
Qed.

Lemma ms_entries_fits st lo hi maxSize es e :
  ms_entries st lo hi maxSize = Ok (es, e) -> fits_or_empty es maxSize.
Proof.
  unfold ms_entries. intros H. inv_ok; try (left; reflexivity). apply limit_fits_or_empty.
Qed.

Theorem l_slice_fits st l lo hi maxSize es e :
  l_slice st l lo hi maxSize = Ok (es, e) -> fits_or_empty es maxSize.
Proof.
  unfold l_slice. intros H.
  inv_ok; try (left; reflexivity); try apply limit_fits_or_empty;
    try (eapply ms_entries_fits; eassumption).
  (* stable part followed by an unstable part *)
  all: match goal with |- fits_or_empty (?se ++ limit_size ?us ?b) _ =>
         right; left; rewrite ents_size_app;
         destruct (limit_size_fits us b) as [Z|[Z|Z]];
         [ subst; cbn; rewrite ents_size_nil; bool_to_prop; lia
         | bool_to_prop; lia
         | bool_to_prop;
           repeat match goal with
           | H : nlen (limit_size us b) <> 1 |- _ =>
               exfalso; apply H; unfold nlen; rewrite Z; reflexivity
           end; try lia ]
       end.
Qed.

Theorem l_entries_fits st l i maxSize es e :
  l_entries st l i maxSize = Ok (es, e) -> fits_or_empty es maxSize.
Proof.
  unfold l_entries. intros H. inv_ok; [left; reflexivity|]. eapply l_slice_fits; eassumption.
Qed.

(* ---------- maybeSendAppend ---------- *)

(* every MsgApp queued by maybeSendAppend carries entries within MaxSizePerMsg, or a single
   entry; and nothing is sent to a follower whose snapshot is pending *)
Theorem maybe_send_append_msgs st r to sie r' b :
  maybe_send_append st r to sie = Ok (r', b) ->
  forall pr, get_progress r to = Some pr ->
  (pr_state_ pr = StateSnapshot -> r' = r /\ b = false) /\
  (forall m, In m (r_msgs r') -> ~ In m (r_msgs r) -> m_type m = MsgApp ->
             fits_or_empty (m_entries m) (r_max_msg_size r)).
Proof.
  unfold maybe_send_append. intros H pr Hpr. rewrite Hpr in H. split.
  - intros S. unfold pr_is_paused in H. rewrite S in H. inversion H. auto.
  - intros m Hin Hnin Tm.
    destruct (pr_is_paused pr); [inversion H; subst; contradiction|].
    destruct (l_term st (r_log r) (pr_prev (pr_next pr))) as [pt pe].
    assert (SNAP : forall r1 b1, maybe_send_snapshot st r to pr = Ok (r1, b1) -> In m (r_msgs r1) -> ~ In m (r_msgs r) -> False).
    { intros r1 b1 HS Hi Hn. unfold maybe_send_snapshot in HS.
      destruct (negb (pr_recent_active pr)); [inversion HS; subst; contradiction|].
      destruct (N.eqb _ 0); [discriminate|].
      match type of HS with bind ?x _ = _ => destruct x as [r2|] eqn:E; cbn [bind] in HS; [|discriminate] end.
      inversion HS; subst; clear HS. unfold send in E. cbn in E.
      destruct (N.eqb to (r_id r)); [discriminate|]. inversion E; subst; clear E. cbn in Hi.
      apply in_app_or in Hi. destruct Hi as [Hi|[Hi|[]]]; [contradiction|]. subst m. cbn in Tm. discriminate. }
    destruct pe; try (eapply SNAP in H; [contradiction|eassumption|eassumption]).
    match type of H with bind ?x _ = _ => destruct x as [[ents e]|] eqn:EE; cbn [bind] in H; [|discriminate] end.
    assert (FE : fits_or_empty ents (r_max_msg_size r)).
    { destruct (_ || _) in EE; [eapply l_entries_fits; exact EE|inversion EE; left; reflexivity]. }
    destruct (_ && _); [inversion H; subst; contradiction|].
    destruct e; try (eapply SNAP in H; [contradiction|eassumption|eassumption]).
    match type of H with bind ?x _ = _ => destruct x as [r2|] eqn:E; cbn [bind] in H; [|discriminate] end.
    match type of H with bind ?x _ = _ => destruct x as [pr2|] eqn:E2; cbn [bind] in H; [|discriminate] end.
    inversion H; subst; clear H. cbn in Hin.
    unfold send in E. cbn in E. destruct (N.eqb to (r_id r)); [discriminate|]. inversion E; subst; clear E.
    cbn in Hin. apply in_app_or in Hin. destruct Hin as [Hin|[Hin|[]]]; [contradiction|]. subst m. cbn. exact FE.
Qed.

(* ---------- uncommitted size budget ---------- *)

Theorem increase_uncommitted_spec r es r' ok :
  increase_uncommitted_size r es = (r', ok) ->
  let s := payloads_size es in
  (ok = false <-> 0 < r_uncommitted_size r /\ 0 < s /\ r_max_uncommitted_size r < r_uncommitted_size r + s) /\
  (ok = false -> r' = r) /\
  (ok = true -> r_uncommitted_size r' = r_uncommitted_size r + s /\
                (r_uncommitted_size r' <= r_max_uncommitted_size r \/ r_uncommitted_size r = 0 \/ s = 0)).
Proof.
  unfold increase_uncommitted_size. intros H. cbv zeta.
  destruct (_ && _) eqn:E; inversion H; subst; clear H; cbn.
  - bool_to_prop. repeat split; intros; try lia; try discriminate; auto.
  - repeat split; intros; try discriminate; try lia; bool_to_prop; lia.
Qed.

(* a proposal that does not fit is reported as dropped and appends nothing *)
Theorem append_entry_dropped st r es r' :
  append_entry st r es = Ok (r', false) -> r' = r.
Proof.
  unfold append_entry. intros H.
  destruct (increase_uncommitted_size r _) as [r1 ok] eqn:E.
  destruct (increase_uncommitted_spec _ _ _ _ E) as (_ & D & _).
  destruct ok; cbn [negb] in H.
  - inv_ok.
  - inversion H; subst. apply D. reflexivity.
Qed.

(* ---------- Inflights ---------- *)

Definition infl_inv (i : inflights) : Prop := in_count i <= in_size i.

Lemma infl_add_inv i idx b i' :
  infl_inv i -> infl_add i idx b = Ok i' ->
  infl_inv i' /\ in_count i' = in_count i + 1 /\ in_bytes i' = in_bytes i + b /\
  in_size i' = in_size i /\ in_maxbytes i' = in_maxbytes i.
Proof.
  unfold infl_inv, infl_add, infl_full. intros I H.
  destruct (N.eqb (in_count i) (in_size i) || _) eqn:F; [discriminate|].
  bool_to_prop; inversion H; subst; clear H;
  destruct (nlen (in_buffer i) <=? _); cbn [infl_grow in_count in_size in_bytes in_maxbytes];
    repeat split; lia.
Qed.

(* adding to a full window is an assertion failure, never a silent overflow *)
Lemma infl_add_full i idx b : infl_full i = true -> infl_add i idx b = Panic PInflightsAddFull.
Proof. unfold infl_add. intros F. rewrite F. reflexivity. Qed.

Lemma free_loop_le i to n : forall idx k bytes idx' k' bytes',
  free_loop i to n idx k bytes = (idx', k', bytes') -> k' <= k + N.of_nat n.
Proof.
  induction n as [|n IH]; intros idx k bytes idx' k' bytes' H; cbn in H.
  - inversion H; subst. lia.
  - destruct (to <? fst (buf_at i idx)); [inversion H; subst; lia|].
    apply IH in H. lia.
Qed.

Lemma infl_free_le_inv i to : infl_inv i -> infl_inv (infl_free_le i to) /\ in_count (infl_free_le i to) <= in_count i.
Proof.
  unfold infl_inv, infl_free_le. intros I.
  destruct (_ || _); [split; lia|].
  destruct (free_loop i to (N.to_nat (in_count i)) (in_start i) 0 0) as [[idx k] bytes] eqn:E.
  cbn. split; lia.
Qed.

Lemma infl_reset_inv i : infl_inv (infl_reset i).
Proof. unfold infl_inv, infl_reset. cbn. lia. Qed.

Lemma infl_full_count i : infl_inv i -> infl_full i = false -> in_count i < in_size i.
Proof. unfold infl_inv, infl_full. intros I F. bool_to_prop; lia. Qed.
