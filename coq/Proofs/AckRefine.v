(* AckRefine.v: a persistence acknowledgement (raftLog.stableTo) never changes the logical log, given
   what the Ready contract provides: the acknowledged entries are in stable storage. *)
From Coq Require Import List NArith Bool Lia Arith.
From RaftV Require Import Base Types Storage Log Tactics LogProofs AppendRefine.
Import ListNotations.
Open Scope N_scope.

Lemma firstn_add' {A} (l : list A) a b : firstn (a + b) l = firstn a l ++ firstn b (skipn a l).
Proof.
  revert l. induction a as [|a IH]; intros l; [reflexivity|]. destruct l as [|x l]; cbn.
  - destruct b; reflexivity.
  - f_equal. apply IH.
Qed.

Lemma list_eq_nth {A} (l1 l2 : list A) :
  length l1 = length l2 -> (forall k, (k < length l1)%nat -> nth_error l1 k = nth_error l2 k) -> l1 = l2.
Proof.
  revert l2. induction l1 as [|x l1 IH]; intros [|y l2] L H; cbn in L; try lia; [reflexivity|].
  pose proof (H 0%nat ltac:(cbn; lia)) as H0. cbn in H0. inversion H0; subst. f_equal.
  apply IH; [lia|]. intros k Hk. apply (H (S k)). cbn. lia.
Qed.

Lemma nth_error_skipn'' {A} (l : list A) : forall p c, nth_error (skipn p l) c = nth_error l (p + c).
Proof.
  induction l as [|x l IH]; intros p c.
  - rewrite skipn_nil. destruct c, p; reflexivity.
  - destruct p; cbn; [reflexivity|apply IH].
Qed.

Theorem stable_to_keeps_view st l index term :
  l_wf st l -> u_snapshot (l_unstable l) = None ->
  (* the Ready contract: the entries up to [index] that the node still holds as unstable are what
     stable storage holds at those indexes, and storage ends at [index] if that is the node's last *)
  (forall k e, nth_error (u_entries (l_unstable l)) k = Some e -> u_offset (l_unstable l) + N.of_nat k <= index ->
     nth_error (ms_ents st) (N.to_nat (u_offset (l_unstable l) + N.of_nat k - ms_dummy_index st - 1)) = Some e) ->
  (u_offset (l_unstable l) + nlen (u_entries (l_unstable l)) = index + 1 -> ms_last_index st = index) ->
  l_wf st (l_stable_to l index term) /\ lview st (l_stable_to l index term) = lview st l.
Proof.
  intros W SN ST LAST. pose proof W as (M & U & B). rewrite SN in B. destruct B as [B B2].
  destruct (u_stable_to_spec (l_unstable l) index term U) as (U' & S' & [EQ|(OI & (e & NE & ET) & O' & E' & OP')]).
  { unfold l_stable_to. rewrite EQ. destruct l; cbn. split; [exact W|reflexivity]. }
  set (u := l_unstable l) in *. set (u' := u_stable_to u index term) in *.
  assert (LU : (N.to_nat (index - u_offset u) < length (u_entries u))%nat) by (apply nth_error_Some; congruence).
  set (a := N.to_nat (u_offset u - ms_dummy_index st - 1)).
  set (n := N.to_nat (index + 1 - u_offset u)).
  (* storage positions a .. a+n-1 hold the first n unstable entries *)
  assert (SEG : firstn n (skipn a (ms_ents st)) = firstn n (u_entries u)).
  { apply list_eq_nth.
    - rewrite !firstn_length, skipn_length.
      assert (LM : (a + n <= length (ms_ents st))%nat).
      { assert (K : nth_error (ms_ents st) (N.to_nat (u_offset u + N.of_nat (N.to_nat (index - u_offset u)) - ms_dummy_index st - 1)) = Some e)
          by (apply ST; [exact NE|lia]).
        apply nth_error_Some_lt' in K. unfold a, n. lia. }
      unfold n in *. lia.
    - intros k Hk. rewrite firstn_length in Hk.
      assert (KN : (k < n)%nat) by lia.
      rewrite !firstn_nth_error by exact KN. rewrite nth_error_skipn''.
      destruct (nth_error (u_entries u) k) as [ek|] eqn:NK.
      + specialize (ST k ek NK ltac:(unfold n in KN; lia)).
        replace (a + k)%nat with (N.to_nat (u_offset u + N.of_nat k - ms_dummy_index st - 1)) by (unfold a; lia). exact ST.
      + apply nth_error_None in NK. unfold n in KN. lia. }
  split.
  - unfold l_wf, l_stable_to, l_with_unstable. cbn [l_unstable]. fold u u'. rewrite S', SN.
    refine (conj M (conj U' (conj _ _))).
    + rewrite O'. unfold ms_last_index, nlen.
      assert (K : nth_error (ms_ents st) (N.to_nat (u_offset u + N.of_nat (N.to_nat (index - u_offset u)) - ms_dummy_index st - 1)) = Some e)
        by (apply ST; [exact NE|lia]).
      apply nth_error_Some_lt' in K. lia.
    + intros EN. rewrite O'. rewrite E' in EN.
      assert (LL : length (skipn (N.to_nat (index + 1 - u_offset u)) (u_entries u)) = 0%nat) by (rewrite EN; reflexivity).
      rewrite skipn_length in LL. rewrite LAST; [reflexivity|]. unfold nlen. lia.
  - unfold lview, l_stable_to, l_with_unstable. cbn [l_unstable]. fold u u'. rewrite S', SN. f_equal.
    rewrite O', E'. fold n.
    replace (N.to_nat (index + 1 - ms_dummy_index st - 1)) with (a + n)%nat by (unfold a, n; lia).
    rewrite firstn_add', SEG, <- app_assoc, firstn_skipn. reflexivity.
Qed.

Print Assumptions stable_to_keeps_view.
