(* LogProofs.v: MemoryStorage and the unstable log behave like one abstract log (C18):
   a compacted prefix (base index, base term) followed by entries with consecutive indexes. *)
From Coq Require Import List NArith Bool Lia Arith.
From RaftV Require Import Base Types Storage Log Tactics.
Import ListNotations.
Open Scope N_scope.

(* ---------- the abstract log ---------- *)

(* entries with consecutive indexes starting at [i] *)
Fixpoint contig (i : N) (es : list entry) : Prop :=
  match es with
  | [] => True
  | e :: rest => e_index e = i /\ contig (i + 1) rest
  end.

Record abslog := mkAbs { a_base : N; a_base_term : N; a_ents : list entry }.

Definition a_wf (a : abslog) : Prop := contig (a_base a + 1) (a_ents a).
Definition a_first (a : abslog) : N := a_base a + 1.
Definition a_last (a : abslog) : N := a_base a + nlen (a_ents a).

(* the entry at index i, if held *)
Definition a_at (a : abslog) (i : N) : option entry :=
  if i <=? a_base a then None else nth_error (a_ents a) (N.to_nat (i - a_base a - 1)).

Definition a_term (a : abslog) (i : N) : option N :=
  if N.eqb i (a_base a) then Some (a_base_term a)
  else match a_at a i with Some e => Some (e_term e) | None => None end.

(* entries with index in [lo, hi) *)
Definition a_range (a : abslog) (lo hi : N) : list entry :=
  firstn (N.to_nat (hi - lo)) (skipn (N.to_nat (lo - a_base a - 1)) (a_ents a)).

(* keep the entries below index i, then append es *)
Definition a_truncate_append (a : abslog) (es : list entry) : abslog :=
  match es with
  | [] => a
  | e0 :: _ => mkAbs (a_base a) (a_base_term a) (firstn (N.to_nat (e_index e0 - a_base a - 1)) (a_ents a) ++ es)
  end.

Definition abs_ms (s : memstorage) : abslog := mkAbs (ms_dummy_index s) (ms_dummy_term s) (ms_ents s).
Definition ms_wf (s : memstorage) : Prop := a_wf (abs_ms s).

(* ---------- contig ---------- *)

Lemma nlen_cons {A} (x : A) l : nlen (x :: l) = nlen l + 1.
Proof. unfold nlen. cbn [length]. lia. Qed.

Lemma nlen_app {A} (a b : list A) : nlen (a ++ b) = nlen a + nlen b.
Proof. unfold nlen. rewrite app_length. lia. Qed.

Lemma contig_app i a b : contig i (a ++ b) <-> contig i a /\ contig (i + nlen a) b.
Proof.
  revert i. induction a as [|e a IH]; intros i; cbn [app contig].
  - unfold nlen. cbn. rewrite N.add_0_r. tauto.
  - rewrite IH, nlen_cons. replace (i + 1 + nlen a) with (i + (nlen a + 1)) by lia. tauto.
Qed.

Lemma contig_firstn i es n : contig i es -> contig i (firstn n es).
Proof.
  revert i n. induction es as [|e es IH]; intros i n H; destruct n; cbn; auto.
  destruct H as [H1 H2]. split; [exact H1|apply IH; exact H2].
Qed.

Lemma contig_skipn i es n : contig i es -> contig (i + N.of_nat n) (skipn n es).
Proof.
  revert i n. induction es as [|e es IH]; intros i n H; destruct n; cbn [skipn contig]; auto.
  - cbn. rewrite N.add_0_r. exact H.
  - destruct H as [H1 H2]. replace (i + N.of_nat (S n)) with (i + 1 + N.of_nat n) by lia. apply IH. exact H2.
Qed.

Lemma contig_nth i es k e : contig i es -> nth_error es k = Some e -> e_index e = i + N.of_nat k.
Proof.
  revert i k. induction es as [|x es IH]; intros i k H N; destruct k; cbn in N; try discriminate.
  - inversion N; subst. destruct H as [H _]. cbn. lia.
  - destruct H as [_ H]. rewrite (IH _ _ H N). lia.
Qed.

Lemma contig_head i e es : contig i (e :: es) -> e_index e = i.
Proof. intros [H _]. exact H. Qed.

(* ---------- MemoryStorage refines the abstract log ---------- *)

Lemma ndrop_skipn {A} n (l : list A) : ndrop n l = skipn (N.to_nat n) l.
Proof.
  unfold ndrop. destruct (N.leb_spec (nlen l) n); [|reflexivity].
  symmetry. apply skipn_all2. unfold nlen in *. lia.
Qed.

Lemma ntake_firstn {A} n (l : list A) : ntake n l = firstn (N.to_nat n) l.
Proof.
  unfold ntake. destruct (N.leb_spec (nlen l) n); [|reflexivity].
  symmetry. apply firstn_all2. unfold nlen in *. lia.
Qed.

Lemma nnth_nth {A} n (l : list A) : nnth n l = nth_error l (N.to_nat n).
Proof.
  unfold nnth. destruct (N.leb_spec (nlen l) n); [|reflexivity].
  symmetry. apply nth_error_None. unfold nlen in *. lia.
Qed.

(* Term: ErrCompacted exactly below the base, ErrUnavailable exactly above the last index,
   otherwise the abstract term *)
Theorem ms_term_refines s i :
  match ms_term s i with
  | (t, ENone) => a_base (abs_ms s) <= i <= a_last (abs_ms s) /\ a_term (abs_ms s) i = Some t
  | (_, ErrCompacted) => i < a_base (abs_ms s)
  | (_, ErrUnavailable) => a_last (abs_ms s) < i
  | _ => False
  end.
Proof.
  unfold ms_term, a_term, a_at, a_last, abs_ms. cbn.
  destruct (N.ltb_spec i (ms_dummy_index s)); [assumption|].
  destruct (N.leb_spec (nlen (ms_ents s) + 1) (i - ms_dummy_index s)); [lia|].
  destruct (N.eqb_spec i (ms_dummy_index s)); [split; [lia|reflexivity]|].
  rewrite nnth_nth.
  assert (L : (i <=? ms_dummy_index s) = false) by (apply N.leb_gt; lia). rewrite L.
  destruct (nth_error (ms_ents s) (N.to_nat (i - ms_dummy_index s - 1))) eqn:E.
  - split; [lia|reflexivity].
  - apply nth_error_None in E. unfold nlen in *. lia.
Qed.

Lemma ms_first_last s : ms_first_index s = a_first (abs_ms s) /\ ms_last_index s = a_last (abs_ms s).
Proof. split; reflexivity. Qed.

(* Entries(lo, hi, max): ErrCompacted iff lo <= base; otherwise (inside the log) a non-empty
   prefix, limited in size, of the abstract range *)
Theorem ms_entries_refines s lo hi maxSize es e :
  ms_entries s lo hi maxSize = Ok (es, e) ->
  (e = ErrCompacted <-> lo <= a_base (abs_ms s)) /\
  (e = ENone -> es = limit_size (a_range (abs_ms s) lo hi) maxSize) /\
  (e = ErrUnavailable -> a_ents (abs_ms s) = []).
Proof.
  unfold ms_entries, a_range, abs_ms. cbn. intros H.
  destruct (N.leb_spec lo (ms_dummy_index s)).
  { inversion H; subst. repeat split; try discriminate; auto. }
  destruct (_ <? hi); [discriminate|]. destruct (N.ltb_spec hi lo); [discriminate|].
  destruct (ms_ents s) eqn:E.
  { inversion H; subst. repeat split; try discriminate; try lia; auto. }
  inversion H; subst; clear H. rewrite <- E.
  repeat split; try discriminate; try lia.
  intros _. rewrite ntake_firstn, ndrop_skipn. reflexivity.
Qed.

(* ---------- writes ---------- *)

Lemma ms_apply_snapshot_refines s snap s' e :
  ms_apply_snapshot s snap = (s', e) ->
  (e = ErrSnapOutOfDate -> s' = s /\ s_index (ms_snapshot s) <> 0 /\ s_index snap <= s_index (ms_snapshot s)) /\
  (e = ENone -> abs_ms s' = mkAbs (s_index snap) (s_term snap) [] /\ ms_snapshot s' = snap /\ ms_wf s') /\
  (e = ENone \/ e = ErrSnapOutOfDate).
Proof.
  unfold ms_apply_snapshot. intros H.
  destruct (negb (N.eqb (s_index (ms_snapshot s)) 0) && (s_index snap <=? s_index (ms_snapshot s))) eqn:C;
    inversion H; subst; clear H.
  - bool_to_prop. repeat split; try discriminate; auto.
  - repeat split; try discriminate; auto; try (unfold ms_wf, a_wf; cbn; trivial).
Qed.

Lemma ms_compact_refines s ci s' e :
  ms_wf s -> ms_compact s ci = Ok (s', e) ->
  (e = ErrCompacted <-> ci <= a_base (abs_ms s)) /\
  (e = ErrCompacted -> s' = s) /\
  (e = ENone -> ms_wf s' /\ a_base (abs_ms s') = ci /\
                a_term (abs_ms s) ci = Some (a_base_term (abs_ms s')) /\
                a_ents (abs_ms s') = skipn (N.to_nat (ci - a_base (abs_ms s))) (a_ents (abs_ms s)) /\
                ms_snapshot s' = ms_snapshot s /\ ms_hardstate s' = ms_hardstate s).
Proof.
  unfold ms_compact. intros W H. cbn [abs_ms a_base a_ents a_base_term].
  destruct (N.leb_spec ci (ms_dummy_index s)).
  { inversion H; subst. repeat split; try discriminate; auto. }
  destruct (N.ltb_spec (ms_last_index s) ci); [discriminate|]. inversion H; subst; clear H.
  repeat split; try discriminate; try lia.
  - unfold ms_wf, a_wf in *. cbn in *. rewrite ndrop_skipn.
    replace (ci + 1) with (ms_dummy_index s + 1 + N.of_nat (N.to_nat (ci - ms_dummy_index s))) by lia.
    apply contig_skipn. exact W.
  - pose proof (ms_term_refines s ci) as T. cbn [ms_with_ents ms_dummy_term].
    destruct (ms_term s ci) as [t er]. unfold a_last in T. cbn [abs_ms a_base a_ents] in T. cbn [fst].
    unfold ms_last_index in *. destruct er; try contradiction; try lia; destruct T as [_ T]; exact T.
  - cbn. rewrite ndrop_skipn. reflexivity.
Qed.

(* Append: entries below the first index are dropped; then truncate-and-append; a gap is an
   assertion failure *)
Theorem ms_append_refines s ents s' :
  ms_wf s -> (forall e0 rest, ents = e0 :: rest -> contig (e_index e0) ents) ->
  ms_append s ents = Ok s' ->
  ms_wf s' /\ a_base (abs_ms s') = a_base (abs_ms s) /\ a_base_term (abs_ms s') = a_base_term (abs_ms s) /\
  ms_snapshot s' = ms_snapshot s /\ ms_hardstate s' = ms_hardstate s /\
  (forall e0 rest, ents = e0 :: rest -> a_first (abs_ms s) <= e_index e0 ->
     abs_ms s' = a_truncate_append (abs_ms s) ents).
Proof.
  unfold ms_append. intros W C H. destruct ents as [|e0 rest].
  { inversion H; subst. repeat split; auto; intros; discriminate. }
  specialize (C e0 rest eq_refl).
  destruct (N.ltb_spec (e_index e0 + nlen (e0 :: rest) - 1) (ms_first_index s)).
  { inversion H; subst. repeat split; auto. intros e1 r1 E F. inversion E; subst.
    unfold a_first, ms_first_index in *. cbn [abs_ms a_base] in *.
    match goal with X : _ + nlen (_ :: _) - 1 < _ |- _ => rewrite nlen_cons in X end. lia. }
  destruct (N.ltb_spec (e_index e0) (ms_first_index s)) as [Hlt|Hge].
  - (* a prefix of the new entries lies below the first index *)
    rewrite ndrop_skipn in H.
    destruct (skipn (N.to_nat (ms_first_index s - e_index e0)) (e0 :: rest)) as [|f0 frest] eqn:SK.
    { inversion H; subst. repeat split; auto. intros e1 r1 E F. inversion E; subst. unfold a_first in F. cbn in F. unfold ms_first_index in Hlt. lia. }
    assert (CF : contig (ms_first_index s) (f0 :: frest)).
    { rewrite <- SK. replace (ms_first_index s) with (e_index e0 + N.of_nat (N.to_nat (ms_first_index s - e_index e0))) at 1 by lia.
      apply contig_skipn. exact C. }
    assert (F0 : e_index f0 = ms_first_index s) by (apply contig_head in CF; exact CF).
    unfold ms_first_index in F0. rewrite F0 in H.
    replace (ms_dummy_index s + 1 - ms_dummy_index s) with 1 in H by lia.
    assert (NOFIRST : forall e1 r1, e0 :: rest = e1 :: r1 -> a_first (abs_ms s) <= e_index e1 -> False).
    { intros e1 r1 E F. inversion E; subst. unfold a_first in F. cbn in F. unfold ms_first_index in Hlt. lia. }
    destruct (N.ltb_spec 1 (nlen (ms_ents s) + 1)).
    + inversion H; subst; clear H. unfold ms_wf, a_wf. cbn. rewrite ntake_firstn. cbn [N.to_nat N.sub firstn app].
      replace (N.to_nat (1 - 1)) with 0%nat by lia. cbn [firstn app].
      split; [exact CF|]. repeat split; auto. intros e1 r1 E F. exfalso. eapply NOFIRST; eassumption.
    + destruct (N.eqb_spec (nlen (ms_ents s) + 1) 1); [|discriminate].
      inversion H; subst; clear H. unfold ms_wf, a_wf. cbn.
      assert (Z : ms_ents s = []) by (destruct (ms_ents s); [reflexivity|rewrite nlen_cons in e; lia]).
      rewrite Z. cbn [app]. split; [exact CF|]. repeat split; auto.
      intros e1 r1 E F. exfalso. eapply NOFIRST; eassumption.
  - unfold ms_first_index in Hge.
    destruct (N.ltb_spec (e_index e0 - ms_dummy_index s) (nlen (ms_ents s) + 1)).
    + inversion H; subst; clear H. rewrite ntake_firstn. unfold ms_wf, a_wf in *. cbn in *.
      split.
      { apply contig_app. split; [apply contig_firstn; exact W|].
        assert (L : nlen (firstn (N.to_nat (e_index e0 - ms_dummy_index s - 1)) (ms_ents s)) = e_index e0 - ms_dummy_index s - 1).
        { unfold nlen in *. rewrite firstn_length. lia. }
        rewrite L. replace (ms_dummy_index s + 1 + (e_index e0 - ms_dummy_index s - 1)) with (e_index e0) by lia. exact C. }
      repeat split; auto; intros e1 r1 E F; inversion E; subst; reflexivity.
    + destruct (N.eqb_spec (nlen (ms_ents s) + 1) (e_index e0 - ms_dummy_index s)) as [EQ|]; [|discriminate].
      inversion H; subst; clear H. unfold ms_wf, a_wf in *. cbn in *.
      split.
      { apply contig_app. split; [exact W|].
        replace (ms_dummy_index s + 1 + nlen (ms_ents s)) with (e_index e0) by lia. exact C. }
      repeat split; auto; intros e1 r1 E F; inversion E; subst; unfold a_truncate_append, abs_ms; cbn; f_equal;
      (rewrite firstn_all2; [reflexivity|]); unfold nlen in EQ; lia.
Qed.

Lemma ms_set_hardstate_abs s h : abs_ms (ms_set_hardstate s h) = abs_ms s /\ ms_snapshot (ms_set_hardstate s h) = ms_snapshot s.
Proof. split; reflexivity. Qed.

Lemma ms_create_snapshot_refines s i cs data s' snap e :
  ms_create_snapshot s i cs data = Ok (s', snap, e) ->
  abs_ms s' = abs_ms s /\
  (e = ErrSnapOutOfDate <-> i <= s_index (ms_snapshot s)) /\
  (e = ErrSnapOutOfDate -> s' = s /\ snap = None) /\
  (e = ENone -> a_base (abs_ms s) <= i <= a_last (abs_ms s) /\
                snap = Some (ms_snapshot s') /\ s_index (ms_snapshot s') = i /\
                a_term (abs_ms s) i = Some (s_term (ms_snapshot s'))).
Proof.
  unfold ms_create_snapshot. intros H.
  destruct (N.leb_spec i (s_index (ms_snapshot s))).
  { inversion H; subst. repeat split; try discriminate; auto. }
  destruct (N.ltb_spec (ms_last_index s) i); [discriminate|].
  destruct (N.ltb_spec i (ms_dummy_index s)); [discriminate|].
  inversion H; subst; clear H. repeat split; try discriminate; try lia; auto.
  - cbn [ms_snapshot s_term]. pose proof (ms_term_refines s i) as T.
    destruct (ms_term s i) as [t er]. unfold a_last in T. cbn [abs_ms a_base a_ents] in T. cbn [fst].
    unfold ms_last_index in *. destruct er; try contradiction; try lia; destruct T as [_ T]; exact T.
Qed.

(* ---------- unstable ---------- *)

Definition u_wf (u : unstable) : Prop :=
  contig (u_offset u) (u_entries u) /\
  u_offset u <= u_offset_in_progress u <= u_offset u + nlen (u_entries u) /\
  match u_snapshot u with Some s => s_index s + 1 <= u_offset u | None => True end.

Lemma u_slice_spec u lo hi es :
  u_wf u -> u_slice u lo hi = Ok es ->
  lo <= hi /\ u_offset u <= lo /\ hi <= u_offset u + nlen (u_entries u) /\
  es = firstn (N.to_nat (hi - lo)) (skipn (N.to_nat (lo - u_offset u)) (u_entries u)) /\
  contig lo es /\ nlen es = hi - lo.
Proof.
  unfold u_slice, u_wf. intros (C & O & S) H.
  destruct (N.ltb_spec hi lo); [discriminate|].
  destruct (N.ltb_spec lo (u_offset u)); [discriminate|].
  destruct (N.ltb_spec (u_offset u + nlen (u_entries u)) hi); [discriminate|]. cbn in H.
  inversion H; subst; clear H. rewrite ntake_firstn, ndrop_skipn.
  repeat split; try lia.
  - apply contig_firstn. replace lo with (u_offset u + N.of_nat (N.to_nat (lo - u_offset u))) at 1 by lia.
    apply contig_skipn. exact C.
  - unfold nlen in *. rewrite firstn_length, skipn_length. lia.
Qed.

(* truncateAndAppend keeps the unstable log well formed; the result holds the old entries
   below the first new index followed by the new ones *)
Theorem u_truncate_and_append_wf u ents u' e0 rest :
  u_wf u -> ents = e0 :: rest -> contig (e_index e0) ents ->
  (match u_snapshot u with Some s => s_index s < e_index e0 | None => True end) ->
  e_index e0 <= u_offset u + nlen (u_entries u) ->
  u_truncate_and_append u ents = Ok u' ->
  u_wf u' /\ u_snapshot u' = u_snapshot u /\ u_snapshot_in_progress u' = u_snapshot_in_progress u /\
  u_offset u' = N.min (u_offset u) (e_index e0) /\
  u_entries u' = firstn (N.to_nat (e_index e0 - u_offset u)) (u_entries u) ++ ents /\
  u_offset_in_progress u' = N.min (u_offset_in_progress u) (e_index e0).
Proof.
  unfold u_truncate_and_append. intros W E C SN LE H. subst ents.
  pose proof W as (CW & OW & SW).
  destruct (N.eqb_spec (e_index e0) (u_offset u + nlen (u_entries u))).
  - inversion H; subst; clear H. cbn. unfold u_wf. cbn.
    assert (F : firstn (N.to_nat (e_index e0 - u_offset u)) (u_entries u) = u_entries u).
    { apply firstn_all2. unfold nlen in e. lia. }
    rewrite F. repeat split; try lia.
    + apply contig_app. split; [exact CW|]. rewrite <- e. exact C.
    + rewrite nlen_app. lia.
    + exact SW.
  - destruct (N.leb_spec (e_index e0) (u_offset u)).
    + inversion H; subst; clear H. cbn. unfold u_wf. cbn.
      replace (N.to_nat (e_index e0 - u_offset u)) with 0%nat by lia. cbn.
      repeat split; try lia; try exact C; try (apply C).
      destruct (u_snapshot u); [lia|trivial].
    + destruct (u_slice u (u_offset u) (e_index e0)) as [keep|] eqn:K; cbn [bind] in H; [|discriminate].
      inversion H; subst; clear H.
      destruct (u_slice_spec _ _ _ _ W K) as (_ & _ & _ & KE & KC & KL).
      replace (u_offset u - u_offset u) with 0 in KE by lia. cbn in KE.
      cbn. unfold u_wf. cbn. rewrite <- KE.
      repeat split; try lia.
      * apply contig_app. split; [exact KC|]. rewrite KL.
        replace (u_offset u + (e_index e0 - u_offset u)) with (e_index e0) by lia. exact C.
      * rewrite nlen_app, KL. lia.
      * exact SW.
Qed.

(* stableTo only drops a prefix that matches (index, term); anything else is ignored *)
Theorem u_stable_to_spec u index term :
  u_wf u ->
  let u' := u_stable_to u index term in
  u_wf u' /\ u_snapshot u' = u_snapshot u /\
  (u' = u \/
   (u_offset u <= index /\
    (exists e, nth_error (u_entries u) (N.to_nat (index - u_offset u)) = Some e /\ e_term e = term) /\
    u_offset u' = index + 1 /\
    u_entries u' = skipn (N.to_nat (index + 1 - u_offset u)) (u_entries u) /\
    u_offset_in_progress u' = N.max (u_offset_in_progress u) (index + 1))).
Proof.
  intros W. cbv zeta.
  pose proof W as (CW & OW & SW).
  assert (SAME : forall P : Prop, u_stable_to u index term = u -> u_wf (u_stable_to u index term) /\
            u_snapshot (u_stable_to u index term) = u_snapshot u /\
            (u_stable_to u index term = u \/ P)) by (intros P X; rewrite X; auto).
  unfold u_stable_to in *. unfold u_maybe_term in *.
  destruct (N.ltb_spec index (u_offset u)).
  { apply SAME. destruct (u_snapshot u) as [s|]; [destruct (N.eqb (s_index s) index)|]; reflexivity. }
  unfold u_maybe_last_index in *.
  destruct (u_entries u) as [|e1 es1] eqn:EE.
  { apply SAME. destruct (u_snapshot u) as [s|]; [|reflexivity].
    destruct (N.ltb_spec (s_index s) index); [reflexivity|]. lia. }
  rewrite <- EE in *.
  destruct (N.ltb_spec (u_offset u + nlen (u_entries u) - 1) index); [apply SAME; reflexivity|].
  rewrite nnth_nth in *.
  destruct (nth_error (u_entries u) (N.to_nat (index - u_offset u))) as [e|] eqn:NE; [|apply SAME; reflexivity].
  destruct (N.eqb_spec (e_term e) term); cbn [negb] in *; [|apply SAME; reflexivity].
  clear SAME. rewrite ndrop_skipn. unfold u_wf. cbn.
  assert (LN : nlen (u_entries u) >= index + 1 - u_offset u) by (rewrite EE, nlen_cons in *; lia).
  split; [|split; [reflexivity|]].
  - repeat split; try lia.
    + replace (index + 1) with (u_offset u + N.of_nat (N.to_nat (index + 1 - u_offset u))) at 1 by lia.
      apply contig_skipn. exact CW.
    + unfold nlen in *. rewrite skipn_length. lia.
    + destruct (u_snapshot u); [lia|trivial].
  - right. repeat split; try lia. exists e. split; [reflexivity|assumption].
Qed.

Lemma u_restore_wf s : u_wf (u_restore s).
Proof. unfold u_wf, u_restore. cbn. unfold nlen. cbn. repeat split; lia. Qed.

Lemma last_opt_index i es e : contig i es -> last_opt es = Some e -> e_index e + 1 = i + nlen es.
Proof.
  unfold last_opt. intros C L. destruct (rev es) as [|x xs] eqn:R; [discriminate|]. inversion L; subst.
  assert (E : es = rev xs ++ [e]) by (rewrite <- (rev_involutive es), R; reflexivity).
  subst es.
  assert (IN : nth_error (rev xs ++ [e]) (length (rev xs)) = Some e).
  { rewrite nth_error_app2 by lia. rewrite Nat.sub_diag. reflexivity. }
  pose proof (contig_nth _ _ _ _ C IN) as I. rewrite nlen_app. unfold nlen. cbn [length]. lia.
Qed.

Lemma u_accept_in_progress_wf u : u_wf u -> u_wf (u_accept_in_progress u) /\
  u_entries (u_accept_in_progress u) = u_entries u /\ u_offset (u_accept_in_progress u) = u_offset u.
Proof.
  unfold u_wf, u_accept_in_progress. intros (C & O & S). cbn. repeat split; auto.
  - destruct (last_opt (u_entries u)) as [e|] eqn:L; [|lia].
    pose proof (last_opt_index _ _ _ C L). destruct (u_entries u); [discriminate|]. rewrite nlen_cons in *. lia.
  - destruct (last_opt (u_entries u)) as [e|] eqn:L; [|lia].
    pose proof (last_opt_index _ _ _ C L). lia.
Qed.

(* ---------- raftLog.slice / nextCommittedEnts: contiguous ranges ---------- *)

Lemma a_range_contig a lo hi : a_wf a -> a_base a < lo -> contig lo (a_range a lo hi).
Proof.
  unfold a_wf, a_range. intros W L. apply contig_firstn.
  replace lo with (a_base a + 1 + N.of_nat (N.to_nat (lo - a_base a - 1))) at 1 by lia.
  apply contig_skipn. exact W.
Qed.

Lemma a_range_len a lo hi : nlen (a_range a lo hi) <= hi - lo.
Proof. unfold a_range, nlen. rewrite firstn_length. lia. Qed.

Lemma limit_loop_prefix rest : forall acc size maxSize,
  exists k, limit_loop acc size rest maxSize = rev acc ++ firstn k rest.
Proof.
  induction rest as [|e rest IH]; intros acc size maxSize; cbn.
  - exists 0%nat. rewrite app_nil_r. reflexivity.
  - destruct (maxSize <? size + entry_size e).
    + exists 0%nat. cbn. rewrite app_nil_r. reflexivity.
    + destruct (IH (e :: acc) (size + entry_size e) maxSize) as [k Hk].
      exists (S k). cbn [rev firstn] in *. rewrite <- app_assoc in Hk. exact Hk.
Qed.

Lemma limit_size_prefix es maxSize : exists k, limit_size es maxSize = firstn k es.
Proof.
  destruct es as [|e rest]; [exists 0%nat; reflexivity|]. unfold limit_size.
  destruct (limit_loop_prefix rest [e] (entry_size e) maxSize) as [k Hk]. exists (S k). exact Hk.
Qed.

Lemma limit_size_contig i es maxSize : contig i es -> contig i (limit_size es maxSize).
Proof. intros C. destruct (limit_size_prefix es maxSize) as [k ->]. apply contig_firstn. exact C. Qed.

Lemma limit_size_len es maxSize : nlen (limit_size es maxSize) <= nlen es.
Proof.
  destruct (limit_size_prefix es maxSize) as [k ->]. unfold nlen. rewrite firstn_length. lia.
Qed.

(* slice(lo, hi, max) returns consecutive entries starting at lo, at most hi - lo of them *)
Theorem l_slice_contig st l lo hi maxSize es :
  ms_wf st -> u_wf (l_unstable l) ->
  l_slice st l lo hi maxSize = Ok (es, ENone) ->
  contig lo es /\ nlen es <= hi - lo.
Proof.
  intros WS WU H. unfold l_slice in H.
  destruct (l_must_check_out_of_bounds st l lo hi) as [e|] eqn:EB; cbn [bind] in H; [|discriminate].
  destruct e; try (inversion H; fail).
  destruct (N.eqb_spec lo hi); [inversion H; subst; cbn; unfold nlen; cbn; split; [trivial|lia]|].
  destruct (N.leb_spec (u_offset (l_unstable l)) lo).
  - destruct (u_slice (l_unstable l) lo hi) as [us|] eqn:EU; cbn [bind] in H; [|discriminate].
    inversion H; subst; clear H. destruct (u_slice_spec _ _ _ _ WU EU) as (_ & _ & _ & _ & C & L).
    split; [apply limit_size_contig; exact C|]. pose proof (limit_size_len us maxSize). lia.
  - destruct (ms_entries st lo (N.min hi (u_offset (l_unstable l))) maxSize) as [[se ee]|] eqn:EM; cbn [bind] in H; [|discriminate].
    destruct (ms_entries_refines _ _ _ _ _ _ EM) as (CM & RM & _).
    assert (LB : ms_dummy_index st < lo).
    { destruct (N.leb_spec lo (ms_dummy_index st)) as [Q|Q]; [|exact Q].
      assert (ee = ErrCompacted) by (apply CM; exact Q). subst ee. inversion H. }
    assert (EE : ee = ENone \/ ee = ErrCompacted \/ ee = ErrUnavailable).
    { clear -EM. unfold ms_entries in EM.
      repeat match type of EM with
      | (if ?c then _ else _) = _ => destruct c
      | match ?x with _ => _ end = _ => destruct x
      end; inversion EM; auto. }
    destruct EE as [ -> | [ -> | -> ] ]; [|inversion H|inversion H].
    specialize (RM eq_refl).
    assert (CS : contig lo se) by (rewrite RM; apply limit_size_contig, a_range_contig; [exact WS|exact LB]).
    assert (LS : nlen se <= N.min hi (u_offset (l_unstable l)) - lo).
    { rewrite RM. pose proof (limit_size_len (a_range (abs_ms st) lo (N.min hi (u_offset (l_unstable l)))) maxSize).
      pose proof (a_range_len (abs_ms st) lo (N.min hi (u_offset (l_unstable l)))). lia. }
    clear RM CM EM.
    destruct (N.leb_spec hi (u_offset (l_unstable l))).
    { inversion H; subst. split; [exact CS|]. lia. }
    destruct (N.ltb_spec (nlen se) (N.min hi (u_offset (l_unstable l)) - lo)).
    { inversion H; subst. split; [exact CS|]. lia. }
    destruct (maxSize <=? ents_size se).
    { inversion H; subst. split; [exact CS|]. lia. }
    destruct (u_slice (l_unstable l) (u_offset (l_unstable l)) hi) as [us|] eqn:EU; cbn [bind] in H; [|discriminate].
    destruct (u_slice_spec _ _ _ _ WU EU) as (_ & _ & _ & _ & C & L).
    destruct (_ && _).
    { inversion H; subst. split; [exact CS|]. lia. }
    inversion H; subst; clear H. split.
    + apply contig_app. split; [exact CS|].
      replace (lo + nlen se) with (u_offset (l_unstable l)) by lia.
      apply limit_size_contig. exact C.
    + rewrite nlen_app. pose proof (limit_size_len us (maxSize - ents_size se)). lia.
Qed.

(* nextCommittedEnts: nothing while paused or while a snapshot is pending; otherwise
   consecutive entries starting right after the applying cursor and not beyond commit; without
   permission to apply unstable entries, nothing at or beyond the unstable offset *)
Theorem l_next_committed_ents_spec st l allow es :
  ms_wf st -> u_wf (l_unstable l) -> 1 <= u_offset (l_unstable l) < two64 ->
  l_next_committed_ents st l allow = Ok es ->
  (l_applying_paused l = true -> es = []) /\
  (u_snapshot (l_unstable l) <> None -> es = []) /\
  contig (l_applying l + 1) es /\
  (es <> [] -> l_applying l + nlen es <= l_committed l) /\
  (allow = false -> es <> [] -> l_applying l + nlen es < u_offset (l_unstable l)).
Proof.
  intros WS WU OB H. unfold l_next_committed_ents in H.
  assert (SUB : sub64 (u_offset (l_unstable l)) 1 = u_offset (l_unstable l) - 1).
  { unfold sub64. replace (u_offset (l_unstable l) + two64 - 1) with ((u_offset (l_unstable l) - 1) + 1 * two64) by (unfold two64 in *; lia).
    rewrite N.mod_add by (unfold two64; lia). apply N.mod_small. lia. }
  destruct (l_applying_paused l) eqn:P.
  { inversion H; subst. unfold nlen. cbn. repeat split; auto; try lia; try congruence; try (intros; congruence). }
  unfold l_has_next_or_in_progress_snapshot in H.
  destruct (u_snapshot (l_unstable l)) eqn:S.
  { inversion H; subst. unfold nlen. cbn. repeat split; auto; try lia; try congruence; try (intros; congruence). }
  assert (MA : l_max_appliable l allow <= l_committed l /\
               (allow = false -> l_max_appliable l allow <= u_offset (l_unstable l) - 1)).
  { unfold l_max_appliable. destruct allow; split; try lia; try discriminate; intros _; rewrite SUB; lia. }
  destruct MA as [MA1 MA2].
  destruct (N.leb_spec (l_max_appliable l allow + 1) (l_applying l + 1)).
  { inversion H; subst. unfold nlen. cbn. repeat split; auto; try lia; try discriminate; try (intros; congruence). }
  destruct (N.eqb _ 0); [discriminate|].
  destruct (l_slice st l (l_applying l + 1) (l_max_appliable l allow + 1) _) as [[es' e]|] eqn:SL; cbn [bind] in H; [|discriminate].
  destruct e; try discriminate. inversion H; subst; clear H.
  destruct (l_slice_contig _ _ _ _ _ _ WS WU SL) as [C L].
  repeat split; auto; try discriminate; try congruence; try lia.
  intros A _. specialize (MA2 A). lia.
Qed.
