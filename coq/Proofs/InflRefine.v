(* InflRefine.v: tracker.Inflights (ring buffer that grows by doubling) refines a plain window:
   a list of (index, bytes), oldest first. *)
From Coq Require Import List NArith Bool Lia Arith.
From RaftV Require Import Base Types Progress.
Import ListNotations.
Open Scope N_scope.

Definition wrap (i : inflights) (p : N) : N := if in_size i <=? p then p - in_size i else p.
Definition wpos (i : inflights) (k : N) : N := wrap i (in_start i + k).

Fixpoint sumb (w : list (N * N)) : N := match w with [] => 0 | e :: r => snd e + sumb r end.

(* representation invariant *)
Definition infl_ok (i : inflights) : Prop :=
  in_count i <= in_size i /\
  nlen (in_buffer i) <= in_size i /\
  (in_start i < in_size i \/ in_start i = 0) /\
  (nlen (in_buffer i) < in_size i -> in_start i + in_count i <= nlen (in_buffer i)) /\
  (forall k, k < in_count i -> wpos i k < nlen (in_buffer i)) /\
  in_bytes i = sumb (infl_window i).

Lemma window_loop_spec i : forall n k,
  in_start i < in_size i \/ in_start i = 0 ->
  k + N.of_nat n <= in_size i ->
  infl_window_loop i n (wpos i k) = map (fun j => buf_at i (wpos i (k + N.of_nat j))) (seq 0 n).
Proof.
  induction n as [|n IH]; intros k S B; [reflexivity|].
  cbn [infl_window_loop seq map]. f_equal; [f_equal; f_equal; lia|].
  assert (E : (if in_size i <=? wpos i k + 1 then wpos i k + 1 - in_size i else wpos i k + 1) = wpos i (k + 1)).
  { unfold wpos, wrap.
    destruct (N.leb_spec (in_size i) (in_start i + k)); destruct (N.leb_spec (in_size i) (in_start i + (k + 1)));
      destruct (N.leb_spec (in_size i) (in_start i + k - in_size i + 1)); destruct (N.leb_spec (in_size i) (in_start i + k + 1)); lia. }
  rewrite E. rewrite IH by (try assumption; lia).
  rewrite <- seq_shift, map_map. apply map_ext. intros j. f_equal. f_equal. lia.
Qed.

Lemma window_spec i : infl_ok i ->
  infl_window i = map (fun j => buf_at i (wpos i (N.of_nat j))) (seq 0 (N.to_nat (in_count i))).
Proof.
  intros (C & _ & S & _). unfold infl_window.
  replace (in_start i) with (wpos i 0) at 1.
  - rewrite window_loop_spec by (try assumption; lia). apply map_ext. intros j. reflexivity.
  - unfold wpos, wrap. destruct (N.leb_spec (in_size i) (in_start i + 0)); lia.
Qed.

Lemma window_length i : infl_ok i -> length (infl_window i) = N.to_nat (in_count i).
Proof. intros O. rewrite (window_spec i O), map_length, seq_length. reflexivity. Qed.

(* ---------- list_set ---------- *)

Lemma list_set_length {A} (l : list A) : forall n x, length (list_set l n x) = length l.
Proof. induction l as [|h t IH]; intros [|n] x; cbn; auto. Qed.

Lemma nth_list_set_eq {A} (l : list A) : forall n x d, (n < length l)%nat -> nth n (list_set l n x) d = x.
Proof. induction l as [|h t IH]; intros [|n] x d H; cbn in *; try lia; auto; apply IH; lia. Qed.

Lemma nth_list_set_neq {A} (l : list A) : forall n m x d, n <> m -> nth m (list_set l n x) d = nth m l d.
Proof.
  induction l as [|h t IH]; intros [|n] [|m] x d H; cbn; auto; try contradiction; try (apply IH; lia).
Qed.

Lemma wpos_inj i j j' :
  in_start i < in_size i \/ in_start i = 0 -> j < in_size i -> j' < in_size i -> j <> j' -> wpos i j <> wpos i j'.
Proof.
  intros S A B NE. unfold wpos, wrap.
  destruct (N.leb_spec (in_size i) (in_start i + j)); destruct (N.leb_spec (in_size i) (in_start i + j')); lia.
Qed.

Lemma sumb_app a b : sumb (a ++ b) = sumb a + sumb b.
Proof. induction a as [|x a IH]; cbn [app sumb]; [reflexivity|]. rewrite IH. lia. Qed.

(* ---------- Add ---------- *)

Theorem infl_add_window i idx b i' :
  infl_ok i -> infl_add i idx b = Ok i' ->
  infl_ok i' /\ infl_window i' = infl_window i ++ [(idx, b)] /\
  in_count i' = in_count i + 1 /\ in_size i' = in_size i /\ in_maxbytes i' = in_maxbytes i.
Proof.
  intros O H. pose proof O as (C & BL & S & A & P & BY).
  unfold infl_add in H. destruct (infl_full i) eqn:F; [discriminate|].
  assert (CL : in_count i < in_size i).
  { unfold infl_full in F. apply orb_false_iff in F. destruct F as [F _]. apply N.eqb_neq in F. lia. }
  set (next := if in_size i <=? in_start i + in_count i then in_start i + in_count i - in_size i else in_start i + in_count i) in *.
  assert (NX : next = wpos i (in_count i)) by reflexivity.
  set (i1 := if nlen (in_buffer i) <=? next then infl_grow i else i) in *.
  assert (I1 : in_start i1 = in_start i /\ in_count i1 = in_count i /\ in_bytes i1 = in_bytes i /\
               in_size i1 = in_size i /\ in_maxbytes i1 = in_maxbytes i).
  { unfold i1. destruct (nlen (in_buffer i) <=? next); cbn; auto. }
  destruct I1 as (E1 & E2 & E3 & E4 & E5).
  (* the buffer of i1 extends the buffer of i and holds position next *)
  assert (B1 : (forall m, m < nlen (in_buffer i) -> nth (N.to_nat m) (in_buffer i1) (0, 0) = nth (N.to_nat m) (in_buffer i) (0, 0)) /\
               nlen (in_buffer i) <= nlen (in_buffer i1) /\ next < nlen (in_buffer i1) /\ nlen (in_buffer i1) <= in_size i /\
               (nlen (in_buffer i1) < in_size i -> in_start i + in_count i + 1 <= nlen (in_buffer i1))).
  { unfold i1. destruct (N.leb_spec (nlen (in_buffer i)) next) as [G|G].
    - (* grow *)
      assert (LT : nlen (in_buffer i) < in_size i).
      { destruct (N.lt_ge_cases (nlen (in_buffer i)) (in_size i)) as [Q|Q]; [exact Q|exfalso].
        assert (next < in_size i) by (unfold next; destruct (N.leb_spec (in_size i) (in_start i + in_count i)); lia). lia. }
      specialize (A LT).
      assert (NE : next = nlen (in_buffer i)).
      { unfold next in *. destruct (N.leb_spec (in_size i) (in_start i + in_count i)); lia. }
      unfold infl_grow. cbn [in_buffer].
      set (len := nlen (in_buffer i)) in *.
      set (ns := if N.eqb (len * 2) 0 then 1 else if in_size i <? len * 2 then in_size i else len * 2).
      assert (NS : len < ns /\ ns <= in_size i).
      { unfold ns. destruct (N.eqb_spec (len * 2) 0); [lia|]. destruct (N.ltb_spec (in_size i) (len * 2)); lia. }
      assert (LEN : nlen (in_buffer i ++ repeat (0, 0) (N.to_nat (ns - len))) = ns).
      { unfold nlen. rewrite app_length, repeat_length. fold (nlen (in_buffer i)). fold len. unfold nlen in len. lia. }
      rewrite LEN. repeat split; try lia.
      intros m Hm. apply app_nth1. unfold len, nlen in Hm. lia.
    - repeat split; try lia; auto. intros LT. specialize (A LT).
      unfold next in G. destruct (N.leb_spec (in_size i) (in_start i + in_count i)); lia. }
  destruct B1 as (PRE & GE & NXL & LE1 & A1).
  inversion H; subst i'; clear H.
  set (i' := mkInfl (in_start i1) (in_count i1 + 1) (in_bytes i1 + b) (in_size i1) (in_maxbytes i1)
                    (list_set (in_buffer i1) (N.to_nat next) (idx, b))).
  assert (WP : forall k, wpos i' k = wpos i k) by (intros k; unfold wpos, wrap, i'; cbn; rewrite E1, E4; reflexivity).
  assert (LB : nlen (in_buffer i') = nlen (in_buffer i1)) by (unfold i', nlen; cbn; rewrite list_set_length; reflexivity).
  (* the window *)
  assert (W : infl_window i' = infl_window i ++ [(idx, b)]).
  { assert (S' : in_start i' < in_size i' \/ in_start i' = 0) by (unfold i'; cbn; rewrite E1, E4; exact S).
    unfold infl_window at 1.
    replace (in_start i') with (wpos i' 0) by (unfold wpos, wrap; destruct (N.leb_spec (in_size i') (in_start i' + 0)); [destruct S'; lia|lia]).
    rewrite window_loop_spec by (try exact S'; unfold i'; cbn; rewrite E2, E4; lia).
    rewrite (window_spec i O).
    replace (N.to_nat (in_count i')) with (N.to_nat (in_count i) + 1)%nat by (unfold i'; cbn; rewrite E2; lia).
    rewrite seq_app, map_app. cbn [seq map]. f_equal.
    - apply map_ext_in. intros j Hj. apply in_seq in Hj.
      rewrite WP. unfold buf_at, i'. cbn [in_buffer].
      rewrite nth_list_set_neq.
      + apply PRE. apply P. lia.
      + intro X. apply N2Nat.inj in X. revert X. rewrite NX. apply wpos_inj; try assumption; lia.
    - f_equal. rewrite WP. unfold buf_at, i'. cbn [in_buffer].
      replace (0 + N.of_nat (0 + N.to_nat (in_count i))) with (in_count i) by lia.
      rewrite <- NX. apply nth_list_set_eq. unfold nlen in NXL. lia. }
  split; [|split; [exact W|unfold i'; cbn; repeat split; lia]].
  unfold infl_ok. refine (conj _ (conj _ (conj _ (conj _ (conj _ _))))).
  - unfold i'; cbn. lia.
  - rewrite LB. unfold i'; cbn. lia.
  - unfold i'; cbn. rewrite E1, E4. exact S.
  - rewrite LB. unfold i'; cbn. rewrite E1, E2, E4. intros LT. specialize (A1 LT). lia.
  - intros k Hk. rewrite WP, LB. unfold i' in Hk; cbn in Hk. rewrite E2 in Hk.
    destruct (N.eq_dec k (in_count i)) as [->|NE]; [rewrite <- NX; exact NXL|].
    specialize (P k ltac:(lia)). lia.
  - rewrite W, sumb_app. unfold i'; cbn. rewrite E3, BY. lia.
Qed.

(* ---------- FreeLE ---------- *)

(* number of leading window entries with index <= to *)
Fixpoint cntle (to : N) (w : list (N * N)) : nat :=
  match w with
  | [] => O
  | e :: r => if to <? fst e then O else S (cntle to r)
  end.

Lemma cntle_le to w : (cntle to w <= length w)%nat.
Proof. induction w as [|e r IH]; cbn; [lia|]. destruct (to <? fst e); lia. Qed.

Lemma wpos_succ i k : in_start i < in_size i \/ in_start i = 0 -> k + 1 <= in_size i ->
  wrap i (wpos i k + 1) = wpos i (k + 1).
Proof.
  intros S B. unfold wpos, wrap.
  destruct (N.leb_spec (in_size i) (in_start i + k)); destruct (N.leb_spec (in_size i) (in_start i + (k + 1)));
    destruct (N.leb_spec (in_size i) (in_start i + k - in_size i + 1)); destruct (N.leb_spec (in_size i) (in_start i + k + 1)); lia.
Qed.

Lemma free_loop_spec i to : forall n k0 k bytes,
  in_start i < in_size i \/ in_start i = 0 -> k0 + N.of_nat n <= in_size i ->
  let w := map (fun j => buf_at i (wpos i (k0 + N.of_nat j))) (seq 0 n) in
  free_loop i to n (wpos i k0) k bytes =
    (wpos i (k0 + N.of_nat (cntle to w)), k + N.of_nat (cntle to w), bytes + sumb (firstn (cntle to w) w)).
Proof.
  induction n as [|n IH]; intros k0 k bytes S B; cbn zeta.
  - cbn. f_equal; [f_equal|]; try lia. f_equal. lia.
  - cbn [free_loop seq map cntle]. replace (k0 + N.of_nat 0) with k0 by lia.
    destruct (to <? fst (buf_at i (wpos i k0))) eqn:T.
    + cbn [firstn sumb]. f_equal; [f_equal|]; try lia. f_equal. lia.
    + fold (wrap i (wpos i k0 + 1)). rewrite (wpos_succ i k0 S) by lia.
      rewrite (IH (k0 + 1) (k + 1) (bytes + snd (buf_at i (wpos i k0))) S) by lia. cbn zeta.
      assert (E : map (fun j : nat => buf_at i (wpos i (k0 + 1 + N.of_nat j))) (seq 0 n) =
                  map (fun j : nat => buf_at i (wpos i (k0 + N.of_nat j))) (seq 1 n)).
      { rewrite <- seq_shift, map_map. apply map_ext. intros j. f_equal. f_equal. lia. }
      rewrite E. cbn [firstn sumb].
      set (c := cntle to (map (fun j : nat => buf_at i (wpos i (k0 + N.of_nat j))) (seq 1 n))).
      f_equal; [f_equal|]; try lia. f_equal. lia.
Qed.

Lemma map_seq_from {A} (g : nat -> A) : forall n a, map g (seq a n) = map (fun j => g (a + j)%nat) (seq 0 n).
Proof.
  induction n as [|n IH]; intros a; [reflexivity|]. cbn [seq map]. f_equal; [f_equal; lia|].
  rewrite (IH (S a)). rewrite <- seq_shift, map_map. apply map_ext. intros j. f_equal. lia.
Qed.

Lemma sumb_split n w : sumb w = sumb (firstn n w) + sumb (skipn n w).
Proof. rewrite <- (firstn_skipn n w) at 1. apply sumb_app. Qed.

Lemma cntle_first to w : (forall e, In e (firstn (cntle to w) w) -> fst e <= to) /\
  (match skipn (cntle to w) w with [] => True | e :: _ => to < fst e end).
Proof.
  induction w as [|e r [IH1 IH2]]; cbn [cntle]; [split; [intros e []|exact I]|].
  destruct (N.ltb_spec to (fst e)).
  - split; [intros x []|cbn; assumption].
  - cbn [firstn skipn]. split; [|exact IH2]. intros x [<-|H']; [lia|apply IH1; exact H'].
Qed.

Theorem infl_free_le_window i to :
  infl_ok i ->
  let i' := infl_free_le i to in
  let f := cntle to (infl_window i) in
  infl_ok i' /\ infl_window i' = skipn f (infl_window i) /\
  in_count i' = in_count i - N.of_nat f /\ in_size i' = in_size i /\ in_maxbytes i' = in_maxbytes i.
Proof.
  intros O. pose proof O as (C & BL & S & A & P & BY). cbn zeta.
  pose proof (window_spec i O) as WS. pose proof (window_length i O) as WL.
  unfold infl_free_le.
  destruct (N.eqb_spec (in_count i) 0) as [Z|NZ]; cbn [orb].
  { assert (E : infl_window i = []) by (apply length_zero_iff_nil; rewrite WL; lia).
    rewrite E. cbn. repeat split; try assumption; try lia. }
  assert (HD : infl_window i = buf_at i (in_start i) :: tl (infl_window i)).
  { rewrite WS. destruct (N.to_nat (in_count i)) as [|n] eqn:EC; [lia|]. cbn [seq map tl]. f_equal. f_equal.
    unfold wpos, wrap. destruct (N.leb_spec (in_size i) (in_start i + N.of_nat 0)); lia. }
  destruct (to <? fst (buf_at i (in_start i))) eqn:T.
  { rewrite HD. cbn [cntle fst]. rewrite T. cbn [skipn]. rewrite <- HD. repeat split; try assumption; lia. }
  (* the loop *)
  pose proof (free_loop_spec i to (N.to_nat (in_count i)) 0 0 0 S ltac:(lia)) as FL. cbn zeta in FL.
  replace (wpos i 0) with (in_start i) in FL by (unfold wpos, wrap; destruct (N.leb_spec (in_size i) (in_start i + 0)); lia).
  assert (WE : map (fun j : nat => buf_at i (wpos i (0 + N.of_nat j))) (seq 0 (N.to_nat (in_count i))) = infl_window i).
  { rewrite WS. apply map_ext. intros j. reflexivity. }
  rewrite WE in FL. rewrite FL.
  set (f := cntle to (infl_window i)) in *.
  assert (FLE : (f <= N.to_nat (in_count i))%nat) by (rewrite <- WL; apply cntle_le).
  set (cnt' := in_count i - (0 + N.of_nat f)).
  set (st' := if N.eqb cnt' 0 then 0 else wpos i (0 + N.of_nat f)).
  set (i' := mkInfl st' cnt' (in_bytes i - (0 + sumb (firstn f (infl_window i)))) (in_size i) (in_maxbytes i) (in_buffer i)).
  assert (S' : in_start i' < in_size i' \/ in_start i' = 0).
  { unfold i', st'; cbn [in_start in_size]. destruct (N.eqb_spec cnt' 0) as [|NZ']; [right; reflexivity|left].
    assert (FC : N.of_nat f < in_count i) by (unfold cnt' in NZ'; lia).
    unfold wpos, wrap. destruct (N.leb_spec (in_size i) (in_start i + (0 + N.of_nat f))); destruct S; lia. }
  assert (WP : forall j, j < cnt' -> wpos i' j = wpos i (N.of_nat f + j)).
  { intros j Hj. unfold wpos at 1, wrap, i', st'; cbn [in_start in_size]. destruct (N.eqb_spec cnt' 0) as [|NZ']; [lia|].
    assert (FC : N.of_nat f + j < in_count i) by (unfold cnt' in Hj; lia).
    unfold wpos, wrap.
    destruct (N.leb_spec (in_size i) (in_start i + (0 + N.of_nat f)));
      destruct (N.leb_spec (in_size i) (in_start i + (N.of_nat f + j)));
      destruct (N.leb_spec (in_size i) (in_start i + (0 + N.of_nat f) - in_size i + j));
      destruct (N.leb_spec (in_size i) (in_start i + (0 + N.of_nat f) + j)); destruct S; lia. }
  assert (W : infl_window i' = skipn f (infl_window i)).
  { unfold infl_window at 1.
    replace (in_start i') with (wpos i' 0) by (unfold wpos, wrap; destruct (N.leb_spec (in_size i') (in_start i' + 0)); [destruct S'; lia|lia]).
    rewrite window_loop_spec by (try exact S'; unfold i', cnt'; cbn; lia).
    rewrite WS. rewrite skipn_map.
    replace (in_count i') with cnt' by reflexivity.
    assert (SK : skipn f (seq 0 (N.to_nat (in_count i))) = seq f (N.to_nat cnt')).
    { replace (N.to_nat (in_count i)) with (f + N.to_nat cnt')%nat by (unfold cnt'; lia).
      rewrite seq_app, skipn_app, seq_length, Nat.sub_diag. cbn [skipn].
      rewrite skipn_all2 by (rewrite seq_length; lia). reflexivity. }
    rewrite SK. rewrite (map_seq_from _ (N.to_nat cnt') f). apply map_ext_in. intros j Hj. apply in_seq in Hj.
    unfold buf_at. cbn [in_buffer i']. f_equal. f_equal.
    rewrite WP by lia. f_equal. lia. }
  split; [|split; [exact W|unfold i', cnt'; cbn; repeat split; lia]].
  unfold infl_ok. refine (conj _ (conj _ (conj S' (conj _ (conj _ _))))).
  - unfold i', cnt'; cbn [in_count in_size]. lia.
  - unfold i'; cbn [in_buffer in_size]. exact BL.
  - unfold i', st'; cbn [in_start in_count in_buffer in_size]. intros LT. specialize (A LT).
    destruct (N.eqb_spec cnt' 0) as [Z'|NZ']; [rewrite Z'; lia|].
    assert (FC : N.of_nat f < in_count i) by (unfold cnt' in NZ'; lia).
    unfold wpos, wrap, cnt'. destruct (N.leb_spec (in_size i) (in_start i + (0 + N.of_nat f))); lia.
  - intros k Hk. change (in_count i') with cnt' in Hk. rewrite WP by exact Hk. unfold i'; cbn [in_buffer]. apply P. unfold cnt' in Hk. lia.
  - rewrite W. unfold i'; cbn [in_bytes]. rewrite BY. rewrite (sumb_split f (infl_window i)). lia.
Qed.

(* ---------- reset, new, Full ---------- *)

Lemma infl_new_ok size mb : infl_ok (new_inflights size mb) /\ infl_window (new_inflights size mb) = [].
Proof.
  unfold infl_ok, new_inflights, infl_window; cbn. repeat split; try lia;
    try (destruct size; [right; reflexivity|left; lia]).
Qed.

Lemma infl_reset_ok i : infl_ok i -> infl_ok (infl_reset i) /\ infl_window (infl_reset i) = [] /\
  in_size (infl_reset i) = in_size i /\ in_maxbytes (infl_reset i) = in_maxbytes i.
Proof.
  intros (C & BL & S & A & P & BY). unfold infl_ok, infl_reset, infl_window; cbn. repeat split; try lia; auto;
    try (destruct (in_size i); [right; reflexivity|left; lia]).
Qed.

Definition afull (size mb : N) (w : list (N * N)) : bool :=
  N.eqb (nlen w) size || (negb (N.eqb mb 0) && (mb <=? sumb w)).

Lemma infl_full_window i : infl_ok i -> infl_full i = afull (in_size i) (in_maxbytes i) (infl_window i).
Proof.
  intros O. pose proof (window_length i O) as WL. destruct O as (_ & _ & _ & _ & _ & BY).
  unfold infl_full, afull, nlen. rewrite WL, BY. f_equal. f_equal. lia.
Qed.

(* ---------- the refinement, operation by operation ---------- *)

Inductive iop := IAdd (idx b : N) | IFree (to : N) | IReset.

Definition astep (size mb : N) (w : list (N * N)) (o : iop) : option (list (N * N)) :=
  match o with
  | IAdd idx b => if afull size mb w then None else Some (w ++ [(idx, b)])
  | IFree to => Some (skipn (cntle to w) w)
  | IReset => Some []
  end.

Definition cstep (i : inflights) (o : iop) : res inflights :=
  match o with
  | IAdd idx b => infl_add i idx b
  | IFree to => Ok (infl_free_le i to)
  | IReset => Ok (infl_reset i)
  end.

(* Inflights is the abstract window: Add panics exactly when the window is full (by count or by
   bytes), otherwise appends; FreeLE drops exactly the leading entries with index <= to; Count and
   Full are the window's length and fullness. *)
Theorem infl_refines i o :
  infl_ok i ->
  match cstep i o, astep (in_size i) (in_maxbytes i) (infl_window i) o with
  | Ok i', Some w' => infl_ok i' /\ infl_window i' = w' /\ in_size i' = in_size i /\ in_maxbytes i' = in_maxbytes i /\
                      infl_count i' = nlen w' /\ infl_full i' = afull (in_size i) (in_maxbytes i) w'
  | Panic _, None => True
  | _, _ => False
  end.
Proof.
  intros O. destruct o as [idx b|to|]; cbn [cstep astep].
  - rewrite <- (infl_full_window i O). destruct (infl_add i idx b) as [i'|s] eqn:E.
    + destruct (infl_full i) eqn:F; [unfold infl_add in E; rewrite F in E; discriminate|].
      destruct (infl_add_window i idx b i' O E) as (O' & W & CC & SS & MM).
      refine (conj O' (conj W (conj SS (conj MM (conj _ _))))).
      * unfold infl_count, nlen. rewrite <- W, (window_length i' O'). lia.
      * rewrite (infl_full_window i' O'), SS, MM, W. reflexivity.
    + unfold infl_add in E. destruct (infl_full i); [exact I|discriminate].
  - destruct (infl_free_le_window i to O) as (O' & W & CC & SS & MM).
    refine (conj O' (conj W (conj SS (conj MM (conj _ _))))).
    + unfold infl_count, nlen. rewrite <- W, (window_length _ O'). lia.
    + rewrite (infl_full_window _ O'), SS, MM, W. reflexivity.
  - destruct (infl_reset_ok i O) as (O' & W & SS & MM).
    refine (conj O' (conj W (conj SS (conj MM (conj _ _))))).
    + unfold infl_count, infl_reset; cbn. reflexivity.
    + rewrite (infl_full_window _ O'), SS, MM, W. reflexivity.
Qed.

(* ---------- what the window guarantees (C16) ---------- *)

(* never more than [size] messages in flight; with a byte limit, everything but the last message
   stays below it (the one message that crosses the limit) *)
Definition window_inv (size mb : N) (w : list (N * N)) : Prop :=
  nlen w <= size /\ (mb <> 0 -> sumb (removelast w) < mb \/ w = []).

Lemma sumb_removelast_le w : sumb (removelast w) <= sumb w.
Proof.
  induction w as [|e r IH]; [cbn; lia|]. destruct r as [|e2 r2]; [cbn; lia|].
  change (removelast (e :: e2 :: r2)) with (e :: removelast (e2 :: r2)). cbn [sumb] in *. lia.
Qed.

Lemma removelast_skipn {A} (w : list A) : forall k, (k < length w)%nat -> removelast (skipn k w) = skipn k (removelast w).
Proof.
  induction w as [|e r IH]; intros k H; [cbn in H; lia|].
  destruct k as [|k]; [reflexivity|]. cbn [skipn]. cbn [length] in H.
  destruct r as [|e2 r2]; [cbn in H; lia|].
  change (removelast (e :: e2 :: r2)) with (e :: removelast (e2 :: r2)). cbn [skipn]. apply IH. lia.
Qed.

Lemma sumb_skipn_le k w : sumb (skipn k w) <= sumb w.
Proof. rewrite (sumb_split k w). lia. Qed.

Theorem window_inv_step size mb w o w' :
  window_inv size mb w -> astep size mb w o = Some w' -> window_inv size mb w'.
Proof.
  intros [L B] H. destruct o as [idx b|to|]; cbn [astep] in H.
  - destruct (afull size mb w) eqn:F; [discriminate|]. inversion H; subst w'; clear H.
    unfold afull in F. apply orb_false_iff in F. destruct F as [F1 F2]. apply N.eqb_neq in F1.
    split.
    + unfold nlen in *. rewrite app_length. cbn [length]. lia.
    + intros NZ. left. rewrite removelast_last.
      destruct (N.eqb_spec mb 0); [contradiction|]. cbn [negb andb] in F2. apply N.leb_gt in F2. exact F2.
  - inversion H; subst w'; clear H. split.
    + unfold nlen in *. rewrite skipn_length. lia.
    + intros NZ. destruct (Nat.lt_ge_cases (cntle to w) (length w)) as [Q|Q].
      * left. rewrite removelast_skipn by exact Q. destruct (B NZ) as [B1|B1]; [|subst w; cbn in Q; lia].
        pose proof (sumb_skipn_le (cntle to w) (removelast w)). lia.
      * right. apply skipn_all2. exact Q.
  - inversion H; subst w'. split; [unfold nlen; cbn; lia|intros _; right; reflexivity].
Qed.

Print Assumptions infl_refines.
Print Assumptions window_inv_step.
