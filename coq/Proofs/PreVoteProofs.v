(* PreVoteProofs.v: the node-local mechanisms behind C17 (PreVote / CheckQuorum). *)
From Coq Require Import List NArith Bool Lia.
From RaftV Require Import Base Types Quorum Progress Tracker Storage Log Raft RawNode Tactics
     RaftMono RaftRouting.
Import ListNotations.
Open Scope N_scope.

Definition same_tv (r r' : raft) : Prop := r_term r' = r_term r /\ r_vote r' = r_vote r.

Lemma send_tv r m r' : send r m = Ok r' -> same_tv r r'.
Proof. intros H. apply send_same in H. destruct H as (T & V & _). split; assumption. Qed.

Lemma bytes_eqb_eq a : forall b, bytes_eqb a b = true -> a = b.
Proof.
  unfold bytes_eqb. induction a as [|x a IH]; intros [|y b] B; cbn in B; try discriminate; [reflexivity|].
  apply andb_true_iff in B. destruct B as [B1 B2]. apply N.eqb_eq in B1. subst. f_equal. apply IH. exact B2.
Qed.

Lemma record_vote_config t id v : t_config (record_vote t id v) = t_config t.
Proof. unfold record_vote. destruct (alookup _ _); reflexivity. Qed.

Section WithStorage.
Variable st : memstorage.

(* Receiving a pre-vote request never changes the receiver's term or vote, whatever the
   request says and whatever state the receiver is in. *)
Theorem prevote_request_no_effect r m r' e :
  m_type m = MsgPreVote -> step st r m = Ok (r', e) -> same_tv r r'.
Proof.
  intros T H. unfold step, step_gen in H.
  destruct (step_preamble st (step_inner st) r m) as [[r1 c]|] eqn:EP; cbn [bind] in H; [|discriminate].
  assert (P : same_tv r r1).
  { unfold step_preamble in EP. rewrite T in EP.
    repeat match type of EP with
    | (if ?c then _ else _) = _ => destruct c
    end; cbn in EP;
    repeat match type of EP with
    | bind ?x _ = _ => let E := fresh "E" in destruct x eqn:E; cbn [bind] in EP; [|discriminate]
    end; inversion EP; subst;
    try (split; reflexivity);
    match goal with E : send _ _ = Ok _ |- _ => apply send_tv in E; exact E end. }
  destruct (negb c); [inversion H; subst; exact P|].
  unfold step_dispatch in H. rewrite T in H.
  destruct (l_is_up_to_date st (r_log r1) (m_logterm m) (m_index m)) as [u|]; cbn [bind] in H; [|discriminate].
  destruct P as [PT PV].
  destruct (_ && u);
    match type of H with bind ?x _ = _ => destruct x eqn:E; cbn [bind] in H; [|discriminate] end;
    inversion H; subst; apply send_tv in E; destruct E as [ET EV]; split; congruence.
Qed.

(* becomePreCandidate leaves Term and Vote untouched *)
Theorem become_pre_candidate_tv r r' : become_pre_candidate r = Ok r' -> same_tv r r'.
Proof. intros H. apply become_pre_candidate_same in H. destruct H as (T & V & _). split; assumption. Qed.

(* With CheckQuorum, a node that has a leader and is inside its election timeout ignores
   every higher-term vote or pre-vote request that is not a forced (transfer) one: the state
   is unchanged and nothing is sent. *)
Theorem in_lease_vote_ignored r m r' e :
  (m_type m = MsgVote \/ m_type m = MsgPreVote) ->
  r_check_quorum r = true -> r_lead r <> NoneId -> r_election_elapsed r < r_election_timeout r ->
  r_term r < m_term m -> m_context m <> campaign_transfer_ctx ->
  step st r m = Ok (r', e) -> r' = r /\ e = ENone.
Proof.
  intros T CQ L EE TT F H. unfold step, step_gen, step_preamble in H.
  assert (Z : N.eqb (m_term m) 0 = false) by (apply N.eqb_neq; lia). rewrite Z in H.
  assert (Z2 : N.ltb (r_term r) (m_term m) = true) by (apply N.ltb_lt; lia). rewrite Z2 in H.
  assert (Z3 : bytes_eqb (m_context m) campaign_transfer_ctx = false).
  { destruct (bytes_eqb (m_context m) campaign_transfer_ctx) eqn:B; [|reflexivity]. exfalso. apply F.
    apply bytes_eqb_eq. exact B. }
  rewrite Z3, CQ in H.
  assert (Z4 : negb (N.eqb (r_lead r) NoneId) = true) by (apply negb_true_iff, N.eqb_neq; exact L).
  assert (Z5 : N.ltb (r_election_elapsed r) (r_election_timeout r) = true) by (apply N.ltb_lt; exact EE).
  rewrite Z4, Z5 in H.
  destruct T as [T|T]; rewrite T in H; cbn in H; inversion H; auto.
Qed.

(* With PreVote, neither an election timeout nor Campaign() raises the term: MsgHup only
   starts a pre-candidacy. *)
Theorem prevote_hup_keeps_term r m r' e :
  m_type m = MsgHup -> m_term m = 0 -> r_pre_vote r = true ->
  step st r m = Ok (r', e) -> same_tv r r'.
Proof.
  intros T T0 PV H. unfold step, step_gen, step_preamble in H. rewrite T0 in H. cbn in H.
  unfold step_dispatch in H. rewrite T, PV in H.
  destruct (hup st r CampaignPreElection) as [r1|] eqn:EH; cbn [bind] in H; [|discriminate].
  inversion H; subst; clear H.
  unfold hup in EH.
  destruct (state_type_eqb (r_state r) StateLeader); [inversion EH; split; reflexivity|].
  destruct (negb (promotable r)); [inversion EH; split; reflexivity|].
  destruct (has_unapplied_conf_changes st r) as [u|]; cbn [bind] in EH; [|discriminate].
  destruct u; [inversion EH; split; reflexivity|].
  unfold campaign in EH.
  destruct (become_pre_candidate r) as [r2|] eqn:EB; cbn [bind] in EH; [|discriminate].
  destruct (l_last_entry_id st (r_log r2)); cbn [bind] in EH; [|discriminate].
  apply become_pre_candidate_tv in EB. apply campaign_send_same in EH.
  destruct EH as (T1 & V1 & _). destruct EB as [T2 V2]. split; congruence.
Qed.

(* A pre-candidate becomes a real candidate (raising its term) only in the VoteWon branch of
   a MsgPreVoteResp that is a rejection or a grant for exactly Term+1: the tally over the
   joint configuration, with the semantics of C12. *)
Theorem precandidate_term_raise r m r' e :
  r_state r = StatePreCandidate -> step_candidate st r m = Ok (r', e) -> r_term r' <> r_term r ->
  from_leader (m_type m) = true \/
  (m_type m = MsgPreVoteResp /\ (m_reject m = true \/ m_term m = r_term r + 1) /\
   joint_vote (c_voters (t_config (r_trk r))) (c_outgoing (t_config (r_trk r)))
              (t_votes (record_vote (r_trk r) (m_from m) (negb (m_reject m)))) <> VotePending).
Proof.
  intros S H NE. unfold step_candidate in H. rewrite S in H. cbn [state_type_eqb] in H.
  destruct (m_type m) eqn:T; try (left; reflexivity);
    try (inversion H; subst; contradiction NE; reflexivity).
  all: cbn [msg_type_eqb msg_type_num N.eqb Pos.eqb] in H.
  all: try (inversion H; subst; contradiction NE; reflexivity).
  right. split; [reflexivity|]. cbn [andb] in H.
  destruct (negb (m_reject m) && negb (N.eqb (m_term m) (r_term r + 1))) eqn:G.
  { inversion H; subst. contradiction NE. reflexivity. }
  split.
  { apply andb_false_iff in G. destruct G as [G|G]; [left; apply negb_false_iff; exact G|right].
    apply negb_false_iff, N.eqb_eq in G. exact G. }
  unfold poll, tally_votes in H. cbn [snd set_r_trk r_trk] in H.
  rewrite record_vote_config in H. intros P. rewrite P in H. inversion H; subst. apply NE. reflexivity.
Qed.

(* a grant that answers an earlier pre-campaign is ignored altogether *)
Theorem stale_prevote_grant_ignored r m r' e :
  r_state r = StatePreCandidate -> m_type m = MsgPreVoteResp -> m_reject m = false ->
  m_term m <> r_term r + 1 -> step_candidate st r m = Ok (r', e) -> r' = r.
Proof.
  intros S T RJ NT H. unfold step_candidate in H. rewrite S, T, RJ in H.
  cbn [state_type_eqb msg_type_eqb msg_type_num N.eqb Pos.eqb andb negb] in H.
  apply N.eqb_neq in NT. rewrite NT in H. cbn in H. inversion H. reflexivity.
Qed.

End WithStorage.
