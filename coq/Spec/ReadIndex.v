(* ReadIndex.v (protocol level): a ReadIndex request served by the leader of term t after a
   majority answered a heartbeat sent after the request returns an index that covers every entry
   committed (by any leadership) before the request was made.  On top of Spec/Safety.v. *)
From Coq Require Import List NArith Bool Lia Arith.
From RaftV Require Import LogMatching Safety.
Import ListNotations.

Section WithVoters.
Variable vs : list N.
Variable vo : list N.

Record rread := mkRead {
  rd_term : N;                          (* the serving leadership *)
  rd_c0 : list (nat * aent * N);        (* everything committed when the request was made *)
  rd_tm0 : N -> N;                      (* every node's term when the request was made *)
  rd_ackers : list N;                   (* nodes that answered the heartbeat carrying the request *)
}.

Definition rstate := (sstate * list rread)%type.

Definition has_acker (r : rread) (q : N) : bool := existsb (N.eqb q) (rd_ackers r).

Inductive rstep : rstate -> rstate -> Prop :=
| RProto s s' rs : sstep vs vo s s' -> rstep (s, rs) (s', rs)
| RRequest s rs c t i e :
    (* the leader of t, still in term t, has committed an entry of its own term *)
    tm s c = t -> ldr s t = Some c -> In (i, e, t) (commits s) ->
    rstep (s, rs) (s, mkRead t (commits s) (tm s) [] :: rs)
| RHeartbeatAck s rs1 r rs2 q :
    (* q answers the heartbeat: it is still in the leader's term *)
    tm s q = rd_term r ->
    rstep (s, rs1 ++ r :: rs2) (s, rs1 ++ mkRead (rd_term r) (rd_c0 r) (rd_tm0 r) (q :: rd_ackers r) :: rs2).

Inductive rreach : rstate -> Prop :=
| rreach_init s : sinit s -> rreach (s, [])
| rreach_step p p' : rreach p -> rstep p p' -> rreach p'.

Definition read_inv (s : sstate) (r : rread) : Prop :=
  (forall q, (rd_tm0 r q <= tm s q)%N) /\
  (forall i e t', In (i, e, t') (rd_c0 r) -> (rd_term r < t')%N -> majority vs vo (fun q => N.ltb (rd_term r) (rd_tm0 r q))) /\
  (forall q, In q (rd_ackers r) -> (rd_tm0 r q <= rd_term r)%N) /\
  (exists i e, In (i, e, rd_term r) (rd_c0 r)) /\
  (forall c, In c (rd_c0 r) -> In c (commits s)).

Definition RInv (p : rstate) : Prop := SInv vs vo (fst p) /\ forall r, In r (snd p) -> read_inv (fst p) r.

Lemma rreach_rinv p : rreach p -> RInv p.
Proof.
  induction 1 as [s I|p p' R [IS IR] S].
  - split; [apply sinv_init; exact I|intros r []].
  - destruct S as [s s' rs S|s rs c t i e Hc Hl HC|s rs1 r rs2 q Hq]; unfold RInv; cbn [fst snd] in *.
    + split; [eapply sinv_step; eassumption|]. intros r H. destruct (IR r H) as (A & B & C & D & E).
      refine (conj _ (conj B (conj C (conj D _)))).
      * intros q. pose proof (A q). pose proof (tm_stable vs vo s s' q S). lia.
      * intros c Hc. eapply commits_stable; [exact S|]. apply E. exact Hc.
    + split; [exact IS|]. intros r [E|H]; [|apply IR; exact H]. subst r. unfold read_inv. cbn.
      refine (conj _ (conj _ (conj _ (conj _ _)))).
      * intros q. lia.
      * intros i' e' t' HC' LT. destruct (i13 vs vo s IS _ _ _ HC') as (_ & _ & _ & MA & _).
        eapply majority_mono; [|exact MA]. intros q Q. unfold acked in Q. apply existsb_exists in Q.
        destruct Q as [[[n t0] k] [INA Q]]. apply andb_true_iff in Q. destruct Q as [Q _]. apply andb_true_iff in Q.
        destruct Q as [E1 E2]. apply N.eqb_eq in E1. apply N.eqb_eq in E2. subst n t0.
        destruct (i9 vs vo s IS _ _ _ INA) as (T & _). apply N.ltb_lt. lia.
      * intros q [].
      * exists i, e. exact HC.
      * intros c0 H. exact H.
    + split; [exact IS|]. intros r' H. apply in_app_or in H. destruct H as [H|[E|H]].
      * apply IR. apply in_or_app. left. exact H.
      * subst r'. assert (INR : In r (rs1 ++ r :: rs2)) by (apply in_or_app; right; left; reflexivity).
        destruct (IR r INR) as (A & B & C & D & E).
        unfold read_inv. cbn. refine (conj A (conj B (conj _ (conj D E)))).
        intros q' [EQ|IN]; [subst q'; pose proof (A q); lia|apply C; exact IN].
      * apply IR. apply in_or_app. right. right. exact H.
Qed.

(* The served index: the largest position the leadership has committed itself.  Every entry that
   was committed when the request was made lies at or below a position committed by the serving
   leadership, once a majority has answered the heartbeat. *)
Theorem read_index_covers p r :
  rreach p -> In r (snd p) -> majority vs vo (has_acker r) ->
  forall i' e' t', In (i', e', t') (rd_c0 r) ->
    exists i e, In (i, e, rd_term r) (rd_c0 r) /\ (i' <= i)%nat.
Proof.
  intros R H MJ i' e' t' HC'. destruct (rreach_rinv p R) as [IS IR].
  destruct (IR r H) as (A & B & C & (i & e & HC) & E).
  destruct (N.lt_trichotomy t' (rd_term r)) as [LT|[EQ|GT]].
  - (* an earlier leadership: its committed position lies below the leadership's own committed entry *)
    exists i, e. split; [exact HC|].
    destruct (i13 vs vo (fst p) IS _ _ _ (E _ HC)) as (AT & HN & FE & _ & _).
    destruct (i13 vs vo (fst p) IS _ _ _ (E _ HC')) as (AT' & HN' & FE' & _ & D').
    pose proof (D' _ AT LT) as AG.
    assert (N' : nth_error (L (fst p) (rd_term r)) i' = Some e').
    { rewrite (agree_nth _ _ _ i' AG) by lia. exact HN'. }
    destruct (Nat.le_gt_cases i' i) as [LE|GT]; [exact LE|exfalso].
    pose proof (proj1 (i2 vs vo (fst p) IS (KLead (rd_term r))) i i' e e' ltac:(lia) HN N') as MM. lia.
  - subst t'. exists i', e'. split; [exact HC'|lia].
  - (* a later leadership cannot have committed before the request: its majority had left the term *)
    exfalso. pose proof (B _ _ _ HC' GT) as MH.
    destruct (majority_meet vs vo _ _ MH MJ) as [q [Q1 Q2]].
    apply N.ltb_lt in Q1. unfold has_acker in Q2. apply existsb_exists in Q2. destruct Q2 as [q' [IN EQ]].
    apply N.eqb_eq in EQ. subst q'. pose proof (C q IN). lia.
Qed.

End WithVoters.

Print Assumptions read_index_covers.
